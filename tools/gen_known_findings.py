#!/usr/bin/env python3
"""Rebuild the 'fixed' list of KNOWN_FINDINGS.json from /repo's fix commits (the 'findings'
list of still-open known findings is kept as committed).  Run by hand, never by a check."""
import json, subprocess
PROP = {  # subject prefix -> (properties, what failed before the repair)
 "nanops max/min with skipna=False": ("C20", "nanops.nanmax / nanmin(skipna=False): a NaN that was not skipped was dropped or restarted the scan, differently per thread count (nanmin([5,NaN,7], skipna=False) = 7, NaN, 7, 5 for 1, 2, 3, 4 threads; NumPy's plain min gives NaN)"),
 "the non-skipping max/min keep a null": ("C08", "cummax / cummin(skip_na=False): a null in the FIRST position of a group was dropped ([NaN,5,7] -> [NaN,5,7]) although a later one sticks ([5,NaN,7] -> [5,NaN,NaN]); a NaT never stuck to a running maximum of timestamps"),
 "merge of per-block partial": ("C03 C04", "group_min/max/first with n_threads>=2: a group absent from the first block came back null (reduce_array_pair without counts)"),
 "chunked value arrays reach": ("C04 C16", "var of one float32 value gave inf; squares taken in the input dtype; chunked values missed the chunked path"),
 "head/tail/nth count the rows": ("C15", "nth on a 70000-row group: int16 row counters overflowed"),
 "rolling kernels keep window positions": ("C09", "rolling windows >= 32768 returned null (int16 positions)"),
 "rolling min/max keep the extremum": ("C09 C12", "rolling max of timestamps above 2^53 was rounded through float64; NaT won the recomputed minimum"),
 "grouped EMA kernels skip rows": ("C06 C10", "ema_grouped with a negative code updated the last group's state"),
 "time-weighted grouped EMA tracks": ("C10", "timestamps <= 1970-01-01 were never decayed (0 used as 'not seen' sentinel)"),
 "EMA timestamps are converted": ("C10 C12", "times in datetime64[s]/[us] were compared with a nanosecond halflife"),
 "ema_grouped accepts real-valued": ("C10", "ema_grouped(halflife=2.5) differed from ema(halflife=2.5); halflife=0.5 raised"),
 "ema() checks that values and times": ("C18", "ema(values, times=<shorter>) read out of bounds"),
 "cumulative results keep their temporal": ("C08 C12", "cummax of datetimes with a null key returned int64"),
 "diff of temporal values": ("C09 C12", "diff next to a NaT returned a wrapped integer; unit of the differences lost"),
 "head/tail/nth validate their input": ("C15 C18", "head(values of another length/index) accepted; rows came back in label order"),
 "the non-skipping sum keeps integer nulls": ("C08", "cumsum(skip_na=False) of temporal values added the NaT sentinel"),
 "apply recognises input-aligned": ("C09 C16", "apply of an aligned function with null keys raised TypeError"),
 "a null in the last key": ("C02 C06", "keys ([0,0,1,1,1],[1,nan,0,1,nan]): a label (1,nan) was created"),
 "factorize_2d(sort=True) keeps": ("C02", "factorize_2d([1,nan,0],[1,1,1],sort=True) gave the null row code 0"),
 "monotonic factorization stops": ("C02", "monotonic_factorization([1,nan,2,3]) merged the NaN row into group 0; a leading NaN became a label"),
 "observed groups are found from the key counts": ("C01", "GroupBy([2,1,2,1,3]).sum([1,nan,2,nan,5]) raised KeyError"),
 "unifying chunked group codes keeps": ("C02 C06 C07", "chunked keys with NaN: transform gave null-key rows the last label's value"),
 "chunked codes that were already unified": ("C13", "gb.groups then gb.sum(transform=True) raised UnboundLocalError"),
 "GroupBy.ema unifies": ("C03 C13", "GroupBy.ema on chunked keys used chunk-local codes"),
 "a GroupBy built from another GroupBy": ("C13", "GroupBy(gb).sum(v) raised AttributeError"),
 "rolling and cumulative kernels reject": ("C05", "rolling_sum(mask=positions) read the positions as per-row flags (out of bounds)"),
 "chunked factorization of string/object keys": ("C03 C12", "string keys of >= 1M rows raised numba TypingError"),
 "the string/object check of the monotonic": ("C03 C12", "string keys of >= 1M rows raised numba TypingError (second site)"),
 "string keys can be factorized in chunks": ("C03 C12", "string keys of >= 1M rows raised numba TypingError (third site)"),
 "the monotonic prefix's codes take": ("C03", "monotonic prefix followed by null keys raised ArrowInvalid"),
 "unifying chunked codes handles a chunk": ("C07", "a key chunk holding only nulls raised IndexError in transform"),
 "repeated or unordered positional masks": ("C03 C05", "positional masks with repeats/unordered on chunked keys lost multiplicity and order"),
 "groupby_fast(...).cumcount() numbers": ("C17", "facade cumcount passed the values as mask= (rows with a zero/false value were not counted)"),
 "count(transform=True) on chunked keys": ("C03 C07", "count(transform=True) on chunk-factorized keys returned booleans instead of counts"),
 "the time-weighted ungrouped EMA starts": ("C10", "ema(values with a leading NaN, halflife=, times=) returned NaN for the whole series"),
 "Arrow-backed keys and values that hold nulls": ("C03 C12", "pa.array / ChunkedArray keys or values with nulls or strings raised ArrowInvalid (zero_copy_only)"),
 "Arrow-backed keys with nulls get": ("C02 C12", "Arrow-backed keys with a null raised numba TypingError (codes came back as float with NaN)"),
 "monotonic-run detection skips empty": ("C02 C03", "a chunked key with an empty chunk produced garbage labels (read past the end of the empty chunk)"),
 "pyarrow timestamp keys keep": ("C03 C12", "pyarrow timestamp ChunkedArray keys raised TypeError in monotonic factorization"),
 "cumulative counts are int64": ("C03 C08", "cumcount on monotonic (uint32-coded) keys returned 2^64-1 instead of -1 at masked rows"),
 "apply(transform=True) and multi-column apply": ("C07 C16", "median(transform=True) put group results at the wrong rows when labels were unsorted or a group was masked out; multi-column apply mis-sliced results"),
 "mean(transform=True) broadcasts": ("C07", "mean(transform=True) returned the group sum"),
 "values Arrow cannot type-infer": ("C03 C12", "a pandas string key Series starting with a missing value raised ArrowInvalid on the chunked route"),
 "dictionary indices are widened": ("C02 C12", "follow-up of the Arrow null-code repair: unsigned dictionary indices"),
 "apply with every key null and a mask": ("C07 C16", "median with a mask and no group raised IndexError; size(transform=True) lost the keys' index"),
 "var/std/median with transform=True return polars": ("C07", "var/std(transform=True) of polars values raised ValueError; median(transform=True) returned pandas for polars input"),
 "std(transform=True) of a polars frame": ("C07", "std(transform=True) of a polars DataFrame raised TypeError"),
 "margins build the grid of level codes": ("C14", "every margins= / crosstab(margins=) call raised ModuleNotFoundError (pandas.core.reshape.util)"),
 "polars datetime keys keep a pandas dtype": ("C02 C12", "polars datetime keys raised TypeError on the chunked route; factorize_2d(sort=True) raised IndexError when every row had a null key"),
 "nanvar/nanstd of too few integer values": ("C20", "nanvar of a single integer returned -2^63 (nanstd: complex NaN) where NumPy returns NaN"),
 "pretty_cut prints bin edges": ("C20", "pretty_cut printed every edge with one decimal: 3.25 was assigned to the bin printed '0.5 - 3.2'"),
 "var/std clamp the tiny negative variances": ("C16", "std of nearly constant data with a large offset returned NaN (square root of a slightly negative one-pass variance)"),
 "head/tail/nth with the default index": ("C15 C18", "head/tail/nth(keep_input_index=False) raised AttributeError / IndexError on aligned inputs"),
 "array-level rolling and cumulative kernels reject": ("C18", "numba.cumsum / rolling_* accepted values, masks or keys of different lengths (out-of-bounds reads)"),
 "subset_ratio and count_ikey check their masks": ("C18", "subset_ratio label-aligned a misindexed subset_mask; count_ikey accepted a mask with a different pandas index"),
 "inputs are validated before timestamps": ("C18", "datetime-valued Series with a different index were accepted (index stripped before the check); polars / pyarrow boolean masks of the wrong length were accepted by apply/median/quantile"),
 "temporal values in pyarrow / polars containers": ("C03 C12", "pyarrow timestamp values raised TypeError; chunked temporal values raised TypingError in cumulative/rolling; datetime values on chunk-factorized keys raised TypingError (is_null(datetime64)); polars datetimes with nulls raised ArrowInvalid"),
 "facade methods honour the column selection": ("C17", "groupby_fast(...).cumsum/cummax/cummin/ema/head/tail/apply/rolling ignored [] selection and aggregated the key columns; agg(func, mask) dropped the mask; iteration used .loc with row positions"),
 "head/tail/nth of the DataFrame facade": ("C17", "df.groupby_fast(...).head/tail/nth raised AttributeError ('DataFrame' object has no attribute 'name')"),
 "the cached key counts and group-sorted indexer are read-only": ("C19", "writing into the arrays returned by gb.groups or gb.key_count changed the results of later calls (shared cached buffers)"),
 "a raw pyarrow type of temporal values is wrapped for pandas where the result is built": ("C12", "repair of an earlier fix: wrapping the pyarrow type inside _convert_timestamp_to_tz_unaware broke two tests of the pinned suite; the wrapping now happens in the pandas result builder"),
 "plain integer sums are not stopped at the null sentinel": ("C12 C01 C08", "repair of an earlier fix: int64 group sums / cumsum(skip_na=False) whose partial sum passed exactly through -2**63 (e.g. -2**62, -2**62, 5) returned -2**63 instead of the true sum, which is within the 64-bit range"),
 "a polars Enum key is categorical": ("C11", "GroupBy(pl.Series(..., dtype=pl.Enum(['c','b','a']))).sum(v) listed the labels in text order ['a','b'] instead of the declared category order ['b','a'] (pandas Categorical / pl.Categorical / Arrow dictionary keys keep theirs)"),
 "partial sums of key chunks are added plainly": ("C03 C12 C01", "on chunk-factorized keys a chunk's int64 / timedelta partial sum equal to -2**63 was dropped by the nansum merge: GroupBy(pa.chunked_array([[5,5],[3,3],[4,3]])).sum([5,9,-2**62,-2**62,7,1]) gave {3: 1} instead of {3: -2**63+1} (whole keys); found through the side condition sum_closed that the Coq proof of the chunk merge had to assume"),
 "nanops adds the partial sums of the pieces without looking for nulls": ("C20", "nanops.nansum(np.array([-2**62, -2**62, 5, 1]), n_threads=2) gave 6 instead of -2**63+6 (NumPy; n_threads=1): a piece's int64 partial sum equal to the sentinel was skipped by the second stage; found through the side condition sum_closed the Coq proof needed"),
 "keys converted to Python objects skip the jitted run detector": ("C02", "GroupBy(pa.chunked_array of booleans with a null) raised numba TypingError in the monotonic run detector"),
 "quantile with a list of q and apply of a vector-valued function accept Arrow-backed keys": ("C16", "GroupBy(pl.Series(['a','b','a'])).quantile(v, [0.5]) (any polars / pyarrow / ArrowDtype key; also apply of a vector-valued function) raised AttributeError: 'Index' object has no attribute 'dictionary_encode'"),
 "Arrow / polars date keys on the chunk-factorized route": ("C02 C03 C12", "a date32 / date64 key (polars Date, Arrow dates) as a pyarrow ChunkedArray or of >= 1M rows raised ArrowNotImplementedError (Unsupported cast from int64 to date32) on the chunk-factorized route"),
 "time-zone aware datetime keys keep their zone": ("C02 C03 C12", "a tz-aware datetime key as a pyarrow ChunkedArray (or of >= 1M rows): labels came back as naive UTC timestamps on the chunk-factorized route, and the constructor raised TypeError / ValueError with an increasing prefix or a null"),
 "keys whose cartesian product of label counts exceeds 64 bits": ("C02", "GroupBy of four keys with 70000 labels each: the mixed-radix weights (np.cumprod in int64) wrapped around and the rows (0,0,5,20000) and (0,0,6,3781) received the same group code; three keys of 2.1 million labels each raised ValueError (negative dimensions)"),
 "a boolean key is labelled the same way however it is factorized": ("C11 C03", "GroupBy(bool key, sort=False): whole factorization listed [False, True] whatever came first, chunk-wise factorization first-appearance; a one-valued boolean key listed the absent label under observed_only=False only when factorized whole"),
 "mean of timestamps keeps whole-number arithmetic": ("C01 C07", "GroupBy.mean of datetime/timedelta values: one empty group (count 0) - or the null-key slot of transform=True - turned the whole column's division into a float one, rounding present-day timestamps to multiples of 256 ns (mean of one timestamp != that timestamp)"),
 "margins of a mean of datetime / timedelta values": ("C01 C14", "GroupBy.mean(datetimes, margins=True) raised TypeError ('DatetimeArray' does not support 'sum'); 'All' rows of a timedelta mean were summed in floating point"),
 "margins of a sum of timedelta values are added up": ("C14", "GroupBy.sum(timedeltas above 2**53 ticks, margins=True): the 'All' rows went through pandas' floating-point sum of timedeltas and were off by a tick"),
 "margins are refused when a group is itself labelled": ("C14", "GroupBy(np.array(['All','b','All','c'])).sum([1,2,4,8], margins=True) returned {'All': 15, 'b': 2, 'c': 8}: the total silently replaced the value (5) of the group labelled 'All'"),
 "nanmean of integers is averaged in float64": ("C20", "nanops.nanmean of int64 values whose total leaves the 64-bit range (six epoch-nanosecond values) returned the wrapped total / n"),
 "nanvar / nanstd use two passes": ("C20", "nanops.nanvar([1e8+1, 1e8+2, 1e8+3]) = 0.0, negative variances / nanstd NaN for epoch-second sized data, int64 squares wrapped: the one-pass formula sum(x^2) - sum(x)^2/n"),
 "rolling sum / mean keep a compensation term": ("C09", "rolling_sum([1e16, 1, 1, 1], window=2) ended in 1.0 instead of 2.0 for every later row: add / subtract running sums kept the rounding error of every value that ever passed through the group"),
 "an infinite value that has left a rolling window": ("C09", "rolling_sum([1, inf, 1, 1, 1], window=2): every sum after the infinity had left the window was NaN (inf - inf stayed in the running sum)"),
 "apply returns an empty result": ("C05 C09", "median/apply with nothing selected raised IndexError (was known finding K2)"),
}
log = subprocess.run(["git", "-C", "/repo", "log", "--format=%h %s", "be63ad5..HEAD"], stdout=subprocess.PIPE).stdout.decode().splitlines()
fixed = []
for line in reversed(log):
    h, subj = line.split(" ", 1)
    if not subj.startswith("fix:"):
        continue
    hit = next((v for k, v in PROP.items() if subj[4:].strip().startswith(k)), None)
    if hit is None:
        raise SystemExit(f"unmapped fix commit: {line}")
    for p in hit[0].split():
        fixed.append(f"fixed: property={p} {h} {hit[1]}")
p = "/verif/KNOWN_FINDINGS.json"
d = json.load(open(p))
d["fixed"] = fixed
json.dump(d, open(p, "w"), indent=1)
print(len(fixed), "fixed entries;", len(d["findings"]), "open findings")

# keep DESIGN.md's copy of the list (section 6.1, "Current content:") in step
_p = "/verif/DESIGN.md"
_lines = open(_p).read().split("\n")
_idx = [i for i, l in enumerate(_lines) if l.startswith("* `fixed: property=")]
if _idx and all(_lines[i].startswith("* `fixed: property=") for i in range(_idx[0], _idx[-1] + 1)):
    _lines[_idx[0]:_idx[-1] + 1] = ["* `" + f + "`" for f in d["fixed"]]
    open(_p, "w").write("\n".join(_lines))
