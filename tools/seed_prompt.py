#!/usr/bin/env python3
"""Print the prompt given to a fresh mutation sub-agent for property <id> (only the property text + its scratch worktree)."""
import json, sys
pid = sys.argv[1]
tag = sys.argv[2] if len(sys.argv) > 2 else pid   # directory tag (second rounds: C07r2 ...)
props = {json.loads(l)["id"]: json.loads(l) for l in open("/verif/properties.jsonl")}
p = props[pid]
print(f"""You are helping to evaluate a verification tool by writing a *seeded defect* for an open-source Python library.

The library is groupby-lib (a pandas groupby accelerator: numba-JIT group reductions, factorization, rolling/cumulative windows, EMAs, crosstabs over numpy/pandas/polars/arrow inputs). You have your own scratch git worktree of it at /tmp/wt_{tag} (detached HEAD). Work ONLY inside /tmp/wt_{tag} and /tmp/seed_out/{tag}/ (create the latter). Never read or modify /repo or /verif (the installed package is an editable install of /repo, so ALWAYS run python with `PYTHONPATH=/tmp/wt_{tag}` and `NUMBA_CACHE_DIR=/tmp/wt_{tag}/.nbcache` so that your worktree's code is what gets imported; verify once with `python -c "import groupby_lib; print(groupby_lib.__file__)"`). Python is /venv/bin/python. There is no network.

Here is a semantic property the library is supposed to satisfy:

  {pid} — {p['title']}
  {p['statement']}

  (it quantifies over: {(p.get('quantifier') or {}).get('text','')})

Your task: make a realistic source change to the library (under /tmp/wt_{tag}/groupby_lib/) that BREAKS this property, while
  * the package still imports/compiles, and
  * the existing test suite still passes exactly as before (the baseline has ~192 known always-failing tests and one flaky timing test `test_multi_key_large_data`; your change must introduce NO new failures). The suite command is:
      cd /tmp/wt_{tag} && PYTHONPATH=/tmp/wt_{tag} NUMBA_CACHE_DIR=/tmp/wt_{tag}/.nbcache /venv/bin/python -m pytest -q -p no:cacheprovider --timeout=900 --continue-on-collection-errors -rf tests
    It takes 12-17 minutes; run the relevant test files first while iterating, and the full suite once at the end with your final change (save the list of failed ids, and compare it with the list from a run on the unmodified tree: `git stash` / `git stash pop`, or a `git archive HEAD` copy under /tmp that you delete afterwards; if the file /tmp/seed_out/baseline_failed.txt exists when you need it, it already holds the sorted failing test ids of the unmodified tree at your commit and you can use it instead of running the baseline yourself).
  * The change should look like something a developer could plausibly write (an optimisation, refactor, off-by-one, wrong dtype, dropped guard, reordered statements, ...), not sabotage with a magic constant.
  * IMPORTANT: it must need something SPECIFIC to manifest — a particular multi-step sequence of operations, an unusual input (nulls in a particular position, a group absent from a block, particular sizes/dtypes/containers, unsorted positions, ...), two cooperating sites that each look fine alone, a particular thread count/chunking — NOT something ordinary use would expose at once. Prefer subtle over blatant.

Deliver, in /tmp/seed_out/{tag}/:
  * patch.diff — `git -C /tmp/wt_{tag} diff` of your final change (must apply with `git apply` to a clean checkout of the same commit);
  * demo_{tag}.py — a small stand-alone program (run as `PYTHONPATH=<tree> /venv/bin/python demo_{tag}.py`) that exits non-zero (assertion) WITH the change and exits 0 WITHOUT it, demonstrating the property violation through the library's public behaviour;
  * meta.json — keys: property, files_changed, what_changed, needs_to_manifest (precisely what input/sequence is needed), tests_run (commands and pass/fail counts before/after, and the comparison of failing ids), demo_result_with_change, demo_result_without_change.

When done, leave the worktree with the change applied, and reply with a short summary (what you changed, what it needs to manifest, test results). Do not commit anything anywhere.""")
