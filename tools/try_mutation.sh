#!/bin/bash
# usage: tools/try_mutation.sh <patch.diff> <Cxx> [Cyy ...]
# Applies the patch to a scratch worktree of /repo's HEAD (outside /repo and /verif) and runs the quick checks
# against it (VERIF_REPO) FROM A PRIVATE COPY OF /verif (so that the regenerated Gen/*.v, the Coq build and the
# evidence of the main tree are never touched and development can go on meanwhile); removes both afterwards.
# The copy is the working tree with its build artefacts when it has no uncommitted changes to the machinery,
# otherwise the committed state (git archive HEAD; rebuilt from scratch).
patch="$(realpath "$1")"; shift
tag="$(basename "$(dirname "$patch")")_$$"
wt="/tmp/mut_$tag"
vcopy="/tmp/mutv_$tag"
cd /verif
git -C /repo worktree add --detach "$wt" HEAD -q || exit 2
trap 'git -C /repo worktree remove --force "$wt" 2>/dev/null; rm -rf "$vcopy"' EXIT
git -C "$wt" apply "$patch" || { echo "PATCH DOES NOT APPLY"; exit 2; }
mkdir -p "$vcopy"
if git -C /verif diff --quiet HEAD -- coq harness ocaml translator bin KNOWN_FINDINGS.json 2>/dev/null; then
  rsync -a --exclude .git --exclude .cache --exclude evidence --exclude replays --exclude seeded /verif/ "$vcopy/"
else
  git -C /verif archive HEAD | tar -x -C "$vcopy"
  (cd "$vcopy" && VERIF_REPO="$wt" ./bin/setup >/dev/null 2>&1)
fi
mkdir -p "$vcopy/evidence" "$vcopy/replays"
for p in "$@"; do
  echo "=== $p under $(basename $(dirname $patch))"
  (cd "$vcopy" && VERIF_REPO="$wt" ./bin/check "$p" --tier quick 2>&1) \
     | grep -E "VIOLATION|KNOWN-FINDING|tier=|violation x|proof failure|mismatch" | tail -6 | cut -c1-400
done
