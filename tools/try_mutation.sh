#!/bin/bash
# usage: tools/try_mutation.sh <patch.diff> <Cxx> [Cyy ...]
# Applies the patch to a scratch worktree of /repo's HEAD (outside /repo and /verif), runs the quick checks
# against it (VERIF_REPO), writing evidence/replays to a scratch directory, then removes the worktree.
patch="$(realpath "$1")"; shift
tag="$(basename "$(dirname "$patch")")_$$"
wt="/tmp/mut_$tag"
cd /verif
git -C /repo worktree add --detach "$wt" HEAD -q || exit 2
trap 'git -C /repo worktree remove --force "$wt" 2>/dev/null; rm -rf "/tmp/mutev_$tag"' EXIT
git -C "$wt" apply "$patch" || { echo "PATCH DOES NOT APPLY"; exit 2; }
for p in "$@"; do
  echo "=== $p under $(basename $(dirname $patch))"
  VERIF_REPO="$wt" VERIF_EVIDENCE_DIR="/tmp/mutev_$tag/evidence" VERIF_REPLAY_DIR="/tmp/mutev_$tag/replays" ./bin/check "$p" --tier quick 2>&1 \
     | grep -E "VIOLATION|KNOWN-FINDING|tier=|violation x|proof failure|mismatch" | tail -6 | cut -c1-400
done
