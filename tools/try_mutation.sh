#!/bin/bash
# usage: tools/try_mutation.sh <patch.diff> <Cxx> [Cyy ...]   — apply to /repo, run quick checks, always revert
patch="$(realpath "$1")"; shift
cd /verif
git -C /repo apply "$patch" || { echo "PATCH DOES NOT APPLY"; exit 2; }
trap 'git -C /repo checkout -- . ' EXIT
for p in "$@"; do
  echo "=== $p under $(basename $(dirname $patch))"
  ./bin/check "$p" --tier quick 2>&1 | grep -E "VIOLATION|KNOWN-FINDING|tier=|violation x|proof failure" | head -12
done
