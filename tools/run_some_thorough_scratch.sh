#!/bin/bash
# thorough tier of the given checks, evidence/replays to a scratch directory.  usage: run_some_thorough_scratch.sh <outdir> <par> Cxx...
here="$(cd "$(dirname "$0")/.." && pwd)"; cd "$here"
out="$1"; par="$2"; shift 2
mkdir -p "$out"
printf '%s\n' "$@" | xargs -P "$par" -I{} bash -c 'start=$(date +%s); VERIF_EVIDENCE_DIR='"$out"'/ev VERIF_REPLAY_DIR='"$out"'/rp ./bin/check {} --tier thorough > '"$out"'/{}.out 2> '"$out"'/{}.err; echo "{} exit=$? $(grep -c ^VIOLATION '"$out"'/{}.out) violation-lines secs=$(( $(date +%s) - start ))"' | sort
