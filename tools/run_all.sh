#!/bin/bash
# usage: tools/run_all.sh [quick|thorough] [parallelism]   — run every registered check on /repo, print one line each
tier="${1:-quick}"; par="${2:-5}"
cd /verif
mkdir -p .cache/runall
ls coq/theories/Props/*.v | sed 's#.*/##; s#\.v##' | xargs -P "$par" -I{} bash -c './bin/check {} --tier '"$tier"' > .cache/runall/{}.out 2> .cache/runall/{}.err; echo "{} exit=$? $(grep -c ^VIOLATION .cache/runall/{}.out) violation-lines $(grep -c ^KNOWN-FINDING .cache/runall/{}.out) known  $(grep -o "wall=[0-9.]*s" .cache/runall/{}.err | tail -1)"' | sort
