#!/usr/bin/env python3
"""Regenerate the table of DESIGN.md Appendix G from seeded/MATRIX.txt and seeded/*/meta.json.
Run by hand after tools/seed_matrix.sh; never by a check.  Replaces the text between the markers
<!-- seeds:begin --> and <!-- seeds:end --> in DESIGN.md."""
import json, re, sys
from pathlib import Path

V = Path(__file__).resolve().parent.parent
rows = {}
for line in (V / "seeded" / "MATRIX.txt").read_text().splitlines():
    m = re.match(r"seed=(\S+) check=(\S+) -> (.*)", line)
    if not m:
        continue
    seed, check, res = m.groups()
    if "no-failing-input" in res:
        r = "caught (no-failing-input-found)"
    elif "VIOLATION" in res:
        r = "caught (failing input)"
    elif "not detected" in res:
        r = "—"
    else:
        r = res
    rows.setdefault(seed, {})[check] = r


def owner(seed):
    return re.match(r"(C\d\d)", seed).group(1)


def key(seed):
    return (owner(seed), seed)


out = ["| seed | what it breaks (one line) | owning check | neighbouring checks |", "|---|---|---|---|"]
missed = []
for seed in sorted(rows, key=key):
    meta = json.loads((V / "seeded" / seed / "meta.json").read_text())
    what = " ".join(str(meta.get("what_changed", "")).split())
    what = what[:150] + ("…" if len(what) > 150 else "")
    what = what.replace("|", "\\|")
    own = rows[seed].get(owner(seed), "not run")
    if not own.startswith("caught"):
        missed.append(seed)
    nb = "; ".join(f"{c}: {r}" for c, r in sorted(rows[seed].items()) if c != owner(seed))
    out.append(f"| {seed} | {what} | {own} | {nb} |")
table = "\n".join(out)
p = V / "DESIGN.md"
s = p.read_text()
if "<!-- seeds:begin -->" not in s:
    sys.exit("markers missing in DESIGN.md")
s = re.sub(r"<!-- seeds:begin -->.*?<!-- seeds:end -->", "<!-- seeds:begin -->\n" + table + "\n<!-- seeds:end -->", s, flags=re.S)
p.write_text(s)
print(len(rows), "seeds;", "owning check misses:", missed or "none")
