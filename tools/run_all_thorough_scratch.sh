#!/bin/bash
# thorough tier of every check, evidence/replays to a scratch directory (timing + alarm rehearsal)
cd /verif
mkdir -p /tmp/thorough_out
ls coq/theories/Props/*.v | sed 's#.*/##; s#\.v##' | xargs -P 4 -I{} bash -c 'start=$(date +%s); VERIF_EVIDENCE_DIR=/tmp/thorough_out/ev VERIF_REPLAY_DIR=/tmp/thorough_out/rp ./bin/check {} --tier thorough > /tmp/thorough_out/{}.out 2> /tmp/thorough_out/{}.err; echo "{} exit=$? $(grep -c ^VIOLATION /tmp/thorough_out/{}.out) violation-lines secs=$(( $(date +%s) - start ))"' | sort
