#!/bin/bash
# thorough tier of every check, evidence/replays to a scratch directory (timing + alarm rehearsal).
# Runs from the copy of /verif this script lives in (so it can be started with `vp run` on a snapshot).
here="$(cd "$(dirname "$0")/.." && pwd)"
cd "$here"
out="${1:-/tmp/thorough_out}"
par="${2:-4}"
mkdir -p "$out"
ls coq/theories/Props/*.v | sed 's#.*/##; s#\.v##' | xargs -P "$par" -I{} bash -c 'start=$(date +%s); VERIF_EVIDENCE_DIR='"$out"'/ev VERIF_REPLAY_DIR='"$out"'/rp ./bin/check {} --tier thorough > '"$out"'/{}.out 2> '"$out"'/{}.err; echo "{} exit=$? $(grep -c ^VIOLATION '"$out"'/{}.out) violation-lines secs=$(( $(date +%s) - start ))"' | sort
