#!/bin/bash
# quick tier of every check for several seeds (VERIF_SEED), evidence/replays to a scratch directory: flushes out
# seed-dependent alarms on the unchanged tree.   usage: tools/run_seeds.sh <outdir> <par> seed...
here="$(cd "$(dirname "$0")/.." && pwd)"; cd "$here"
out="$1"; par="$2"; shift 2
mkdir -p "$out"
for sd in "$@"; do
  ls coq/theories/Props/*.v | sed 's#.*/##; s#\.v##' | xargs -P "$par" -I{} bash -c 'VERIF_SEED='"$sd"' VERIF_EVIDENCE_DIR='"$out"'/ev'"$sd"' VERIF_REPLAY_DIR='"$out"'/rp'"$sd"' ./bin/check {} --tier quick > '"$out"'/{}.s'"$sd"'.out 2> '"$out"'/{}.s'"$sd"'.err; echo "seed='"$sd"' {} exit=$? $(grep -c ^VIOLATION '"$out"'/{}.s'"$sd"'.out) violation-lines"' | sort
done
