#!/usr/bin/env python3
"""Regenerate the listing of DESIGN.md Appendix B (code-model inventory) from coq/theories/{Model,Spec,Gen}/*.v.
Replaces the text between <!-- inventory:begin --> and <!-- inventory:end -->.  Run by hand."""
import re
from pathlib import Path
V = Path(__file__).resolve().parent.parent
T = V / "coq" / "theories"
pat = re.compile(r"^\s*(?:Definition|Fixpoint|Record|Inductive)\s+([A-Za-z0-9_']+)", re.M)
def names(f):
    seen, out = set(), []
    for n in pat.findall(f.read_text()):
        if n not in seen:
            seen.add(n); out.append(n)
    return out
lines = ["```"]
for f in sorted((T / "Model").glob("*.v")):
    lines.append(f"Model/{f.name}: " + ", ".join(names(f)))
lines.append("")
for f in sorted((T / "Spec").glob("*.v")):
    lines.append(f"Spec/{f.name}: " + ", ".join(names(f)))
lines.append("```")
lines.append("")
gen = []
for f in sorted((T / "Gen").glob("*.v")):
    ns = names(f)
    gen.append(f"`{f.name}` (" + (", ".join(ns[:6]) + (", ..." if len(ns) > 6 else "")) + f"; {len(ns)} definitions)")
lines.append("Generated on every run (`coq/theories/Gen/`, not committed): " + "; ".join(gen) +
             ".  Tied in `Proofs/GenTie.v`, `Proofs/ObjTie.v`, `Proofs/WriteSets.v` and `Proofs/PinCxx.v`.")
p = V / "DESIGN.md"
s = p.read_text()
s = re.sub(r"<!-- inventory:begin -->.*?<!-- inventory:end -->", "<!-- inventory:begin -->\n" + "\n".join(lines) + "\n<!-- inventory:end -->", s, flags=re.S)
p.write_text(s)
print("inventory regenerated")
