#!/bin/bash
# Runs every seeded change against its own check and the related ones (each in a private copy of /verif and a
# scratch worktree of /repo, see tools/try_mutation.sh); writes seeded/MATRIX.txt.   usage: [OWN_ONLY=1] [MATRIX_OUT=file] tools/seed_matrix.sh [parallelism]   (OWN_ONLY: owning checks only)
cd /verif
par="${1:-4}"
declare -A REL=( [C01]="C01 C04 C05" [C02]="C02 C12" [C03]="C03 C04 C05" [C04]="C04 C03 C01" [C05]="C05 C04" [C06]="C06 C02" [C07]="C07 C03 C06" [C08]="C08" [C09]="C09"
 [C10]="C10 C05" [C11]="C11 C01" [C12]="C12 C02" [C12b]="C12 C04 C08 C01" [C03b]="C03 C12 C01" [C20b]="C20" [C11b]="C11 C03" [C13]="C13 C03" [C14]="C14" [C15]="C15" [C16]="C16 C07" [C17]="C17" [C18]="C18" [C19]="C19 C05" [C20]="C20" )
out="${MATRIX_OUT:-seeded/MATRIX.txt}"
tmp=$(mktemp -d /tmp/matrix.XXXX)
one() {
  s="$1"; p="$2"
  r=$(tools/try_mutation.sh seeded/$s/patch.diff $p 2>&1)
  if echo "$r" | grep -q "PATCH DOES NOT APPLY"; then v="patch-does-not-apply";
  elif echo "$r" | grep -q "no-failing-input-found"; then v="VIOLATION(no-failing-input-found)";
  elif echo "$r" | grep -q "^VIOLATION"; then v="VIOLATION(with failing input)";
  elif echo "$r" | grep -q "exit=0"; then v="not detected";
  else v="check did not finish: $(echo "$r" | tail -1 | cut -c1-120)"; fi
  echo "seed=$s check=$p -> $v"
}
export -f one
for s in $(ls seeded | grep '^C'); do grep -q '"obsolete"' seeded/$s/meta.json && continue; b="${s%r3}"; b="${b%r2}"; b="${b%[bcde]}"; rel="${REL[$s]:-${REL[$b]}}"; [ -n "${OWN_ONLY:-}" ] && rel="${rel%% *}"; for p in $rel; do echo "$s $p"; done; done \
  | xargs -P "$par" -L 1 bash -c 'one $0 $1' | tee "$tmp/raw.txt"
sort "$tmp/raw.txt" > "$out"
rm -rf "$tmp"
