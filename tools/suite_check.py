#!/usr/bin/env python3
"""Run the repository's test-suite (guard off) in <tree> and report which tests of
BASELINE.json's stable_pass do not pass.   usage: suite_check.py <tree> [out.json]"""
import json, os, subprocess, sys, tempfile, xml.etree.ElementTree as ET
tree = sys.argv[1]
out = sys.argv[2] if len(sys.argv) > 2 else None
base = json.load(open("/root/.vp/BASELINE.json"))
stable = set(base["stable_pass"])
with tempfile.TemporaryDirectory() as td:
    xml = os.path.join(td, "r.xml")
    env = dict(os.environ, PYTHONPATH=tree, NUMBA_CACHE_DIR=os.path.join(td, "nb"), PYTHONDONTWRITEBYTECODE="1")
    env.pop("GROUPBY_LIB_VERIF", None)
    subprocess.run(["/venv/bin/python", "-m", "pytest", "-q", "-p", "no:cacheprovider", "--timeout=900", "--continue-on-collection-errors",
                    f"--junitxml={xml}", "tests"], cwd=tree, env=env, stdout=subprocess.DEVNULL, stderr=subprocess.DEVNULL)
    passed, failed = set(), set()
    for tc in ET.parse(xml).getroot().iter("testcase"):
        tid = f"{tc.get('classname')}::{tc.get('name')}"
        bad = any(ch.tag in ("failure", "error") for ch in tc)
        skipped = any(ch.tag == "skipped" for ch in tc)
        (failed if bad else passed if not skipped else set()).add(tid)
missing = sorted(stable - passed)
res = dict(tree=tree, passed=len(passed), failed=len(failed), stable_pass_not_passing=missing)
print(json.dumps(res, indent=1)[:3000])
if out:
    json.dump(dict(res, failed_ids=sorted(failed)), open(out, "w"), indent=1)
sys.exit(1 if missing else 0)
