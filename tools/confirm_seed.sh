#!/bin/bash
# usage: tools/confirm_seed.sh <Cxx> <srcdir with patch.diff demo_*.py meta.json> [--suite]
# Confirms a seeded change in a scratch worktree of /repo's HEAD (outside /repo and /verif):
#   patch applies; demo fails with it and passes without it; optionally the suite's stable-pass set still passes.
set -u
id="$1"; src="$(realpath "$2")"; suite="${3:-}"
wt="/tmp/cs_$id"
git -C /repo worktree remove --force "$wt" 2>/dev/null
git -C /repo worktree add --detach "$wt" HEAD -q || exit 2
trap 'git -C /repo worktree remove --force "$wt" 2>/dev/null' EXIT
demo="$(ls "$src"/demo_*.py | head -1)"
export NUMBA_CACHE_DIR="$wt/.nbcache" PYTHONDONTWRITEBYTECODE=1
( cd /tmp && PYTHONPATH="$wt" timeout 900 /venv/bin/python "$demo" >/dev/null 2>&1 ); clean=$?
git -C "$wt" apply "$src/patch.diff" || { echo "RESULT $id patch-does-not-apply"; exit 3; }
( cd /tmp && PYTHONPATH="$wt" timeout 900 /venv/bin/python "$demo" >/dev/null 2>&1 ); mutated=$?
echo "RESULT $id demo_without_change_exit=$clean demo_with_change_exit=$mutated"
if [ "$suite" = "--suite" ]; then
  python3 /verif/tools/suite_check.py "$wt" "/tmp/seed_out/suite_$id.json" | tail -5
  echo "RESULT $id suite_exit=$?"
fi
