#!/bin/bash
# quick tier of the given checks for several seeds (VERIF_SEED), evidence/replays to a scratch directory.
# usage: tools/run_seeds_some.sh <outdir> <par> "<seeds>" Cxx...
here="$(cd "$(dirname "$0")/.." && pwd)"; cd "$here"
out="$1"; par="$2"; seeds="$3"; shift 3
mkdir -p "$out"
for sd in $seeds; do
  printf '%s\n' "$@" | xargs -P "$par" -I{} bash -c 'VERIF_SEED='"$sd"' VERIF_EVIDENCE_DIR='"$out"'/ev'"$sd"' VERIF_REPLAY_DIR='"$out"'/rp'"$sd"' ./bin/check {} --tier quick > '"$out"'/{}.s'"$sd"'.out 2> '"$out"'/{}.s'"$sd"'.err; echo "seed='"$sd"' {} exit=$? $(grep -c ^VIOLATION '"$out"'/{}.s'"$sd"'.out) violation-lines"' | sort
done
