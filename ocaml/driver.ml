(* Correspondence driver: reads one S-expression request per line, evaluates the
   extracted code-model and specification, prints one S-expression per line.
   Hand-written glue (trusted): parsing / printing only. *)
open Model

type sexp = A of string | L of sexp list

let parse (s : string) : sexp =
  let n = String.length s in
  let pos = ref 0 in
  let rec skip () = if !pos < n && (s.[!pos] = ' ' || s.[!pos] = '\t') then (incr pos; skip ()) in
  let rec item () =
    skip ();
    if !pos >= n then failwith "eof"
    else if s.[!pos] = '(' then begin
      incr pos;
      let acc = ref [] in
      let rec loop () =
        skip ();
        if !pos >= n then failwith "unclosed"
        else if s.[!pos] = ')' then incr pos
        else (acc := item () :: !acc; loop ())
      in
      loop (); L (List.rev !acc)
    end else begin
      let st = !pos in
      while !pos < n && s.[!pos] <> ' ' && s.[!pos] <> '(' && s.[!pos] <> ')' do incr pos done;
      A (String.sub s st (!pos - st))
    end
  in
  item ()

let rec show = function
  | A a -> a
  | L l -> "(" ^ String.concat " " (List.map show l) ^ ")"

(* ---- numbers ---- *)
let rec pos_of_int (i : int) : positive =
  if i = 1 then XH else if i land 1 = 0 then XO (pos_of_int (i lsr 1)) else XI (pos_of_int (i lsr 1))
let z_of_int (i : int) : z = if i = 0 then Z0 else if i > 0 then Zpos (pos_of_int i) else Zneg (pos_of_int (-i))
let ten = z_of_int 10
let z_of_string (s : string) : z =
  let neg = String.length s > 0 && s.[0] = '-' in
  let st = if neg || (String.length s > 0 && s.[0] = '+') then 1 else 0 in
  let acc = ref Z0 in
  for i = st to String.length s - 1 do
    let d = Char.code s.[i] - 48 in
    if d < 0 || d > 9 then failwith ("bad int " ^ s);
    acc := Z.add (Z.mul !acc ten) (z_of_int d)
  done;
  if neg then Z.opp !acc else !acc
let rec int_of_pos = function XH -> 1 | XO p -> 2 * int_of_pos p | XI p -> 2 * int_of_pos p + 1
let small_int_of_z = function Z0 -> 0 | Zpos p -> int_of_pos p | Zneg p -> - (int_of_pos p)
let string_of_z (x : z) : string =
  match x with
  | Z0 -> "0"
  | _ ->
    let neg = (match x with Zneg _ -> true | _ -> false) in
    let a = ref (if neg then Z.opp x else x) in
    let buf = Buffer.create 20 in
    while !a <> Z0 do
      let (q, r) = Z.div_eucl !a ten in
      Buffer.add_char buf (Char.chr (48 + small_int_of_z r));
      a := q
    done;
    let s = Buffer.contents buf in
    let n = String.length s in
    (if neg then "-" else "") ^ String.init n (fun i -> s.[n - 1 - i])
let rec nat_of_int (i : int) : nat = if i <= 0 then O else S (nat_of_int (i - 1))
let rec int_of_nat = function O -> 0 | S n -> 1 + int_of_nat n

let pos_of_z = function Zpos p -> p | _ -> failwith "nonpositive denominator"
let qc_of_string (s : string) : qc =
  match String.index_opt s '/' with
  | None -> q2Qc { qnum = z_of_string s; qden = XH }
  | Some i ->
    let p = z_of_string (String.sub s 0 i) in
    let q = z_of_string (String.sub s (i + 1) (String.length s - i - 1)) in
    q2Qc { qnum = p; qden = pos_of_z q }
let string_of_qc (c : qc) : string =
  let q = this c in
  match q.qden with
  | XH -> string_of_z q.qnum
  | d -> string_of_z q.qnum ^ "/" ^ string_of_z (Zpos d)
let fl_of_string s = if s = "nan" then FNan else FFin (qc_of_string s)
let string_of_fl = function FNan -> "nan" | FFin q -> string_of_qc q

(* ---- generic sexp helpers ---- *)
let atom = function A a -> a | L _ -> failwith "atom expected"
let lst = function L l -> l | A a -> failwith ("list expected, got " ^ a)
let zlist s = List.map (fun x -> z_of_string (atom x)) (lst s)
let int_of s = int_of_string (atom s)
let nat_of s = nat_of_int (int_of s)
let opt_z s = match atom s with "_" -> None | a -> Some (z_of_string a)
let mask_of (s : sexp) : mask0 =
  match s with
  | A "none" -> MNone
  | L (A "b" :: bits) -> MBool (List.map (fun b -> atom b <> "0") bits)
  | L [A "s"; a; b] -> MSlice (opt_z a, opt_z b)
  | L (A "i" :: idx) -> MIdx (List.map (fun x -> z_of_string (atom x)) idx)
  | _ -> failwith "bad mask"
let bmask_of (s : sexp) : bool list option =
  match s with
  | A "none" -> None
  | L (A "b" :: bits) -> Some (List.map (fun b -> atom b <> "0") bits)
  | _ -> failwith "bad boolean mask"
let cumop_of = function
  | "sum" -> CSum | "min" -> CMin | "max" -> CMax | "count" -> CCount
  | s -> failwith ("bad cumop " ^ s)
let rname_of = function
  | "sum" -> Rsum | "nansum" -> Rnansum | "nansum_squares" -> Rnansum_squares
  | "max" -> Rmax | "nanmax" -> Rnanmax | "min" -> Rmin | "nanmin" -> Rnanmin
  | "nancount" -> Rnancount | "count" -> Rcount | "first" -> Rfirst | "last" -> Rlast
  | s -> failwith ("bad reducer " ^ s)
let rop_of = function
  | "size" -> Size | "count" -> Count | "sum" -> Sum | "sumsq" -> SumSq
  | "min" -> Min | "max" -> Max | "first" -> First | "last" -> Last
  | s -> failwith ("bad rop " ^ s)
let err_name = function
  | EValue -> "value" | EType -> "type" | EIndex -> "index" | EAssert -> "assert" | EOther -> "other"
let zl l = L (List.map (fun z -> A (string_of_z z)) l)

(* a value domain packaged with its reader / printer *)
type dom = D : 'v ops * (string -> 'v) * ('v -> string) -> dom
let dom_of (s : sexp) : dom =
  match s with
  | A "f" -> D (fops, fl_of_string, string_of_fl)
  | A "i" -> D (zops true Z0, z_of_string, string_of_z)
  | L [A "n"; nv] -> D (zops false (z_of_string (atom nv)), z_of_string, string_of_z)
  | _ -> failwith "bad dom"

let handle (req : sexp) : sexp =
  match req with
  | L [A "group_func_wrap"; d; r; codes; chunks; ng; m; nt] ->
    let D (o, rd, pr) = dom_of d in
    let vl s = List.map (fun x -> rd (atom x)) (lst s) in
    let res = group_func_wrap o (rname_of (atom r)) (zlist codes) (List.map vl (lst chunks))
        (nat_of ng) (mask_of m) (nat_of nt) in
    (match res with
     | Ok (rv, rc) -> L [A "ok"; L (List.map (fun v -> A (pr v)) rv); zl rc]
     | Err e -> L [A "err"; A (err_name e)])
  | L [A "spec_reduce"; d; op; codes; vals; ng; m] ->
    let D (o, rd, pr) = dom_of d in
    let vl s = List.map (fun x -> rd (atom x)) (lst s) in
    let out = spec_reduce o (rop_of (atom op)) (zlist codes) (vl vals) (nat_of ng) (mask_of m) in
    L [A "ok"; L (List.map (fun (v, c) -> L [A (pr v); A (string_of_z c)]) out)]
  | L [A "find_nth"; codes; ng; n; m] ->
    zl (find_nth (zlist codes) (nat_of ng) (z_of_string (atom n)) (bmask_of m))
  | L [A "nth_spec"; codes; ng; n; m] ->
    zl (nth_spec (zlist codes) (nat_of ng) (z_of_string (atom n)) (bmask_of m))
  | L [A "find_first_or_last_n"; codes; ng; n; m; fwd] ->
    L (List.map zl (find_first_or_last_n (zlist codes) (nat_of ng) (nat_of n) (bmask_of m) (atom fwd <> "0")))
  | L [A "first_n_spec"; codes; ng; n; m] -> L (List.map zl (first_n_spec (zlist codes) (nat_of ng) (nat_of n) (bmask_of m)))
  | L [A "last_n_spec"; codes; ng; n; m] -> L (List.map zl (last_n_spec (zlist codes) (nat_of ng) (nat_of n) (bmask_of m)))
  | L [A "cumulative"; d; temporal; op; skipna; codes; vals; ng; m] ->
    let D (o, rd, pr) = dom_of d in
    let vl s = List.map (fun x -> rd (atom x)) (lst s) in
    L (List.map (fun v -> A (pr v)) (cumulative_t o (atom temporal <> "0") (cumop_of (atom op)) (atom skipna <> "0") (zlist codes) (vl vals) (nat_of ng) (bmask_of m)))
  | L [A "cum_spec"; d; op; codes; vals; m] ->
    let D (o, rd, pr) = dom_of d in
    let vl s = List.map (fun x -> rd (atom x)) (lst s) in
    L (List.map (fun v -> A (pr v)) (cum_spec o (cumop_of (atom op)) (zlist codes) (vl vals) (bmask_of m)))
  | L [A "cumsum_noskip_spec"; d; codes; vals; m] ->
    let D (o, rd, pr) = dom_of d in
    let vl s = List.map (fun x -> rd (atom x)) (lst s) in
    L (List.map (fun v -> A (pr v)) (cumsum_noskip_spec o (zlist codes) (vl vals) (bmask_of m)))
  | L [A "cumext_noskip_spec"; d; wm; codes; vals; m] ->
    let D (o, rd, pr) = dom_of d in
    let vl s = List.map (fun x -> rd (atom x)) (lst s) in
    L (List.map (fun v -> A (pr v)) (cumext_noskip_spec o (atom wm <> "0") (zlist codes) (vl vals) (bmask_of m)))
  | L [A "rolling"; d; kind; codes; vals; ng; w; mp; m] ->
    let D (o, rd, pr) = dom_of d in
    let vl s = List.map (fun x -> rd (atom x)) (lst s) in
    let c = zlist codes and v = vl vals and g = nat_of ng and win = nat_of w and mk = bmask_of m in
    let out = (match atom kind with
        | "sum" -> rolling_sum_or_mean o c v g win (opt_z mp) mk false
        | "mean" -> rolling_sum_or_mean o c v g win (opt_z mp) mk true
        | "max" -> rolling_max_or_min o c v g win (opt_z mp) mk true
        | "min" -> rolling_max_or_min o c v g win (opt_z mp) mk false
        | "shift" -> rolling_shift_or_diff o c v g win mk true
        | "diff" -> rolling_shift_or_diff o c v g win mk false
        | k -> failwith ("bad rolling kind " ^ k)) in
    L (List.map (fun v -> A (pr v)) out)
  | L [A "window_spec"; d; kind; codes; vals; w; mp; m] ->
    let D (o, rd, pr) = dom_of d in
    let vl s = List.map (fun x -> rd (atom x)) (lst s) in
    let c = zlist codes and v = vl vals and win = nat_of w and mk = bmask_of m in
    let mpz = (match opt_z mp with Some z -> z | None -> z_of_int (int_of w)) in
    let out = (match atom kind with
        | "sum" -> window_spec o RSum win mpz c v mk
        | "mean" -> window_spec o RMean win mpz c v mk
        | "max" -> window_spec o RMax win mpz c v mk
        | "min" -> window_spec o RMin win mpz c v mk
        | "shift" -> shift_spec o win true c v mk
        | "diff" -> shift_spec o win false c v mk
        | k -> failwith ("bad rolling kind " ^ k)) in
    L (List.map (fun v -> A (pr v)) out)
  | L [A "ema"; codes; vals; alpha; ng; m] ->
    let vl = List.map (fun x -> fl_of_string (atom x)) (lst vals) in
    L (List.map (fun v -> A (string_of_fl v)) (ema_grouped (zlist codes) vl (qc_of_string (atom alpha)) (nat_of ng) (bmask_of m)))
  | L [A "ema_spec"; codes; vals; alpha; m] ->
    let vl = List.map (fun x -> fl_of_string (atom x)) (lst vals) in
    L (List.map (fun v -> A (string_of_fl v)) (ema_spec (zlist codes) vl (qc_of_string (atom alpha)) (bmask_of m)))
  | L [A "ema_timed"; codes; vals; times; hl; ng; m] ->
    let vl = List.map (fun x -> fl_of_string (atom x)) (lst vals) in
    L (List.map (fun v -> A (string_of_fl v))
         (ema_grouped_timed (decay_halflives (z_of_string (atom hl))) (zlist codes) vl (zlist times) (nat_of ng) (bmask_of m)))
  | L [A "ema_timed_spec"; codes; vals; times; hl; m] ->
    let vl = List.map (fun x -> fl_of_string (atom x)) (lst vals) in
    L (List.map (fun v -> A (string_of_fl v))
         (ema_timed_spec (decay_halflives (z_of_string (atom hl))) (zlist codes) vl (zlist times) (bmask_of m)))
  | L [A "ema_adjusted"; vals; alpha] ->
    let vl = List.map (fun x -> fl_of_string (atom x)) (lst vals) in
    L (List.map (fun v -> A (string_of_fl v)) (ema_adjusted vl (qc_of_string (atom alpha))))
  | L [A "across_chunks"; d; r; mr; ng; chunks] ->
    (* chunks: ((pointer...) (codes...) (vals...)) ... *)
    let D (o, rd, pr) = dom_of d in
    let vl s = List.map (fun x -> rd (atom x)) (lst s) in
    let chs = List.map (fun c -> match lst c with
        | [p; codes; vals] -> (List.map (fun x -> nat_of x) (lst p), List.combine (zlist codes) (vl vals))
        | _ -> failwith "bad chunk") (lst chunks) in
    let out = apply_across_chunks o (rname_of (atom r)) (rname_of (atom mr)) (nat_of ng) chs in
    L (List.map (fun (v, c) -> L [A (pr v); A (string_of_z c)]) out)
  | L [A "unify_codes"; p; codes] ->
    zl (unify_codes (List.map (fun x -> nat_of x) (lst p)) (zlist codes))
  | L [A "combine_factorizations"; rows; weights; cart] ->
    let (comb, uniq) = combine_factorizations (List.map zlist (lst rows)) (zlist weights) (nat_of cart) in
    L [zl comb; L (List.map zl uniq)]
  | L [A "relabel"; perm; labels; codes] ->
    let (c, u) = relabel (List.map (fun x -> nat_of x) (lst perm)) (List.map zlist (lst labels)) (zlist codes) in
    L [zl c; L (List.map zl u)]
  | L [A "combine_inplace"; rows; weights; cart] ->
    let rs = List.map zlist (lst rows) in
    let (comb, uniq) = combine_inplace rs (zlist weights) (nat_of cart) in
    L [zl comb; L (List.map zl uniq); L (List.map zl (combine_inplace_matrix rs (zlist weights) (nat_of cart)))]
  | L [A "monotonic_factorization"; arr] ->
    let xs = List.map (fun x -> match atom x with "_" -> None | t -> Some (z_of_string t)) (lst arr) in
    let ((c, codes), labels) = monotonic_factorization xs in
    L [A (string_of_z c); zl codes; zl labels]
  | L [A "group_sorted_indexer"; chunks; ng; km; m] ->
    let chs = List.map zlist (lst chunks) in
    let codes = List.concat chs in
    let n_groups = int_of ng in
    let key_map = (match km with A "none" -> None | l -> Some (zlist l)) in
    let mask = bmask_of m in
    (* group_counts in OUTPUT order, as the caller computes them from the (masked) key counts *)
    let sel i = (match mask with None -> true | Some mm -> List.nth mm i) in
    let count_of g = List.length (List.filter (fun x -> x) (List.mapi (fun i c -> small_int_of_z c = g && sel i) codes)) in
    let out_pos k = (match key_map with None -> k | Some kmap -> small_int_of_z (List.nth kmap k)) in
    let counts = Array.make n_groups 0 in
    for g = 0 to n_groups - 1 do counts.(out_pos g) <- count_of g done;
    zl (build_group_sorted_indexer chs (List.map z_of_int (Array.to_list counts)) key_map mask)
  | L [A "var_bound"; u; n; kn; kd; m; h1; h2] ->
    (* the proved rounding bound of the one-pass variance (Proofs/VarFloat.v), evaluated exactly *)
    let q s = this (qc_of_string (atom s)) in
    A (string_of_qc (q2Qc (var_bound (q u) (q n) (q kn) (q kd) (q m) (nat_of h1) (nat_of h2))))
  | L [A "add_row_margin"; n; levels; rows] ->
    (* core.add_row_margin with agg = integer addition: rows [[k1 .. kn] v]; 'All' is written A *)
    let d = List.map (fun r -> match lst r with
        | [k; v] -> (List.map (fun x -> Some (z_of_string (atom x))) (lst k), z_of_string (atom v))
        | _ -> failwith "row") (lst rows) in
    let out = add_row_margin Z.add (nat_of_int (int_of_string (atom n))) (List.map (fun x -> nat_of_int (int_of_string (atom x))) (lst levels)) d in
    L (List.map (fun (k, v) -> L [L (List.map (function Some z -> A (string_of_z z) | None -> A "A") k); A (string_of_z v)]) out)
  | L [A "mean_ticks"; groups] ->
    (* util.mean_from_sum_count on tick counts: 64-bit wrapping sum // count per group, "N" for an empty group *)
    L (List.map (fun g -> match group_mean_ticks (zlist g) with Some m -> A (string_of_z m) | None -> A "N") (lst groups))
  | L [A "bool_labels"; rows] ->
    (* per row of 0/1: the mask and the column positions its label names *)
    L (List.map (fun r ->
        let bits = List.map (fun x -> atom x <> "0") (lst r) in
        let m = row_mask bits in
        L [A (string_of_z m); L (List.map (fun i -> A (string_of_int (int_of_nat i))) (mask_labels (nat_of_int (List.length bits)) m))]) (lst rows))
  | L [A "bin_codes"; bins; xs] ->
    let b = zlist bins in
    zl (List.map (fun x -> bin_code b x) (zlist xs))
  | L [A "nan_reduce"; d; op; vals; nt] ->
    let D (o, rd, pr) = dom_of d in
    let vl = List.map (fun x -> rd (atom x)) (lst vals) in
    let nop = (match atom op with "sum" -> NSum | "min" -> NMin | "max" -> NMax | "sum_square" -> NSumSquare | s -> failwith ("bad nanop " ^ s)) in
    A (pr (nan_reduce o nop vl (nat_of nt)))
  | L [A "validate_lengths_and_indexes"; args] ->
    let inputs = List.map (fun a -> match lst a with
        | [ln; ix] -> (nat_of ln, (match atom ix with "_" -> None | s -> Some (nat_of_int (int_of_string s))))
        | _ -> failwith "bad input") (lst args) in
    A (if validate_lengths_and_indexes inputs then "ok" else "reject")
  | L (A op :: _) -> failwith ("unknown op " ^ op)
  | _ -> failwith "bad request"

let () =
  try
    while true do
      let line = input_line stdin in
      if String.length line > 0 then begin
        let out = (try show (handle (parse line)) with
            | Failure m -> "(fail " ^ String.map (fun c -> if c = '(' || c = ')' then '_' else c) m ^ ")"
            | Stack_overflow -> "(fail stack_overflow)"
            | Not_found -> "(fail not_found)") in
        print_string out; print_newline ()
      end
    done
  with End_of_file -> ()
