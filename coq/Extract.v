(* Extraction of the executable model and specification to OCaml.
   Only ExtrOcamlBasic (bool, option, unit, list, prod, sumbool -> OCaml natives);
   Z, positive, nat, Q/Qc stay the extracted inductives.  No Extract Constant. *)
From Coq Require Extraction.
From Coq Require Import ExtrOcamlBasic.
From Coq Require Import List ZArith QArith Qcanon.
From GL Require Import Lib.Arr Lib.Blocks Model.Dom Model.Scalar Model.Reduce Spec.Defs Spec.Exec
  Model.Select Model.Cumulative Model.Rolling Model.Ema Spec.RowSpec Model.GroupByApi Model.Factorize Model.Nanops Model.Validate Model.Helpers Proofs.CombineProofs Proofs.VarFloat Model.Moments Proofs.MomentsProofs Model.Margins.
Extraction Language OCaml.
Extraction "model.ml"
  Z.add Z.mul Z.opp Z.sub Z.div_eucl Z.of_nat Z.to_nat Z.eqb Z.ltb Z.leb Z.compare
  Nat.add Nat.mul Pos.to_nat
  Q2Qc Qcplus Qcmult Qcdiv Qcopp Qcminus this
  zops fops fl_of_Z
  group_func_wrap apply_single_chunk reduce_array_pair combine_factorized
  spec_reduce red_exec sel_rows
  find_nth find_first_or_last_n nth_spec first_n_spec last_n_spec
  cumulative cumulative_t cum_spec cumsum_noskip_spec cumext_noskip_spec
  rolling_sum_or_mean rolling_max_or_min rolling_shift_or_diff window_spec shift_spec
  add_row_margin group_mean_ticks var_bound nan_reduce nb_reduce row_mask mask_labels bin_code
  validate_lengths_and_indexes preprocess_ok
  weight_code_sum code_weights relabel combine_factorizations combine_inplace combine_inplace_matrix build_group_sorted_indexer monotonic_factorization
  apply_across_chunks chunk_cells unify_codes observed_flags reported mean_column transform_gather
  ema_grouped ema_grouped_timed ema_adjusted decay_halflives ema_spec ema_timed_spec.
