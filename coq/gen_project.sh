#!/bin/bash
# regenerate _CoqProject from the files present
cd "$(dirname "$0")"
{ echo "-Q theories GL"; find theories -name '*.v' | sort; } > _CoqProject
coq_makefile -f _CoqProject -o Makefile >/dev/null 2>&1
