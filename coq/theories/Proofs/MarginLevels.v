(* C14 - the multi-level margin algorithm (Model/Margins.add_row_margin, the model of core.add_row_margin):
   every row it produces carries the aggregate of exactly the data rows its key stands for ('All' = any label),
   for any number of levels, any subset of requested levels, any sparse set of label combinations and any
   commutative-monoid aggregation; an 'All' appears only in a requested level; ordinary rows are unchanged. *)
From Coq Require Import List ZArith Bool Arith Lia.
From GL Require Import Lib.Arr Model.Margins.
Import ListNotations.

Definition is_none (x : option Z) : bool := match x with None => true | Some _ => false end.
Definition pat_of (k : mkey) : list bool := map is_none k.

Lemma opt_eqb_eq a b : opt_eqb a b = true <-> a = b.
Proof.
  destruct a as [x|], b as [y|]; cbn [opt_eqb]; split; intros H; try congruence; try reflexivity.
  - apply Z.eqb_eq in H. now subst.
  - inversion H; subst. apply Z.eqb_refl.
Qed.

Lemma key_eqb_eq a : forall b, key_eqb a b = true <-> a = b.
Proof.
  induction a as [|x a IH]; intros [|y b]; cbn [key_eqb]; split; intros H; try congruence; try reflexivity.
  - apply andb_true_iff in H as [H1 H2]. apply opt_eqb_eq in H1. apply IH in H2. now subst.
  - inversion H; subst. apply andb_true_iff. split; [now apply opt_eqb_eq | now apply IH].
Qed.

Lemma key_eqb_refl a : key_eqb a a = true.
Proof. now apply key_eqb_eq. Qed.

(* a pattern that has 'All' at level l cannot tell whether a key has been collapsed at l *)
Lemma matches_setAll q : forall k l, nth l (pat_of q) true = true -> matches q (setAll l k) = matches q k.
Proof.
  unfold setAll. induction q as [|p q IH]; intros [|x k] [|l] H; cbn [upd matches]; try reflexivity.
  - cbn [pat_of map nth] in H. destruct p; [discriminate|]. reflexivity.
  - cbn [pat_of map nth] in H. f_equal. apply IH. exact H.
Qed.

(* keys of the same shape: a key matches another only if they are equal *)
Lemma matches_same_shape q : forall k, pat_of q = pat_of k -> matches q k = true -> q = k.
Proof.
  induction q as [|p q IH]; intros [|x k] Hs Hm; cbn [matches pat_of map] in *; try congruence.
  apply andb_true_iff in Hm as [H1 H2]. inversion Hs as [[Hp Hq]].
  f_equal; [|apply IH; assumption].
  destruct p as [a|], x as [b|]; cbn [is_none] in Hp; try discriminate; [|reflexivity].
  now apply opt_eqb_eq in H1.
Qed.

Lemma matches_refl q : matches q q = true.
Proof.
  induction q as [|p q IH]; cbn [matches]; [reflexivity|]. rewrite IH, andb_true_r.
  destruct p; [|reflexivity]. now apply opt_eqb_eq.
Qed.

Lemma pat_setAll l k : pat_of (setAll l k) = upd (pat_of k) l true.
Proof.
  unfold setAll, pat_of. revert l. induction k as [|x k IH]; intros [|l]; cbn [upd map is_none]; try reflexivity.
  now rewrite IH.
Qed.

Section Proofs.
Context {V : Type} (agg : V -> V -> V) (e : V).
Hypothesis agg_assoc : forall a b c, agg a (agg b c) = agg (agg a b) c.
Hypothesis agg_comm : forall a b, agg a b = agg b a.
Hypothesis agg_e : forall a, agg e a = a.

Lemma agg_e_r a : agg a e = a.
Proof. now rewrite agg_comm, agg_e. Qed.

Lemma agg_swap a b c : agg a (agg b c) = agg b (agg a c).
Proof. now rewrite agg_assoc, (agg_comm a b), <- agg_assoc. Qed.

Notation total := (total agg e).
Notation insert_agg := (insert_agg agg).
Notation collapse := (collapse agg).
Notation margins_all := (margins_all agg).
Notation add_row_margin := (add_row_margin agg).

Definition pick (q k : mkey) (v : V) : V := if matches q k then v else e.

Lemma total_cons q k v D : total q ((k, v) :: D) = agg (pick q k v) (total q D).
Proof. unfold pick. cbn [Margins.total fold_right fst snd]. destruct (matches q k); [reflexivity | now rewrite agg_e]. Qed.

Lemma total_insert q k v : forall acc, total q (insert_agg k v acc) = agg (pick q k v) (total q acc).
Proof.
  induction acc as [|[k' v'] t IH]; cbn [Margins.insert_agg].
  - rewrite total_cons. reflexivity.
  - destruct (key_eqb k k') eqn:E.
    + apply key_eqb_eq in E. subst k'. rewrite !total_cons. unfold pick. destruct (matches q k).
      * now rewrite agg_assoc, (agg_comm v v').
      * now rewrite !agg_e.
    + rewrite !total_cons, IH. apply agg_swap.
Qed.

(* re-aggregating over a level the pattern does not look at changes no total *)
Lemma total_collapse q l D : nth l (pat_of q) true = true -> total q (collapse l D) = total q D.
Proof.
  intros Hq. unfold Margins.collapse.
  assert (G : forall D acc, total q (fold_left (fun acc r => insert_agg (setAll l (fst r)) (snd r) acc) D acc)
                            = agg (total q D) (total q acc)).
  { induction D0 as [|[k v] D0 IH]; intros acc; cbn [fold_left fst snd].
    - cbn [Margins.total fold_right]. now rewrite agg_e.
    - rewrite IH, total_insert, total_cons. unfold pick. rewrite (matches_setAll q k l Hq).
      rewrite agg_swap. now rewrite agg_assoc. }
  rewrite G. cbn [Margins.total fold_right]. apply agg_e_r.
Qed.

(* ---- keys of a collapsed table ---- *)
Lemma insert_agg_keys k v : forall acc k', In k' (map fst (insert_agg k v acc)) <-> k' = k \/ In k' (map fst acc).
Proof.
  induction acc as [|[k1 v1] t IH]; intros k'; cbn [Margins.insert_agg map fst In].
  - intuition.
  - destruct (key_eqb k k1) eqn:E; cbn [map fst In].
    + apply key_eqb_eq in E. subst. intuition.
    + rewrite IH. intuition.
Qed.

Lemma insert_agg_nodup k v : forall acc, NoDup (map fst acc) -> NoDup (map fst (insert_agg k v acc)).
Proof.
  induction acc as [|[k1 v1] t IH]; intros H; cbn [Margins.insert_agg map fst].
  - constructor; [intros []|constructor].
  - inversion H as [|? ? Hn Ht]; subst. destruct (key_eqb k k1) eqn:E; cbn [map fst].
    + constructor; assumption.
    + constructor; [|apply IH; assumption].
      intros Hin. apply insert_agg_keys in Hin as [->|Hin]; [|contradiction].
      rewrite key_eqb_refl in E. discriminate.
Qed.

Lemma collapse_keys l D k' : In k' (map fst (collapse l D)) <-> exists k, In k (map fst D) /\ k' = setAll l k.
Proof.
  unfold Margins.collapse.
  assert (G : forall D acc, In k' (map fst (fold_left (fun acc r => insert_agg (setAll l (fst r)) (snd r) acc) D acc))
                            <-> (exists k, In k (map fst D) /\ k' = setAll l k) \/ In k' (map fst acc)).
  { induction D0 as [|[k v] D0 IH]; intros acc; cbn [fold_left fst snd map In].
    - split; [auto|]. intros [[k [[] _]]|H]; exact H.
    - rewrite IH, insert_agg_keys. split.
      + intros [[k0 [H1 H2]]|[->|H]]; [left; exists k0; auto | left; exists k; auto | right; exact H].
      + intros [[k0 [[<-|H1] H2]]|H]; [right; left; exact H2 | left; exists k0; auto | right; right; exact H]. }
  rewrite G. cbn [map In]. intuition.
Qed.

Lemma collapse_nodup l D : NoDup (map fst (collapse l D)).
Proof.
  unfold Margins.collapse.
  assert (G : forall D acc, NoDup (map fst acc) -> NoDup (map fst (fold_left (fun acc r => insert_agg (setAll l (fst r)) (snd r) acc) D acc))).
  { induction D0 as [|[k v] D0 IH]; intros acc H; cbn [fold_left]; [exact H|]. apply IH. now apply insert_agg_nodup. }
  apply G. constructor.
Qed.

(* ---- a row of a table whose keys all have one shape and are pairwise distinct carries its own total ---- *)
Lemma total_no_match q D : (forall r, In r D -> matches q (fst r) = false) -> total q D = e.
Proof.
  induction D as [|[k v] D IH]; intros H; [reflexivity|].
  rewrite total_cons. unfold pick. pose proof (H (k, v) (or_introl eq_refl)) as Hm. cbn [fst] in Hm. rewrite Hm, agg_e.
  apply IH. intros r Hr. apply H. now right.
Qed.

Lemma own_total pat D : (forall k, In k (map fst D) -> pat_of k = pat) -> NoDup (map fst D) ->
  forall k v, In (k, v) D -> total k D = v.
Proof.
  induction D as [|[k1 v1] D IH]; intros Hs Hn k v Hin; [contradiction|].
  cbn [map fst] in Hn. inversion Hn as [|? ? Hnot Hn']; subst.
  rewrite total_cons. unfold pick. destruct Hin as [Heq|Hin].
  - inversion Heq; subst. rewrite matches_refl.
    rewrite total_no_match; [apply agg_e_r|].
    intros [k2 v2] Hr. cbn [fst]. destruct (matches k k2) eqn:M; [|reflexivity]. exfalso.
    assert (k = k2).
    { apply matches_same_shape; [|exact M]. rewrite (Hs k), (Hs k2); auto; cbn [map fst In]; auto.
      right. apply in_map_iff. exists (k2, v2). auto. }
    subst. apply Hnot. apply in_map_iff. exists (k2, v2). auto.
  - assert (matches k k1 = false) as ->.
    { destruct (matches k k1) eqn:M; [|reflexivity]. exfalso.
      assert (k = k1).
      { apply matches_same_shape; [|exact M]. rewrite (Hs k), (Hs k1); auto; cbn [map fst In]; auto.
        right. apply in_map_iff. exists (k, v). auto. }
      subst. apply Hnot. apply in_map_iff. exists (k1, v). auto. }
    rewrite agg_e. apply IH; auto. intros k0 H0. apply Hs. now right.
Qed.

(* shapes only grow: pat <= pattern of the key, level by level *)
Definition pat_le (p1 p2 : list bool) : Prop := Forall2 (fun a b => a = true -> b = true) p1 p2.

Lemma pat_le_refl p : pat_le p p.
Proof. induction p; constructor; auto. Qed.

Lemma pat_le_trans p1 p2 p3 : pat_le p1 p2 -> pat_le p2 p3 -> pat_le p1 p3.
Proof.
  intros H. revert p3. induction H as [|a b l1 l2 Hab H IH]; intros p3 H3; inversion H3 as [|b' c l2' l3 Hbc H3']; subst; constructor.
  - intros Ha. apply Hbc, Hab, Ha.
  - apply IH. exact H3'.
Qed.

Lemma pat_le_upd p l : pat_le p (upd p l true).
Proof.
  revert l. induction p as [|a p IH]; intros [|l]; cbn [upd].
  - constructor.
  - constructor.
  - constructor; [auto | apply pat_le_refl].
  - constructor; [auto | apply IH].
Qed.

Lemma pat_le_nth p1 p2 l : pat_le (upd p1 l true) p2 -> nth l p2 true = true.
Proof.
  revert p2 l. induction p1 as [|a p1 IH]; intros p2 [|l] H; cbn [upd] in H; inversion H; subst; cbn [nth]; auto.
Qed.

(* ---- every row of the recursion carries the total of the table it started from ---- *)
Theorem margins_all_sound : forall fuel active D pat,
  (forall k, In k (map fst D) -> pat_of k = pat) -> NoDup (map fst D) ->
  forall k v, In (k, v) (margins_all fuel active D) -> v = total k D /\ pat_le pat (pat_of k).
Proof.
  induction fuel as [|f IH]; intros active D pat Hs Hn k v Hin; cbn [Margins.margins_all] in Hin.
  - split; [symmetry; eapply own_total; eauto|]. rewrite (Hs k); [apply pat_le_refl|]. apply in_map_iff. exists (k, v). auto.
  - apply in_app_or in Hin as [Hin|Hin].
    + split; [symmetry; eapply own_total; eauto|]. rewrite (Hs k); [apply pat_le_refl|]. apply in_map_iff. exists (k, v). auto.
    + apply in_flat_map in Hin as [l [_ Hin]].
      assert (Hs' : forall k0, In k0 (map fst (collapse l D)) -> pat_of k0 = upd pat l true).
      { intros k0 H0. apply collapse_keys in H0 as [k1 [H1 ->]]. rewrite pat_setAll, (Hs k1 H1). reflexivity. }
      destruct (IH _ _ _ Hs' (collapse_nodup l D) k v Hin) as [Hv Hp]. split.
      * rewrite Hv. apply total_collapse. eapply pat_le_nth; eauto.
      * eapply pat_le_trans; [apply pat_le_upd | exact Hp].
Qed.

(* every produced key stands for at least one data row: no row for a combination that does not occur *)
Theorem margins_all_not_spurious : forall fuel active D pat,
  (forall k, In k (map fst D) -> pat_of k = pat) ->
  forall k, In k (map fst (margins_all fuel active D)) ->
  pat_le pat (pat_of k) /\ exists k0, In k0 (map fst D) /\ matches k k0 = true.
Proof.
  induction fuel as [|f IH]; intros active D pat Hs k Hin; cbn [Margins.margins_all] in Hin.
  - split; [rewrite (Hs k Hin); apply pat_le_refl|]. exists k. split; [exact Hin | apply matches_refl].
  - rewrite map_app in Hin. apply in_app_or in Hin as [Hin|Hin].
    + split; [rewrite (Hs k Hin); apply pat_le_refl|]. exists k. split; [exact Hin | apply matches_refl].
    + apply in_map_iff in Hin as [[k' v] [Hk Hin]]. cbn [fst] in Hk. subst k'.
      apply in_flat_map in Hin as [l [_ Hin]].
      assert (Hs' : forall k0, In k0 (map fst (collapse l D)) -> pat_of k0 = upd pat l true).
      { intros k0 H0. apply collapse_keys in H0 as [k1 [H1 ->]]. rewrite pat_setAll, (Hs k1 H1). reflexivity. }
      assert (Hin' : In k (map fst (margins_all f (remove Nat.eq_dec l active) (collapse l D)))).
      { apply in_map_iff. exists (k, v). auto. }
      destruct (IH _ _ _ Hs' k Hin') as [Hp [k1 [H1 Hm]]].
      split; [eapply pat_le_trans; [apply pat_le_upd | exact Hp]|].
      apply collapse_keys in H1 as [k0 [H0 ->]]. exists k0. split; [exact H0|].
      rewrite <- Hm. symmetry. apply matches_setAll. eapply pat_le_nth; eauto.
Qed.

(* ---- completeness: every subset of the active levels, for every data row ---- *)
Definition setAllS (S : list nat) (k : mkey) : mkey := fold_left (fun k l => setAll l k) S k.

Lemma incl_remove (S : list nat) l active : incl S active -> ~ In l S -> incl S (remove Nat.eq_dec l active).
Proof. intros Hi Hn x Hx. apply in_in_remove; [intros ->; contradiction | apply Hi, Hx]. Qed.

Theorem margins_all_complete : forall fuel S active D k,
  NoDup S -> incl S active -> length S <= fuel -> In k (map fst D) ->
  In (setAllS S k) (map fst (margins_all fuel active D)).
Proof.
  induction fuel as [|f IH]; intros S active D k Hn Hi Hl Hk.
  - destruct S; [|cbn [length] in Hl; lia]. exact Hk.
  - cbn [Margins.margins_all]. rewrite map_app. apply in_or_app. destruct S as [|l S'].
    + left. exact Hk.
    + right. inversion Hn as [|? ? Hnot Hn']; subst. cbn [setAllS fold_left].
      assert (Hin : In (setAllS S' (setAll l k)) (map fst (margins_all f (remove Nat.eq_dec l active) (collapse l D)))).
      { apply IH; auto.
        - apply incl_remove; [|exact Hnot]. intros x Hx. apply Hi. now right.
        - cbn [length] in Hl. lia.
        - apply collapse_keys. exists k. auto. }
      apply in_map_iff in Hin as [[k' v] [Hk' Hin]]. apply in_map_iff. exists (k', v). split; [exact Hk'|].
      apply in_flat_map. exists l. split; [apply Hi; now left | exact Hin].
Qed.

(* ---- the function itself ---- *)
Definition concrete (n : nat) (D : list (mkey * V)) : Prop := forall k, In k (map fst D) -> pat_of k = repeat false n.

Lemma is_all_pat k i : is_all k i = nth i (pat_of k) false.
Proof.
  unfold is_all, pat_of. change false with (is_none (Some 0%Z)) at 2. rewrite map_nth.
  destruct (nth i k (Some 0%Z)); reflexivity.
Qed.

Theorem add_row_margin_sound n levels D : concrete n D -> NoDup (map fst D) ->
  forall k v, In (k, v) (add_row_margin n levels D) ->
  v = total k D /\ (forall i, i < n -> is_all k i = true -> In i levels) /\ (exists k0, In k0 (map fst D) /\ matches k k0 = true).
Proof.
  intros Hc Hn k v Hin. unfold Margins.add_row_margin in Hin. apply filter_In in Hin as [Hin Hf]. cbn [fst] in Hf.
  assert (Hlev : forall i, i < n -> is_all k i = true -> In i levels).
  { intros i Hi Ha. rewrite forallb_forall in Hf. specialize (Hf i). rewrite in_seq in Hf. specialize (Hf ltac:(lia)).
    rewrite Ha in Hf. cbn [implb] in Hf. apply existsb_exists in Hf as [j [Hj Hij]]. apply Nat.eqb_eq in Hij. now subst. }
  apply in_app_or in Hin as [Hin|Hin].
  - split; [symmetry; eapply own_total; eauto|]. split; [exact Hlev|]. exists k. split; [|apply matches_refl].
    apply in_map_iff. exists (k, v). auto.
  - apply in_flat_map in Hin as [l [_ Hin]].
    assert (Hs' : forall k0, In k0 (map fst (collapse l D)) -> pat_of k0 = upd (repeat false n) l true).
    { intros k0 H0. apply collapse_keys in H0 as [k1 [H1 ->]]. rewrite pat_setAll, (Hc k1 H1). reflexivity. }
    destruct (margins_all_sound _ _ _ _ Hs' (collapse_nodup l D) k v Hin) as [Hv Hp].
    split; [rewrite Hv; apply total_collapse; eapply pat_le_nth; eauto|]. split; [exact Hlev|].
    assert (Hin' : In k (map fst (margins_all (n - 1) (remove Nat.eq_dec l (seq 0 n)) (collapse l D)))).
    { apply in_map_iff. exists (k, v). auto. }
    destruct (margins_all_not_spurious _ _ _ _ Hs' k Hin') as [_ [k1 [H1 Hm]]].
    apply collapse_keys in H1 as [k0 [H0 ->]]. exists k0. split; [exact H0|].
    rewrite <- Hm. symmetry. apply matches_setAll. eapply pat_le_nth; eauto.
Qed.

(* ordinary rows are unchanged *)
Theorem add_row_margin_keeps_rows n levels D : concrete n D ->
  forall k v, In (k, v) D -> In (k, v) (add_row_margin n levels D).
Proof.
  intros Hc k v Hin. unfold Margins.add_row_margin. apply filter_In. split; [apply in_or_app; now left|].
  cbn [fst]. apply forallb_forall. intros i _. rewrite is_all_pat, (Hc k).
  - assert (nth i (repeat false n) false = false) as ->; [|reflexivity].
    clear. revert i. induction n as [|n IH]; intros [|i]; cbn [repeat nth]; auto.
  - apply in_map_iff. exists (k, v). auto.
Qed.

Lemma is_all_setAll l k i : is_all (setAll l k) i = true -> i = l \/ is_all k i = true.
Proof.
  rewrite !is_all_pat, pat_setAll. destruct (Nat.eq_dec l i) as [->|Hne]; [auto|].
  intros H. right. rewrite <- H. symmetry. apply (get_upd_neq false (pat_of k) l i true Hne).
Qed.

Lemma is_all_setAllS S : forall k i, is_all (setAllS S k) i = true -> In i S \/ is_all k i = true.
Proof.
  induction S as [|l S IH]; intros k i H; cbn [setAllS fold_left] in *; [auto|].
  destruct (IH _ _ H) as [Hin|Ha]; [left; now right|].
  destruct (is_all_setAll _ _ _ Ha) as [->|Hk]; [left; now left | auto].
Qed.

(* every requested 'All' combination of every data row is there *)
Theorem add_row_margin_complete n levels D S k : concrete n D ->
  S <> [] -> NoDup S -> incl S levels -> (forall l, In l levels -> l < n) -> In k (map fst D) ->
  In (setAllS S k) (map fst (add_row_margin n levels D)).
Proof.
  intros Hc Hne Hn Hi Hlt Hk. destruct S as [|l S']; [congruence|].
  inversion Hn as [|? ? Hnot Hn']; subst.
  assert (Hlen : length S' <= n - 1).
  { assert (length (l :: S') <= length (seq 0 n)).
    { apply NoDup_incl_length; [exact Hn|]. intros x Hx. apply in_seq. specialize (Hlt x (Hi x Hx)). lia. }
    rewrite seq_length in H. cbn [length] in H. lia. }
  assert (Hin : In (setAllS S' (setAll l k)) (map fst (margins_all (n - 1) (remove Nat.eq_dec l (seq 0 n)) (collapse l D)))).
  { apply margins_all_complete; auto.
    - apply incl_remove; [|exact Hnot]. intros x Hx. apply in_seq. specialize (Hlt x (Hi x (or_intror Hx))). lia.
    - apply collapse_keys. exists k. auto. }
  apply in_map_iff in Hin as [[k' v] [Hk' Hin]]. cbn [fst] in Hk'. apply in_map_iff. exists (k', v). split; [exact Hk'|].
  unfold Margins.add_row_margin. apply filter_In. split.
  - apply in_or_app. right. apply in_flat_map. exists l. split; [apply Hi; now left | exact Hin].
  - cbn [fst]. apply forallb_forall. intros i _. destruct (is_all k' i) eqn:Ha; [|reflexivity]. cbn [implb].
    subst k'. change (setAllS S' (setAll l k)) with (setAllS (l :: S') k) in Ha.
    destruct (is_all_setAllS _ _ _ Ha) as [HinS|Hk0].
    + apply existsb_exists. exists i. split; [apply Hi, HinS | apply Nat.eqb_refl].
    + exfalso. rewrite is_all_pat, (Hc k Hk) in Hk0.
      assert (nth i (repeat false n) false = false) as E; [|congruence].
      clear. revert i. induction n as [|n IH]; intros [|i]; cbn [repeat nth]; auto.
Qed.

(* ---- cross-tabulation cells ---- *)
Lemma lookup_in k (T : list (mkey * V)) v : Margins.lookup k T = Some v -> In (k, v) T.
Proof.
  unfold Margins.lookup. destruct (find _ T) as [[k' v']|] eqn:F; [|discriminate].
  intros H. inversion H; subst. apply find_some in F as [Hin Hk]. cbn [fst] in Hk.
  apply key_eqb_eq in Hk. now subst.
Qed.

Lemma lookup_none k (T : list (mkey * V)) : Margins.lookup k T = None -> ~ In k (map fst T).
Proof.
  unfold Margins.lookup. destruct (find _ T) as [r|] eqn:F; [discriminate|]. intros _ Hin.
  apply in_map_iff in Hin as [[k' v] [Hk Hin]]. cbn [fst] in Hk. subst k'.
  pose proof (find_none _ _ F _ Hin) as Hf. cbn [fst] in Hf. rewrite key_eqb_refl in Hf. discriminate.
Qed.

(* a cell that holds a value holds the aggregate of the rows with that row key and that column key ('All' = any label),
   'All' only on an axis whose margin was asked for; a combination no data row has is null *)
Theorem crosstab_cell_sound n0 n1 rm cm D r c v : concrete (n0 + n1) D -> NoDup (map fst D) ->
  crosstab_cell agg n0 n1 rm cm D r c = Some v ->
  v = total (r ++ c) D /\
  (forall i, i < n0 + n1 -> is_all (r ++ c) i = true -> In i (crosstab_levels n0 n1 rm cm)) /\
  (exists k0, In k0 (map fst D) /\ matches (r ++ c) k0 = true).
Proof.
  intros Hc Hn H. unfold Margins.crosstab_cell in H. apply lookup_in in H.
  exact (add_row_margin_sound _ _ _ Hc Hn _ _ H).
Qed.

Theorem crosstab_absent_is_null n0 n1 rm cm D r c : concrete (n0 + n1) D -> NoDup (map fst D) ->
  (forall k0, In k0 (map fst D) -> matches (r ++ c) k0 = false) ->
  crosstab_cell agg n0 n1 rm cm D r c = None.
Proof.
  intros Hc Hn Hno. destruct (crosstab_cell agg n0 n1 rm cm D r c) as [v|] eqn:E; [|reflexivity]. exfalso.
  destruct (crosstab_cell_sound _ _ _ _ _ _ _ _ Hc Hn E) as [_ [_ [k0 [H0 Hm]]]].
  rewrite (Hno k0 H0) in Hm. discriminate.
Qed.

(* and a combination that occurs is there: the ordinary cell of every data row *)
Theorem crosstab_ordinary_cell n0 n1 rm cm D r c v : concrete (n0 + n1) D -> NoDup (map fst D) ->
  In (r ++ c, v) D -> crosstab_cell agg n0 n1 rm cm D r c = Some v.
Proof.
  intros Hc Hn Hin. unfold Margins.crosstab_cell.
  pose proof (add_row_margin_keeps_rows (n0 + n1) (crosstab_levels n0 n1 rm cm) D Hc _ _ Hin) as Hk.
  destruct (Margins.lookup (r ++ c) (add_row_margin (n0 + n1) (crosstab_levels n0 n1 rm cm) D)) as [v'|] eqn:E.
  - apply lookup_in in E.
    destruct (add_row_margin_sound _ _ _ Hc Hn _ _ E) as [Hv' _].
    destruct (add_row_margin_sound _ _ _ Hc Hn _ _ Hk) as [Hv _]. congruence.
  - apply lookup_none in E. exfalso. apply E. apply in_map_iff. exists (r ++ c, v). auto.
Qed.
End Proofs.

(* the guard of add_row_margin is exactly the hypothesis [concrete] of the theorems above: a frame it accepts, all of whose
   keys have one entry per level, has no 'All' among its labels *)
Lemma accepted_is_concrete {V : Type} n (D : list (mkey * V)) :
  has_all_label D = false -> (forall k, In k (map fst D) -> length k = n) -> forall k, In k (map fst D) -> pat_of k = repeat false n.
Proof.
  intros Hh Hlen k Hk. apply in_map_iff in Hk as [[k' v] [E Hin]]. cbn [fst] in E. subst k'.
  assert (Hk : existsb (fun x : option Z => match x with None => true | Some _ => false end) k = false).
  { destruct (existsb _ k) eqn:Ek; [|reflexivity]. exfalso.
    assert (Ht : has_all_label D = true).
    { unfold has_all_label. apply existsb_exists. exists (k, v). split; [exact Hin | exact Ek]. }
    rewrite Ht in Hh. discriminate. }
  rewrite <- (Hlen k) by (apply in_map_iff; exists (k, v); auto).
  clear -Hk. unfold pat_of. induction k as [|x k IH]; [reflexivity|].
  cbn [existsb] in Hk. apply orb_false_iff in Hk as [Hx Hk]. cbn [map length repeat]. f_equal; [|apply IH, Hk].
  destruct x; [reflexivity|discriminate].
Qed.

(* non-vacuity: two levels, sparse combinations, margins for level 1 only, integer addition *)
Example margins_example :
  let D := [([Some 0; Some 0], 1); ([Some 0; Some 1], 2); ([Some 1; Some 1], 4)]%Z in
  add_row_margin Z.add 2 [1] D
  = (D ++ [([Some 0; None], 3); ([Some 1; None], 4)])%Z /\
  map fst (add_row_margin Z.add 2 [0; 1] D)
  = (map fst D ++ [[None; Some 0]; [None; Some 1]; [None; None]; [Some 0; None]; [Some 1; None]; [None; None]])%Z.
Proof. split; vm_compute; reflexivity. Qed.
