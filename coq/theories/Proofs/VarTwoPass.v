(* C20 - a rounding bound for the second pass of the two-pass variance (nanops.nanvar), in the standard model of
   floating-point arithmetic used by Proofs/VarFloat.v (every operation returns the exact result times (1 + delta), |delta| <= u).
   Data x_1..x_n, centre c (the computed mean; its distance delta = c - mean from the true mean is a parameter):
       d_i = fl(x_i - c),   q_i = fl(d_i * d_i),   Q = the q_i added up in ANY bracketing (threads, pairwise, sequential).
   * each q_i is (x_i - c)^2 up to the relative error u3 = (1 + u)^3 - 1;
   * Q is  sum (x_i - c)^2  up to the relative error  E_{u3}(height + 1);
   * sum (x_i - c)^2 = S + n delta^2  with  S = sum (x_i - mean)^2  (MomentsProofs.two_pass_centre), hence
         | Q - S |  <=  E * (S + n delta^2) + n delta^2 :
     first order in the variance itself; the OFFSET of the data enters only through the square of the rounding error of the mean.
   This is the bound behind the slack of the comparison with NumPy in harness/props/c20.py.  Exact rationals (Q), no axioms. *)
From Coq Require Import QArith Qabs Lqa Lia List.
From GL Require Import Model.Moments Proofs.MomentsProofs Proofs.VarFloat.
Import ListNotations.
Open Scope Q_scope.

Section TwoPass.
Variable u : Q.
Hypothesis u_nonneg : 0 <= u.
Variable rnd : Q -> Q.
Hypothesis rnd_err : forall x B, -B <= x <= B -> -(u * B) <= rnd x - x <= u * B.

Definition u3 : Q := (1 + u) * ((1 + u) * (1 + u)) - 1.

Lemma u_le_u3 : u <= u3.
Proof. unfold u3. nra. Qed.
Lemma u3_nonneg : 0 <= u3.
Proof. pose proof u_le_u3. lra. Qed.

(* the same rounding function also meets the (weaker) model with unit u3 *)
Lemma rnd_err3 : forall x B, -B <= x <= B -> -(u3 * B) <= rnd x - x <= u3 * B.
Proof.
  intros x B HB. pose proof (rnd_err x B HB) as H. pose proof u_le_u3 as H3.
  assert (0 <= B) by lra. split; nra.
Qed.

Lemma Qabs_sq d : Qabs d * Qabs d == d * d.
Proof.
  destruct (Qlt_le_dec d 0) as [H|H].
  - rewrite (Qabs_neg d) by lra. ring.
  - rewrite (Qabs_pos d) by lra. ring.
Qed.

(* one leaf: the rounded square of the rounded deviation *)
Lemma leaf_dev d : near (rnd (rnd d * rnd d)) (d * d) (u3 * Qabs (d * d)).
Proof.
  assert (Hb : bnd d (Qabs d)).
  { unfold bnd. pose proof (Qle_Qabs d). pose proof (Qle_Qabs (- d)) as H2. rewrite Qabs_opp in H2. lra. }
  assert (Hn : near (rnd d) d (u * Qabs d)).
  { unfold near. unfold bnd in Hb. exact (rnd_err d (Qabs d) Hb). }
  assert (He : 0 <= u * Qabs d) by (pose proof (Qabs_nonneg d); nra).
  pose proof (approx_sq u rnd rnd_err (rnd d) d (u * Qabs d) (Qabs d) He Hn Hb) as H.
  unfold near in *.
  assert (Hsq : Qabs (d * d) == d * d).
  { apply Qabs_pos. destruct (Qlt_le_dec d 0); nra. }
  pose proof (Qabs_sq d) as Ha. pose proof (Qabs_nonneg d) as Hp.
  assert (Hbound : u * Qabs d * (2 * Qabs d + u * Qabs d) + u * (Qabs d * Qabs d + u * Qabs d * (2 * Qabs d + u * Qabs d))
                   == u3 * Qabs (d * d)).
  { rewrite Hsq. unfold u3.
    setoid_replace (u * Qabs d * (2 * Qabs d + u * Qabs d) + u * (Qabs d * Qabs d + u * Qabs d * (2 * Qabs d + u * Qabs d)))
      with ((Qabs d * Qabs d) * ((1 + u) * ((1 + u) * (1 + u)) - 1)) by ring.
    rewrite Ha. ring. }
  rewrite <- Hbound. exact H.
Qed.

(* a summation tree whose leaves are the rounded squared deviations of the data from c, in order *)
Fixpoint dev_tree (c : Q) (t : stree) (xs : list Q) : Prop :=
  match t with
  | Leaf xh x => exists d, xs = [d] /\ xh = rnd (rnd (d - c) * rnd (d - c)) /\ x = (d - c) * (d - c)
  | Node l r => exists xs1 xs2, xs = xs1 ++ xs2 /\ dev_tree c l xs1 /\ dev_tree c r xs2
  end.

Lemma dev_tree_leaves c t : forall xs, dev_tree c t xs -> leaves_ok u3 t.
Proof.
  induction t as [xh x|l IHl r IHr]; intros xs H; cbn [dev_tree leaves_ok] in *.
  - destruct H as [d [_ [-> ->]]]. apply leaf_dev.
  - destruct H as [xs1 [xs2 [_ [H1 H2]]]]. split; eauto.
Qed.

Lemma qsum_app l1 l2 : qsum (l1 ++ l2) == qsum l1 + qsum l2.
Proof. unfold qsum. induction l1 as [|x t IH]; cbn [app fold_right]; [ring|]. rewrite IH. ring. Qed.

Lemma dev_tree_exact c t : forall xs, dev_tree c t xs ->
  exact t == qsum (map (fun x => qsq (x - c)) xs) /\ asum t == qsum (map (fun x => qsq (x - c)) xs).
Proof.
  induction t as [xh x|l IHl r IHr]; intros xs H; cbn [dev_tree exact asum] in *.
  - destruct H as [d [-> [_ ->]]]. cbn [map qsum fold_right]. unfold qsq.
    assert (Qabs ((d - c) * (d - c)) == (d - c) * (d - c)) as ->.
    { apply Qabs_pos. destruct (Qlt_le_dec (d - c) 0); nra. }
    split; ring.
  - destruct H as [xs1 [xs2 [-> [H1 H2]]]]. destruct (IHl _ H1) as [E1 A1]. destruct (IHr _ H2) as [E2 A2].
    rewrite map_app, qsum_app, E1, E2, A1, A2. split; reflexivity.
Qed.

(* the computed sum of squares against the exact sum of squares around the SAME centre c *)
Theorem second_pass_error c t xs : dev_tree c t xs ->
  near (fl rnd t) (qsum (map (fun x => qsq (x - c)) xs)) (E u3 (S (height t)) * qsum (map (fun x => qsq (x - c)) xs)).
Proof.
  intros H. destruct (dev_tree_exact c t xs H) as [He Ha].
  pose proof (sum_error u3 u3_nonneg rnd rnd_err3 t (dev_tree_leaves c t xs H)) as Hs.
  unfold near in *. rewrite He, Ha in Hs. exact Hs.
Qed.

(* ... and against the exact sum of squares around the TRUE mean: the centre's error enters squared *)
Theorem two_pass_error c t xs : xs <> [] -> dev_tree c t xs ->
  let S := qsum (map (fun x => qsq (x - qmean xs)) xs) in
  let nd2 := qlen xs * qsq (c - qmean xs) in
  near (fl rnd t) S (E u3 (Datatypes.S (height t)) * (S + nd2) + nd2).
Proof.
  intros Hne H. cbv zeta. pose proof (second_pass_error c t xs H) as Hs.
  pose proof (two_pass_centre c xs Hne) as Hc. unfold near in *. rewrite Hc in Hs.
  assert (0 <= qlen xs * qsq (c - qmean xs)).
  { apply Qmult_le_0_compat; [apply qlen_nonneg|]. unfold qsq. set (z := c - qmean xs). destruct (Qlt_le_dec z 0); nra. }
  pose proof (E_nonneg u3 u3_nonneg (Datatypes.S (height t))).
  set (A := qsum (map (fun x => qsq (x - qmean xs)) xs)) in *. set (B := qlen xs * qsq (c - qmean xs)) in *.
  set (P := E u3 (Datatypes.S (height t))) in *. lra.
Qed.
End TwoPass.

(* non-vacuity: with u = 0 and the identity as rounding the bound collapses to equality, and dev_tree is inhabited *)
Example two_pass_exact_instance :
  dev_tree (fun x => x) 2 (Node (Leaf ((1 - 2) * (1 - 2)) ((1 - 2) * (1 - 2))) (Leaf ((3 - 2) * (3 - 2)) ((3 - 2) * (3 - 2)))) [1; 3].
Proof. cbn [dev_tree]. exists [1], [3]. repeat split; eexists; repeat split; reflexivity. Qed.
