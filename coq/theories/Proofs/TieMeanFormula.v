(* Tie B: util.mean_from_sum_count *)
From Coq Require Import List ZArith String.
From GL Require Import Model.Moments Gen.TablesGen.

Lemma tie_mean_formula : gen_mean_formula = mean_formula.
Proof. reflexivity. Qed.
