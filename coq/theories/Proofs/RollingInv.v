(* C09 — the circular buffer of the rolling kernels (Model/Rolling.v), for one group's series of
   selected rows.  After the values l (in row order) have been processed, with window w >= 1:
     - the write position is |l| mod w and |l| rows have been seen (capped at w);
     - slot j of the buffer holds the most recent value written at a row number = j (mod w);
     - in particular the cell about to be overwritten, once the window is full, holds the value
       seen w rows earlier — the one leaving the window;
   hence shift returns exactly that value, diff the difference to it, and the running sum /
   non-null count of the sum kernel are those of the last w values. *)
From Coq Require Import List ZArith Lia Bool Arith.
From GL Require Import Lib.Arr Lib.Keyed Model.Dom Model.Rolling Spec.Defs Proofs.ReduceSeries Proofs.ReduceMerge Proofs.NanopsProofs.
Import ListNotations.
Open Scope Z_scope.

Section Buffer.
Context {V : Type} (nullv : V).

(* what the three kernels do to (buffer, position): write at pos, advance modulo the window *)
Definition buf_step (w : nat) (bp : list V * nat) (v : V) : list V * nat :=
  (upd (fst bp) (snd bp) v, ((S (snd bp)) mod w)%nat).
Definition buf_of (w : nat) (l : list V) : list V * nat := fold_left (buf_step w) l (repeat nullv w, 0%nat).

Lemma buf_of_snoc w l v : buf_of w (l ++ [v]) = buf_step w (buf_of w l) v.
Proof. unfold buf_of. now rewrite fold_left_app. Qed.

Lemma buf_of_shape w l : (0 < w)%nat -> length (fst (buf_of w l)) = w /\ snd (buf_of w l) = (length l mod w)%nat.
Proof.
  intros Hw. induction l as [|v l IH] using rev_ind.
  - simpl. rewrite repeat_length. split; auto. symmetry. apply Nat.mod_0_l. lia.
  - rewrite buf_of_snoc. destruct IH as [H1 H2]. unfold buf_step. cbn [fst snd].
    rewrite upd_length, H2, app_length. cbn [length]. split; auto.
    rewrite Nat.add_1_r. rewrite <- Nat.add_1_r. rewrite <- (Nat.add_1_r (length l)).
    rewrite Nat.add_mod_idemp_l by lia. reflexivity.
Qed.

Lemma mod_shift_neq w i d : (0 < d < w)%nat -> ((i + d) mod w <> i mod w)%nat.
Proof.
  intros Hd E.
  assert (Hw : (w <> 0)%nat) by lia.
  pose proof (Nat.div_mod (i + d) w Hw) as A. pose proof (Nat.div_mod i w Hw) as B.
  rewrite E in A.
  assert (d = w * ((i + d) / w) - w * (i / w))%nat by lia.
  assert (Hle : (i / w <= (i + d) / w)%nat) by (apply Nat.div_le_mono; lia).
  assert (d = w * ((i + d) / w - i / w))%nat by (rewrite Nat.mul_sub_distr_l; lia).
  destruct ((i + d) / w - i / w)%nat; nia.
Qed.

(* the last w values sit in their slots *)
Theorem recent_values_in_slots w l : (0 < w)%nat ->
  forall i, (i < length l)%nat -> (length l <= i + w)%nat ->
  get nullv (fst (buf_of w l)) (i mod w) = nth i l nullv.
Proof.
  intros Hw. induction l as [|v l IH] using rev_ind; intros i Hi Hr; [simpl in Hi; lia|].
  rewrite app_length in *. cbn [length] in *.
  rewrite buf_of_snoc. unfold buf_step. cbn [fst].
  destruct (buf_of_shape w l Hw) as [Hlen Hpos]. rewrite Hpos.
  destruct (Nat.eq_dec i (length l)) as [e|ne].
  - subst i. rewrite get_upd_eq by (rewrite Hlen; apply Nat.mod_upper_bound; lia).
    rewrite app_nth2 by lia. now rewrite Nat.sub_diag.
  - rewrite get_upd_neq.
    + rewrite app_nth1 by lia. apply IH; lia.
    + replace (length l) with (i + (length l - i))%nat at 1 by lia. apply mod_shift_neq. lia.
Qed.

(* the cell about to be overwritten, once w rows have been seen: the value seen w rows earlier *)
Corollary evicted_value w l : (0 < w)%nat -> (w <= length l)%nat ->
  get nullv (fst (buf_of w l)) (snd (buf_of w l)) = nth (length l - w) l nullv.
Proof.
  intros Hw Hfull. destruct (buf_of_shape w l Hw) as [_ Hpos]. rewrite Hpos.
  replace (length l mod w)%nat with ((length l - w) mod w)%nat.
  - apply recent_values_in_slots; lia.
  - replace (length l) with ((length l - w) + 1 * w)%nat at 2 by lia. now rewrite Nat.mod_add by lia.
Qed.
End Buffer.

(* ---- shift / diff: exactly the value `window` group-rows earlier ---- *)
Section Shift.
Context {V : Type} (o : ops V).

Definition run_shift (w : nat) (want_shift : bool) (l : list V) : rcell :=
  sfold (shift_step o w want_shift) {| buf := repeat (null o) w; pos := 0; non_null := 0; n_seen := 0; acc := null o |}
        (map (fun v => (v, true)) l).

Lemma run_shift_snoc w ws l v : run_shift w ws (l ++ [v]) = fst (shift_step o w ws (run_shift w ws l) (v, true)).
Proof. unfold run_shift, sfold. now rewrite map_app, fold_left_app. Qed.

Lemma shift_state w ws l : (0 < w)%nat ->
  (buf (run_shift w ws l), pos (run_shift w ws l)) = buf_of (null o) w l /\
  n_seen (run_shift w ws l) = Z.of_nat (Nat.min (length l) w).
Proof.
  intros Hw. induction l as [|v l IH] using rev_ind.
  - split; reflexivity.
  - rewrite run_shift_snoc, buf_of_snoc. destruct IH as [IHb IHn].
    unfold shift_step. cbn [negb fst buf pos n_seen]. rewrite <- IHb. unfold buf_step. cbn [fst snd]. split; [reflexivity|].
    rewrite IHn, app_length. cbn [length].
    destruct (Z.of_nat w <=? Z.of_nat (Nat.min (length l) w)) eqn:E; [apply Z.leb_le in E | apply Z.leb_gt in E]; lia.
Qed.

(* selected row number |l| of the group (0-based) receives: null while fewer than w earlier rows exist,
   otherwise the value of row |l| - w (shift) or the difference to it (diff) *)
Theorem shift_output w ws l v : (0 < w)%nat ->
  snd (shift_step o w ws (run_shift w ws l) (v, true)) =
    if (length l <? w)%nat then null o
    else let old := nth (length l - w) l (null o) in
         if ws then old else if is_null o v || is_null o old then null o else sub o v old.
Proof.
  intros Hw. destruct (shift_state w ws l Hw) as [Hb Hn].
  unfold shift_step. cbn [negb snd]. rewrite Hn.
  assert (Ebuf : buf (run_shift w ws l) = fst (buf_of (null o) w l)) by (now rewrite <- Hb).
  assert (Epos : pos (run_shift w ws l) = snd (buf_of (null o) w l)) by (now rewrite <- Hb).
  destruct (length l <? w)%nat eqn:E; [apply Nat.ltb_lt in E | apply Nat.ltb_ge in E].
  - replace (Z.of_nat w <=? Z.of_nat (Nat.min (length l) w)) with false by (symmetry; apply Z.leb_gt; lia). reflexivity.
  - replace (Z.of_nat w <=? Z.of_nat (Nat.min (length l) w)) with true by (symmetry; apply Z.leb_le; lia).
    rewrite Ebuf, Epos, evicted_value by auto. reflexivity.
Qed.
End Shift.

(* ---- rolling sum / mean: running sum and non-null count of the last w values ---- *)
Lemma skipn_cons_nth {A} (d : A) n (l : list A) : (n < length l)%nat -> skipn n l = nth n l d :: skipn (S n) l.
Proof.
  revert n. induction l as [|x l IH]; intros [|n] H; simpl in *; try lia; auto. apply IH. lia.
Qed.

Definition lastn {A} (n : nat) (l : list A) : list A := skipn (length l - n) l.

Lemma lastn_snoc_short {A} w (l : list A) v : (length l < w)%nat -> lastn w (l ++ [v]) = lastn w l ++ [v].
Proof.
  intros H. unfold lastn. rewrite app_length. cbn [length].
  replace (length l + 1 - w)%nat with 0%nat by lia. replace (length l - w)%nat with 0%nat by lia. reflexivity.
Qed.

Lemma lastn_snoc_full {A} (d : A) w (l : list A) v : (0 < w)%nat -> (w <= length l)%nat ->
  lastn w l = nth (length l - w) l d :: skipn (S (length l - w)) l /\
  lastn w (l ++ [v]) = skipn (S (length l - w)) l ++ [v].
Proof.
  intros Hw H. unfold lastn. split.
  - apply skipn_cons_nth. lia.
  - rewrite app_length. cbn [length]. replace (length l + 1 - w)%nat with (S (length l - w)) by lia.
    rewrite skipn_app. replace (S (length l - w) - length l)%nat with 0%nat by lia. reflexivity.
Qed.

Section Sum.
Context {V : Type} (o : ops V) (L : laws o).

Definition run_sum (w : nat) (mp : Z) (want_mean : bool) (l : list V) : rcell :=
  sfold (sum_step o w mp want_mean) {| buf := repeat (null o) w; pos := 0; non_null := 0; n_seen := 0; acc := zero o |}
        (map (fun v => (v, true)) l).

Lemma run_sum_snoc w mp wm l v : run_sum w mp wm (l ++ [v]) = fst (sum_step o w mp wm (run_sum w mp wm l) (v, true)).
Proof. unfold run_sum, sfold. now rewrite map_app, fold_left_app. Qed.

Lemma sum_list_cons_nonnull x l : sum_list o (x :: l) = add o x (sum_list o l).
Proof.
  unfold sum_list. simpl. rewrite (add_zero_l o L).
  rewrite <- (add_zero_r o L x) at 1. rewrite (fold_add_shift o L). reflexivity.
Qed.

Lemma sum_list_snoc l x : sum_list o (l ++ [x]) = add o (sum_list o l) x.
Proof. rewrite (sum_list_app o L). unfold sum_list at 2. simpl. now rewrite (add_zero_l o L). Qed.

Definition window_sum (q : list V) : V := sum_list o (nonnull o q).
Definition window_nn (q : list V) : Z := Z.of_nat (length (nonnull o q)).

Lemma window_snoc q v :
  window_sum (q ++ [v]) = (if is_null o v then window_sum q else add o (window_sum q) v) /\
  window_nn (q ++ [v]) = (if is_null o v then window_nn q else window_nn q + 1).
Proof.
  unfold window_sum, window_nn. rewrite (nonnull_app o).
  assert (E : nonnull o [v] = if is_null o v then [] else [v]) by (unfold nonnull; simpl; destruct (is_null o v); reflexivity).
  rewrite E. destruct (is_null o v).
  - rewrite !app_nil_r. split; reflexivity.
  - rewrite sum_list_snoc, app_length. simpl. split; [reflexivity|lia].
Qed.

Lemma window_cons x q :
  window_sum (x :: q) = (if is_null o x then window_sum q else add o x (window_sum q)) /\
  window_nn (x :: q) = (if is_null o x then window_nn q else window_nn q + 1).
Proof.
  unfold window_sum, window_nn, nonnull. simpl. destruct (is_null o x); simpl.
  - split; reflexivity.
  - rewrite sum_list_cons_nonnull. split; [reflexivity|lia].
Qed.

(* subtracting the value that leaves gives back the sum of what stays: exact for integers (also when a running
   sum passes through the timestamp sentinel: the kernel never inspects its accumulator); for floats in the exact
   regime, where the sum of what stays is a number *)
Hypothesis cancel : forall old q, is_null o old = false -> sub o (add o old (window_sum q)) old = window_sum q.

Theorem sum_state w mp wm l : (0 < w)%nat ->
  let c := run_sum w mp wm l in
  (buf c, pos c) = buf_of (null o) w l /\ n_seen c = Z.of_nat (Nat.min (length l) w) /\
  acc c = window_sum (lastn w l) /\ non_null c = window_nn (lastn w l).
Proof.
  intros Hw. induction l as [|v l IH] using rev_ind.
  - cbv zeta. repeat split; reflexivity.
  - cbv zeta in *. rewrite run_sum_snoc, buf_of_snoc. destruct IH as [IHb [IHn [IHa IHc]]].
    assert (Ebuf : buf (run_sum w mp wm l) = fst (buf_of (null o) w l)) by (now rewrite <- IHb).
    assert (Epos : pos (run_sum w mp wm l) = snd (buf_of (null o) w l)) by (now rewrite <- IHb).
    unfold sum_step. cbn [negb fst buf pos n_seen acc non_null]. rewrite IHn.
    split; [rewrite <- IHb; reflexivity|].
    destruct (Nat.lt_ge_cases (length l) w) as [Hs|Hf].
    + (* window not yet full: nothing leaves *)
      replace (Z.of_nat w <=? Z.of_nat (Nat.min (length l) w)) with false by (symmetry; apply Z.leb_gt; lia).
      cbn [andb]. rewrite lastn_snoc_short by auto. destruct (window_snoc (lastn w l) v) as [Ws Wn].
      rewrite Ws, Wn, IHa, IHc, app_length. cbn [length].
      destruct (is_null o v); cbn [negb]; (split; [lia|split; reflexivity]).
    + (* full: the value seen w rows earlier leaves *)
      replace (Z.of_nat w <=? Z.of_nat (Nat.min (length l) w)) with true by (symmetry; apply Z.leb_le; lia).
      cbn [andb]. rewrite Ebuf, Epos, evicted_value by auto.
      destruct (lastn_snoc_full (null o) w l v Hw Hf) as [Eq Eq'].
      set (old := nth (length l - w) l (null o)) in *. set (rest := skipn (S (length l - w)) l) in *.
      rewrite Eq', IHa, IHc, Eq, app_length. cbn [length].
      destruct (window_cons old rest) as [Cs Cn]. destruct (window_snoc rest v) as [Ws Wn].
      rewrite Cs, Cn, Ws, Wn.
      split; [lia|].
      destruct (is_null o old) eqn:Eo; cbn [negb].
      * destruct (is_null o v); cbn [negb]; split; reflexivity.
      * rewrite cancel by auto.
        destruct (is_null o v); cbn [negb]; split; try reflexivity; lia.
Qed.

(* output at selected row number |l| of the group: the sum (mean) of the non-null values among the last
   w selected rows ending at it, null unless at least min_periods of them are non-null *)
Theorem sum_output w mp wm l v : (0 < w)%nat ->
  snd (sum_step o w mp wm (run_sum w mp wm l) (v, true)) =
    let q := lastn w (l ++ [v]) in
    if mp <=? window_nn q then (if wm then divc o (window_sum q) (window_nn q) else window_sum q) else null o.
Proof.
  intros Hw.
  pose proof (sum_state w mp wm (l ++ [v]) Hw) as H. cbv zeta in H. destruct H as [_ [_ [Ha Hc]]].
  rewrite run_sum_snoc in Ha, Hc.
  unfold sum_step in *. cbn [negb fst snd acc non_null] in *. cbv zeta. rewrite <- Ha, <- Hc. reflexivity.
Qed.
End Sum.

(* the two extra laws, for the value domains of the model *)
From Coq Require Import QArith Qcanon.
Lemma fops_add_comm a b : add fops a b = add fops b a.
Proof. destruct a, b; simpl; auto. f_equal. apply Qcplus_comm. Qed.
Lemma fops_sub_add_cancel a b : is_null fops a = false -> is_null fops b = false -> sub fops (add fops a b) a = b.
Proof. destruct a, b; simpl; try discriminate. intros _ _. f_equal. ring. Qed.
Lemma zops_add_comm nullable nullv a b : add (zops nullable nullv) a b = add (zops nullable nullv) b a.
Proof. simpl. lia. Qed.
Lemma zops_sub_add_cancel nullable nullv a b : sub (zops nullable nullv) (add (zops nullable nullv) a b) a = b.
Proof. simpl. lia. Qed.

(* the cancellation law for the two value domains *)
Lemma zops_cancel nullable nullv old q : is_null (zops nullable nullv) old = false ->
  sub (zops nullable nullv) (add (zops nullable nullv) old (window_sum (zops nullable nullv) q)) old = window_sum (zops nullable nullv) q.
Proof. intros _. apply zops_sub_add_cancel. Qed.
Lemma fops_cancel old q : is_null fops old = false ->
  sub fops (add fops old (window_sum fops q)) old = window_sum fops q.
Proof.
  intros H. apply fops_sub_add_cancel; auto.
  unfold window_sum. apply (sum_list_nonnull fops fops_sum_closed). intros x Hx. eapply nn_nonnull; eauto.
Qed.
