(* C02 - the mixed-radix weights in 64-bit arithmetic.
   [code_weights_i64] is what NumPy computes (cumprod wraps around).  As long as the cartesian product of the label counts
   is below 2^63 it equals the exact [code_weights] the injectivity theorems are about (factorize_2d guarantees < 2^62 by
   folding leading keys together); beyond that the weights are NOT injective - refuted with the witness that was replayed on
   the implementation before the repair: four keys of 70000 labels each, rows (0,0,5,20000) and (0,0,6,3781). *)
From Coq Require Import List ZArith Lia.
From GL Require Import Lib.Arr Model.Factorize Proofs.CombineProofs.
Import ListNotations.
Open Scope Z_scope.

Lemma wrap_i64_small z : - 2 ^ 63 <= z < 2 ^ 63 -> wrap_i64 z = z.
Proof. intros H. unfold wrap_i64. rewrite Z.mod_small; lia. Qed.

Lemma prod_pos l : Forall (fun s => 0 < s) l -> 0 < prod l.
Proof.
  induction l as [|x t IH]; intros H; [unfold prod; cbn; lia|].
  inversion H; subst. rewrite prod_cons. apply Z.mul_pos_pos; auto.
Qed.

(* without overflow the wrapped running products are the exact ones *)
Lemma cumprod_exact shape : forall acc, 0 < acc -> Forall (fun s => 0 < s) shape -> acc * prod shape < 2 ^ 63 ->
  cumprod_i64 acc shape = map (fun i => acc * prod (firstn (S i) shape)) (seq 0 (length shape)).
Proof.
  induction shape as [|s t IH]; intros acc Ha Hs Hb; [reflexivity|].
  inversion Hs as [|? ? Hs0 Hst]; subst. cbn [cumprod_i64 length seq map firstn].
  rewrite prod_cons in Hb. pose proof (prod_pos t Hst) as Hp.
  assert (Has : acc * s < 2 ^ 63) by nia.
  rewrite wrap_i64_small by nia.
  f_equal.
  - unfold prod. cbn [fold_left]. lia.
  - rewrite IH; [|nia|assumption|nia]. rewrite <- seq_shift, map_map. apply map_ext. intros i.
    cbn [firstn]. rewrite !prod_cons. lia.
Qed.

Lemma prod_nil : prod [] = 1.
Proof. reflexivity. Qed.

Lemma prod_firstn_skipn l : forall i, prod (firstn i l) * prod (skipn i l) = prod l.
Proof.
  induction l as [|x t IH]; intros [|i]; cbn [firstn skipn]; rewrite ?prod_nil; try lia.
  rewrite !prod_cons, <- (IH i). lia.
Qed.

Lemma code_weights_as_suffix shape : code_weights shape = map (fun i => prod (skipn (S i) shape)) (seq 0 (length shape)).
Proof.
  induction shape as [|s t IH]; [reflexivity|]. cbn [code_weights length seq map skipn].
  f_equal. rewrite IH, <- seq_shift, map_map. reflexivity.
Qed.

Theorem code_weights_i64_exact shape : shape <> [] -> Forall (fun s => 0 < s) shape -> prod shape < 2 ^ 63 ->
  code_weights_i64 shape = code_weights shape.
Proof.
  intros Hne Hs Hb. unfold code_weights_i64. rewrite (cumprod_exact shape 1); [|lia|assumption|lia].
  rewrite code_weights_as_suffix, map_map.
  assert (Hlast : last (map (fun i => 1 * prod (firstn (S i) shape)) (seq 0 (length shape))) 1 = prod shape).
  { destruct shape as [|s t]; [congruence|]. cbn [length]. rewrite seq_S, map_app. cbn [map]. rewrite last_last.
    rewrite firstn_all2 by (cbn [length]; lia). lia. }
  rewrite Hlast. apply map_ext_in. intros i Hi. apply in_seq in Hi.
  rewrite Z.mul_1_l. rewrite <- (prod_firstn_skipn shape (S i)).
  assert (0 < prod (firstn (S i) shape)).
  { apply prod_pos. apply Forall_forall. intros x Hx. rewrite Forall_forall in Hs. apply Hs.
    rewrite <- (firstn_skipn (S i) shape). apply in_or_app. now left. }
  rewrite Z.mul_comm. apply Z.div_mul. lia.
Qed.

(* beyond 2^63 the wrapped weights merge unrelated tuples *)
Theorem wrapped_weights_refuted :
  exists shape c1 c2, in_range shape c1 /\ in_range shape c2 /\ c1 <> c2 /\
    weight_code_sum c1 (code_weights_i64 shape) = weight_code_sum c2 (code_weights_i64 shape).
Proof.
  exists [70000; 70000; 70000; 70000], [0; 0; 5; 20000], [0; 0; 6; 3781].
  split; [|split; [|split]].
  - repeat constructor; lia.
  - repeat constructor; lia.
  - intros H. inversion H.
  - vm_compute. reflexivity.
Qed.
