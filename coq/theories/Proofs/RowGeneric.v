(* For every row-aligned kernel written as a keyed scan:
   (C05) a boolean mask is equivalent to filtering the rows first — the outputs at
         the selected rows are the outputs of the kernel run on the selected rows;
   (C06) rows with a null (negative) key influence nothing — the outputs at the
         other rows are the outputs of the kernel run with those rows deleted, and
         a null-key row itself receives the constant marker. *)
From Coq Require Import List ZArith Lia Bool Arith QArith Qcanon.
From GL Require Import Lib.Arr Lib.Keyed Model.Dom Model.Scalar Model.Cumulative Model.Rolling Model.Ema.
Import ListNotations.
Open Scope Z_scope.

(* a[m] for a boolean mask m *)
Definition filter_by {A} (m : list bool) (l : list A) : list A := map fst (filter snd (combine l m)).

Lemma filter_by_length {A B} (m : list bool) (l1 : list A) (l2 : list B) :
  length l1 = length m -> length l2 = length m -> length (filter_by m l1) = length (filter_by m l2).
Proof.
  unfold filter_by. revert l1 l2; induction m as [|b m IH]; intros [|x l1] [|y l2] H1 H2; simpl in *; try lia; auto.
  destruct b; simpl; [f_equal|]; apply (IH l1 l2); lia.
Qed.

(* selecting the rows of the masked kernel = building the rows of the filtered data *)
Lemma mk_rows_filter {A} (m : list bool) : forall (gk : list Z) (vals : list A),
  length gk = length m -> length vals = length m ->
  filter (fun r : Z * (A * bool) => snd (snd r)) (mk_rows gk vals (Some m))
  = mk_rows (filter_by m gk) (filter_by m vals) None.
Proof.
  unfold mk_rows, filter_by, mask_list.
  induction m as [|b m IH]; intros [|k gk] [|v vals] Hg Hv; simpl in *; try lia; auto.
  destruct b; simpl.
  - f_equal. rewrite IH by lia. reflexivity.
  - apply IH; lia.
Qed.

Lemma mk_rows_none_sel {A} (gk : list Z) (vals : list A) r :
  In r (mk_rows gk vals None) -> snd (snd r) = true.
Proof.
  unfold mk_rows, mask_list. intros H. destruct r as [k [v s]]. simpl.
  apply in_combine_r in H. apply in_combine_r in H. now apply repeat_spec in H.
Qed.

Section Generic.
Variables (St A O : Type).
Variable d : St.
Variable sstep : St -> A * bool -> St * O.
Variable skip : O.

Definition run (gk : list Z) (vals : list A) (ng : nat) (mask : option (list bool)) : list O :=
  kscan d sstep skip (mk_rows gk vals mask) (repeat d ng).

(* C05 for a kernel whose unselected rows leave the group's cell alone *)
Theorem mask_is_filter gk vals ng m :
  (forall s v, fst (sstep s (v, false)) = s) ->
  length gk = length m -> length vals = length m ->
  filter_by m (run gk vals ng (Some m)) = run (filter_by m gk) (filter_by m vals) ng None.
Proof.
  intros Hno Hg Hv. unfold run.
  rewrite <- mk_rows_filter by auto.
  rewrite <- (kscan_filter d sstep skip (fun r => snd (snd r))).
  2:{ intros k [v b] E. simpl in E. rewrite E. right. intros s0. apply Hno. }
  unfold filter_by.
  set (outs := kscan d sstep skip (mk_rows gk vals (Some m)) (repeat d ng)).
  assert (Hlen : length outs = length m).
  { unfold outs. rewrite kscan_length. unfold mk_rows, mask_list. rewrite !combine_length. lia. }
  clearbody outs. unfold mk_rows, mask_list.
  revert gk vals outs Hg Hv Hlen. induction m as [|b m IH]; intros [|k gk] [|v vals] [|x outs] Hg Hv Hl; simpl in *; try lia; auto.
  destruct b; simpl; [f_equal|]; apply IH; lia.
Qed.

(* C06: deleting the null-key rows changes no other row's output *)
Definition nonnull_key (gk : list Z) : list bool := map (fun k => 0 <=? k) gk.

Theorem null_rows_irrelevant gk vals ng mask :
  length vals = length gk -> length (mask_list (length gk) mask) = length gk ->
  filter_by (nonnull_key gk) (run gk vals ng mask)
  = kscan d sstep skip (filter (fun r : Z * (A * bool) => 0 <=? fst r) (mk_rows gk vals mask)) (repeat d ng).
Proof.
  intros Hv Hm. unfold run.
  rewrite <- (kscan_filter d sstep skip (fun r => 0 <=? fst r)).
  2:{ intros k r E. simpl in E. left. apply Z.leb_gt in E. lia. }
  unfold filter_by, nonnull_key.
  set (outs := kscan d sstep skip (mk_rows gk vals mask) (repeat d ng)).
  assert (Hlen : length outs = length gk).
  { unfold outs. rewrite kscan_length. unfold mk_rows. rewrite !combine_length. lia. }
  clearbody outs. unfold mk_rows. revert Hm. generalize (mask_list (length gk) mask) as ml. intros ml Hml.
  revert vals ml outs Hv Hml Hlen. induction gk as [|k gk IH]; intros [|v vals] [|b ml] [|x outs] Hv Hml Hl; simpl in *; try lia; auto.
  destruct (0 <=? k); simpl; [f_equal|]; apply IH; lia.
Qed.

(* ... and a null-key row itself receives the constant marker *)
Theorem null_row_marker gk vals ng mask i (o0 : O) k r :
  nth_error (mk_rows gk vals mask) i = Some (k, r) -> k < 0 ->
  nth i (run gk vals ng mask) o0 = skip.
Proof. intros H Hk. unfold run. eapply kscan_nth_null; eauto. Qed.

End Generic.

(* ---- the same statement with the kernel re-run on the data without the null-key rows ---- *)
Lemma filter_by_nil {A} (l : list A) : filter_by [] l = [].
Proof. unfold filter_by. destruct l; reflexivity. Qed.

Lemma mk_rows_drop_null_some {A} (gk : list Z) : forall (vals : list A) (m : list bool),
  length vals = length gk -> length m = length gk ->
  filter (fun r : Z * (A * bool) => 0 <=? fst r) (combine gk (combine vals m))
  = combine (filter_by (nonnull_key gk) gk) (combine (filter_by (nonnull_key gk) vals) (filter_by (nonnull_key gk) m)).
Proof.
  unfold filter_by, nonnull_key.
  induction gk as [|k gk IH]; intros [|v vals] [|b m] Hv Hm; simpl in *; try lia; auto.
  destruct (0 <=? k); simpl; [f_equal|]; apply IH; lia.
Qed.

Lemma filter_by_repeat_true (bs : list bool) : filter_by bs (repeat true (length bs)) = repeat true (length (filter_by bs bs)).
Proof.
  unfold filter_by. induction bs as [|b bs IH]; simpl; auto.
  destruct b; simpl; [f_equal|]; apply IH.
Qed.

Lemma filter_by_self_length {A} (bs : list bool) (l : list A) :
  length l = length bs -> length (filter_by bs l) = length (filter_by bs bs).
Proof. intros H. apply filter_by_length; auto. Qed.

Definition drop_null_mask (gk : list Z) (mask : option (list bool)) : option (list bool) :=
  option_map (filter_by (nonnull_key gk)) mask.

Lemma mk_rows_drop_null {A} (gk : list Z) (vals : list A) mask :
  length vals = length gk -> length (mask_list (length gk) mask) = length gk ->
  filter (fun r : Z * (A * bool) => 0 <=? fst r) (mk_rows gk vals mask)
  = mk_rows (filter_by (nonnull_key gk) gk) (filter_by (nonnull_key gk) vals) (drop_null_mask gk mask).
Proof.
  intros Hv Hm. unfold mk_rows. rewrite mk_rows_drop_null_some by auto.
  f_equal. f_equal. destruct mask as [m|]; simpl; auto.
  assert (Hn : length (nonnull_key gk) = length gk) by (unfold nonnull_key; now rewrite map_length).
  rewrite <- Hn at 1. rewrite filter_by_repeat_true.
  f_equal. symmetry. apply filter_by_self_length. lia.
Qed.

Section Generic2.
Variables (St A O : Type).
Variable d : St.
Variable sstep : St -> A * bool -> St * O.
Variable skip : O.

Theorem null_rows_deleted gk vals ng mask :
  length vals = length gk -> length (mask_list (length gk) mask) = length gk ->
  filter_by (nonnull_key gk) (run St A O d sstep skip gk vals ng mask)
  = run St A O d sstep skip (filter_by (nonnull_key gk) gk) (filter_by (nonnull_key gk) vals) ng (drop_null_mask gk mask).
Proof.
  intros Hv Hm. rewrite null_rows_irrelevant by auto. unfold run. now rewrite mk_rows_drop_null.
Qed.
End Generic2.
