(* The plain (not time-weighted) grouped EMA treats a masked row exactly like a row
   whose value is null: the row still ages the weights.  Hence "mask = filter"
   (C05) is false for it — a concrete witness is computed below — while
   "mask = values.where(mask)" is what the kernel guarantees. *)
From Coq Require Import List ZArith Lia Bool Arith QArith Qcanon.
From GL Require Import Lib.Arr Lib.Keyed Model.Dom Model.Ema Proofs.RowGeneric.
Import ListNotations.
Open Scope Z_scope.

Lemma kscan_ext_rows {S R O} (d : S) (f : S -> R -> S * O) (skip : O) :
  forall (rows rows' : list (Z * R)) st,
  Forall2 (fun r r' => fst r = fst r' /\ forall s, f s (snd r) = f s (snd r')) rows rows' ->
  kscan d f skip rows st = kscan d f skip rows' st.
Proof.
  induction rows as [|r rows IH]; intros rows' st H; inversion H; subst; simpl; auto.
  match goal with Hh : fst r = _ /\ _ |- _ => destruct Hh as [Hk Hf] end.
  rewrite <- Hk. destruct (fst r <? 0); [f_equal; auto|].
  rewrite Hf. f_equal. auto.
Qed.

(* values.where(mask): masked-out rows become null *)
Definition where_ (m : list bool) (vals : list fl) : list fl :=
  map (fun p : fl * bool => if snd p then fst p else FNan) (combine vals m).

Lemma ema_step_masked_is_null beta c x : ema_step beta c (x, false) = ema_step beta c (FNan, true).
Proof. unfold ema_step. destruct x; reflexivity. Qed.

Theorem ema_mask_is_where gk vals alpha ng m :
  length gk = length m -> length vals = length m ->
  ema_grouped gk vals alpha ng (Some m) = ema_grouped gk (where_ m vals) alpha ng None.
Proof.
  intros Hg Hv. unfold ema_grouped, ema_rows. apply kscan_ext_rows.
  unfold mk_rows, mask_list, where_.
  revert gk vals Hg Hv. induction m as [|b m IH]; intros [|k gk] [|v vals] Hg Hv; simpl in *; try lia; constructor.
  - simpl. split; auto. intros s. unfold ema_step. destruct b, v; reflexivity.
  - apply IH; lia.
Qed.

(* "mask = filter" fails for the plain EMA: one group, values 1..6, alpha = 1/2, row 3 masked;
   at the next selected row the masked run gives 135/32 and the filtered run 19/5 *)
Definition k1_vals : list fl := map fl_of_Z [1; 2; 3; 4; 5; 6].
Definition k1_mask : list bool := [true; true; true; false; true; true].
Definition k1_half : Qc := Q2Qc (1 # 2).

Theorem ema_plain_mask_is_not_filter :
  exists gk vals alpha ng m,
    length gk = length m /\ length vals = length m /\
    filter_by m (ema_grouped gk vals alpha ng (Some m))
    <> ema_grouped (filter_by m gk) (filter_by m vals) alpha ng None.
Proof.
  exists [0; 0; 0; 0; 0; 0], k1_vals, k1_half, 1%nat, k1_mask.
  split; [reflexivity|]. split; [reflexivity|].
  intros H. apply (f_equal (fun l => nth 3 l FNan)) in H. vm_compute in H.
  inversion H.
Qed.
