(* C16 — GroupBy.var computes (sum of squares - (sum)^2 / n) / (n - ddof) from three group
   reductions.  In exact arithmetic this IS the two-pass sample variance
   sum (x - mean)^2 / (n - ddof).  (The floating-point error of the one-pass formula is not
   proved; it is checked against the property's bound by the differential stream.) *)
From Coq Require Import List ZArith Lia QArith Qcanon.
Import ListNotations.
Open Scope Qc_scope.

Fixpoint qsum (l : list Qc) : Qc := match l with [] => 0 | x :: t => x + qsum t end.
Fixpoint qsumsq (l : list Qc) : Qc := match l with [] => 0 | x :: t => x * x + qsumsq t end.
Fixpoint qlen (l : list Qc) : Qc := match l with [] => 0 | _ :: t => 1 + qlen t end.
Fixpoint qdev (m : Qc) (l : list Qc) : Qc := match l with [] => 0 | x :: t => (x - m) * (x - m) + qdev m t end.

Lemma qdev_expand m l : qdev m l = qsumsq l - (1 + 1) * m * qsum l + qlen l * m * m.
Proof. induction l as [|x t IH]; simpl; [ring|]. rewrite IH. ring. Qed.

(* numerator: the sum of squared deviations from the mean *)
Theorem one_pass_numerator l : qlen l <> 0 ->
  qsumsq l - qsum l * qsum l / qlen l = qdev (qsum l / qlen l) l.
Proof. intros Hn. rewrite qdev_expand. field. exact Hn. Qed.

(* the variance the library reports = the two-pass sample variance, for any ddof *)
Theorem one_pass_variance l (d : Qc) : qlen l <> 0 ->
  (qsumsq l - qsum l * qsum l / qlen l) / d = qdev (qsum l / qlen l) l / d.
Proof. intros Hn. now rewrite one_pass_numerator. Qed.

(* hence it is never negative in exact arithmetic (the clamp in the code only removes rounding noise) *)
Lemma Qcmult_nonneg a b : 0 <= a -> 0 <= b -> 0 <= a * b.
Proof. intros Ha Hb. replace 0 with (0 * b) by ring. now apply Qcmult_le_compat_r. Qed.

Lemma qdev_nonneg m l : 0 <= qdev m l.
Proof.
  induction l as [|x t IH]; simpl; [apply Qcle_refl|].
  replace 0 with (0 + 0) by ring. apply Qcplus_le_compat; auto.
  (* a square is non-negative *)
  destruct (Qclt_le_dec (x - m) 0) as [Hneg|Hpos].
  - replace ((x - m) * (x - m)) with ((- (x - m)) * (- (x - m))) by ring.
    assert (0 <= - (x - m)).
    { apply Qclt_le_weak in Hneg. apply Qcopp_le_compat in Hneg. now replace (- 0) with 0 in Hneg by ring. }
    now apply Qcmult_nonneg.
  - now apply Qcmult_nonneg.
Qed.

(* one value: the numerator is exactly zero, so var with ddof = 1 is 0/0 = null *)
Theorem single_value_numerator x : qsumsq [x] - qsum [x] * qsum [x] / qlen [x] = 0.
Proof. simpl. field. intros H. discriminate. Qed.
