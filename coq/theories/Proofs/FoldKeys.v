(* C02 - factorize_2d folds its two leading keys into one when the cartesian product of the label counts does not fit in
   64 bits: the pair of leading codes of every row is replaced by the code of that pair (first-appearance factorization of the
   pairs, at most as many as there are rows), the combination is repeated on the narrower rows, and the labels are unfolded
   afterwards.  In terms of the abstract specification of the combination (spec_combine: codes by first appearance of the
   null-free rows), which the tracker-array implementation refines (CombineProofs.combine_refines):
     - renaming the rows by any map that keeps nullness and is injective on the null-free rows leaves the codes unchanged and
       renames the labels (spec_combine_rename);
     - folding the leading pair IS such a renaming (fold_row), and unfolding gives the original labels back.
   Hence codes and labels after any number of folds are those of the direct combination in exact arithmetic, to which all C02
   theorems apply. *)
From Coq Require Import List ZArith Lia Bool.
From GL Require Import Lib.Arr Model.Factorize Proofs.CombineProofs.
Import ListNotations.
Open Scope Z_scope.

Lemma index_of_map (g : list Z -> list Z) r U :
  (forall u, In u U -> g r = g u -> r = u) -> index_of (g r) (map g U) = index_of r U.
Proof.
  induction U as [|u t IH]; intros Hinj; cbn [map index_of]; [reflexivity|].
  destruct (row_eq_dec r u) as [->|Hne].
  - destruct (row_eq_dec (g u) (g u)); [reflexivity|congruence].
  - destruct (row_eq_dec (g r) (g u)) as [E|_].
    + exfalso. apply Hne. apply Hinj; [now left | exact E].
    + rewrite IH; [reflexivity|]. intros u' Hu'. apply Hinj. now right.
Qed.

Section Rename.
Variable g : list Z -> list Z.
Variable all : list (list Z).
Hypothesis g_null : forall r, In r all -> is_null_row (g r) = is_null_row r.
Hypothesis g_inj : forall r1 r2, In r1 all -> In r2 all -> is_null_row r1 = false -> is_null_row r2 = false -> g r1 = g r2 -> r1 = r2.

Lemma rename_fold rows : forall C U, incl rows all -> (forall u, In u U -> In u all /\ is_null_row u = false) ->
  fold_left spec_step (map g rows) (C, map g U)
  = (fst (fold_left spec_step rows (C, U)), map g (snd (fold_left spec_step rows (C, U)))).
Proof.
  induction rows as [|row t IH]; intros C U Hin HU; cbn [map fold_left]; [reflexivity|].
  assert (Hrow : In row all) by (apply Hin; now left).
  assert (Ht : incl t all) by (intros x Hx; apply Hin; now right).
  unfold spec_step at 2 4 6. unfold spec_step at 1. cbv iota beta.
  rewrite (g_null row Hrow). destruct (is_null_row row) eqn:En.
  - apply IH; assumption.
  - rewrite index_of_map.
    2:{ intros u Hu E. destruct (HU u Hu) as [Hua Hun]. apply g_inj; auto. }
    destruct (index_of row U) as [gi|] eqn:Ei.
    + apply IH; assumption.
    + rewrite map_length. replace (map g U ++ [g row]) with (map g (U ++ [row])) by (rewrite map_app; reflexivity).
      apply IH; [assumption|]. intros u Hu. apply in_app_or in Hu as [Hu|[<-|[]]]; auto.
Qed.

Theorem spec_combine_rename rows : incl rows all ->
  spec_combine (map g rows) = (fst (spec_combine rows), map g (snd (spec_combine rows))).
Proof.
  intros Hin. unfold spec_combine. apply (rename_fold rows [] [] Hin). intros u [].
Qed.
End Rename.

(* ---- folding the two leading keys ---- *)
Definition fold_row (U1 : list (list Z)) (r : list Z) : list Z :=
  (match index_of (firstn 2 r) U1 with Some p => Z.of_nat p | None => -1 end) :: skipn 2 r.
Definition unfold_row (U1 : list (list Z)) (u : list Z) : list Z :=
  match u with [] => [] | p :: rest => nth (Z.to_nat p) U1 [] ++ rest end.

Lemma is_null_row_app a b : is_null_row (a ++ b) = is_null_row a || is_null_row b.
Proof. unfold is_null_row. apply existsb_app. Qed.

Lemma index_of_in r U : In r U -> exists p, index_of r U = Some p.
Proof.
  induction U as [|u t IH]; intros H; [contradiction|]. cbn [index_of].
  destruct (row_eq_dec r u); [eauto|]. destruct H as [->|H]; [congruence|]. destruct (IH H) as [p ->]. cbn. eauto.
Qed.

Section Fold.
Variable rows : list (list Z).
(* the labels of the first stage: the null-free leading pairs that occur, pairwise distinct (spec_invariant) *)
Variable U1 : list (list Z).
Hypothesis U1_complete : forall r, In r rows -> is_null_row (firstn 2 r) = false -> In (firstn 2 r) U1.
Hypothesis U1_nonnull : forall u, In u U1 -> is_null_row u = false.

Lemma fold_row_null r : In r rows -> is_null_row (fold_row U1 r) = is_null_row r.
Proof.
  intros Hr. unfold fold_row. rewrite <- (firstn_skipn 2 r) at 3. rewrite is_null_row_app.
  change (?h :: skipn 2 r) with ([h] ++ skipn 2 r). rewrite is_null_row_app. f_equal.
  destruct (is_null_row (firstn 2 r)) eqn:En.
  - destruct (index_of (firstn 2 r) U1) as [p|] eqn:Ei; [|reflexivity].
    apply index_of_some in Ei. apply nth_error_In in Ei. rewrite (U1_nonnull _ Ei) in En. discriminate.
  - destruct (index_of_in _ _ (U1_complete r Hr En)) as [p ->].
    unfold is_null_row. cbn [existsb]. rewrite orb_false_r. apply Z.eqb_neq. lia.
Qed.

Lemma fold_row_inj r1 r2 : In r1 rows -> In r2 rows -> is_null_row r1 = false -> is_null_row r2 = false ->
  fold_row U1 r1 = fold_row U1 r2 -> r1 = r2.
Proof.
  intros H1 H2 N1 N2 E. unfold fold_row in E.
  assert (P1 : is_null_row (firstn 2 r1) = false).
  { rewrite <- (firstn_skipn 2 r1), is_null_row_app in N1. now apply orb_false_iff in N1. }
  assert (P2 : is_null_row (firstn 2 r2) = false).
  { rewrite <- (firstn_skipn 2 r2), is_null_row_app in N2. now apply orb_false_iff in N2. }
  destruct (index_of_in _ _ (U1_complete r1 H1 P1)) as [p1 E1].
  destruct (index_of_in _ _ (U1_complete r2 H2 P2)) as [p2 E2].
  rewrite E1, E2 in E. inversion E as [[Hp Hs]]. apply Nat2Z.inj in Hp. subst p2.
  apply index_of_some in E1. apply index_of_some in E2. rewrite E1 in E2. inversion E2 as [Hf].
  rewrite <- (firstn_skipn 2 r1), <- (firstn_skipn 2 r2). congruence.
Qed.

(* the codes after folding are the codes of the direct combination; the labels are the folded labels *)
Theorem fold_leading_same_codes :
  spec_combine (map (fold_row U1) rows) = (fst (spec_combine rows), map (fold_row U1) (snd (spec_combine rows))).
Proof.
  apply (spec_combine_rename (fold_row U1) rows).
  - intros r Hr. apply fold_row_null, Hr.
  - intros r1 r2 H1 H2 N1 N2 E. apply fold_row_inj; assumption.
  - apply incl_refl.
Qed.

(* and unfolding a folded label gives the label back *)
Theorem unfold_fold r : In r rows -> is_null_row r = false -> unfold_row U1 (fold_row U1 r) = r.
Proof.
  intros Hr Hn. unfold fold_row, unfold_row.
  assert (P : is_null_row (firstn 2 r) = false).
  { rewrite <- (firstn_skipn 2 r), is_null_row_app in Hn. now apply orb_false_iff in Hn. }
  destruct (index_of_in _ _ (U1_complete r Hr P)) as [p Ep]. rewrite Ep, Nat2Z.id.
  apply index_of_some in Ep. rewrite (nth_error_nth _ _ _ Ep). apply firstn_skipn.
Qed.
End Fold.

Lemma Forall2_nth_error_l {A B} (P : A -> B -> Prop) l1 : forall l2 i a,
  Forall2 P l1 l2 -> nth_error l1 i = Some a -> exists b, nth_error l2 i = Some b /\ P a b.
Proof.
  induction l1 as [|x t IH]; intros l2 i a HF Hi; [destruct i; discriminate|].
  inversion HF as [|? y ? l2' Hxy Ht]; subst. destruct i as [|i]; cbn [nth_error] in *.
  - inversion Hi; subst. eauto.
  - eapply IH; eauto.
Qed.

(* the hypotheses about U1 are met by the labels the first stage really delivers: the combination of the leading pairs *)
Lemma first_stage_labels rows :
  let U1 := snd (spec_combine (map (firstn 2) rows)) in
  (forall r, In r rows -> is_null_row (firstn 2 r) = false -> In (firstn 2 r) U1) /\ (forall u, In u U1 -> is_null_row u = false).
Proof.
  cbv zeta. unfold spec_combine.
  pose proof (spec_invariant (map (firstn 2) rows) [] [] [] (Forall2_nil _) (NoDup_nil _) (fun u (H : In u []) => match H with end)) as [HF [_ HI]].
  cbn [app] in HF, HI. split.
  - intros r Hr Hn.
    assert (Hin : In (firstn 2 r) (map (firstn 2) rows)) by (apply in_map; exact Hr).
    destruct (In_nth_error _ _ Hin) as [i Hi].
    destruct (Forall2_nth_error_l _ _ _ _ _ HF Hi) as [c [_ Hc]]. unfold code_ok in Hc.
    destruct Hc as [[Hnull _]|[_ [_ Hnth]]].
    + apply is_null_row_spec in Hnull. congruence.
    + eapply nth_error_In; eauto.
  - intros u Hu. destruct (HI u Hu) as [_ Hnn]. destruct (is_null_row u) eqn:E; [|reflexivity].
    apply is_null_row_spec in E. contradiction.
Qed.

Corollary folding_with_the_first_stage rows :
  let U1 := snd (spec_combine (map (firstn 2) rows)) in
  spec_combine (map (fold_row U1) rows) = (fst (spec_combine rows), map (fold_row U1) (snd (spec_combine rows))).
Proof.
  cbv zeta. destruct (first_stage_labels rows) as [H1 H2]. exact (fold_leading_same_codes rows _ H1 H2).
Qed.

(* non-vacuity: three keys, first-stage labels of the pairs in order of appearance *)
Example fold_example :
  let rows := [[1; 0; 2]; [0; 0; 1]; [1; 0; 2]; [-1; 0; 1]; [0; 0; 0]] in
  let U1 := snd (spec_combine (map (firstn 2) rows)) in
  U1 = [[1; 0]; [0; 0]] /\
  map (fold_row U1) rows = [[0; 2]; [1; 1]; [0; 2]; [-1; 1]; [1; 0]] /\
  fst (spec_combine (map (fold_row U1) rows)) = fst (spec_combine rows) /\
  map (unfold_row U1) (snd (spec_combine (map (fold_row U1) rows))) = snd (spec_combine rows).
Proof. repeat split; vm_compute; reflexivity. Qed.
