(* Partial results (accumulator, count) with count = 0 as the empty partial:
   merging the partial of a block with the partial of the next block, through
   the three-argument reducer and both counts, gives the partial of the
   concatenation — for every reducer the kernels merge with.  Hence for every
   split into blocks, merge-of-blocks = single pass. *)
From Coq Require Import List ZArith Lia Bool Arith.
From GL Require Import Lib.Arr Model.Dom Model.Scalar Spec.Defs Proofs.ReduceSeries.
Import ListNotations.
Open Scope Z_scope.
Arguments nonnull {V} o l : simpl never.
Local Arguments Z.add : simpl never.
Local Arguments Z.of_nat : simpl never.

Section Merge.
Context {V : Type} (o : ops V) (L : laws o).
Notation nn := (nonnull o).
Notation len l := (Z.of_nat (length l)).

(* what reduce_array_pair + count addition do at one group *)
Definition merge_pair (mf : @reducer V) (x y : V * Z) : V * Z :=
  ((if snd y =? 0 then fst x else fst (mf (fst x) (fst y) (snd x))), snd x + snd y).

Definition merges (rf mf : @reducer V) (init : V) : Prop :=
  forall l1 l2, series rf (l1 ++ l2) (init, 0)
              = merge_pair mf (series rf l1 (init, 0)) (series rf l2 (init, 0)).

Lemma len_zero_nil {A} (l : list A) : len l = 0 -> l = [].
Proof. destruct l; simpl; auto. intros H. rewrite Nat2Z.inj_succ in H. lia. Qed.
Lemma len_cons_nz {A} (h : A) t : (len (h :: t) =? 0) = false.
Proof. apply Z.eqb_neq. simpl length. rewrite Nat2Z.inj_succ. lia. Qed.

(* ---- sums ---- *)
Lemma fold_add_shift t : forall a h, fold_left (add o) t (add o a h) = add o a (fold_left (add o) t h).
Proof.
  induction t as [|x t IH]; intros a h; simpl; auto.
  rewrite <- (add_assoc _ L). apply IH.
Qed.

Hypothesis SC : sum_closed o.

Lemma fold_add_nonnull t : forall a, is_null o a = false -> (forall x, In x t -> is_null o x = false) ->
  is_null o (fold_left (add o) t a) = false.
Proof.
  induction t as [|x t IH]; intros a Ha Ht; simpl; auto.
  apply IH; [apply (proj1 SC); auto; apply Ht; left; auto | intros; apply Ht; right; auto].
Qed.

Lemma sum_from0_nonnull t : (forall x, In x t -> is_null o x = false) -> is_null o (sum_from o 0 (zero o) t) = false.
Proof.
  intros Ht. unfold sum_from. simpl. destruct t as [|h t]; [apply SC|].
  apply fold_add_nonnull; [apply Ht; left; auto | intros; apply Ht; right; auto].
Qed.

(* the merge reducer is the plain addition: no side condition on the partial sums *)
Lemma sum_from_merge (t1 t2 : list V) :
  let a1 := sum_from o 0 (zero o) t1 in let c1 := len t1 in
  sum_from o c1 a1 t2 =
    (if len t2 =? 0 then a1
     else fst (r_sum o a1 (sum_from o 0 (zero o) t2) c1)).
Proof.
  simpl. destruct t2 as [|h t].
  - simpl. unfold sum_from. destruct (len t1 =? 0); reflexivity.
  - rewrite len_cons_nz. unfold r_sum.
    unfold truthy, sum_from at 1.
    destruct (len t1 =? 0) eqn:E; simpl.
    + reflexivity.
    + unfold sum_from at 2. simpl. apply fold_add_shift.
Qed.

Lemma nn_all_nonnull l x : In x (nn l) -> is_null o x = false.
Proof. apply nn_nonnull. Qed.

Lemma merges_nansum : merges (r_nansum o) (r_sum o) (zero o).
Proof.
  intros l1 l2. rewrite series_app. rewrite !nansum_series by lia.
  unfold merge_pair. cbn [fst snd].
  rewrite !Z.add_0_l. f_equal. apply sum_from_merge.
Qed.

Lemma merges_sum : (forall x, is_null o x = false) -> merges (r_sum o) (r_sum o) (zero o).
Proof.
  intros Hnn l1 l2. rewrite series_app. rewrite !sum_series by (auto; lia).
  unfold merge_pair. cbn [fst snd].
  rewrite !Z.add_0_l. f_equal. apply sum_from_merge.
Qed.

Lemma merges_nansum_squares : merges (r_nansum_squares o) (r_sum o) (zero o).
Proof.
  intros l1 l2. rewrite series_app. rewrite !nansum_squares_series by lia.
  unfold merge_pair. cbn [fst snd].
  rewrite !Z.add_0_l. f_equal.
  pose proof (sum_from_merge (map (sq o) (nn l1)) (map (sq o) (nn l2))) as H. simpl in H.
  rewrite !map_length in H. exact H.
Qed.

(* ---- first / last ---- *)
Lemma merges_first : merges (r_first o) (r_first o) (null o).
Proof.
  intros l1 l2. rewrite series_app. rewrite !first_series by lia. unfold merge_pair. cbn [fst snd].
  rewrite !Z.add_0_l. change (0 =? 0) with true. cbn iota. f_equal.
  destruct (nn l2) as [|h t] eqn:E2.
  - simpl. destruct (len (nn l1) =? 0); reflexivity.
  - rewrite len_cons_nz. unfold r_first. cbn [hd].
    assert (Hh : is_null o h = false) by (apply (nn_nonnull o h l2); rewrite E2; left; auto).
    rewrite Hh. unfold truthy. destruct (len (nn l1) =? 0); reflexivity.
Qed.

Lemma merges_last : merges (r_last o) (r_last o) (null o).
Proof.
  intros l1 l2. rewrite series_app. rewrite !last_series. unfold merge_pair. cbn [fst snd].
  rewrite !Z.add_0_l. f_equal.
  destruct (len l2 =? 0) eqn:E.
  - apply Z.eqb_eq in E. apply len_zero_nil in E. subst. reflexivity.
  - unfold r_last. destruct (nn l2) as [|h t] eqn:E2.
    + (* all rows of the block null: its accumulator is the initial null *)
      cbn [last].
      destruct (null_dichotomy _ L) as [Hn | Hn].
      * rewrite Hn. reflexivity.
      * exfalso. destruct l2 as [|x l2']; [simpl in E; discriminate|].
        unfold nonnull in E2. simpl in E2. rewrite Hn in E2. simpl in E2. discriminate.
    + assert (Hlast : is_null o (last (h :: t) (null o)) = false).
      { apply (nn_nonnull o _ l2). rewrite E2. clear. revert h. induction t as [|y t IH]; intros h.
        - left; reflexivity.
        - right. apply IH. }
      rewrite Hlast. simpl. apply last_indep.
Qed.

(* ---- extrema ---- *)
Lemma pick_min_nonnull m x : is_null o m = false -> is_null o x = false -> is_null o (pick_min o m x) = false.
Proof. unfold pick_min. destruct (ltb o x m); auto. Qed.
Lemma pick_max_nonnull m x : is_null o m = false -> is_null o x = false -> is_null o (pick_max o m x) = false.
Proof. unfold pick_max. destruct (ltb o m x); auto. Qed.

Lemma pick_min_assoc a h x :
  is_null o a = false -> is_null o h = false -> is_null o x = false ->
  pick_min o (pick_min o a h) x = pick_min o a (pick_min o h x).
Proof.
  intros Ha Hh Hx. unfold pick_min.
  destruct (ltb o h a) eqn:E1; destruct (ltb o x h) eqn:E2.
  - now rewrite (ltb_trans _ L x h a E2 E1).
  - now rewrite E1.
  - reflexivity.
  - rewrite E1. now rewrite (ltb_false_trans o L a h x Ha Hh Hx E1 E2).
Qed.

Lemma pick_max_assoc a h x :
  is_null o a = false -> is_null o h = false -> is_null o x = false ->
  pick_max o (pick_max o a h) x = pick_max o a (pick_max o h x).
Proof.
  intros Ha Hh Hx. unfold pick_max.
  destruct (ltb o a h) eqn:E1; destruct (ltb o h x) eqn:E2.
  - now rewrite (ltb_trans _ L a h x E1 E2).
  - now rewrite E1.
  - reflexivity.
  - rewrite E1. now rewrite (ltb_false_trans o L x h a Hx Hh Ha E2 E1).
Qed.

Lemma fold_pick_min_shift t : forall a h,
  is_null o a = false -> is_null o h = false -> (forall x, In x t -> is_null o x = false) ->
  fold_left (pick_min o) t (pick_min o a h) = pick_min o a (fold_left (pick_min o) t h).
Proof.
  induction t as [|x t IH]; intros a h Ha Hh Ht; simpl; auto.
  rewrite pick_min_assoc; auto; [|apply Ht; left; auto].
  apply IH; auto.
  - apply pick_min_nonnull; auto. apply Ht; left; auto.
  - intros y Hy. apply Ht; right; auto.
Qed.

Lemma fold_pick_max_shift t : forall a h,
  is_null o a = false -> is_null o h = false -> (forall x, In x t -> is_null o x = false) ->
  fold_left (pick_max o) t (pick_max o a h) = pick_max o a (fold_left (pick_max o) t h).
Proof.
  induction t as [|x t IH]; intros a h Ha Hh Ht; simpl; auto.
  rewrite pick_max_assoc; auto; [|apply Ht; left; auto].
  apply IH; auto.
  - apply pick_max_nonnull; auto. apply Ht; left; auto.
  - intros y Hy. apply Ht; right; auto.
Qed.

Lemma fold_pick_min_nonnull t : forall h,
  is_null o h = false -> (forall x, In x t -> is_null o x = false) ->
  is_null o (fold_left (pick_min o) t h) = false.
Proof.
  induction t as [|x t IH]; intros h Hh Ht; simpl; auto.
  apply IH; [apply pick_min_nonnull; auto; apply Ht; left; auto | intros; apply Ht; right; auto].
Qed.
Lemma fold_pick_max_nonnull t : forall h,
  is_null o h = false -> (forall x, In x t -> is_null o x = false) ->
  is_null o (fold_left (pick_max o) t h) = false.
Proof.
  induction t as [|x t IH]; intros h Hh Ht; simpl; auto.
  apply IH; [apply pick_max_nonnull; auto; apply Ht; left; auto | intros; apply Ht; right; auto].
Qed.

Lemma merges_nanmin : merges (r_nanmin o) (r_nanmin o) (null o).
Proof.
  intros l1 l2. rewrite series_app. rewrite !nanmin_series by lia. unfold merge_pair. cbn [fst snd].
  rewrite !Z.add_0_l. f_equal.
  destruct (nn l2) as [|h t] eqn:E2.
  - simpl. unfold ext_from. destruct (len (nn l1) =? 0); reflexivity.
  - rewrite len_cons_nz.
    assert (Hh : is_null o h = false) by (apply (nn_nonnull o h l2); rewrite E2; left; auto).
    assert (Ht : forall x, In x t -> is_null o x = false)
      by (intros x Hx; apply (nn_nonnull o x l2); rewrite E2; right; auto).
    unfold r_nanmin. unfold ext_from at 3. change (0 =? 0) with true. cbn iota.
    rewrite fold_pick_min_nonnull by auto.
    unfold truthy, ext_from at 1. destruct (len (nn l1) =? 0) eqn:E1; simpl.
    + reflexivity.
    + (* a1 is a genuine non-null minimum of block 1 *)
      destruct (nn l1) as [|h1 t1] eqn:En1; [simpl in E1; discriminate|].
      unfold ext_from. change (0 =? 0) with true. cbn iota.
      assert (Ha : is_null o (fold_left (pick_min o) t1 h1) = false).
      { apply fold_pick_min_nonnull.
        - apply (nn_nonnull o h1 l1); rewrite En1; left; auto.
        - intros x Hx; apply (nn_nonnull o x l1); rewrite En1; right; auto. }
      set (a1 := fold_left (pick_min o) t1 h1) in *.
      change (fold_left (pick_min o) t (pick_min o a1 h) =
              (if ltb o (fold_left (pick_min o) t h) a1 then fold_left (pick_min o) t h else a1)).
      rewrite fold_pick_min_shift by auto. reflexivity.
Qed.

Lemma merges_nanmax : merges (r_nanmax o) (r_nanmax o) (null o).
Proof.
  intros l1 l2. rewrite series_app. rewrite !nanmax_series by lia. unfold merge_pair. cbn [fst snd].
  rewrite !Z.add_0_l. f_equal.
  destruct (nn l2) as [|h t] eqn:E2.
  - simpl. unfold ext_from. destruct (len (nn l1) =? 0); reflexivity.
  - rewrite len_cons_nz.
    assert (Hh : is_null o h = false) by (apply (nn_nonnull o h l2); rewrite E2; left; auto).
    assert (Ht : forall x, In x t -> is_null o x = false)
      by (intros x Hx; apply (nn_nonnull o x l2); rewrite E2; right; auto).
    unfold r_nanmax. unfold ext_from at 3. change (0 =? 0) with true. cbn iota.
    rewrite fold_pick_max_nonnull by auto.
    unfold truthy, ext_from at 1. destruct (len (nn l1) =? 0) eqn:E1; simpl.
    + reflexivity.
    + destruct (nn l1) as [|h1 t1] eqn:En1; [simpl in E1; discriminate|].
      unfold ext_from. change (0 =? 0) with true. cbn iota.
      assert (Ha : is_null o (fold_left (pick_max o) t1 h1) = false).
      { apply fold_pick_max_nonnull.
        - apply (nn_nonnull o h1 l1); rewrite En1; left; auto.
        - intros x Hx; apply (nn_nonnull o x l1); rewrite En1; right; auto. }
      set (a1 := fold_left (pick_max o) t1 h1) in *.
      change (fold_left (pick_max o) t (pick_max o a1 h) =
              (if ltb o a1 (fold_left (pick_max o) t h) then fold_left (pick_max o) t h else a1)).
      rewrite fold_pick_max_shift by auto. reflexivity.
Qed.

(* ---- counts: whatever the accumulators, counts add up ---- *)
Lemma counts_add_count l1 l2 a b c :
  snd (series (r_count o) (l1 ++ l2) (a, 0)) = snd (series (r_count o) l1 (b, 0)) + snd (series (r_count o) l2 (c, 0)).
Proof. rewrite !count_series, app_length, Nat2Z.inj_add. lia. Qed.
Lemma counts_add_nancount l1 l2 a b c :
  snd (series (r_nancount o) (l1 ++ l2) (a, 0)) = snd (series (r_nancount o) l1 (b, 0)) + snd (series (r_nancount o) l2 (c, 0)).
Proof. rewrite !nancount_series, nn_app, app_length, Nat2Z.inj_add. lia. Qed.

End Merge.
