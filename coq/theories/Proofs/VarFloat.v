(* C16 — a rounding-error bound for the one-pass variance  var = (sum of squares - sum^2 / n) / (n - ddof)
   in the standard model of floating-point arithmetic: every operation returns the exact result times
   (1 + delta) with |delta| <= u (u = 2^-53 for binary64, absent overflow / underflow).
   * sums may be evaluated in ANY bracketing (sequential, per-thread blocks, per-chunk partials merged
     afterwards): a summation tree of height h has error <= ((1+u)^h - 1) * sum |x_i|;
   * the bound on the variance is an explicit function [var_bound] and is proportional to the SQUARED
     MAGNITUDE M^2 of the data ([var_bound_homogeneous]), which is what the property states;
   * clipping at 0 does not increase the error (the exact variance is >= 0).
   Exact rational arithmetic (Q), no axioms. *)
From Coq Require Import QArith Qabs Lqa Lia List Arith.
Import ListNotations.
Open Scope Q_scope.

Section RoundingModel.
Variable u : Q.
Hypothesis u_nonneg : 0 <= u.
Variable rnd : Q -> Q.
(* standard model |rnd x - x| <= u |x|, stated with an explicit bound B >= |x| (equivalent: take B = |x|) *)
Hypothesis rnd_err : forall x B, -B <= x <= B -> -(u * B) <= rnd x - x <= u * B.

Definition bnd (x B : Q) : Prop := -B <= x <= B.
Definition near (xh x e : Q) : Prop := -e <= xh - x <= e.

Lemma mul_bnd x y X Y : bnd x X -> bnd y Y -> bnd (x * y) (X * Y).
Proof. unfold bnd. intros [H1 H2] [H3 H4]. split; nra. Qed.

(* ---- summation in any bracketing ---- *)
Inductive stree := Leaf (xh x : Q) | Node (l r : stree).
Fixpoint exact (t : stree) : Q := match t with Leaf _ x => x | Node l r => exact l + exact r end.
Fixpoint fl (t : stree) : Q := match t with Leaf xh _ => xh | Node l r => rnd (fl l + fl r) end.
Fixpoint asum (t : stree) : Q := match t with Leaf _ x => Qabs x | Node l r => asum l + asum r end.
Fixpoint height (t : stree) : nat := match t with Leaf _ _ => 0%nat | Node l r => S (Nat.max (height l) (height r)) end.
(* the leaves are the data themselves (plain sum) or their rounded squares: off by at most u |x| *)
Fixpoint leaves_ok (t : stree) : Prop :=
  match t with Leaf xh x => near xh x (u * Qabs x) | Node l r => leaves_ok l /\ leaves_ok r end.

Fixpoint p1u (h : nat) : Q := match h with O => 1 | S k => (1 + u) * p1u k end.
Definition E (h : nat) : Q := p1u h - 1.

Lemma p1u_ge1 h : 1 <= p1u h.
Proof. induction h as [|h IH]; simpl; [lra|nra]. Qed.
Lemma E_nonneg h : 0 <= E h.
Proof. unfold E. pose proof (p1u_ge1 h). lra. Qed.
Lemma E_S h : E (S h) == E h * (1 + u) + u.
Proof. unfold E. simpl. ring. Qed.
Lemma E_mono h k : (h <= k)%nat -> E h <= E k.
Proof.
  induction 1 as [|k Hle IH]; [lra|]. pose proof (E_S k). pose proof (E_nonneg k). nra.
Qed.

Lemma asum_nonneg t : 0 <= asum t.
Proof. induction t as [xh x|l IHl r IHr]; simpl; [apply Qabs_nonneg|lra]. Qed.
Lemma exact_bnd t : bnd (exact t) (asum t).
Proof.
  unfold bnd. induction t as [xh x|l IHl r IHr]; simpl.
  - pose proof (Qle_Qabs x) as H1. pose proof (Qle_Qabs (- x)) as H2. rewrite Qabs_opp in H2. lra.
  - lra.
Qed.

Theorem sum_error t : leaves_ok t -> near (fl t) (exact t) (E (S (height t)) * asum t).
Proof.
  unfold near. induction t as [xh x|l IHl r IHr]; intros Hok.
  - simpl in *. unfold near in Hok. unfold E; simpl.
    assert (0 <= Qabs x) by apply Qabs_nonneg. split; nra.
  - destruct Hok as [Hl Hr]. specialize (IHl Hl). specialize (IHr Hr).
    cbn [fl exact asum height].
    set (a := exact l) in *. set (b := exact r) in *. set (ah := fl l) in *. set (bh := fl r) in *.
    set (Al := asum l) in *. set (Ar := asum r) in *.
    pose proof (exact_bnd l) as Ba. pose proof (exact_bnd r) as Bb. fold a Al in Ba. fold b Ar in Bb. unfold bnd in Ba, Bb.
    pose proof (asum_nonneg l) as HAl. pose proof (asum_nonneg r) as HAr. fold Al in HAl. fold Ar in HAr.
    set (m := Nat.max (height l) (height r)).
    assert (Hl' : E (S (height l)) <= E (S m)) by (apply E_mono; unfold m; lia).
    assert (Hr' : E (S (height r)) <= E (S m)) by (apply E_mono; unfold m; lia).
    pose proof (E_nonneg (S (height l))) as H0l. pose proof (E_nonneg (S (height r))) as H0r.
    set (El := E (S (height l))) in *. set (Er := E (S (height r))) in *. set (Em := E (S m)) in *.
    assert (HEl : El * Al <= Em * Al) by nra. assert (HEr : Er * Ar <= Em * Ar) by nra.
    pose proof (rnd_err (ah + bh) (Al + Ar + Em * Al + Em * Ar)) as R.
    lapply R; [clear R; intros R | lra].
    pose proof (E_S (S m)) as HES. fold Em in HES. split; nra.
Qed.

(* ---- the operations after the sums ---- *)
Lemma approx_sq ah a ea Ba : 0 <= ea -> near ah a ea -> bnd a Ba ->
  near (rnd (ah * ah)) (a * a) (ea * (2 * Ba + ea) + u * (Ba * Ba + ea * (2 * Ba + ea))).
Proof.
  unfold near, bnd. intros He Ha HB.
  assert (HBa : 0 <= Ba) by lra.
  assert (Hd : - (ea * (2 * Ba + ea)) <= ah * ah - a * a <= ea * (2 * Ba + ea)).
  { pose proof (mul_bnd (ah - a) (ah + a) ea (2 * Ba + ea)) as M. unfold bnd in M.
    assert (M1 : - ea <= ah - a <= ea) by lra. assert (M2 : - (2 * Ba + ea) <= ah + a <= 2 * Ba + ea) by lra.
    specialize (M M1 M2). lra. }
  assert (Hsq : - (Ba * Ba) <= a * a <= Ba * Ba) by (split; nra).
  pose proof (rnd_err (ah * ah) (Ba * Ba + ea * (2 * Ba + ea))) as R. lapply R; [clear R; intros R | lra]. lra.
Qed.

(* division by an exactly known positive number n, given through k = 1/n *)
Lemma approx_scale ah a ea Ba k : 0 <= k -> 0 <= ea -> near ah a ea -> bnd a Ba ->
  near (rnd (ah * k)) (a * k) (ea * k + u * ((Ba + ea) * k)).
Proof.
  unfold near, bnd. intros Hk He Ha HB.
  assert (H1 : - (ea * k) <= ah * k - a * k <= ea * k) by (split; nra).
  assert (H2 : - ((Ba + ea) * k) <= ah * k <= (Ba + ea) * k) by (split; nra).
  pose proof (rnd_err (ah * k) ((Ba + ea) * k) H2) as R. lra.
Qed.

Lemma approx_sub ah a bh b ea eb Ba Bb :
  near ah a ea -> near bh b eb -> bnd a Ba -> bnd b Bb ->
  near (rnd (ah - bh)) (a - b) (ea + eb + u * (Ba + Bb + ea + eb)).
Proof.
  unfold near, bnd. intros Ha Hb HBa HBb.
  pose proof (rnd_err (ah - bh) (Ba + Bb + ea + eb)) as R. lapply R; [clear R; intros R | lra]. lra.
Qed.

(* ---- the one-pass variance ----
   t1: summation tree of the values, t2: of their (rounded) squares; n = number of values, kn = 1/n,
   kd = 1/(n - ddof); M bounds the magnitudes: sum |x| <= n M, sum x^2 <= n M^2. *)
Definition var_bound (n kn kd M : Q) (h1 h2 : nat) : Q :=
  let e1 := E (S h1) * (n * M) in
  let e2 := E (S h2) * (n * (M * M)) in
  let B1 := n * M in
  let eP0 := e1 * (2 * B1 + e1) in
  let BP := B1 * B1 in
  let eP := eP0 + u * (BP + eP0) in
  let eQ := eP * kn + u * ((BP + eP) * kn) in
  let BQ := BP * kn in
  let B2 := n * (M * M) in
  let eD := e2 + eQ + u * (B2 + BQ + e2 + eQ) in
  let BD := B2 + BQ in
  eD * kd + u * ((BD + eD) * kd).

Definition var_fl (t1 t2 : stree) (kn kd : Q) : Q :=
  rnd (rnd (fl t2 - rnd (rnd (fl t1 * fl t1) * kn)) * kd).
Definition var_exact (t1 t2 : stree) (kn kd : Q) : Q :=
  (exact t2 - exact t1 * exact t1 * kn) * kd.

Theorem var_error t1 t2 n kn kd M :
  leaves_ok t1 -> leaves_ok t2 -> 0 <= n -> 0 <= kn -> 0 <= kd -> 0 <= M ->
  asum t1 <= n * M -> asum t2 <= n * (M * M) ->
  near (var_fl t1 t2 kn kd) (var_exact t1 t2 kn kd) (var_bound n kn kd M (height t1) (height t2)).
Proof.
  intros Ok1 Ok2 Hn Hkn Hkd HM HA1 HA2.
  pose proof (sum_error t1 Ok1) as S1. pose proof (sum_error t2 Ok2) as S2.
  pose proof (exact_bnd t1) as B1. pose proof (exact_bnd t2) as B2.
  pose proof (E_nonneg (S (height t1))) as E1. pose proof (E_nonneg (S (height t2))) as E2.
  pose proof (asum_nonneg t1) as A1. pose proof (asum_nonneg t2) as A2.
  set (e1 := E (S (height t1)) * (n * M)). set (e2 := E (S (height t2)) * (n * (M * M))).
  assert (S1' : near (fl t1) (exact t1) e1) by (unfold near, e1 in *; split; nra).
  assert (S2' : near (fl t2) (exact t2) e2) by (unfold near, e2 in *; split; nra).
  assert (B1' : bnd (exact t1) (n * M)) by (unfold bnd in *; lra).
  assert (B2' : bnd (exact t2) (n * (M * M))) by (unfold bnd in *; lra).
  assert (He1 : 0 <= e1) by (unfold e1; nra).
  assert (He2 : 0 <= e2) by (unfold e2; nra).
  (* the square of the sum *)
  pose proof (approx_sq _ _ e1 (n * M) He1 S1' B1') as P.
  set (eP := e1 * (2 * (n * M) + e1) + u * (n * M * (n * M) + e1 * (2 * (n * M) + e1))) in P.
  assert (HB : 0 <= n * M) by (apply Qmult_le_0_compat; auto).
  assert (HeP0 : 0 <= e1 * (2 * (n * M) + e1)) by (apply Qmult_le_0_compat; lra).
  assert (HBB : 0 <= n * M * (n * M)) by (apply Qmult_le_0_compat; auto).
  assert (HeP : 0 <= eP) by (unfold eP; pose proof (Qmult_le_0_compat u (n * M * (n * M) + e1 * (2 * (n * M) + e1)) u_nonneg ltac:(lra)); lra).
  assert (BP : bnd (exact t1 * exact t1) (n * M * (n * M))) by (apply mul_bnd; auto).
  (* divided by n *)
  pose proof (approx_scale _ _ eP (n * M * (n * M)) kn Hkn HeP P BP) as Qd.
  set (eQ := eP * kn + u * ((n * M * (n * M) + eP) * kn)) in Qd.
  assert (HeQ : 0 <= eQ).
  { unfold eQ. pose proof (Qmult_le_0_compat eP kn HeP Hkn).
    pose proof (Qmult_le_0_compat (n * M * (n * M) + eP) kn ltac:(lra) Hkn) as H1.
    pose proof (Qmult_le_0_compat u _ u_nonneg H1). lra. }
  assert (BQ : bnd (exact t1 * exact t1 * kn) (n * M * (n * M) * kn)) by (unfold bnd in *; split; nra).
  (* subtracted from the sum of squares *)
  pose proof (approx_sub _ _ _ _ e2 eQ (n * (M * M)) (n * M * (n * M) * kn) S2' Qd B2' BQ) as D.
  set (eD := e2 + eQ + u * (n * (M * M) + n * M * (n * M) * kn + e2 + eQ)) in D.
  assert (HMM : 0 <= n * (M * M)) by (apply Qmult_le_0_compat; [auto|apply Qmult_le_0_compat; auto]).
  assert (HBQ : 0 <= n * M * (n * M) * kn) by (apply Qmult_le_0_compat; auto).
  assert (HeD : 0 <= eD).
  { unfold eD. pose proof (Qmult_le_0_compat u (n * (M * M) + n * M * (n * M) * kn + e2 + eQ) u_nonneg ltac:(lra)). lra. }
  assert (BD : bnd (exact t2 - exact t1 * exact t1 * kn) (n * (M * M) + n * M * (n * M) * kn)) by (unfold bnd in *; lra).
  (* divided by n - ddof *)
  pose proof (approx_scale _ _ eD (n * (M * M) + n * M * (n * M) * kn) kd Hkd HeD D BD) as V.
  exact V.
Qed.

(* proportional to the squared magnitude *)
Theorem var_bound_homogeneous n kn kd M h1 h2 :
  var_bound n kn kd M h1 h2 == M * M * var_bound n kn kd 1 h1 h2.
Proof. unfold var_bound. ring. Qed.

(* clipping at zero (var.clip(lower=0)) does not increase the error, the exact variance being >= 0 *)
Lemma clip_near vh v e : 0 <= v -> near vh v e -> near (if Qle_bool 0 vh then vh else 0) v e.
Proof.
  unfold near. intros Hv H. destruct (Qle_bool 0 vh) eqn:Ec; auto.
  assert (~ 0 <= vh) by (intros Hc; apply Qle_bool_iff in Hc; congruence). lra.
Qed.
End RoundingModel.

(* the hypotheses are satisfiable non-trivially: a "rounding" that always errs by the full relative amount *)
Example rnd_instance : let u := 1 # 8 in let rnd := fun x => x * (9 # 8) in
  0 <= u /\ forall x B, -B <= x <= B -> -(u * B) <= rnd x - x <= u * B.
Proof. cbv zeta. split; [lra|]. intros x B H. lra. Qed.
