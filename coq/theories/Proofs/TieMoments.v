(* Tie B: mean_from_sum_count, nanmean, nanvar, nanstd *)
From Coq Require Import List ZArith String.
From GL Require Import Model.Moments Gen.TablesGen.

Lemma tie_moment_formulas : gen_moment_formulas = moment_formulas.
Proof. reflexivity. Qed.
