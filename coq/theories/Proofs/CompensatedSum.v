(* C09 - the running sums of _rolling_sum_or_mean_1d in IEEE-754 binary64 arithmetic (Flocq).
   The kernel keeps, per group, a running sum s and a compensation c.  Entering the window adds x = val, leaving it adds
   x = -old_val:
       t = fl64(s + x);   e = fl64(fl64(s - t) + x)  if |s| >= |x|,   fl64(fl64(x - t) + s)  otherwise;   s := t;  c := fl64(c + e)
   and the value reported is fl64(s + c).
   Theorem (Fast2Sum, proved in Flocq.Pff.Pff2Flocq for round-to-nearest without overflow): e is EXACTLY the rounding
   error of t, i.e. t + e = s + x as real numbers.  Hence, by induction over any sequence of additions and removals,
       s_n + (e_1 + ... + e_n) = x_1 + ... + x_n       exactly:
   a value that has left the window (its +v and -v both occur among the x_i) leaves nothing behind in s + E - this is
   what the plain add / subtract update got wrong.  The only rounding left is that of adding up the (second-order)
   terms e_i in c and the final fl64(s + c).
   Uses the real numbers of Coq's standard library (their axioms are listed by Print Assumptions, see DESIGN section 7). *)
From Coq Require Import Reals List ZArith Lia Lra.
From Flocq Require Import Core Pff2Flocq.
Import ListNotations.
Open Scope R_scope.

Definition emin := (-1074)%Z.
Definition prec := 53%Z.
Definition choiceE (x : Z) : bool := negb (Z.even x).      (* ties to even: Flocq's ZnearestE *)
Definition fexp := FLT_exp emin prec.
Definition fl64 (x : R) : R := round radix2 fexp (Znearest choiceE) x.
Definition fmt64 (x : R) : Prop := generic_format radix2 fexp x.

#[global] Instance prec_gt_0_53 : Prec_gt_0 prec.
Proof. unfold Prec_gt_0, prec. lia. Qed.

Lemma choiceE_sym x : choiceE x = negb (choiceE (- (x + 1))).
Proof.
  unfold choiceE. rewrite Z.even_opp, Z.even_add. cbn [Z.even].
  destruct (Z.even x); reflexivity.
Qed.

Lemma fmt_fl x : fmt64 (fl64 x).
Proof. unfold fmt64, fl64, fexp. apply generic_format_round; typeclasses eauto. Qed.

Lemma fmt_opp x : fmt64 x -> fmt64 (- x).
Proof. apply generic_format_opp. Qed.

(* the error term as the kernel computes it *)
Definition err_term (s x : R) : R :=
  let t := fl64 (s + x) in
  if Rle_dec (Rabs x) (Rabs s) then fl64 (fl64 (s - t) + x) else fl64 (fl64 (x - t) + s).

Theorem err_term_exact s x : fmt64 s -> fmt64 x -> fl64 (s + x) + err_term s x = s + x.
Proof.
  intros Fs Fx. unfold err_term.
  assert (P : (1 < prec)%Z) by (unfold prec; lia).
  assert (E : (emin <= 0)%Z) by (unfold emin; lia).
  destruct (Rle_dec (Rabs x) (Rabs s)) as [H|H].
  - pose proof (Fast2Sum_correct emin prec choiceE P E choiceE_sym s x Fs Fx H) as T.
    cbv zeta in T. unfold fl64, fexp. rewrite (Rplus_comm (round _ _ _ (s - _)) x). exact T.
  - assert (H' : Rabs s <= Rabs x) by lra.
    pose proof (Fast2Sum_correct emin prec choiceE P E choiceE_sym x s Fx Fs H') as T.
    cbv zeta in T. unfold fl64, fexp. rewrite (Rplus_comm s x).
    rewrite (Rplus_comm (round _ _ _ (x - _)) s). exact T.
Qed.

(* a sequence of updates (additions of val, removals as -old_val); E collects the error terms as real numbers *)
Fixpoint crun (xs : list R) (s E : R) : R * R :=
  match xs with
  | [] => (s, E)
  | x :: t => crun t (fl64 (s + x)) (E + err_term s x)
  end.

Fixpoint rsum (xs : list R) : R := match xs with [] => 0 | x :: t => x + rsum t end.

Theorem run_exact xs : forall s E, fmt64 s -> Forall fmt64 xs ->
  fst (crun xs s E) + snd (crun xs s E) = s + E + rsum xs.
Proof.
  induction xs as [|x t IH]; intros s E Fs Fxs; cbn [crun rsum fst snd].
  - lra.
  - inversion Fxs as [|? ? Fx Ft]; subst.
    rewrite (IH _ _ (fmt_fl _) Ft). pose proof (err_term_exact s x Fs Fx). lra.
Qed.

(* the window: values v_1..v_k entered and left, values w_1..w_m entered and are still inside, in any interleaving that the
   list of updates xs realises: the sum of the updates is the sum of the window's content *)
Corollary nothing_left_behind xs gone inside :
  Forall fmt64 xs -> rsum xs = rsum gone + rsum (map Ropp gone) + rsum inside ->
  fst (crun xs 0 0) + snd (crun xs 0 0) = rsum inside.
Proof.
  intros Fxs Hsum.
  assert (F0 : fmt64 0) by apply generic_format_0.
  rewrite (run_exact xs 0 0 F0 Fxs), Hsum.
  assert (forall l, rsum l + rsum (map Ropp l) = 0) as Hc.
  { induction l as [|a l IHl]; cbn [rsum map]; lra. }
  specialize (Hc gone). lra.
Qed.

(* non-vacuity: binary64 numbers exist and 1e16, 1 are among them *)
Example fmt_examples : fmt64 1 /\ fmt64 (IZR (10 ^ 16)).
Proof.
  split.
  - replace 1 with (F2R (Float radix2 1 0)) by (unfold F2R; simpl; lra).
    apply generic_format_F2R. intros _. unfold cexp, fexp, FLT_exp, emin, prec.
    rewrite (mag_unique radix2 _ 1); [simpl; lia|]. unfold F2R. simpl. rewrite Rabs_right; lra.
  - apply generic_format_FLT. exists (Float radix2 (5 ^ 16) 16).
    + unfold F2R. cbn [Fnum Fexp]. rewrite <- IZR_Zpower by lia. rewrite <- mult_IZR. f_equal.
    + cbn [Fnum]. unfold prec. rewrite Z.abs_eq by lia. cbn. lia.
    + cbn [Fexp]. unfold emin. lia.
Qed.

(* ---- the compensation as the kernel accumulates it: c := fl64(c + e); reported value fl64(s + c) ---- *)
(* every error term is at most half a unit in the last place of the sum it corrects: second order *)
Lemma err_term_small s x : fmt64 s -> fmt64 x -> Rabs (err_term s x) <= / 2 * ulp radix2 fexp (s + x).
Proof.
  intros Fs Fx. pose proof (err_term_exact s x Fs Fx) as H.
  replace (err_term s x) with (- (fl64 (s + x) - (s + x))) by lra. rewrite Rabs_Ropp.
  unfold fl64, fexp. apply error_le_half_ulp; typeclasses eauto.
Qed.

(* D collects, as real numbers, the rounding errors made when the (small) error terms are added up in c *)
Fixpoint krun (xs : list R) (s c D : R) : R * R * R :=
  match xs with
  | [] => (s, c, D)
  | x :: t => let e := err_term s x in krun t (fl64 (s + x)) (fl64 (c + e)) (D + (fl64 (c + e) - (c + e)))
  end.

Theorem krun_exact xs : forall s c D, fmt64 s -> Forall fmt64 xs ->
  let '(s', c', D') := krun xs s c D in s' + c' = s + c + rsum xs + (D' - D).
Proof.
  induction xs as [|x t IH]; intros s c D Fs Fxs; cbn [krun rsum].
  - lra.
  - inversion Fxs as [|? ? Fx Ft]; subst.
    specialize (IH (fl64 (s + x)) (fl64 (c + err_term s x)) (D + (fl64 (c + err_term s x) - (c + err_term s x))) (fmt_fl _) Ft).
    destruct (krun t _ _ _) as [[s' c'] D'].
    pose proof (err_term_exact s x Fs Fx). lra.
Qed.

(* each of those rounding errors is at most half an ulp of the compensation itself *)
Lemma comp_round_small c e : Rabs (fl64 (c + e) - (c + e)) <= / 2 * ulp radix2 fexp (c + e).
Proof. unfold fl64, fexp. apply error_le_half_ulp; typeclasses eauto. Qed.
