(* C09 - the running sums of _rolling_sum_or_mean_1d in IEEE-754 binary64 arithmetic (Flocq).
   The kernel keeps, per group, a running sum s and a compensation c.  Entering the window adds x = val, leaving it adds
   x = -old_val:
       t = fl64(s + x);   e = fl64(fl64(s - t) + x)  if |s| >= |x|,   fl64(fl64(x - t) + s)  otherwise;   s := t;  c := fl64(c + e)
   and the value reported is fl64(s + c).
   Theorem (Fast2Sum, proved in Flocq.Pff.Pff2Flocq for round-to-nearest without overflow): e is EXACTLY the rounding
   error of t, i.e. t + e = s + x as real numbers.  Hence, by induction over any sequence of additions and removals,
       s_n + (e_1 + ... + e_n) = x_1 + ... + x_n       exactly:
   a value that has left the window (its +v and -v both occur among the x_i) leaves nothing behind in s + E - this is
   what the plain add / subtract update got wrong.  The only rounding left is that of adding up the (second-order)
   terms e_i in c and the final fl64(s + c).
   Uses the real numbers of Coq's standard library (their axioms are listed by Print Assumptions, see DESIGN section 7). *)
From Coq Require Import Reals List ZArith Lia Lra.
From Flocq Require Import Core Pff2Flocq.
Import ListNotations.
Open Scope R_scope.

Definition emin := (-1074)%Z.
Definition prec := 53%Z.
Definition choiceE (x : Z) : bool := negb (Z.even x).      (* ties to even: Flocq's ZnearestE *)
Definition fexp := FLT_exp emin prec.
Definition fl64 (x : R) : R := round radix2 fexp (Znearest choiceE) x.
Definition fmt64 (x : R) : Prop := generic_format radix2 fexp x.

#[global] Instance prec_gt_0_53 : Prec_gt_0 prec.
Proof. unfold Prec_gt_0, prec. lia. Qed.

Lemma choiceE_sym x : choiceE x = negb (choiceE (- (x + 1))).
Proof.
  unfold choiceE. rewrite Z.even_opp, Z.even_add. cbn [Z.even].
  destruct (Z.even x); reflexivity.
Qed.

Lemma fmt_fl x : fmt64 (fl64 x).
Proof. unfold fmt64, fl64, fexp. apply generic_format_round; typeclasses eauto. Qed.

Lemma fmt_opp x : fmt64 x -> fmt64 (- x).
Proof. apply generic_format_opp. Qed.

(* the error term as the kernel computes it *)
Definition err_term (s x : R) : R :=
  let t := fl64 (s + x) in
  if Rle_dec (Rabs x) (Rabs s) then fl64 (fl64 (s - t) + x) else fl64 (fl64 (x - t) + s).

Theorem err_term_exact s x : fmt64 s -> fmt64 x -> fl64 (s + x) + err_term s x = s + x.
Proof.
  intros Fs Fx. unfold err_term.
  assert (P : (1 < prec)%Z) by (unfold prec; lia).
  assert (E : (emin <= 0)%Z) by (unfold emin; lia).
  destruct (Rle_dec (Rabs x) (Rabs s)) as [H|H].
  - pose proof (Fast2Sum_correct emin prec choiceE P E choiceE_sym s x Fs Fx H) as T.
    cbv zeta in T. unfold fl64, fexp. rewrite (Rplus_comm (round _ _ _ (s - _)) x). exact T.
  - assert (H' : Rabs s <= Rabs x) by lra.
    pose proof (Fast2Sum_correct emin prec choiceE P E choiceE_sym x s Fx Fs H') as T.
    cbv zeta in T. unfold fl64, fexp. rewrite (Rplus_comm s x).
    rewrite (Rplus_comm (round _ _ _ (x - _)) s). exact T.
Qed.

(* a sequence of updates (additions of val, removals as -old_val); E collects the error terms as real numbers *)
Fixpoint crun (xs : list R) (s E : R) : R * R :=
  match xs with
  | [] => (s, E)
  | x :: t => crun t (fl64 (s + x)) (E + err_term s x)
  end.

Fixpoint rsum (xs : list R) : R := match xs with [] => 0 | x :: t => x + rsum t end.

Theorem run_exact xs : forall s E, fmt64 s -> Forall fmt64 xs ->
  fst (crun xs s E) + snd (crun xs s E) = s + E + rsum xs.
Proof.
  induction xs as [|x t IH]; intros s E Fs Fxs; cbn [crun rsum fst snd].
  - lra.
  - inversion Fxs as [|? ? Fx Ft]; subst.
    rewrite (IH _ _ (fmt_fl _) Ft). pose proof (err_term_exact s x Fs Fx). lra.
Qed.

(* the window: values v_1..v_k entered and left, values w_1..w_m entered and are still inside, in any interleaving that the
   list of updates xs realises: the sum of the updates is the sum of the window's content *)
Corollary nothing_left_behind xs gone inside :
  Forall fmt64 xs -> rsum xs = rsum gone + rsum (map Ropp gone) + rsum inside ->
  fst (crun xs 0 0) + snd (crun xs 0 0) = rsum inside.
Proof.
  intros Fxs Hsum.
  assert (F0 : fmt64 0) by apply generic_format_0.
  rewrite (run_exact xs 0 0 F0 Fxs), Hsum.
  assert (forall l, rsum l + rsum (map Ropp l) = 0) as Hc.
  { induction l as [|a l IHl]; cbn [rsum map]; lra. }
  specialize (Hc gone). lra.
Qed.

(* non-vacuity: binary64 numbers exist and 1e16, 1 are among them *)
Example fmt_examples : fmt64 1 /\ fmt64 (IZR (10 ^ 16)).
Proof.
  split.
  - replace 1 with (F2R (Float radix2 1 0)) by (unfold F2R; simpl; lra).
    apply generic_format_F2R. intros _. unfold cexp, fexp, FLT_exp, emin, prec.
    rewrite (mag_unique radix2 _ 1); [simpl; lia|]. unfold F2R. simpl. rewrite Rabs_right; lra.
  - apply generic_format_FLT. exists (Float radix2 (5 ^ 16) 16).
    + unfold F2R. cbn [Fnum Fexp]. rewrite <- IZR_Zpower by lia. rewrite <- mult_IZR. f_equal.
    + cbn [Fnum]. unfold prec. rewrite Z.abs_eq by lia. cbn. lia.
    + cbn [Fexp]. unfold emin. lia.
Qed.

(* ---- the compensation as the kernel accumulates it: c := fl64(c + e); reported value fl64(s + c) ---- *)
(* every error term is at most half a unit in the last place of the sum it corrects: second order *)
Lemma err_term_small s x : fmt64 s -> fmt64 x -> Rabs (err_term s x) <= / 2 * ulp radix2 fexp (s + x).
Proof.
  intros Fs Fx. pose proof (err_term_exact s x Fs Fx) as H.
  replace (err_term s x) with (- (fl64 (s + x) - (s + x))) by lra. rewrite Rabs_Ropp.
  unfold fl64, fexp. apply error_le_half_ulp; typeclasses eauto.
Qed.

(* D collects, as real numbers, the rounding errors made when the (small) error terms are added up in c *)
Fixpoint krun (xs : list R) (s c D : R) : R * R * R :=
  match xs with
  | [] => (s, c, D)
  | x :: t => let e := err_term s x in krun t (fl64 (s + x)) (fl64 (c + e)) (D + (fl64 (c + e) - (c + e)))
  end.

Theorem krun_exact xs : forall s c D, fmt64 s -> Forall fmt64 xs ->
  let '(s', c', D') := krun xs s c D in s' + c' = s + c + rsum xs + (D' - D).
Proof.
  induction xs as [|x t IH]; intros s c D Fs Fxs; cbn [krun rsum].
  - lra.
  - inversion Fxs as [|? ? Fx Ft]; subst.
    specialize (IH (fl64 (s + x)) (fl64 (c + err_term s x)) (D + (fl64 (c + err_term s x) - (c + err_term s x))) (fmt_fl _) Ft).
    destruct (krun t _ _ _) as [[s' c'] D'].
    pose proof (err_term_exact s x Fs Fx). lra.
Qed.

(* each of those rounding errors is at most half an ulp of the compensation itself *)
Lemma comp_round_small c e : Rabs (fl64 (c + e) - (c + e)) <= / 2 * ulp radix2 fexp (c + e).
Proof. unfold fl64, fexp. apply error_le_half_ulp; typeclasses eauto. Qed.

(* ---- the error of the reported window sum: first order in the WINDOW, second order in the HISTORY ---- *)
From Flocq Require Import Relative Plus_error.

Definition u64 : R := u_ro radix2 prec.          (* 2^-53 *)

Lemma u64_nonneg : 0 <= u64.
Proof. apply u_ro_pos. Qed.

(* an addition of two binary64 numbers is off by at most u relative to its exact and to its rounded result *)
Lemma fl64_plus_rel x y : fmt64 x -> fmt64 y -> exists eps, Rabs eps <= u64 /\ fl64 (x + y) = (x + y) * (1 + eps).
Proof.
  intros Fx Fy. destruct (FLT_plus_error_N_ex radix2 emin prec choiceE x y Fx Fy) as [eps [He H]].
  exists eps. split; [|exact H]. eapply Rle_trans; [exact He|]. apply u_rod1pu_ro_le_u_ro.
Qed.

Lemma fl64_plus_rel_round x y : fmt64 x -> fmt64 y -> exists eps, Rabs eps <= u64 /\ x + y = fl64 (x + y) * (1 + eps).
Proof.
  intros Fx Fy. exact (FLT_plus_error_N_round_ex radix2 emin prec choiceE x y Fx Fy).
Qed.

Lemma fmt64_err_term s x : fmt64 (err_term s x).
Proof. unfold err_term. destruct (Rle_dec _ _); apply fmt_fl. Qed.

(* each recorded error term is at most u times the running sum it corrects *)
Lemma err_term_rel s x : fmt64 s -> fmt64 x -> Rabs (err_term s x) <= u64 * Rabs (fl64 (s + x)).
Proof.
  intros Fs Fx. pose proof (err_term_exact s x Fs Fx) as He.
  destruct (fl64_plus_rel_round s x Fs Fx) as [eps [Hb Hr]].
  replace (err_term s x) with (fl64 (s + x) * eps) by lra.
  rewrite Rabs_mult, Rmult_comm. apply Rmult_le_compat_r; [apply Rabs_pos | exact Hb].
Qed.

(* running sums bounded by H along a sequence of updates *)
Fixpoint sums_le (xs : list R) (s H : R) : Prop :=
  match xs with [] => True | x :: t => Rabs (fl64 (s + x)) <= H /\ sums_le t (fl64 (s + x)) H end.

(* bounds on the compensation and on the accumulated rounding of the compensation, by recurrence *)
Fixpoint Abound (n : nat) (H a : R) : R := match n with O => a | S k => Abound k H ((1 + u64) * (a + u64 * H)) end.
Fixpoint Dbound (n : nat) (H a : R) : R := match n with O => 0 | S k => u64 * (a + u64 * H) + Dbound k H ((1 + u64) * (a + u64 * H)) end.

Theorem krun_bounds xs : forall s c D H a, fmt64 s -> fmt64 c -> Forall fmt64 xs -> sums_le xs s H -> Rabs c <= a ->
  let '(s', c', D') := krun xs s c D in
  fmt64 s' /\ fmt64 c' /\ Rabs c' <= Abound (length xs) H a /\ Rabs (D' - D) <= Dbound (length xs) H a.
Proof.
  induction xs as [|x t IH]; intros s c D H a Fs Fc Fxs Hs Hc; cbn [krun length Abound Dbound].
  - repeat split; auto. replace (D - D) with 0 by lra. rewrite Rabs_R0. lra.
  - inversion Fxs as [|? ? Fx Ft]; subst. destruct Hs as [Hs1 Hs2].
    set (e := err_term s x). set (c1 := fl64 (c + e)).
    assert (Fe : fmt64 e) by apply fmt64_err_term.
    assert (He : Rabs e <= u64 * H).
    { eapply Rle_trans; [apply err_term_rel; assumption|]. apply Rmult_le_compat_l; [apply u64_nonneg | exact Hs1]. }
    destruct (fl64_plus_rel c e Fc Fe) as [eps [Hb Hr]]. fold c1 in Hr.
    assert (Hce : Rabs (c + e) <= a + u64 * H).
    { eapply Rle_trans; [apply Rabs_triang|]. lra. }
    assert (Hc1 : Rabs c1 <= (1 + u64) * (a + u64 * H)).
    { rewrite Hr, Rabs_mult. rewrite (Rmult_comm (1 + u64)).
      apply Rmult_le_compat; [apply Rabs_pos | apply Rabs_pos | exact Hce |].
      eapply Rle_trans; [apply Rabs_triang|]. rewrite Rabs_R1. lra. }
    assert (Hd : Rabs (c1 - (c + e)) <= u64 * (a + u64 * H)).
    { replace (c1 - (c + e)) with ((c + e) * eps) by (rewrite Hr; ring).
      rewrite Rabs_mult, Rmult_comm. apply Rmult_le_compat; [apply Rabs_pos | apply Rabs_pos | exact Hb | exact Hce]. }
    specialize (IH (fl64 (s + x)) c1 (D + (c1 - (c + e))) H ((1 + u64) * (a + u64 * H)) (fmt_fl _) (fmt_fl _) Ft Hs2 Hc1).
    destruct (krun t (fl64 (s + x)) c1 (D + (c1 - (c + e)))) as [[s' c'] D'].
    destruct IH as [F1 [F2 [B1 B2]]]. repeat split; auto.
    replace (D' - D) with ((c1 - (c + e)) + (D' - (D + (c1 - (c + e))))) by ring.
    eapply Rle_trans; [apply Rabs_triang|]. lra.
Qed.

(* the value the kernel reports, fl(s + c), against the exact sum W of all updates (= the sum of the window's content):
   off by at most u |W| plus (1 + u) times the second-order term Dbound *)
Theorem reported_sum_error xs H : Forall fmt64 xs -> sums_le xs 0 H ->
  let '(s', c', _) := krun xs 0 0 0 in
  Rabs (fl64 (s' + c') - rsum xs) <= u64 * Rabs (rsum xs) + (1 + u64) * Dbound (length xs) H 0.
Proof.
  intros Fxs Hs.
  assert (F0 : fmt64 0) by apply generic_format_0.
  pose proof (krun_exact xs 0 0 0 F0 Fxs) as He.
  pose proof (krun_bounds xs 0 0 0 H 0 F0 F0 Fxs Hs) as Hb. rewrite Rabs_R0 in Hb. specialize (Hb (Rle_refl 0)).
  destruct (krun xs 0 0 0) as [[s' c'] D']. destruct Hb as [Fs [Fc [_ Hd]]].
  replace (D' - 0) with D' in * by lra.
  assert (Hsc : s' + c' = rsum xs + D') by lra.
  destruct (fl64_plus_rel s' c' Fs Fc) as [eps [Hbe Hr]].
  rewrite Hr, Hsc.
  replace ((rsum xs + D') * (1 + eps) - rsum xs) with (rsum xs * eps + D' * (1 + eps)) by ring.
  eapply Rle_trans; [apply Rabs_triang|]. rewrite !Rabs_mult.
  pose proof u64_nonneg as Hu.
  apply Rplus_le_compat.
  - rewrite Rmult_comm. apply Rmult_le_compat_r; [apply Rabs_pos | exact Hbe].
  - rewrite Rmult_comm. apply Rmult_le_compat.
    + apply Rabs_pos.
    + apply Rabs_pos.
    + eapply Rle_trans; [apply Rabs_triang|]. rewrite Rabs_R1. lra.
    + exact Hd.
Qed.

(* the recurrences in closed form: with q = 1 + u,  Abound n H 0 <= n u H q^n  and  Dbound n H 0 <= n^2 u^2 H q^n:
   the history (H bounds every running sum there ever was) enters the reported value at second order only *)
Lemma Abound_mono n : forall H a b, 0 <= H -> a <= b -> Abound n H a <= Abound n H b.
Proof.
  induction n as [|n IH]; intros H a b HH Hab; cbn [Abound]; [exact Hab|].
  apply IH; [exact HH|]. pose proof u64_nonneg. nra.
Qed.

Definition q64 : R := 1 + u64.

Lemma q64_pow_ge1 n : 1 <= q64 ^ n.
Proof. apply pow_R1_Rle. unfold q64. pose proof u64_nonneg. lra. Qed.

Lemma step_le H a n : 0 <= H -> 0 <= a ->
  q64 * (a + u64 * H) + INR n * u64 * H <= q64 * (a + INR (S n) * u64 * H).
Proof.
  intros HH Ha. rewrite S_INR. unfold q64. pose proof u64_nonneg as Hu. pose proof (pos_INR n) as Hn.
  assert (0 <= INR n * u64 * H) by (apply Rmult_le_pos; [apply Rmult_le_pos|]; assumption).
  nra.
Qed.

Lemma Abound_closed n : forall H a, 0 <= H -> 0 <= a -> Abound n H a <= (a + INR n * u64 * H) * q64 ^ n.
Proof.
  induction n as [|n IH]; intros H a HH Ha.
  - cbn [Abound INR pow]. lra.
  - cbn [Abound]. pose proof u64_nonneg as Hu.
    assert (Ha' : 0 <= (1 + u64) * (a + u64 * H)) by (apply Rmult_le_pos; nra).
    eapply Rle_trans; [apply IH; assumption|].
    change (q64 ^ S n) with (q64 * q64 ^ n). fold q64.
    pose proof (q64_pow_ge1 n) as Hq. pose proof (step_le H a n HH Ha) as Hs. fold q64 in Hs.
    assert (0 <= q64 ^ n) by lra.
    replace ((a + INR (S n) * u64 * H) * (q64 * q64 ^ n)) with ((q64 * (a + INR (S n) * u64 * H)) * q64 ^ n) by ring.
    apply Rmult_le_compat_r; assumption.
Qed.

Lemma Dbound_closed n : forall H a, 0 <= H -> 0 <= a ->
  Dbound n H a <= INR n * u64 * (a + INR n * u64 * H) * q64 ^ n.
Proof.
  induction n as [|n IH]; intros H a HH Ha.
  - cbn [Dbound INR pow]. lra.
  - cbn [Dbound]. pose proof u64_nonneg as Hu.
    assert (Ha' : 0 <= (1 + u64) * (a + u64 * H)) by (apply Rmult_le_pos; nra).
    pose proof (IH H _ HH Ha') as IH'. fold q64 in IH'.
    pose proof (q64_pow_ge1 n) as Hq. pose proof (q64_pow_ge1 (S n)) as Hq'.
    pose proof (step_le H a n HH Ha) as Hs. pose proof (pos_INR n) as Hn.
    change (q64 ^ S n) with (q64 * q64 ^ n) in *.
    set (B := a + INR (S n) * u64 * H) in *.
    assert (HB : a + u64 * H <= B).
    { unfold B. rewrite S_INR. assert (0 <= INR n * u64 * H) by (apply Rmult_le_pos; [apply Rmult_le_pos|]; assumption). nra. }
    assert (HB0 : 0 <= B) by (unfold B; pose proof (pos_INR (S n)); assert (0 <= INR (S n) * u64 * H) by (apply Rmult_le_pos; [apply Rmult_le_pos|]; assumption); lra).
    (* second term *)
    assert (T2 : INR n * u64 * (q64 * (a + u64 * H) + INR n * u64 * H) * q64 ^ n <= INR n * u64 * B * (q64 * q64 ^ n)).
    { replace (INR n * u64 * B * (q64 * q64 ^ n)) with (INR n * u64 * (q64 * B) * q64 ^ n) by ring.
      apply Rmult_le_compat_r; [lra|]. apply Rmult_le_compat_l; [apply Rmult_le_pos; assumption | exact Hs]. }
    (* first term *)
    assert (T1 : u64 * (a + u64 * H) <= u64 * B * (q64 * q64 ^ n)).
    { assert (u64 * (a + u64 * H) <= u64 * B) by (apply Rmult_le_compat_l; assumption).
      assert (0 <= u64 * B) by (apply Rmult_le_pos; assumption). nra. }
    rewrite (S_INR n). fold q64. unfold q64 in IH' at 1. fold q64 in IH'. nra.
Qed.

(* closed form of the bound of [reported_sum_error] *)
Corollary history_is_second_order n H : 0 <= H -> Dbound n H 0 <= INR n * INR n * (u64 * u64) * H * q64 ^ n.
Proof.
  intros HH. eapply Rle_trans; [apply Dbound_closed; [exact HH | lra]|]. rewrite Rplus_0_l. apply Req_le. ring.
Qed.
