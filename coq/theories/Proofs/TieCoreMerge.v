(* Tie B: which key-chunk results are merged with the plain sum *)
From Coq Require Import List ZArith String.
From GL Require Import Model.GroupByApi Gen.TablesGen.

Lemma tie_core_merge_sums : gen_core_merge_sums = core_merge_sums.
Proof. reflexivity. Qed.
