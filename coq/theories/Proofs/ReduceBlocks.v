(* Array level: merging the partial-result arrays of consecutive row blocks
   equals the partial-result arrays of the concatenated rows; hence
   combine_chunk_results_for_factorized_key over any list of blocks equals the
   single pass over their concatenation. *)
From Coq Require Import List ZArith Lia Bool Arith.
From GL Require Import Lib.Arr Lib.Keyed Lib.Blocks Model.Dom Model.Scalar Model.Reduce
                       Spec.Defs Spec.Exec Proofs.ReduceSeries Proofs.ReduceKernel Proofs.ReduceMerge.
Import ListNotations.
Open Scope Z_scope.

Section Blocks.
Context {V : Type} (o : ops V) (L : laws o).
Notation dV := (null o).

(* the single pass over a list of rows *)
Definition P (r : rname) (ng : nat) (rows : list (Z * V)) : list V * list Z :=
  gbr_fold o (reducer_of o r) rows (build_target o r ng, repeat 0 ng).

Lemma P_lengths r ng rows : length (fst (P r ng rows)) = ng /\ length (snd (P r ng rows)) = ng.
Proof.
  unfold P. destruct (gbr_fold_lengths o (reducer_of o r) rows (build_target o r ng) (repeat 0 ng)) as [H1 H2].
  - unfold build_target. now rewrite !repeat_length.
  - unfold build_target in *. rewrite repeat_length in *. auto.
Qed.

Theorem P_group r ng rows g : (g < ng)%nat ->
  (get dV (fst (P r ng rows)) g, get 0 (snd (P r ng rows)) g)
  = series (reducer_of o r) (rows_of g rows) (initial_value o r, 0).
Proof.
  intros Hg. unfold P. rewrite gbr_fold_group.
  - unfold build_target. now rewrite !get_repeat by auto.
  - unfold build_target. now rewrite !repeat_length.
  - unfold build_target. now rewrite repeat_length.
Qed.

Lemma get_map_seq {A} (d : A) (f : nat -> A) n i : (i < n)%nat -> get d (map f (seq 0 n)) i = f i.
Proof.
  intros H. unfold get. rewrite nth_indep with (d' := f 0%nat) by (rewrite map_length, seq_length; auto).
  pose proof (map_nth f (seq 0 n) 0%nat i) as E. rewrite E. now rewrite seq_nth by auto.
Qed.

Lemma add_counts_get a b i : length a = length b -> (i < length a)%nat ->
  get 0 (add_counts a b) i = get 0 a i + get 0 b i.
Proof.
  intros Hl Hi. unfold add_counts, get.
  rewrite nth_indep with (d' := (fun p => fst p + snd p) (0, 0)) by (rewrite map_length, combine_length; lia).
  rewrite (map_nth (fun p => fst p + snd p) (combine a b) (0, 0) i). rewrite combine_nth by auto. reflexivity.
Qed.
Lemma add_counts_length a b : length a = length b -> length (add_counts a b) = length a.
Proof. intros. unfold add_counts. rewrite map_length, combine_length. lia. Qed.

Definition count_additive (rf : @reducer V) (init : V) : Prop :=
  forall l1 l2, snd (series rf (l1 ++ l2) (init, 0)) = snd (series rf l1 (init, 0)) + snd (series rf l2 (init, 0)).

Lemma merges_count_additive rf mf init : merges rf mf init -> count_additive rf init.
Proof. intros H l1 l2. rewrite H. reflexivity. Qed.

(* counts of blocks add up, for every reducer whose count is additive *)
Lemma P_counts_app r ng rows1 rows2 :
  count_additive (reducer_of o r) (initial_value o r) ->
  snd (P r ng (rows1 ++ rows2)) = add_counts (snd (P r ng rows1)) (snd (P r ng rows2)).
Proof.
  intros Hc.
  destruct (P_lengths r ng rows1) as [_ H1]. destruct (P_lengths r ng rows2) as [_ H2].
  destruct (P_lengths r ng (rows1 ++ rows2)) as [_ H3].
  apply (list_ext 0).
  - rewrite add_counts_length; lia.
  - intros i Hi. rewrite H3 in Hi. rewrite add_counts_get by lia.
    pose proof (P_group r ng (rows1 ++ rows2) i Hi) as E. pose proof (P_group r ng rows1 i Hi) as E1.
    pose proof (P_group r ng rows2 i Hi) as E2.
    apply (f_equal snd) in E. apply (f_equal snd) in E1. apply (f_equal snd) in E2. simpl in E, E1, E2.
    rewrite E, E1, E2, rows_of_app. apply Hc.
Qed.

(* one merge step of combine_chunk_results_for_factorized_key *)
Theorem rap_merge r mr ng rows1 rows2 :
  merges (reducer_of o r) (reducer_of o mr) (initial_value o r) ->
  let p1 := P r ng rows1 in let p2 := P r ng rows2 in
  (reduce_array_pair o (reducer_of o mr) (fst p1) (fst p2) (Some (snd p1)) (Some (snd p2)),
   add_counts (snd p1) (snd p2)) = P r ng (rows1 ++ rows2).
Proof.
  intros Hm. cbn zeta.
  destruct (P_lengths r ng rows1) as [H1 H1']. destruct (P_lengths r ng rows2) as [H2 H2'].
  destruct (P_lengths r ng (rows1 ++ rows2)) as [H3 H3'].
  rewrite (surjective_pairing (P r ng (rows1 ++ rows2))). f_equal.
  - apply (list_ext dV).
    + unfold reduce_array_pair. rewrite map_length, seq_length. lia.
    + intros i Hi. unfold reduce_array_pair in *. rewrite map_length, seq_length in Hi.
      rewrite H1 in Hi. rewrite H1.
      rewrite get_map_seq by lia.
      pose proof (P_group r ng (rows1 ++ rows2) i Hi) as E. pose proof (P_group r ng rows1 i Hi) as E1.
      pose proof (P_group r ng rows2 i Hi) as E2.
      rewrite rows_of_app, Hm in E. rewrite <- E1, <- E2 in E. unfold merge_pair in E. cbn [fst snd] in E.
      apply (f_equal fst) in E. cbn [fst] in E. rewrite E. reflexivity.
  - rewrite P_counts_app; auto. eapply merges_count_additive; eauto.
Qed.

(* the whole combine loop over a non-empty list of blocks *)
Theorem combine_factorized_blocks r mr ng (b0 : list (Z * V)) (bs : list (list (Z * V))) :
  merges (reducer_of o r) (reducer_of o mr) (initial_value o r) ->
  combine_factorized o mr (map fst (map (P r ng) (b0 :: bs))) (map snd (map (P r ng) (b0 :: bs)))
  = P r ng (concat (b0 :: bs)).
Proof.
  intros Hm. unfold combine_factorized. cbn [map concat].
  revert b0. induction bs as [|b bs IH]; intros b0.
  - simpl. rewrite app_nil_r. now rewrite <- surjective_pairing.
  - cbn [map combine fold_left fst snd concat].
    pose proof (rap_merge r mr ng b0 b Hm) as Hstep. cbn zeta in Hstep. rewrite Hstep.
    specialize (IH (b0 ++ b)). rewrite <- surjective_pairing in IH. rewrite IH.
    now rewrite app_assoc.
Qed.

(* counts only (also valid for the count reducers, whatever they merge with) *)
Theorem combine_factorized_counts r mr ng (b0 : list (Z * V)) (bs : list (list (Z * V))) :
  count_additive (reducer_of o r) (initial_value o r) ->
  forall chunks, length chunks = S (length bs) ->
  snd (combine_factorized o mr chunks (map snd (map (P r ng) (b0 :: bs))))
  = snd (P r ng (concat (b0 :: bs))).
Proof.
  intros Hc. unfold combine_factorized. cbn [map concat].
  revert b0. induction bs as [|b bs IH]; intros b0 chunks Hl.
  - destruct chunks as [|c0 [|c1 cs]]; simpl in Hl; try lia. simpl. now rewrite app_nil_r.
  - destruct chunks as [|c0 [|c1 cs]]; simpl in Hl; try lia.
    cbn [map combine fold_left fst snd concat].
    rewrite <- (P_counts_app r ng b0 b Hc).
    specialize (IH (b0 ++ b) (reduce_array_pair o (reducer_of o mr) c0 c1 (Some (snd (P r ng b0))) (Some (snd (P r ng b)))
                               :: cs)).
    cbn [map combine fold_left fst snd concat] in IH. rewrite app_assoc. apply IH. simpl. lia.
Qed.

End Blocks.
