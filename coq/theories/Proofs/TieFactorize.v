(* Tie B: the mixed-radix kernel regenerated from factorization.py is the model the C02 theorems are about *)
From Coq Require Import List ZArith Lia Bool.
From GL Require Import Model.Factorize Gen.FactorizeGen.
Open Scope Z_scope.

Lemma tie_wcs_loop cw : forall out, g_wcs_loop cw out = wcs cw out.
Proof. induction cw as [|[c w] t IH]; intros out; cbn [g_wcs_loop wcs]; auto; try (destruct (c =? -1); auto). Qed.
Lemma tie_weight_code_sum codes weights : g_weight_code_sum codes weights = weight_code_sum codes weights.
Proof. unfold g_weight_code_sum, weight_code_sum. rewrite tie_wcs_loop. reflexivity. Qed.
