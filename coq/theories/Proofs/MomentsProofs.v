(* Theorems about the moment formulas (Model/Moments.v).
   1. mean of tick counts: with the true sum inside the 64-bit range the whole-number mean is the exact mean to within
      one tick, for any number of values; when the sum leaves the range the 64-bit accumulator does NOT give the mean
      (refuted with a witness: six present-day timestamps) - known finding K3;
   2. two-pass variance: equal to the textbook definition in exact arithmetic, invariant under shifting the data
      (the offset of the data cannot enter, which is what the one-pass formula gets wrong in floating point),
      and non-negative. *)
From Coq Require Import List ZArith QArith Qabs Lqa Lia Qfield.
From GL Require Import Model.Moments Proofs.ContainerProofs.
Import ListNotations.

(* ---------------- 1. whole-number mean of ticks ---------------- *)
Open Scope Z_scope.

Definition group_mean_ticks (l : list Z) : option Z := mean_ticks (wrapped_sum l) (Z.of_nat (length l)).

Theorem mean_ticks_exact l :
  l <> [] -> - 2 ^ 63 <= fold_left Z.add l 0 < 2 ^ 63 ->
  exists m, group_mean_ticks l = Some m /\
            Z.of_nat (length l) * m <= fold_left Z.add l 0 < Z.of_nat (length l) * (m + 1).
Proof.
  intros Hne Hr. unfold group_mean_ticks, mean_ticks.
  rewrite (int_sum_no_wrap l Hr).
  assert (Hn : 0 < Z.of_nat (length l)) by (destruct l; [congruence | cbn [length]; lia]).
  destruct (0 <? Z.of_nat (length l)) eqn:E; [|apply Z.ltb_ge in E; lia].
  eexists; split; [reflexivity|].
  set (s := fold_left Z.add l 0) in *. set (n := Z.of_nat (length l)) in *.
  pose proof (Z.mul_div_le s n Hn). pose proof (Z.mul_succ_div_gt s n Hn). lia.
Qed.

Theorem mean_ticks_empty : group_mean_ticks [] = None.
Proof. reflexivity. Qed.

(* the full statement "for all values in range, the mean is the exact mean" is false of the 64-bit accumulator *)
Definition in64 (z : Z) : Prop := - 2 ^ 63 <= z < 2 ^ 63.
Theorem mean_ticks_refuted :
  exists l m, Forall in64 l /\ group_mean_ticks l = Some m /\
              ~ (Z.of_nat (length l) * m <= fold_left Z.add l 0 < Z.of_nat (length l) * (m + 1)).
Proof.
  exists (repeat 1704067200000000000 6). eexists. split; [|split].
  - repeat constructor; unfold in64; lia.
  - vm_compute. reflexivity.
  - vm_compute. intros [H1 H2]. first [discriminate H2 | apply H1; reflexivity].
Qed.

(* ---------------- 2. two-pass variance ---------------- *)
Open Scope Q_scope.

Lemma qsum_ext (f g : Q -> Q) l : (forall x, f x == g x) -> qsum (map f l) == qsum (map g l).
Proof. intros H. induction l as [|x t IH]; cbn [map qsum fold_right]; [reflexivity|]. unfold qsum in IH. rewrite IH, H. reflexivity. Qed.

Lemma qlen_cons x l : qlen (x :: l) == qlen l + 1.
Proof. unfold qlen. cbn [length]. rewrite Nat2Z.inj_succ, <- Z.add_1_r, inject_Z_plus. reflexivity. Qed.

Lemma qlen_nonneg l : 0 <= qlen l.
Proof. unfold qlen. change 0 with (inject_Z 0). rewrite <- Zle_Qle. lia. Qed.

Lemma qlen_pos l : l <> [] -> 0 < qlen l.
Proof. destruct l as [|x t]; [congruence|]. intros _. rewrite qlen_cons. pose proof (qlen_nonneg t). lra. Qed.

(* expansion of the squared deviations around any centre m *)
Lemma dev_expand m l :
  qsum (map (fun x => qsq (x - m)) l) == qsum (map qsq l) - 2 * m * qsum l + qlen l * qsq m.
Proof.
  induction l as [|x t IH].
  - cbn. unfold qlen, qsq. cbn. ring.
  - cbn [map qsum fold_right]. unfold qsum in IH. rewrite IH. rewrite qlen_cons. unfold qsq. cbn [map fold_right]. ring.
Qed.

Theorem two_pass_is_one_pass ddof l : l <> [] -> var_two_pass ddof l == var_one_pass ddof l.
Proof.
  intros Hne. unfold var_two_pass, var_one_pass. rewrite dev_expand.
  pose proof (qlen_pos l Hne) as Hp. unfold qmean, qsq.
  apply Qmult_comp; [|reflexivity].
  field. lra.
Qed.

Lemma qsum_shift c l : qsum (map (Qplus c) l) == qsum l + qlen l * c.
Proof.
  induction l as [|x t IH].
  - cbn. unfold qlen. cbn. ring.
  - cbn [map qsum fold_right]. unfold qsum in IH. rewrite IH, qlen_cons. cbn [fold_right]. ring.
Qed.

Lemma qlen_map (f : Q -> Q) l : qlen (map f l) = qlen l.
Proof. unfold qlen. rewrite map_length. reflexivity. Qed.

Lemma qmean_shift c l : l <> [] -> qmean (map (Qplus c) l) == qmean l + c.
Proof.
  intros Hne. unfold qmean. rewrite qsum_shift, qlen_map. pose proof (qlen_pos l Hne). field. lra.
Qed.

Theorem two_pass_shift_invariant ddof c l : l <> [] ->
  var_two_pass ddof (map (Qplus c) l) == var_two_pass ddof l.
Proof.
  intros Hne. unfold var_two_pass. rewrite qlen_map, map_map.
  apply Qmult_comp; [|reflexivity].
  apply qsum_ext. intros x. pose proof (qmean_shift c l Hne) as Hm. unfold qsq.
  set (m' := qmean (map (Qplus c) l)) in *. set (m := qmean l) in *. rewrite Hm. ring.
Qed.

Lemma qsum_sq_nonneg (f : Q -> Q) l : 0 <= qsum (map (fun x => qsq (f x)) l).
Proof.
  induction l as [|x t IH]; cbn [map qsum fold_right]; [lra|]. unfold qsum in IH.
  assert (0 <= qsq (f x)) by (unfold qsq; nra). lra.
Qed.

Theorem two_pass_nonneg ddof l : inject_Z ddof < qlen l -> 0 <= var_two_pass ddof l.
Proof.
  intros H. unfold var_two_pass.
  pose proof (qsum_sq_nonneg (fun x => x - qmean l) l) as Hs.
  unfold Qdiv. apply Qmult_le_0_compat; [exact Hs|].
  apply Qlt_le_weak, Qinv_lt_0_compat. lra.
Qed.

(* the squared deviations around ANY centre c exceed those around the mean by exactly n (c - mean)^2: two correct two-pass
   implementations, whose means differ by rounding, differ in the sum of squares by n times the square of that difference -
   the principled slack of the comparison with NumPy (harness/props/c20.py) *)
Theorem two_pass_centre c l : l <> [] ->
  qsum (map (fun x => qsq (x - c)) l) == qsum (map (fun x => qsq (x - qmean l)) l) + qlen l * qsq (c - qmean l).
Proof.
  intros Hne. rewrite (dev_expand c l), (dev_expand (qmean l) l).
  pose proof (qlen_pos l Hne) as Hp. unfold qmean, qsq. field. lra.
Qed.

(* non-vacuity: data with a large offset, the case the one-pass formula loses in floating point *)
Example two_pass_example :
  var_two_pass 0 [100000001#1; 100000002#1; 100000003#1] == 2 # 3 /\
  var_two_pass 0 [1#1; 2#1; 3#1] == 2 # 3.
Proof. split; vm_compute; reflexivity. Qed.
