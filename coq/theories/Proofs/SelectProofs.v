(* head / tail / nth: the scanning kernels return exactly the requested positions
   of every group, for all interleavings, masks, group sizes and n. *)
From Coq Require Import List ZArith Lia Bool Arith.
From GL Require Import Lib.Arr Lib.Keyed Model.Select Spec.RowSpec.
Import ListNotations.
Open Scope Z_scope.

Lemma list_as_map_get {A} (d : A) (l : list A) : l = map (get d l) (seq 0 (length l)).
Proof.
  apply (list_ext d).
  - now rewrite map_length, seq_length.
  - intros i Hi. unfold get at 2.
    rewrite nth_indep with (d' := get d l 0%nat) by (rewrite map_length, seq_length; auto).
    pose proof (map_nth (get d l) (seq 0 (length l)) 0%nat i) as E. rewrite E.
    now rewrite seq_nth by auto.
Qed.

(* the rows of one group, as the loop sees them *)
Lemma rows_of_enum g gk mask :
  rows_of g (enum_rows gk mask)
  = map (fun i => (Z.of_nat i, sel_at mask i))
        (filter (fun i => get (-1) gk i =? Z.of_nat g) (seq 0 (length gk))).
Proof.
  unfold rows_of, enum_rows. generalize (seq 0 (length gk)) as l.
  induction l as [|i l IH]; simpl; auto.
  destruct (get (-1) gk i =? Z.of_nat g); simpl; now rewrite IH.
Qed.

Lemma rows_of_rev {R} g (rows : list (Z * R)) : rows_of g (rev rows) = rev (rows_of g rows).
Proof.
  unfold rows_of. induction rows as [|r rest IH]; simpl; auto.
  rewrite filter_app, map_app, IH. simpl. destruct (fst r =? Z.of_nat g); simpl; auto.
  now rewrite app_nil_r.
Qed.

(* unselected rows are no-ops, so only the selected positions matter *)
Lemma selected_rows g gk mask :
  filter (fun r : Z * bool => snd r)
         (map (fun i => (Z.of_nat i, sel_at mask i))
              (filter (fun i => get (-1) gk i =? Z.of_nat g) (seq 0 (length gk))))
  = map (fun i => (Z.of_nat i, true)) (positions_of g gk mask).
Proof.
  unfold positions_of. generalize (seq 0 (length gk)) as l.
  induction l as [|i l IH]; simpl; auto.
  destruct (get (-1) gk i =? Z.of_nat g); simpl; auto.
  destruct (sel_at mask i) eqn:E; simpl; rewrite ?E; simpl; now rewrite IH.
Qed.

Lemma filter_rev' {A} (f : A -> bool) (l : list A) : filter f (rev l) = rev (filter f l).
Proof.
  induction l as [|x l IH]; simpl; auto.
  rewrite filter_app, IH. simpl. destruct (f x); simpl; auto. now rewrite app_nil_r.
Qed.

(* ---- nth ---- *)
Lemma nth_step_skip n c r : snd r = false -> nth_step n c r = c.
Proof. destruct c, r; simpl; intros ->; auto. Qed.

Lemma nth_fold n ps : forall out seen, 0 <= seen ->
  fold_left (nth_step n) (map (fun i => (Z.of_nat i, true)) ps) (out, seen)
  = ((if (seen <=? n) && (n <? seen + Z.of_nat (length ps))
      then match nth_error ps (Z.to_nat (n - seen)) with Some p => Z.of_nat p | None => -1 end
      else out), seen + Z.of_nat (length ps)).
Proof.
  induction ps as [|p ps IH]; intros out seen Hs.
  - simpl. replace (seen + 0) with seen by lia.
    destruct (seen <=? n) eqn:E1; destruct (n <? seen) eqn:E2; simpl; auto.
    apply Z.leb_le in E1. apply Z.ltb_lt in E2. lia.
  - cbn [map fold_left nth_step]. rewrite IH by lia.
    cbn [length]. rewrite Nat2Z.inj_succ. f_equal; [|lia].
    destruct (seen =? n) eqn:E.
    + apply Z.eqb_eq in E. subst.
      replace (n + 1 <=? n) with false by (symmetry; apply Z.leb_gt; lia). simpl.
      rewrite Z.leb_refl. replace (n <? n + Z.succ (Z.of_nat (length ps))) with true by (symmetry; apply Z.ltb_lt; lia).
      simpl. now rewrite Z.sub_diag.
    + apply Z.eqb_neq in E.
      destruct (seen <=? n) eqn:E1; destruct (n <? seen + Z.succ (Z.of_nat (length ps))) eqn:E2; simpl.
      * apply Z.leb_le in E1. apply Z.ltb_lt in E2.
        replace (seen + 1 <=? n) with true by (symmetry; apply Z.leb_le; lia).
        replace (n <? seen + 1 + Z.of_nat (length ps)) with true by (symmetry; apply Z.ltb_lt; lia). simpl.
        replace (Z.to_nat (n - seen)) with (S (Z.to_nat (n - (seen + 1)))) by lia. reflexivity.
      * apply Z.ltb_ge in E2.
        replace (n <? seen + 1 + Z.of_nat (length ps)) with false by (symmetry; apply Z.ltb_ge; lia).
        now rewrite andb_false_r.
      * apply Z.leb_gt in E1. replace (seen + 1 <=? n) with false by (symmetry; apply Z.leb_gt; lia). reflexivity.
      * apply Z.leb_gt in E1. replace (seen + 1 <=? n) with false by (symmetry; apply Z.leb_gt; lia). reflexivity.
Qed.

Lemma nth_group n g (rows : list (Z * (Z * bool))) ps :
  filter (fun r : Z * bool => snd r) (rows_of g rows) = map (fun i => (Z.of_nat i, true)) ps ->
  0 <= n ->
  fst (fold_left (nth_step n) (rows_of g rows) (-1, 0))
  = match nth_error ps (Z.to_nat n) with Some p => Z.of_nat p | None => -1 end.
Proof.
  intros Hf Hn.
  rewrite (fold_left_skip (nth_step n) (fun r => snd r)) by (intros; apply nth_step_skip; auto).
  rewrite Hf, nth_fold by lia. cbn [fst].
  replace (0 <=? n) with true by (symmetry; apply Z.leb_le; lia). rewrite Z.sub_0_r. simpl.
  destruct (n <? Z.of_nat (length ps)) eqn:E; auto.
  apply Z.ltb_ge in E. destruct (nth_error ps (Z.to_nat n)) eqn:E2; auto.
  apply nth_error_Some' in E2 || (assert (Z.to_nat n < length ps)%nat by (apply nth_error_Some; congruence); lia).
Qed.

Theorem find_nth_correct gk ng n mask :
  find_nth gk ng n mask = nth_spec gk ng n mask.
Proof.
  unfold find_nth, nth_spec.
  set (rows0 := enum_rows gk mask).
  destruct (0 <=? n) eqn:En.
  - apply Z.leb_le in En.
    rewrite (list_as_map_get (-1, 0) (kfold (-1, 0) (nth_step n) rows0 (repeat (-1, 0) ng))).
    rewrite kfold_length, repeat_length, map_map. apply map_ext_in. intros g Hg. apply in_seq in Hg.
    rewrite kfold_decompose by (rewrite repeat_length; lia). rewrite get_repeat by lia.
    apply nth_group; auto. unfold rows0. rewrite rows_of_enum. apply selected_rows.
  - apply Z.leb_gt in En.
    rewrite (list_as_map_get (-1, 0) (kfold (-1, 0) (nth_step (- n - 1)) (rev rows0) (repeat (-1, 0) ng))).
    rewrite kfold_length, repeat_length, map_map. apply map_ext_in. intros g Hg. apply in_seq in Hg.
    rewrite kfold_decompose by (rewrite repeat_length; lia). rewrite get_repeat by lia.
    apply nth_group; [|lia]. rewrite rows_of_rev. unfold rows0. rewrite rows_of_enum.
    rewrite filter_rev', selected_rows. now rewrite map_rev.
Qed.

(* ---- first / last n ---- *)
Lemma firstn_step_skip n c r : snd r = false -> firstn_step n c r = c.
Proof. destruct c, r; simpl; intros ->; auto. Qed.

Lemma upd_app_here {A} (pre : list A) x rest y : upd (pre ++ x :: rest) (length pre) y = pre ++ y :: rest.
Proof. induction pre as [|a pre IH]; simpl; auto. now rewrite IH. Qed.

Lemma firstn_fold n ps : forall pre, (length pre <= n)%nat ->
  fold_left (firstn_step n) (map (fun i => (Z.of_nat i, true)) ps)
            (pre ++ repeat (-1) (n - length pre), Z.of_nat (length pre))
  = (let taken := map Z.of_nat (firstn (n - length pre) ps) in
     (pre ++ taken ++ repeat (-1) (n - length pre - length taken),
      Z.of_nat (length pre + length taken))).
Proof.
  induction ps as [|p ps IH]; intros pre Hp.
  - simpl. rewrite firstn_nil. simpl. now rewrite Nat.sub_0_r, Nat.add_0_r.
  - cbn [map fold_left firstn_step]. cbv zeta.
    destruct (Z.of_nat (length pre) <? Z.of_nat n) eqn:E.
    + apply Z.ltb_lt in E. assert (Hlt : (length pre < n)%nat) by lia.
      cbn [andb]. rewrite Nat2Z.id.
      replace (n - length pre)%nat with (S (n - length pre - 1)) at 1 by lia.
      cbn [repeat]. rewrite upd_app_here.
      assert (Hlen : length (pre ++ [Z.of_nat p]) = (length pre + 1)%nat) by (rewrite app_length; reflexivity).
      assert (E1 : pre ++ Z.of_nat p :: repeat (-1) (n - length pre - 1)
                   = (pre ++ [Z.of_nat p]) ++ repeat (-1) (n - length (pre ++ [Z.of_nat p]))).
      { rewrite Hlen, <- app_assoc. cbn [app]. do 2 f_equal. f_equal. lia. }
      assert (E2 : Z.of_nat (length pre) + 1 = Z.of_nat (length (pre ++ [Z.of_nat p]))) by (rewrite Hlen; lia).
      rewrite E1, E2. rewrite IH by (rewrite Hlen; lia). cbv zeta. rewrite Hlen.
      replace (n - length pre)%nat with (S (n - (length pre + 1))) by lia.
      cbn [firstn map]. rewrite <- !app_assoc. cbn [app length].
      rewrite Nat.sub_succ. f_equal.
      generalize (length (map Z.of_nat (firstn (n - (length pre + 1)) ps))). intros k. lia.
    + apply Z.ltb_ge in E. assert (Heq : length pre = n) by lia.
      cbn [andb]. rewrite Heq, Nat.sub_diag. cbn [firstn map repeat].
      pose proof (IH pre Hp) as IH'. rewrite Heq, Nat.sub_diag in IH'. cbn [firstn map repeat] in IH'.
      cbv zeta in IH'. exact IH'.
Qed.

Lemma firstn_group n g (rows : list (Z * (Z * bool))) ps :
  filter (fun r : Z * bool => snd r) (rows_of g rows) = map (fun i => (Z.of_nat i, true)) ps ->
  fst (fold_left (firstn_step n) (rows_of g rows) (repeat (-1) n, 0)) = pad n (map Z.of_nat (firstn n ps)).
Proof.
  intros Hf.
  rewrite (fold_left_skip (firstn_step n) (fun r => snd r)) by (intros; apply firstn_step_skip; auto).
  rewrite Hf. pose proof (firstn_fold n ps [] ltac:(simpl; lia)) as H. simpl in H.
  rewrite Nat.sub_0_r in H. rewrite H. cbn [fst]. unfold pad. reflexivity.
Qed.

Theorem find_first_n_correct gk ng n mask :
  find_first_or_last_n gk ng n mask true = first_n_spec gk ng n mask.
Proof.
  unfold find_first_or_last_n, first_n_spec.
  set (cells := kfold _ _ _ _).
  rewrite (list_as_map_get (repeat (-1) n, 0) cells). unfold cells.
  rewrite kfold_length, repeat_length, map_map. apply map_ext_in. intros g Hg. apply in_seq in Hg.
  rewrite kfold_decompose by (rewrite repeat_length; lia). rewrite get_repeat by lia.
  apply firstn_group. rewrite rows_of_enum. apply selected_rows.
Qed.

Theorem find_last_n_correct gk ng n mask :
  find_first_or_last_n gk ng n mask false = last_n_spec gk ng n mask.
Proof.
  unfold find_first_or_last_n, last_n_spec.
  set (cells := kfold _ _ _ _).
  rewrite (list_as_map_get (repeat (-1) n, 0) cells). unfold cells.
  rewrite kfold_length, repeat_length, map_map. apply map_ext_in. intros g Hg. apply in_seq in Hg.
  rewrite kfold_decompose by (rewrite repeat_length; lia). rewrite get_repeat by lia.
  f_equal. apply firstn_group. rewrite rows_of_rev, rows_of_enum.
  rewrite filter_rev', selected_rows. now rewrite map_rev.
Qed.

(* consequences the property spells out *)
Lemma positions_of_spec g gk mask i :
  In i (positions_of g gk mask) <-> (i < length gk)%nat /\ get (-1) gk i = Z.of_nat g /\ sel_at mask i = true.
Proof.
  unfold positions_of. rewrite filter_In, in_seq, andb_true_iff, Z.eqb_eq. intuition lia.
Qed.

(* no row with a null (negative) code is ever a position of a group *)
Corollary no_null_key_selected g gk mask i : In i (positions_of g gk mask) -> 0 <= get (-1) gk i.
Proof. intros H. apply positions_of_spec in H. lia. Qed.

(* positions of a group are strictly ascending, hence each row appears once *)
Lemma positions_sorted g gk mask : NoDup (positions_of g gk mask).
Proof. unfold positions_of. apply NoDup_filter. apply seq_NoDup. Qed.
