(* C18 — the validators accept exactly the aligned inputs. *)
From Coq Require Import List ZArith Lia Bool Arith.
From GL Require Import Model.Validate.
Import ListNotations.

Lemma all_eq_cons a t : all_eq (a :: t) = true <-> forall x, In x t -> x = a.
Proof.
  revert a. induction t as [|b t IH]; intros a.
  - simpl. split; auto. intros _ x [].
  - change (all_eq (a :: b :: t)) with (Nat.eqb a b && all_eq (b :: t)).
    rewrite andb_true_iff, Nat.eqb_eq, IH. split.
    + intros [E H] x [<-|Hx]; [auto|]. rewrite E. apply H. exact Hx.
    + intros H. assert (E : b = a) by (apply H; left; auto). split; [auto|].
      intros x Hx. rewrite E. apply H. right; auto.
Qed.

Lemma all_eq_spec l : all_eq l = true <-> forall a b, In a l -> In b l -> a = b.
Proof.
  destruct l as [|a t].
  - simpl. split; auto. intros _ x y [].
  - rewrite all_eq_cons. split.
    + intros H x y Hx Hy.
      assert (Gx : x = a) by (destruct Hx as [<-|Hx]; auto).
      assert (Gy : y = a) by (destruct Hy as [<-|Hy]; auto). congruence.
    + intros H x Hx. apply H; [right; auto|left; auto].
Qed.

Lemma in_somes {A} (l : list (option A)) x : In x (somes l) <-> In (Some x) l.
Proof.
  induction l as [|[a|] t IH]; simpl; [tauto| |].
  - rewrite IH. split; intros [H|H]; auto; [left; congruence|left; congruence].
  - rewrite IH. split; [auto|]. intros [H|H]; [discriminate|auto].
Qed.

Theorem validate_spec args :
  validate_lengths_and_indexes args = true <->
  (forall a b, In a args -> In b args -> fst a = fst b) /\
  (forall a b i j, In a args -> In b args -> snd a = Some i -> snd b = Some j -> i = j).
Proof.
  unfold validate_lengths_and_indexes. rewrite andb_true_iff, !all_eq_spec. split.
  - intros [H1 H2]. split.
    + intros a b Ha Hb. apply H1; apply in_map; assumption.
    + intros a b i j Ha Hb Hi Hj. apply H2; apply in_somes.
      * rewrite <- Hi. apply in_map. assumption.
      * rewrite <- Hj. apply in_map. assumption.
  - intros [H1 H2]. split.
    + intros x y Hx Hy. apply in_map_iff in Hx. apply in_map_iff in Hy.
      destruct Hx as [a [Ea Ha]]. destruct Hy as [b [Eb Hb]]. subst x y. apply H1; assumption.
    + intros x y Hx Hy. apply in_somes in Hx. apply in_somes in Hy.
      apply in_map_iff in Hx. apply in_map_iff in Hy.
      destruct Hx as [a [Ea Ha]]. destruct Hy as [b [Eb Hb]]. exact (H2 a b x y Ha Hb Ea Eb).
Qed.

(* accept <=> aligned, for a non-empty argument list *)
Theorem preprocess_accepts_iff_aligned key_len key_index a0 args :
  preprocess_ok key_len key_index (a0 :: args) = true <-> aligned key_len key_index (a0 :: args).
Proof.
  unfold preprocess_ok, aligned. destruct a0 as [len0 idx0].
  rewrite !andb_true_iff, validate_spec, Nat.eqb_eq. split.
  - intros [[Hlen Hidx] [E Hk]]. repeat split.
    + intros a Ha. rewrite (Hlen a (len0, idx0) Ha (or_introl eq_refl)). exact E.
    + intros a i Ha Hi b j Hb Hj. exact (Hidx a b i j Ha Hb Hi Hj).
    + intros ki a i Eki Ha Hi. subst key_index.
      assert (Hin : In i (somes (map snd ((len0, idx0) :: args)))) by (apply in_somes; rewrite <- Hi; apply in_map; assumption).
      match type of Hk with context [match ?X with _ => _ end] => change (In i X) in Hin; destruct X as [|ci rest] eqn:Es end;
        [inversion Hin|].
      apply Nat.eqb_eq in Hk. subst ci.
      assert (Hci : In (Some ki) (map snd ((len0, idx0) :: args))).
      { apply in_somes. match type of Es with ?X = _ => change (In ki X) end. rewrite Es. left. reflexivity. } apply in_map_iff in Hci. destruct Hci as [b [Eb Hb]].
      exact (Hidx a b i ki Ha Hb Hi Eb).
  - intros [Hlen [Hidx Hkey]]. repeat split.
    + intros a b Ha Hb. rewrite (Hlen a Ha), (Hlen b Hb). reflexivity.
    + intros a b i j Ha Hb Hi Hj. exact (Hidx a i Ha Hi b j Hb Hj).
    + apply (Hlen (len0, idx0)). left; auto.
    + destruct key_index as [ki|]; auto.
      match goal with |- context [match ?X with _ => _ end] => destruct X as [|ci rest] eqn:Es end; auto.
      apply Nat.eqb_eq. symmetry.
      assert (Hci : In (Some ci) (map snd ((len0, idx0) :: args))).
      { apply in_somes. match type of Es with ?X = _ => change (In ci X) end. rewrite Es. left. reflexivity. }
      apply in_map_iff in Hci. destruct Hci as [b [Eb Hb]].
      exact (Hkey ki b ci eq_refl Hb Eb).
Qed.
