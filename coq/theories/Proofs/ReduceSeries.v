(* Single-series behaviour of every ScalarFuncs reducer: folding the
   three-argument reducer over a list of values yields the per-group definition
   (value and count).  By induction on the series, no bound on its length. *)
From Coq Require Import List ZArith Lia Bool Arith.
From GL Require Import Lib.Arr Model.Dom Model.Scalar Spec.Defs.
Import ListNotations.
Open Scope Z_scope.
Arguments nonnull {V} o l : simpl never.
Local Arguments Z.add : simpl never.
Local Arguments Z.of_nat : simpl never.

Section Series.
Context {V : Type} (o : ops V) (L : laws o).

Definition series (rf : @reducer V) (l : list V) (ac : V * Z) : V * Z :=
  fold_left (fun ac v => rf (fst ac) v (snd ac)) l ac.

Lemma series_cons rf x t ac : series rf (x :: t) ac = series rf t (rf (fst ac) x (snd ac)).
Proof. reflexivity. Qed.
Lemma series_nil rf ac : series rf [] ac = ac.
Proof. reflexivity. Qed.

Lemma series_app rf l1 l2 ac : series rf (l1 ++ l2) ac = series rf l2 (series rf l1 ac).
Proof. unfold series. apply fold_left_app. Qed.

Notation nn := (nonnull o).
Notation len l := (Z.of_nat (length l)).

Lemma truthy_pos c : 0 < c -> truthy c = true.
Proof. unfold truthy. intros. destruct (c =? 0) eqn:E; auto. apply Z.eqb_eq in E. lia. Qed.

Lemma nn_cons_null x l : is_null o x = true -> nn (x :: l) = nn l.
Proof. unfold nonnull; simpl; intros ->; auto. Qed.
Lemma nn_cons_val x l : is_null o x = false -> nn (x :: l) = x :: nn l.
Proof. unfold nonnull; simpl; intros ->; auto. Qed.
Lemma nn_app l1 l2 : nn (l1 ++ l2) = nn l1 ++ nn l2.
Proof. unfold nonnull. apply filter_app. Qed.
Lemma nn_nonnull x l : In x (nn l) -> is_null o x = false.
Proof. unfold nonnull. rewrite filter_In. intros [_ H]. now destruct (is_null o x). Qed.
Lemma nn_idem l : nn (nn l) = nn l.
Proof.
  unfold nonnull. induction l as [|x t IH]; simpl; auto.
  destruct (is_null o x) eqn:E; simpl; auto. rewrite E; simpl. now rewrite IH.
Qed.

(* ---- counting ---- *)
Lemma count_series l : forall a c, snd (series (r_count o) l (a, c)) = c + len l.
Proof.
  induction l as [|x t IH]; intros a c; [rewrite series_nil; change (nn []) with (@nil V); simpl; lia|]. rewrite series_cons; cbn [fst snd].
  unfold r_count. simpl. rewrite IH. lia.
Qed.

Lemma nancount_series l : forall a c, snd (series (r_nancount o) l (a, c)) = c + len (nn l).
Proof.
  induction l as [|x t IH]; intros a c; [rewrite series_nil; change (nn []) with (@nil V); simpl; lia|]. rewrite series_cons; cbn [fst snd].
  unfold r_nancount. destruct (is_null o x) eqn:E; simpl; rewrite IH.
  - rewrite nn_cons_null; auto.
  - rewrite nn_cons_val; auto. simpl length. lia.
Qed.

(* ---- sums ---- *)
Definition sum_from (c : Z) (a : V) (l : list V) : V :=
  if c =? 0 then match l with [] => a | h :: t => fold_left (add o) t h end
  else fold_left (add o) l a.

Lemma nansum_series l : forall a c, 0 <= c ->
  series (r_nansum o) l (a, c) = (sum_from c a (nn l), c + len (nn l)).
Proof.
  induction l as [|x t IH]; intros a c Hc; [rewrite series_nil; change (nn []) with (@nil V) | rewrite series_cons; cbn [fst snd]].
  - unfold sum_from. destruct (c =? 0); simpl; f_equal; lia.
  - unfold r_nansum. destruct (is_null o x) eqn:E; simpl.
    + rewrite IH by lia. now rewrite nn_cons_null.
    + rewrite nn_cons_val by auto. unfold truthy. destruct (c =? 0) eqn:Ec; simpl.
      * apply Z.eqb_eq in Ec. subst. rewrite IH by lia. unfold sum_from. simpl.
        f_equal. lia.
      * rewrite IH by lia. unfold sum_from. rewrite Ec.
        destruct (c + 1 =? 0) eqn:E1; [apply Z.eqb_eq in E1; lia|]. simpl. f_equal. lia.
Qed.

Lemma sum_from_zero l : sum_from 0 (zero o) l = sum_list o l.
Proof.
  unfold sum_from, sum_list. simpl. destruct l as [|h t]; simpl; auto.
  now rewrite (add_zero_l _ L).
Qed.

Theorem nansum_spec l :
  series (r_nansum o) l (zero o, 0) = (sum_list o (nn l), len (nn l)).
Proof. rewrite nansum_series by lia. now rewrite sum_from_zero. Qed.

Lemma nansum_squares_series l : forall a c, 0 <= c ->
  series (r_nansum_squares o) l (a, c) = (sum_from c a (map (sq o) (nn l)), c + len (nn l)).
Proof.
  induction l as [|x t IH]; intros a c Hc; [rewrite series_nil; change (nn []) with (@nil V) | rewrite series_cons; cbn [fst snd]].
  - unfold sum_from. destruct (c =? 0); simpl; f_equal; lia.
  - unfold r_nansum_squares. destruct (is_null o x) eqn:E; simpl.
    + rewrite IH by lia. now rewrite nn_cons_null.
    + rewrite nn_cons_val by auto. unfold truthy. destruct (c =? 0) eqn:Ec; simpl.
      * apply Z.eqb_eq in Ec. subst. rewrite IH by lia. unfold sum_from. simpl.
        f_equal. lia.
      * rewrite IH by lia. unfold sum_from. rewrite Ec.
        destruct (c + 1 =? 0) eqn:E1; [apply Z.eqb_eq in E1; lia|]. simpl. f_equal. lia.
Qed.

Theorem nansum_squares_spec l :
  series (r_nansum_squares o) l (zero o, 0) = (sum_list o (map (sq o) (nn l)), len (nn l)).
Proof. rewrite nansum_squares_series by lia. now rewrite sum_from_zero. Qed.

(* plain sum (used for signed/unsigned integer inputs, which hold no nulls): every row is added *)
Lemma r_sum_nonnull a b c : is_null o a = false -> is_null o b = false ->
  r_sum o a b c = (if truthy c then add o a b else b, c + 1).
Proof. intros Ha Hb. unfold r_sum. destruct (truthy c); reflexivity. Qed.

Lemma sum_series l : forall a c, 0 <= c -> (forall x, is_null o x = false) ->
  series (r_sum o) l (a, c) = (sum_from c a l, c + len l).
Proof.
  induction l as [|x t IH]; intros a c Hc Hnn; [rewrite series_nil; change (nn []) with (@nil V) | rewrite series_cons; cbn [fst snd]].
  - unfold sum_from. destruct (c =? 0); simpl; f_equal; lia.
  - rewrite r_sum_nonnull by auto. unfold truthy. destruct (c =? 0) eqn:Ec; simpl.
    + apply Z.eqb_eq in Ec. subst. rewrite IH by (auto; lia). unfold sum_from. simpl. f_equal. lia.
    + rewrite IH by (auto; lia). unfold sum_from. rewrite Ec.
      destruct (c + 1 =? 0) eqn:E1; [apply Z.eqb_eq in E1; lia|]. simpl. f_equal. lia.
Qed.

Theorem sum_spec l : (forall x, is_null o x = false) -> series (r_sum o) l (zero o, 0) = (sum_list o l, len l).
Proof. intros H. rewrite sum_series by (auto; lia). now rewrite sum_from_zero. Qed.

(* ---- first / last ---- *)
Lemma first_series l : forall a c, 0 <= c ->
  series (r_first o) l (a, c) = ((if c =? 0 then hd a (nn l) else a), c + len (nn l)).
Proof.
  induction l as [|x t IH]; intros a c Hc; [rewrite series_nil; change (nn []) with (@nil V) | rewrite series_cons; cbn [fst snd]].
  - destruct (c =? 0); simpl; f_equal; lia.
  - unfold r_first. destruct (is_null o x) eqn:E; simpl.
    + rewrite IH by lia. now rewrite nn_cons_null.
    + rewrite nn_cons_val by auto. unfold truthy. destruct (c =? 0) eqn:Ec; simpl.
      * rewrite IH by lia. apply Z.eqb_eq in Ec. subst. simpl. f_equal. lia.
      * rewrite IH by lia. destruct (c + 1 =? 0) eqn:E1; [apply Z.eqb_eq in E1; lia|]. f_equal. simpl length. lia.
Qed.

Theorem first_spec l a : series (r_first o) l (a, 0) = (hd a (nn l), len (nn l)).
Proof. now rewrite first_series by lia. Qed.

Lemma last_indep (l : list V) v d1 d2 : last (v :: l) d1 = last (v :: l) d2.
Proof. revert v; induction l as [|y t IH]; intros v; simpl; auto. apply IH. Qed.

Lemma last_series l : forall a c,
  series (r_last o) l (a, c) = (last (nn l) a, c + len l).
Proof.
  induction l as [|x t IH]; intros a c; [rewrite series_nil; change (nn []) with (@nil V) | rewrite series_cons; cbn [fst snd]].
  - simpl. f_equal; lia.
  - unfold r_last. destruct (is_null o x) eqn:E; simpl; rewrite IH.
    + rewrite nn_cons_null by auto. f_equal. lia.
    + rewrite nn_cons_val by auto. f_equal; [|lia].
      destruct (nn t) eqn:En; auto. change (last (x :: v :: l) a) with (last (v :: l) a). apply last_indep.
Qed.

(* ---- extrema ---- *)
Definition pick_min (m x : V) : V := if ltb o x m then x else m.
Definition pick_max (m x : V) : V := if ltb o m x then x else m.
Definition ext_from (pick : V -> V -> V) (c : Z) (a : V) (l : list V) : V :=
  if c =? 0 then match l with [] => a | h :: t => fold_left pick t h end
  else fold_left pick l a.

Lemma nanmin_series l : forall a c, 0 <= c ->
  series (r_nanmin o) l (a, c) = (ext_from pick_min c a (nn l), c + len (nn l)).
Proof.
  induction l as [|x t IH]; intros a c Hc; [rewrite series_nil; change (nn []) with (@nil V) | rewrite series_cons; cbn [fst snd]].
  - unfold ext_from. destruct (c =? 0); simpl; f_equal; lia.
  - unfold r_nanmin. destruct (is_null o x) eqn:E; simpl.
    + rewrite IH by lia. now rewrite nn_cons_null.
    + rewrite nn_cons_val by auto. unfold truthy. destruct (c =? 0) eqn:Ec; simpl.
      * apply Z.eqb_eq in Ec. subst. rewrite IH by lia. unfold ext_from. simpl. f_equal. lia.
      * rewrite IH by lia. unfold ext_from. rewrite Ec.
        destruct (c + 1 =? 0) eqn:E1; [apply Z.eqb_eq in E1; lia|]. simpl. f_equal. lia.
Qed.

Lemma nanmax_series l : forall a c, 0 <= c ->
  series (r_nanmax o) l (a, c) = (ext_from pick_max c a (nn l), c + len (nn l)).
Proof.
  induction l as [|x t IH]; intros a c Hc; [rewrite series_nil; change (nn []) with (@nil V) | rewrite series_cons; cbn [fst snd]].
  - unfold ext_from. destruct (c =? 0); simpl; f_equal; lia.
  - unfold r_nanmax. destruct (is_null o x) eqn:E; simpl.
    + rewrite IH by lia. now rewrite nn_cons_null.
    + rewrite nn_cons_val by auto. unfold truthy. destruct (c =? 0) eqn:Ec; simpl.
      * apply Z.eqb_eq in Ec. subst. rewrite IH by lia. unfold ext_from. simpl. f_equal. lia.
      * rewrite IH by lia. unfold ext_from. rewrite Ec.
        destruct (c + 1 =? 0) eqn:E1; [apply Z.eqb_eq in E1; lia|]. simpl. f_equal. lia.
Qed.

(* the running pick is a minimum of what it has seen *)
Lemma ltb_false_trans x y z :
  is_null o x = false -> is_null o y = false -> is_null o z = false ->
  ltb o y x = false -> ltb o z y = false -> ltb o z x = false.
Proof.
  intros Hx Hy Hz H1 H2.
  destruct (ltb o z x) eqn:E; auto.
  (* z < x, not y < x, not z < y  ->  contradiction in a total order *)
  destruct (ltb o x y) eqn:Exy.
  - (* x < y and z < x -> z < y *) rewrite (ltb_trans _ L z x y E Exy) in H2. discriminate.
  - assert (x = y) by (apply (ltb_total _ L); auto). subst. congruence.
Qed.

Lemma fold_pick_min_spec t : forall h,
  is_null o h = false -> (forall x, In x t -> is_null o x = false) ->
  is_min_of o (fold_left pick_min t h) (h :: t).
Proof.
  induction t as [|x t IH]; intros h Hh Ht; simpl.
  - split; [left; auto|]. intros y [<-|[]]. apply (ltb_irrefl _ L).
  - assert (Hx : is_null o x = false) by (apply Ht; left; auto).
    assert (Ht' : forall y, In y t -> is_null o y = false) by (intros; apply Ht; right; auto).
    unfold pick_min at 2. destruct (ltb o x h) eqn:E.
    + destruct (IH x Hx Ht') as [Hin Hmin]. split.
      * destruct Hin as [<-|Hin]; [right; left; auto | right; right; auto].
      * intros y [<-|[<-|Hy]].
        -- (* h vs m: m <= x < h *)
           set (m := fold_left pick_min t x) in *.
           assert (Hm : is_null o m = false).
           { destruct Hin as [<-|Hin]; auto. }
           assert (Hmx : ltb o x m = false) by (apply Hmin; left; auto).
           destruct (ltb o h m) eqn:Ehm; auto.
           rewrite (ltb_trans _ L x h m E Ehm) in Hmx. discriminate.
        -- apply Hmin; left; auto.
        -- apply Hmin; right; auto.
    + destruct (IH h Hh Ht') as [Hin Hmin]. split.
      * destruct Hin as [<-|Hin]; [left; auto | right; right; auto].
      * intros y [<-|[<-|Hy]].
        -- apply Hmin; left; auto.
        -- set (m := fold_left pick_min t h) in *.
           assert (Hm : is_null o m = false).
           { destruct Hin as [<-|Hin]; auto. }
           assert (Hmh : ltb o h m = false) by (apply Hmin; left; auto).
           apply (ltb_false_trans m h x); auto.
        -- apply Hmin; right; auto.
Qed.

Lemma fold_pick_max_spec t : forall h,
  is_null o h = false -> (forall x, In x t -> is_null o x = false) ->
  is_max_of o (fold_left pick_max t h) (h :: t).
Proof.
  induction t as [|x t IH]; intros h Hh Ht; simpl.
  - split; [left; auto|]. intros y [<-|[]]. apply (ltb_irrefl _ L).
  - assert (Hx : is_null o x = false) by (apply Ht; left; auto).
    assert (Ht' : forall y, In y t -> is_null o y = false) by (intros; apply Ht; right; auto).
    unfold pick_max at 2. destruct (ltb o h x) eqn:E.
    + destruct (IH x Hx Ht') as [Hin Hmax]. split.
      * destruct Hin as [<-|Hin]; [right; left; auto | right; right; auto].
      * intros y [<-|[<-|Hy]].
        -- set (m := fold_left pick_max t x) in *.
           assert (Hm : is_null o m = false).
           { destruct Hin as [<-|Hin]; auto. }
           assert (Hmx : ltb o m x = false) by (apply Hmax; left; auto).
           destruct (ltb o m h) eqn:Ehm; auto.
           rewrite (ltb_trans _ L m h x Ehm E) in Hmx. discriminate.
        -- apply Hmax; left; auto.
        -- apply Hmax; right; auto.
    + destruct (IH h Hh Ht') as [Hin Hmax]. split.
      * destruct Hin as [<-|Hin]; [left; auto | right; right; auto].
      * intros y [<-|[<-|Hy]].
        -- apply Hmax; left; auto.
        -- set (m := fold_left pick_max t h) in *.
           assert (Hm : is_null o m = false).
           { destruct Hin as [<-|Hin]; auto. }
           assert (Hmh : ltb o m h = false) by (apply Hmax; left; auto).
           apply (ltb_false_trans x h m); auto.
        -- apply Hmax; right; auto.
Qed.

Theorem nanmin_spec l a :
  let r := series (r_nanmin o) l (a, 0) in
  snd r = len (nn l) /\
  match nn l with [] => fst r = a | _ => is_min_of o (fst r) (nn l) end.
Proof.
  simpl. rewrite nanmin_series by lia. simpl. split; [lia|].
  unfold ext_from. simpl. destruct (nn l) as [|h t] eqn:E; auto.
  apply fold_pick_min_spec.
  - apply (nn_nonnull h l). rewrite E. left; auto.
  - intros x Hx. apply (nn_nonnull x l). rewrite E. right; auto.
Qed.

Theorem nanmax_spec l a :
  let r := series (r_nanmax o) l (a, 0) in
  snd r = len (nn l) /\
  match nn l with [] => fst r = a | _ => is_max_of o (fst r) (nn l) end.
Proof.
  simpl. rewrite nanmax_series by lia. simpl. split; [lia|].
  unfold ext_from. simpl. destruct (nn l) as [|h t] eqn:E; auto.
  apply fold_pick_max_spec.
  - apply (nn_nonnull h l). rewrite E. left; auto.
  - intros x Hx. apply (nn_nonnull x l). rewrite E. right; auto.
Qed.

(* minima are unique: the relational definition determines the value *)
Lemma is_min_unique m1 m2 l :
  (forall x, In x l -> is_null o x = false) ->
  is_min_of o m1 l -> is_min_of o m2 l -> m1 = m2.
Proof.
  intros Hl [I1 H1] [I2 H2]. apply (ltb_total _ L); auto.
Qed.
Lemma is_max_unique m1 m2 l :
  (forall x, In x l -> is_null o x = false) ->
  is_max_of o m1 l -> is_max_of o m2 l -> m1 = m2.
Proof.
  intros Hl [I1 H1] [I2 H2]. apply (ltb_total _ L); auto.
Qed.

End Series.
