(* Tie B: core.add_row_margin *)
From Coq Require Import List ZArith String.
From GL Require Import Model.Margins Gen.TablesGen.

Lemma tie_add_row_margin : gen_add_row_margin = add_row_margin_source.
Proof. reflexivity. Qed.
