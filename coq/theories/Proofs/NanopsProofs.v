(* C20 — nanops: the chunked nan-sum equals the sum of the non-null elements for every
   number of worker threads (also more threads than elements); _nb_dot is the matrix-vector
   product. *)
From Coq Require Import List ZArith Lia Bool Arith.
From GL Require Import Lib.Arr Lib.Blocks Model.Dom Model.Scalar Model.Nanops Spec.Defs
  Proofs.ReduceSeries Proofs.ReduceMerge.
Import ListNotations.
Open Scope Z_scope.

Section NP.
Context {V : Type} (o : ops V) (L : laws o) (SC : sum_closed o).

Lemma fold_skip_sum l : forall acc,
  fold_skip o (op_sum o) true l acc = fold_left (add o) (nonnull o l) acc.
Proof.
  unfold fold_skip, nonnull, op_sum. induction l as [|x l IH]; intros acc; simpl; auto.
  destruct (is_null o x); simpl; apply IH.
Qed.

Lemma sum_list_app l1 l2 : sum_list o (l1 ++ l2) = add o (sum_list o l1) (sum_list o l2).
Proof.
  unfold sum_list. rewrite fold_left_app.
  rewrite <- (add_zero_r o L (fold_left (add o) l1 (zero o))) at 1.
  rewrite (fold_add_shift o L). reflexivity.
Qed.

Lemma sum_list_nonnull l : (forall x, In x l -> is_null o x = false) -> is_null o (sum_list o l) = false.
Proof.
  intros H. unfold sum_list. destruct SC as [Hadd [_ Hz]].
  assert (G : forall l a, is_null o a = false -> (forall x, In x l -> is_null o x = false) -> is_null o (fold_left (add o) l a) = false).
  { clear l H. induction l as [|x l IH]; intros a Ha Hl; simpl; auto.
    apply IH; [apply Hadd; auto; apply Hl; left; auto | intros y Hy; apply Hl; right; auto]. }
  apply G; auto.
Qed.

Lemma nonnull_app l1 l2 : nonnull o (l1 ++ l2) = nonnull o l1 ++ nonnull o l2.
Proof. unfold nonnull. apply filter_app. Qed.

(* one pass *)
Theorem nansum_one_pass arr : nb_reduce o (op_sum o) arr true (Some (zero o)) = sum_list o (nonnull o arr).
Proof. unfold nb_reduce. apply fold_skip_sum. Qed.

(* sum of the per-chunk sums: the second stage adds the partial sums without looking for nulls *)
Lemma fold_noskip_sum l : forall acc, fold_skip o (op_sum o) false l acc = fold_left (add o) l acc.
Proof. unfold fold_skip, op_sum. induction l as [|x l IH]; intros acc; simpl; auto. Qed.

Lemma sum_of_chunk_sums (chunks : list (list V)) : forall acc,
  fold_left (add o) (map (fun a => nb_reduce o (op_sum o) a true (Some (zero o))) chunks) acc
  = add o acc (sum_list o (nonnull o (concat chunks))).
Proof.
  induction chunks as [|c chunks IH]; intros acc.
  - simpl. unfold sum_list, nonnull. simpl. now rewrite (add_zero_r o L).
  - cbn [map concat fold_left]. rewrite nansum_one_pass, IH.
    rewrite nonnull_app, sum_list_app. now rewrite (add_assoc o L).
Qed.

Theorem nansum_any_threads arr n : (0 < n)%nat ->
  nan_reduce o NSum arr n = sum_list o (nonnull o arr).
Proof.
  intros Hn. unfold nan_reduce, reduce_1d. destruct (n =? 1)%nat.
  - apply nansum_one_pass.
  - unfold nb_reduce at 1. rewrite fold_noskip_sum, sum_of_chunk_sums.
    rewrite array_split_concat by auto. apply (add_zero_l o L).
Qed.

(* ---- nan-sum of squares (used by nanvar / nanstd): squares are summed per piece, the piece sums added ---- *)
Lemma fold_skip_sumsq l : forall acc,
  fold_skip o (op_sum_square o) true l acc = fold_left (add o) (map (sq o) (nonnull o l)) acc.
Proof.
  unfold fold_skip, nonnull, op_sum_square. induction l as [|x l IH]; intros acc; simpl; auto.
  destruct (is_null o x); simpl; apply IH.
Qed.

Definition sumsq (l : list V) : V := sum_list o (map (sq o) (nonnull o l)).

Theorem nansumsq_one_pass arr : nb_reduce o (op_sum_square o) arr true (Some (zero o)) = sumsq arr.
Proof. unfold nb_reduce. apply fold_skip_sumsq. Qed.

Lemma sumsq_app l1 l2 : sumsq (l1 ++ l2) = add o (sumsq l1) (sumsq l2).
Proof. unfold sumsq. now rewrite nonnull_app, map_app, sum_list_app. Qed.

Lemma sum_of_chunk_sumsq (chunks : list (list V)) : forall acc,
  fold_left (add o) (map (fun a => nb_reduce o (op_sum_square o) a true (Some (zero o))) chunks) acc
  = add o acc (sumsq (concat chunks)).
Proof.
  induction chunks as [|c chunks IH]; intros acc.
  - simpl. unfold sumsq, sum_list, nonnull. simpl. now rewrite (add_zero_r o L).
  - cbn [map concat fold_left]. rewrite nansumsq_one_pass, IH.
    rewrite sumsq_app. now rewrite (add_assoc o L).
Qed.

Theorem nansumsq_any_threads arr n : (0 < n)%nat ->
  nan_reduce o NSumSquare arr n = sumsq arr.
Proof.
  intros Hn. unfold nan_reduce, reduce_1d. destruct (n =? 1)%nat.
  - apply nansumsq_one_pass.
  - unfold nb_reduce at 1. rewrite fold_noskip_sum, sum_of_chunk_sumsq.
    rewrite array_split_concat by auto. apply (add_zero_l o L).
Qed.
End NP.

(* _nb_dot over integers: out[row] = sum_col a[col][row] * b[col] *)
Fixpoint dot_spec (cols : list (list Z)) (b : list Z) (row : nat) : Z :=
  match cols, b with
  | c :: cs, x :: bs => get 0 c row * x + dot_spec cs bs row
  | _, _ => 0
  end.

Lemma dot_fold cols : forall b row acc,
  fold_left (fun acc cb => acc + get 0 (fst cb) row * snd cb) (combine cols b) acc = acc + dot_spec cols b row.
Proof.
  induction cols as [|c cs IH]; intros [|x bs] row acc; simpl; try lia.
  rewrite IH. lia.
Qed.

Theorem nb_dot_is_matrix_vector_product cols b nrows row : (row < nrows)%nat ->
  get 0 (nb_dot (zops false 0) Z.mul cols b nrows) row = dot_spec cols b row.
Proof.
  intros Hr. unfold nb_dot.
  assert (Hm : forall (f : nat -> Z) n i, (i < n)%nat -> get 0 (map f (seq 0 n)) i = f i).
  { intros f n i Hi. unfold get. rewrite nth_indep with (d' := f 0%nat) by (rewrite map_length, seq_length; auto).
    rewrite (map_nth f (seq 0 n) 0%nat i). now rewrite seq_nth by auto. }
  rewrite Hm by auto. simpl. rewrite dot_fold. lia.
Qed.
