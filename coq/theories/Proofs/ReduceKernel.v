(* The reduction kernel computes, for every group, the reducer folded over that
   group's selected rows in row order (refinement code-model -> keyed fold), for
   every mask kind.  Unbounded in rows / groups / interleaving. *)
From Coq Require Import List ZArith Lia Bool Arith.
From GL Require Import Lib.Arr Lib.Keyed Lib.Blocks Model.Dom Model.Scalar Model.Reduce
                       Spec.Defs Spec.Exec Proofs.ReduceSeries.
Import ListNotations.
Open Scope Z_scope.

Section Kernel.
Context {V : Type} (o : ops V).
Notation dV := (null o).

Definition rstep (rf : @reducer V) (ac : V * Z) (v : V) : V * Z := rf (fst ac) v (snd ac).

Definition gbr_fold (rf : @reducer V) (rows : list (Z * V)) (st : list V * list Z) : list V * list Z :=
  fold_left (fun st row => gbr_row o rf st (fst row) (snd row)) rows st.

Definition zipst (st : list V * list Z) : list (V * Z) := combine (fst st) (snd st).

Lemma gbr_row_zip rf t c k v :
  length t = length c ->
  let st' := gbr_row o rf (t, c) k v in
  zipst st' = kstep (dV, 0) (rstep rf) (zipst (t, c)) (k, v) /\ length (fst st') = length (snd st').
Proof.
  intros Hl. unfold gbr_row, kstep, zipst. simpl.
  destruct (k <? 0); simpl; auto.
  rewrite get_combine by auto. unfold rstep. simpl.
  destruct (rf (get dV t (Z.to_nat k)) v (get 0 c (Z.to_nat k))) as [a c'] eqn:E. simpl.
  split; [apply combine_upd | now rewrite !upd_length].
Qed.

Lemma gbr_fold_zip rf rows : forall t c,
  length t = length c ->
  let st' := gbr_fold rf rows (t, c) in
  zipst st' = kfold (dV, 0) (rstep rf) rows (zipst (t, c)) /\ length (fst st') = length (snd st').
Proof.
  induction rows as [|[k v] rest IH]; intros t c Hl; simpl; auto.
  destruct (gbr_row_zip rf t c k v Hl) as [Hz Hlen].
  destruct (gbr_row o rf (t, c) k v) as [t' c'] eqn:E. simpl in Hz, Hlen.
  destruct (IH t' c' Hlen) as [H1 H2].
  split; auto. rewrite H1. now rewrite <- Hz.
Qed.

Lemma gbr_fold_lengths rf rows t c :
  length t = length c ->
  length (fst (gbr_fold rf rows (t, c))) = length t /\ length (snd (gbr_fold rf rows (t, c))) = length t.
Proof.
  intros Hl. destruct (gbr_fold_zip rf rows t c Hl) as [Hz Hlen].
  assert (length (zipst (gbr_fold rf rows (t, c))) = length t).
  { rewrite Hz, kfold_length. unfold zipst. simpl. rewrite combine_length. lia. }
  unfold zipst in H. rewrite combine_length in H. lia.
Qed.

(* per group: the accumulator and the count are the reducer folded over the group's rows *)
Theorem gbr_fold_group rf rows t c g :
  length t = length c -> (g < length t)%nat ->
  let st' := gbr_fold rf rows (t, c) in
  (get dV (fst st') g, get 0 (snd st') g) = series rf (rows_of g rows) (get dV t g, get 0 c g).
Proof.
  intros Hl Hg. simpl.
  destruct (gbr_fold_zip rf rows t c Hl) as [Hz Hlen].
  rewrite <- get_combine by auto. fold (zipst (gbr_fold rf rows (t, c))). rewrite Hz.
  rewrite kfold_decompose by (unfold zipst; simpl; rewrite combine_length; lia).
  unfold zipst. simpl. rewrite get_combine by auto. reflexivity.
Qed.

(* ---- the rows an indexer visits ---- *)
Definition lookup (gk : list Z) (vals : list V) (i : Z) : Z * V :=
  let p := wrap_index (length gk) i in (get (-1) gk p, get dV vals p).

Lemma gbr_indexed_ok rf gk vals chk idx : forall st,
  (chk = true -> forall i, In i idx -> i < Z.of_nat (length gk)) ->
  gbr_indexed o rf gk vals chk idx st = Ok (gbr_fold rf (map (lookup gk vals) idx) st).
Proof.
  induction idx as [|i rest IH]; intros st H; simpl; auto.
  destruct (chk && (Z.of_nat (length gk) <=? i)) eqn:E.
  - apply andb_prop in E. destruct E as [-> E2]. apply Z.leb_le in E2.
    specialize (H eq_refl i (or_introl eq_refl)). lia.
  - rewrite IH; auto. intros Hc j Hj. apply H; auto. right; auto.
Qed.

Lemma gbr_indexed_oob rf gk vals idx : forall st,
  (exists i, In i idx /\ Z.of_nat (length gk) <= i) ->
  gbr_indexed o rf gk vals true idx st = Err EValue.
Proof.
  induction idx as [|i rest IH]; intros st [j [Hj Hb]]; simpl in *; [tauto|].
  destruct (Z.of_nat (length gk) <=? i) eqn:E; auto.
  apply Z.leb_gt in E. apply IH. exists j. destruct Hj as [->|Hj]; [lia|auto].
Qed.

(* mask.nonzero() visits exactly the rows a boolean filter keeps, in order *)
Lemma lookup_nonneg gk vals (p : nat) :
  lookup gk vals (Z.of_nat p) = (get (-1) gk p, get dV vals p).
Proof.
  unfold lookup, wrap_index. destruct (Z.of_nat p <? 0) eqn:E; [apply Z.ltb_lt in E; lia|].
  now rewrite Nat2Z.id.
Qed.

Lemma nonzero_rows_aux (b : list bool) : forall gk vals pg pv,
  length gk = length b -> length vals = length b -> length pg = length pv ->
  map (lookup (pg ++ gk) (pv ++ vals)) (nonzero_from (Z.of_nat (length pg)) b)
  = map fst (filter snd (combine (combine gk vals) b)).
Proof.
  induction b as [|x t IH]; intros gk vals pg pv Hg Hv Hp.
  - destruct gk; destruct vals; simpl in *; auto.
  - destruct gk as [|k gk]; destruct vals as [|v vals]; simpl in Hg, Hv; try lia.
    assert (Hstep : map (lookup (pg ++ k :: gk) (pv ++ v :: vals)) (nonzero_from (Z.of_nat (length pg) + 1) t)
                   = map fst (filter snd (combine (combine gk vals) t))).
    { replace (pg ++ k :: gk) with ((pg ++ [k]) ++ gk) by (rewrite <- app_assoc; auto).
      replace (pv ++ v :: vals) with ((pv ++ [v]) ++ vals) by (rewrite <- app_assoc; auto).
      replace (Z.of_nat (length pg) + 1) with (Z.of_nat (length (pg ++ [k]))) by (rewrite app_length; simpl; lia).
      apply IH; try lia. rewrite !app_length. simpl. lia. }
    simpl. destruct x; simpl.
    + rewrite Hstep. f_equal.
      rewrite lookup_nonneg. unfold get. rewrite !app_nth2 by lia.
      rewrite Hp, !Nat.sub_diag. reflexivity.
    + apply Hstep.
Qed.

Theorem nonzero_rows gk vals b :
  length gk = length b -> length vals = length b ->
  map (lookup gk vals) (nonzero b) = map fst (filter snd (combine (combine gk vals) b)).
Proof. intros Hg Hv. apply (nonzero_rows_aux b gk vals [] []); auto. Qed.

Lemma nonzero_from_bound (b : list bool) : forall i j,
  In j (nonzero_from i b) -> i <= j < i + Z.of_nat (length b).
Proof.
  induction b as [|x t IH]; intros i j H; simpl in *; [tauto|].
  destruct x; [destruct H as [<-|H]|]; try lia; apply IH in H; lia.
Qed.

End Kernel.
