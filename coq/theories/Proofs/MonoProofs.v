(* C02 — the monotonic fast path (Model/Factorize.monotonic_factorization): the cut-off is the
   length of the longest null-free non-decreasing prefix, and on that prefix the codes/labels are
   a faithful factorization with strictly increasing (hence pairwise distinct, sorted) labels. *)
From Coq Require Import List ZArith Lia Bool Arith.
From GL Require Import Lib.Arr Model.Factorize Proofs.CombineProofs.
Import ListNotations.
Open Scope Z_scope.

Fixpoint nondec (l : list Z) : Prop :=
  match l with a :: (b :: _) as t => a <= b /\ nondec t | _ => True end.
Fixpoint strict_inc (l : list Z) : Prop :=
  match l with a :: (b :: _) as t => a < b /\ strict_inc t | _ => True end.

Lemma nondec_snoc l v : l <> [] -> nondec l -> last l 0 <= v -> nondec (l ++ [v]).
Proof.
  induction l as [|a t IH]; intros Hne Hn Hl; [congruence|].
  destruct t as [|b t']; [simpl in *; lia|].
  change ((a :: b :: t') ++ [v]) with (a :: (b :: t') ++ [v]).
  destruct Hn as [Hab Hn]. change (last (a :: b :: t') 0) with (last (b :: t') 0) in Hl.
  change (nondec (a :: (b :: t') ++ [v])) with (a <= b /\ nondec ((b :: t') ++ [v])).
  split; auto. apply IH; auto. congruence.
Qed.
Lemma strict_snoc l v : l <> [] -> strict_inc l -> last l 0 < v -> strict_inc (l ++ [v]).
Proof.
  induction l as [|a t IH]; intros Hne Hn Hl; [congruence|].
  destruct t as [|b t']; [simpl in *; lia|].
  change ((a :: b :: t') ++ [v]) with (a :: (b :: t') ++ [v]).
  destruct Hn as [Hab Hn]. change (last (a :: b :: t') 0) with (last (b :: t') 0) in Hl.
  change (strict_inc (a :: (b :: t') ++ [v])) with (a < b /\ strict_inc ((b :: t') ++ [v])).
  split; auto. apply IH; auto. congruence.
Qed.

Lemma strict_inc_lt l : strict_inc l -> forall i j a b, (i < j)%nat -> nth_error l i = Some a -> nth_error l j = Some b -> a < b.
Proof.
  induction l as [|x t IH]; intros Hs i j a b Hij Hi Hj; [destruct i; discriminate|].
  assert (Hhd : forall k y, nth_error t k = Some y -> x < y).
  { clear IH Hij Hi Hj i j a b. revert x Hs. induction t as [|z t' IHt]; intros x Hs k y Hk; [destruct k; discriminate|].
    destruct Hs as [Hxz Hs]. destruct k as [|k]; simpl in Hk; [inversion Hk; subst; auto|].
    specialize (IHt z Hs k y Hk). lia. }
  destruct j as [|j]; [lia|]. simpl in Hj. destruct i as [|i]; simpl in Hi.
  - inversion Hi; subst. eapply Hhd; eauto.
  - assert (Hst : strict_inc t) by (destruct t; [exact I|destruct Hs; auto]).
    apply (IH Hst i j a b); auto. lia.
Qed.

Lemma strict_inc_NoDup l : strict_inc l -> NoDup l.
Proof.
  intros Hs. apply NoDup_nth_error. intros i j Hi E.
  destruct (nth_error l i) as [a|] eqn:Ea; [|apply nth_error_None in Ea; lia].
  symmetry in E. destruct (Nat.lt_trichotomy i j) as [H|[H|H]]; auto.
  - pose proof (strict_inc_lt l Hs i j a a H Ea E). lia.
  - pose proof (strict_inc_lt l Hs j i a a H E Ea). lia.
Qed.

Lemma last_snoc {A} (l : list A) x d : last (l ++ [x]) d = x.
Proof. induction l as [|a t IH]; simpl; auto. destruct (t ++ [x]) eqn:E; [destruct t; discriminate|]. exact IH. Qed.

(* the factorization of the processed prefix P *)
Definition label_of (labels : list Z) (p c : Z) : Prop := 0 <= c /\ nth_error labels (Z.to_nat c) = Some p.
Definition MInv (P : list Z) (st : mstate) : Prop :=
  P <> [] /\ nondec P /\ m_labels st <> [] /\ strict_inc (m_labels st) /\
  m_prev st = last P 0 /\ last (m_labels st) 0 = last P 0 /\
  Forall2 (label_of (m_labels st)) P (m_codes st) /\ (forall x, In x (m_labels st) -> In x P).

Lemma label_of_extend labels v p c : label_of labels p c -> label_of (labels ++ [v]) p c.
Proof. intros [H0 H]. split; auto. rewrite nth_error_app1; auto. apply nth_error_Some. congruence. Qed.

Lemma nth_error_last {A} (l : list A) d : l <> [] -> nth_error l (length l - 1) = Some (last l d).
Proof.
  intros H. rewrite (app_removelast_last d H) at 1 2. rewrite app_length. cbn [length].
  rewrite nth_error_app2 by lia. replace (length (removelast l) + 1 - 1 - length (removelast l))%nat with 0%nat by lia.
  reflexivity.
Qed.

Lemma mono_loop_spec xs : forall P st i, MInv P st -> i = Z.of_nat (length P) ->
  exists Q rest, xs = map Some Q ++ rest /\
    mono_loop xs i st = (i + Z.of_nat (length Q), snd (mono_loop xs i st)) /\
    MInv (P ++ Q) (snd (mono_loop xs i st)) /\
    (rest = [] \/ (exists t, rest = None :: t) \/ (exists v t, rest = Some v :: t /\ v < last (P ++ Q) 0)).
Proof.
  induction xs as [|x t IH]; intros P st i HI Hi.
  - exists [], []. simpl. rewrite Z.add_0_r, app_nil_r. auto.
  - destruct x as [v|].
    + cbn [mono_loop]. destruct (v <? m_prev st) eqn:Elt.
      * apply Z.ltb_lt in Elt. exists [], (Some v :: t). simpl. rewrite Z.add_0_r, app_nil_r.
        split; [reflexivity|]. split; [reflexivity|]. split; [exact HI|]. right; right. exists v, t. split; auto.
        destruct HI as [_ [_ [_ [_ [Hp _]]]]]. lia.
      * apply Z.ltb_ge in Elt.
        set (labels := if m_prev st <? v then m_labels st ++ [v] else m_labels st).
        set (st' := {| m_codes := m_codes st ++ [Z.of_nat (length labels) - 1]; m_labels := labels; m_prev := v |}).
        assert (HI' : MInv (P ++ [v]) st').
        { destruct HI as [HP [Hnd [Hl [Hs [Hp [Hll [HF Hin]]]]]]].
          unfold MInv, st'. cbn [m_codes m_labels m_prev]. rewrite last_snoc.
          split; [destruct P; discriminate|]. split; [apply nondec_snoc; auto; lia|].
          unfold labels. destruct (m_prev st <? v) eqn:Ev; [apply Z.ltb_lt in Ev | apply Z.ltb_ge in Ev].
          - split; [destruct (m_labels st); discriminate|]. split; [apply strict_snoc; auto; lia|].
            split; auto. split; [apply last_snoc|]. split.
            + apply Forall2_app.
              * eapply Forall2_mono; [|exact HF]. intros a b. apply label_of_extend.
              * constructor; [|constructor]. rewrite app_length. cbn [length]. split; [lia|].
                replace (Z.to_nat (Z.of_nat (length (m_labels st) + 1) - 1)) with (length (m_labels st)) by lia.
                rewrite nth_error_app2, Nat.sub_diag by lia. reflexivity.
            + intros x Hx. apply in_app_or in Hx. apply in_or_app. destruct Hx as [Hx|Hx]; auto.
          - assert (v = m_prev st) by lia. subst v.
            split; auto. split; auto. split; auto. split; [congruence|]. split.
            + assert (Hpos : (0 < length (m_labels st))%nat) by (destruct (m_labels st); [congruence|simpl; lia]).
              apply Forall2_app; auto. constructor; [|constructor]. split; [lia|].
              replace (Z.to_nat (Z.of_nat (length (m_labels st)) - 1)) with (length (m_labels st) - 1)%nat by lia.
              rewrite (nth_error_last _ 0) by auto. congruence.
            + intros x Hx. apply in_or_app. left; auto. }
        destruct (IH (P ++ [v]) st' (i + 1) HI') as [Q [rest [Hxs [Hc [HQ Hend]]]]].
        { rewrite app_length. simpl. lia. }
        exists (v :: Q), rest. rewrite <- app_assoc in HQ, Hend. cbn [app] in HQ, Hend.
        split; [simpl; now rewrite Hxs|]. split; [|split; auto].
        rewrite Hc at 1. f_equal. cbn [length]. lia.
    + exists [], (None :: t). simpl. rewrite Z.add_0_r, app_nil_r.
      split; [reflexivity|]. split; [reflexivity|]. split; [exact HI|]. right; left. eauto.
Qed.

(* THE statement for the monotonic route *)
Theorem monotonic_factorization_spec arr :
  let '(c, codes, labels) := monotonic_factorization arr in
  exists P rest, arr = map Some P ++ rest /\ c = Z.of_nat (length P) /\
    (* the prefix is null-free and non-decreasing, and it is the longest such *)
    nondec P /\
    (rest = [] \/ (exists t, rest = None :: t) \/ (exists v t, rest = Some v :: t /\ P <> [] /\ v < last P 0)) /\
    (* on it: faithful codes, strictly increasing labels, every label observed *)
    Forall2 (label_of labels) P codes /\ strict_inc labels /\ (forall x, In x labels -> In x P).
Proof.
  destruct arr as [|[v|] t].
  - simpl. exists [], []. repeat split; auto.
  - simpl monotonic_factorization.
    assert (HI : MInv [v] {| m_codes := [0]; m_labels := [v]; m_prev := v |}).
    { unfold MInv. cbn [m_codes m_labels m_prev last]. repeat split; auto; try congruence.
      constructor; [|constructor]. split; [lia|reflexivity]. }
    destruct (mono_loop_spec t [v] _ 1 HI eq_refl) as [Q [rest [Hxs [Hc [HQ Hend]]]]].
    rewrite Hc. destruct HQ as [HP [Hnd [Hl [Hs [Hp [Hll [HF Hin]]]]]]].
    exists (v :: Q), rest. cbn [app] in *. repeat split; auto.
    + simpl. now rewrite Hxs.
    + cbn [length]. lia.
    + destruct Hend as [H|[H|[v' [t' [H1 H2]]]]]; auto. right; right. exists v', t'. repeat split; auto; try congruence.
  - simpl. exists [], (None :: t). repeat split; auto. right; left; eauto.
Qed.
