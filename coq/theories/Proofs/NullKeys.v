(* C06 — rows with a null (negative) key influence nothing: reductions, the
   trailing transform slot, and every keyed-scan kernel. *)
From Coq Require Import List ZArith Lia Bool Arith QArith Qcanon.
From GL Require Import Lib.Arr Lib.Keyed Model.Dom Model.Scalar Model.Reduce Model.GroupByApi Model.Ema
  Spec.Defs Proofs.ReduceSeries Proofs.ReduceKernel Proofs.ReduceBlocks Proofs.RowGeneric.
Import ListNotations.
Open Scope Z_scope.

Lemma rows_of_none {R} g (rows : list (Z * R)) :
  (forall row, In row rows -> fst row <> Z.of_nat g) -> rows_of g rows = [].
Proof.
  induction rows as [|r rest IH]; intros H; auto.
  rewrite rows_of_cons_neq by (apply H; left; auto). apply IH. intros row Hr. apply H. right; auto.
Qed.

Section Slot.
Context {V : Type} (o : ops V).

(* the kernel is called with ngroups + 1 cells; no row carries the code ngroups, so the
   trailing cell still holds the initial accumulator and a zero count *)
Theorem trailing_slot_untouched r ng rows :
  (forall row, In row rows -> fst row < Z.of_nat ng) ->
  get (null o) (fst (P o r (S ng) rows)) ng = initial_value o r /\ get 0 (snd (P o r (S ng) rows)) ng = 0.
Proof.
  intros H. pose proof (P_group o r (S ng) rows ng ltac:(lia)) as E.
  rewrite rows_of_none in E by (intros row Hr; specialize (H row Hr); lia).
  unfold series in E. simpl in E. injection E as H1 H2. split; assumption.
Qed.

(* hence transform=True gives every null-key row that initial accumulator: a constant *)
Theorem transform_null_key_row r ng rows codes i :
  (forall row, In row rows -> fst row < Z.of_nat ng) ->
  (i < length codes)%nat -> get (-1) codes i = -1 ->
  get (null o) (transform_gather o (fst (P o r (S ng) rows)) codes) i = initial_value o r.
Proof.
  intros H Hi Hk. unfold transform_gather.
  assert (Hm : forall (f : Z -> V) l j, (j < length l)%nat -> get (null o) (map f l) j = f (get (-1) l j)).
  { intros f l. unfold get. induction l as [|h t IH]; intros [|j] Hj; simpl in *; try lia; auto. apply IH; lia. }
  rewrite Hm by auto. rewrite Hk. change (-1 <? 0) with true. cbv iota.
  destruct (P_lengths o r (S ng) rows) as [Hl _]. rewrite Hl.
  replace (Z.to_nat (-1 + Z.of_nat (S ng))) with ng by lia.
  apply trailing_slot_untouched; auto.
Qed.
End Slot.

(* grouped EMA kernels as keyed scans: null-key rows are no-ops and get NaN *)
Theorem ema_null_rows_irrelevant gk vals alpha ng mask :
  length vals = length gk -> length (mask_list (length gk) mask) = length gk ->
  filter_by (nonnull_key gk) (ema_grouped gk vals alpha ng mask)
  = kscan ecell0 (ema_step (1 - alpha)%Qc) FNan
          (filter (fun r : Z * (fl * bool) => 0 <=? fst r) (mk_rows gk vals mask)) (repeat ecell0 ng).
Proof. exact (null_rows_irrelevant _ _ _ ecell0 (ema_step (1 - alpha)%Qc) FNan gk vals ng mask). Qed.

Theorem ema_null_row_marker gk vals alpha ng mask i k r :
  nth_error (mk_rows gk vals mask) i = Some (k, r) -> k < 0 ->
  nth i (ema_grouped gk vals alpha ng mask) FNan = FNan.
Proof. exact (null_row_marker _ _ _ ecell0 (ema_step (1 - alpha)%Qc) FNan gk vals ng mask i FNan k r). Qed.

Theorem ema_timed_null_row_marker decay gk vals times ng mask i :
  (i < length gk)%nat -> length vals = length gk -> length times = length gk ->
  length (mask_list (length gk) mask) = length gk ->
  get (-1) gk i < 0 ->
  nth i (ema_grouped_timed decay gk vals times ng mask) FNan = FNan.
Proof.
  intros Hi Hv Ht Hm Hk. unfold ema_grouped_timed.
  set (rows := map _ (mk_rows gk (combine vals times) mask)).
  assert (Hlen : length rows = length gk).
  { unfold rows, mk_rows. rewrite map_length, !combine_length. lia. }
  destruct (nth_error rows i) as [[k r]|] eqn:E.
  - eapply kscan_nth_null; eauto.
    assert (Hk' : k = get (-1) gk i).
    { unfold rows in E. rewrite nth_error_map in E.
      destruct (nth_error (mk_rows gk (combine vals times) mask) i) as [[k0 p]|] eqn:E2; simpl in E; inversion E; subst.
      unfold mk_rows in E2. clear - E2.
      revert i E2. generalize (combine (combine vals times) (mask_list (length gk) mask)) as l2.
      induction gk as [|g gk IH]; intros l2 [|i] E2; destruct l2; simpl in *; try discriminate.
      - inversion E2; auto.
      - eapply IH; eauto. }
    lia.
  - apply nth_error_None in E. lia.
Qed.

(* a group without any selected row keeps the initial accumulator and a zero count *)
Theorem unobserved_group_cell {V} (o : ops V) r ng (rows : list (Z * V)) g :
  (g < ng)%nat -> rows_of g rows = [] ->
  get (null o) (fst (P o r ng rows)) g = initial_value o r /\ get 0 (snd (P o r ng rows)) g = 0.
Proof.
  intros Hg Hn. pose proof (P_group o r ng rows g Hg) as E. rewrite Hn in E.
  unfold series in E. simpl in E. injection E as H1 H2. split; assumption.
Qed.
