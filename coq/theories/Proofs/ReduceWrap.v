(* _group_func_wrap: for every mask kind, every thread count and every chunking
   of the values, the result is the single pass over the rows NumPy indexing
   selects.  (Top of the refinement chain of C04 / C03 / C12.) *)
From Coq Require Import List ZArith Lia Bool Arith.
From GL Require Import Lib.Arr Lib.Keyed Lib.Blocks Model.Dom Model.Scalar Model.Reduce
                       Spec.Defs Spec.Exec Proofs.ReduceSeries Proofs.ReduceKernel Proofs.ReduceMerge
                       Proofs.ReduceBlocks.
Import ListNotations.
Open Scope Z_scope.

Section Wrap.
Context {V : Type} (o : ops V) (L : laws o) (SC : sum_closed o).
Notation dV := (null o).

(* what the (unchecked) numba kernels need of a mask *)
Definition wf_mask (n : nat) (m : mask) : Prop :=
  match m with
  | MNone | MSlice _ _ => True
  | MBool b => length b = n
  | MIdx idx => forall i, In i idx -> i < Z.of_nat n
  end.

Definition not_slice (m : mask) : Prop := match m with MSlice _ _ => False | _ => True end.

Theorem apply_single_chunk_ok r gk vals ng m :
  length gk = length vals -> wf_mask (length gk) m -> not_slice m ->
  apply_single_chunk o r gk vals ng m = Ok (P o r ng (sel_rows o gk vals m)).
Proof.
  intros Hl Hw Hs. unfold apply_single_chunk.
  rewrite (proj2 (Nat.eqb_eq _ _) Hl). simpl negb. cbn iota.
  destruct m as [|b|a b|idx]; simpl in *; try tauto.
  - unfold group_by_reduce, P, gbr_fold, build_target. now rewrite repeat_length.
  - rewrite (proj2 (Nat.eqb_eq _ _) Hw). simpl negb. cbn iota.
    unfold group_by_reduce. rewrite gbr_indexed_ok by (intros; discriminate).
    unfold P, build_target. rewrite repeat_length.
    rewrite nonzero_rows by lia. reflexivity.
  - unfold group_by_reduce. rewrite gbr_indexed_ok by (intros _; exact Hw).
    unfold P, build_target. rewrite repeat_length. reflexivity.
Qed.

(* the reducers the group_* kernels use, and what they merge with *)
Inductive kernel_value_reducer : rname -> Prop :=
  | kv_sum : kernel_value_reducer Rsum
  | kv_nansum : kernel_value_reducer Rnansum
  | kv_nansum_squares : kernel_value_reducer Rnansum_squares
  | kv_nanmin : kernel_value_reducer Rnanmin
  | kv_nanmax : kernel_value_reducer Rnanmax
  | kv_first : kernel_value_reducer Rfirst
  | kv_last : kernel_value_reducer Rlast.

Definition kernel_merge (r : rname) : rname :=
  if name_has_count r || name_has_sum r then Rsum else r.

(* the plain `sum` reducer is only used on dtypes that hold no nulls *)
Definition sum_needs_no_nulls (r : rname) : Prop := r = Rsum -> forall x, is_null o x = false.

Lemma kernel_merges r : kernel_value_reducer r -> sum_needs_no_nulls r ->
  merges (reducer_of o r) (reducer_of o (kernel_merge r)) (initial_value o r).
Proof.
  intros [] Hs; unfold kernel_merge, initial_value; simpl.
  - apply merges_sum; auto.
  - apply merges_nansum; auto.
  - apply merges_nansum_squares; auto.
  - apply merges_nanmin; auto.
  - apply merges_nanmax; auto.
  - apply merges_first; auto.
  - apply merges_last; auto.
Qed.

Lemma kernel_value_not_counting r : kernel_value_reducer r -> name_has_count r = false.
Proof. intros []; reflexivity. Qed.

(* ---- list lemmas about blocks ---- *)
Lemma combine_app_len {A B} (a1 a2 : list A) (b1 b2 : list B) :
  length a1 = length b1 -> combine (a1 ++ a2) (b1 ++ b2) = combine a1 b1 ++ combine a2 b2.
Proof.
  revert b1; induction a1 as [|x a1 IH]; intros [|y b1] H; simpl in *; try lia; auto.
  f_equal. apply IH. lia.
Qed.

Lemma concat_combine_split {A B} sizes : forall (l1 : list A) (l2 : list B),
  length l1 = length l2 -> (length l1 <= list_sum sizes)%nat ->
  concat (map (fun p => combine (fst p) (snd p)) (combine (split_by sizes l1) (split_by sizes l2)))
  = combine l1 l2.
Proof.
  intros l1 l2 Hl Hs. rewrite split_by_combine. apply split_by_concat.
  rewrite combine_length. lia.
Qed.

(* chunked values: keys split by the chunk lengths, zipped with the chunks *)
Lemma concat_combine_chunks {A B} (chunks : list (list B)) : forall (gk : list A),
  length gk = length (concat chunks) ->
  concat (map (fun p => combine (fst p) (snd p)) (combine (split_by (map (@length B) chunks) gk) chunks))
  = combine gk (concat chunks).
Proof.
  induction chunks as [|c rest IH]; intros gk Hl; simpl in *.
  - destruct gk; simpl in *; auto; lia.
  - rewrite app_length in Hl. rewrite IH by (rewrite skipn_length; lia).
    rewrite <- (firstn_skipn (length c) gk) at 3.
    rewrite combine_app_len; auto. rewrite firstn_length. lia.
Qed.

Lemma length_concat_sum {B} (chunks : list (list B)) :
  length (concat chunks) = list_sum (map (@length B) chunks).
Proof. induction chunks; simpl; auto. rewrite app_length. lia. Qed.


Definition arg_rows (a : list Z * list V * mask) : list (Z * V) :=
  sel_rows o (fst (fst a)) (snd (fst a)) (snd a).
Definition wf_arg (a : list Z * list V * mask) : Prop :=
  length (fst (fst a)) = length (snd (fst a)) /\ wf_mask (length (fst (fst a))) (snd a) /\ not_slice (snd a).

(* the multi-block path: per-block kernel calls, then the merge loop *)
Lemma multi_path r ng (args : list (list Z * list V * mask)) :
  kernel_value_reducer r -> sum_needs_no_nulls r -> args <> [] -> (forall a, In a args -> wf_arg a) ->
  bind (mapM (fun a => apply_single_chunk o r (fst (fst a)) (snd (fst a)) ng (snd a)) args)
       (fun results =>
          let chunks := map fst results in
          let counts := map snd results in
          let chunks := if name_has_count r then map (map (of_count o)) counts else chunks in
          let merge_name := if name_has_count r || name_has_sum r then Rsum else r in
          Ok (combine_factorized o merge_name chunks counts))
  = Ok (P o r ng (concat (map arg_rows args))).
Proof.
  intros Hr Hsn Hne Hwf.
  rewrite (mapM_ok _ (fun a => P o r ng (arg_rows a))).
  2:{ intros a Ha. destruct (Hwf a Ha) as [H1 [H2 H3]]. now apply apply_single_chunk_ok. }
  cbn [bind]. cbv zeta. rewrite (kernel_value_not_counting r Hr). cbn [orb].
  destruct args as [|a0 rest]; [congruence|].
  f_equal. rewrite <- (map_map arg_rows (P o r ng)).
  apply (combine_factorized_blocks o r _ ng (arg_rows a0) (map arg_rows rest)).
  pose proof (kernel_merges r Hr Hsn) as Hm. unfold kernel_merge in Hm.
  rewrite (kernel_value_not_counting r Hr) in Hm. cbn [orb] in Hm. exact Hm.
Qed.

(* single-block path *)
Lemma single_path r gk vals ng m :
  kernel_value_reducer r -> length gk = length vals -> wf_mask (length gk) m -> not_slice m ->
  bind (apply_single_chunk o r gk vals ng m)
       (fun rc => Ok (if name_has_count r then (map (of_count o) (snd rc), snd rc) else rc))
  = Ok (P o r ng (sel_rows o gk vals m)).
Proof.
  intros Hr Hl Hw Hs. rewrite apply_single_chunk_ok by auto. cbn [bind].
  now rewrite (kernel_value_not_counting r Hr).
Qed.


(* ---- the argument lists _chunk_groupby_args builds ---- *)
Lemma combine_repeat {A B} (l : list A) (x : B) n : length l = n ->
  combine l (repeat x n) = map (fun a => (a, x)) l.
Proof. revert n; induction l as [|a l IH]; intros [|n] H; simpl in *; try lia; auto. f_equal. apply IH. lia. Qed.

Lemma split_by_piece_lengths {A B} sizes : forall (l1 : list A) (l2 : list B) a b,
  length l1 = length l2 -> In (a, b) (combine (split_by sizes l1) (split_by sizes l2)) -> length a = length b.
Proof.
  induction sizes as [|s rest IH]; intros l1 l2 a b Hl Hin; simpl in *; [tauto|].
  destruct Hin as [E|Hin].
  - inversion E; subst. rewrite !firstn_length. lia.
  - eapply IH; [|exact Hin]. rewrite !skipn_length. lia.
Qed.

Lemma chunk_args_unchunked_none nt gk (values : list (list V)) :
  (0 < nt)%nat -> length gk = length (concat values) ->
  exists args, chunk_args nt gk values false MNone = Ok args /\ args <> [] /\
    (forall a, In a args -> wf_arg a) /\ concat (map arg_rows args) = combine gk (concat values).
Proof.
  intros Hnt Hl. set (v := concat values) in *.
  exists (map (fun p => (p, MNone)) (combine (array_split gk nt) (array_split v nt))).
  assert (Hlen : length (combine (array_split gk nt) (array_split v nt)) = nt)
    by (rewrite combine_length, !array_split_length; lia).
  split; [|split; [|split]].
  - unfold chunk_args. fold v. now rewrite combine_repeat.
  - intros E. apply (f_equal (@length _)) in E. rewrite map_length, Hlen in E. simpl in E. lia.
  - intros a Ha. apply in_map_iff in Ha. destruct Ha as [[g c] [<- Hin]].
    unfold wf_arg. simpl. split; [|tauto].
    unfold array_split in Hin. rewrite <- Hl in Hin. eapply split_by_piece_lengths; eauto.
  - rewrite map_map. unfold arg_rows. simpl.
    unfold array_split. rewrite <- Hl. apply concat_combine_split; auto.
    rewrite array_split_sizes_sum; auto.
Qed.

Lemma concat_map_map {A B} (f : A -> B) (ls : list (list A)) :
  concat (map (map f) ls) = map f (concat ls).
Proof. induction ls; simpl; auto. now rewrite map_app, IHls. Qed.

Lemma chunk_args_unchunked_idx nt gk (values : list (list V)) idx :
  (0 < nt)%nat -> length gk = length (concat values) -> (forall i, In i idx -> i < Z.of_nat (length gk)) ->
  let args := map (fun piece => (gk, concat values, MIdx piece)) (array_split idx nt) in
  args <> [] /\ (forall a, In a args -> wf_arg a) /\
  concat (map arg_rows args) = map (lookup o gk (concat values)) idx.
Proof.
  intros Hnt Hl Hb args. split; [|split].
  - intros E. apply (f_equal (@length _)) in E. unfold args in E. rewrite map_length, array_split_length in E. simpl in E. lia.
  - intros a Ha. apply in_map_iff in Ha. destruct Ha as [piece [<- Hin]].
    unfold wf_arg. simpl. split; [auto|split; [|auto]].
    intros i Hi. apply Hb. rewrite <- (array_split_concat idx nt Hnt). apply in_concat. eauto.
  - unfold args. rewrite map_map. unfold arg_rows. simpl.
    change (fun x : list Z => map (fun i => let p := wrap_index (length gk) i in (get (-1) gk p, get dV (concat values) p)) x)
      with (map (lookup o gk (concat values))).
    rewrite concat_map_map. now rewrite array_split_concat.
Qed.

Lemma split_by_chunk_lengths {A} (chunks : list (list V)) : forall (gk : list A) g c,
  length gk = length (concat chunks) ->
  In (g, c) (combine (split_by (map (@length V) chunks) gk) chunks) -> length g = length c.
Proof.
  induction chunks as [|c0 rest IH]; intros gk g c Hl Hin; simpl in *; [tauto|].
  rewrite app_length in Hl. destruct Hin as [E|Hin].
  - inversion E; subst. rewrite firstn_length. lia.
  - eapply IH; [|exact Hin]. rewrite skipn_length. lia.
Qed.

Lemma chunk_args_chunked_none nt gk (chunks : list (list V)) :
  chunks <> [] -> length gk = length (concat chunks) ->
  exists args, chunk_args nt gk chunks true MNone = Ok args /\ args <> [] /\
    (forall a, In a args -> wf_arg a) /\ concat (map arg_rows args) = combine gk (concat chunks).
Proof.
  intros Hne Hl.
  exists (map (fun p => (p, MNone)) (combine (split_by (map (@length V) chunks) gk) chunks)).
  assert (Hlen : length (combine (split_by (map (@length V) chunks) gk) chunks) = length chunks)
    by (rewrite combine_length, split_by_length, map_length; lia).
  split; [|split; [|split]].
  - unfold chunk_args, chunk_args_chunked_values.
    rewrite <- length_concat_sum, <- Hl, Nat.eqb_refl. simpl negb. cbn iota.
    now rewrite combine_repeat.
  - intros E. apply (f_equal (@length _)) in E. rewrite map_length, Hlen in E.
    destruct chunks; simpl in *; [congruence|lia].
  - intros a Ha. apply in_map_iff in Ha. destruct Ha as [[g c] [<- Hin]].
    unfold wf_arg. simpl. split; [|tauto]. eapply split_by_chunk_lengths; eauto.
  - rewrite map_map. unfold arg_rows. simpl. now apply concat_combine_chunks.
Qed.


Lemma slice_combine {A B} (l1 : list A) (l2 : list B) a b :
  length l1 = length l2 ->
  slice_list (combine l1 l2) a b = combine (slice_list l1 a b) (slice_list l2 a b).
Proof.
  intros Hl. unfold slice_list. rewrite combine_length, <- Hl, Nat.min_id.
  destruct (slice_range (length l1) a b) as [st ln].
  rewrite <- combine_firstn. f_equal.
  clear. revert l1 l2. induction st as [|st IH]; intros [|x l1] [|y l2]; simpl; auto.
  destruct (skipn st l1); auto.
Qed.

Lemma slice_list_length {A B} (l1 : list A) (l2 : list B) a b :
  length l1 = length l2 -> length (slice_list l1 a b) = length (slice_list l2 a b).
Proof.
  intros Hl. unfold slice_list. rewrite <- Hl. destruct (slice_range (length l1) a b) as [st ln].
  rewrite !firstn_length, !skipn_length. lia.
Qed.

(* chunked values together with a boolean mask: correspondence only (see DESIGN) *)
Definition covered (chunks : list (list V)) (m : mask) : Prop :=
  match m with MBool _ => (length chunks <= 1)%nat | _ => True end.

Theorem group_func_wrap_any_split r gk chunks ng m nt :
  kernel_value_reducer r -> sum_needs_no_nulls r -> (0 < nt)%nat -> chunks <> [] ->
  length gk = length (concat chunks) -> wf_mask (length gk) m -> covered chunks m ->
  group_func_wrap o r gk chunks ng m nt = Ok (P o r ng (sel_rows o gk (concat chunks) m)).
Proof.
  intros Hr Hsn Hnt Hne Hl Hw Hcov. unfold group_func_wrap.
  destruct m as [|b|a b|idx]; cbn [sel_rows].
  - (* no mask *)
    cbn iota beta. rewrite andb_false_r.
    destruct (1 <? length chunks)%nat eqn:Ech.
    + rewrite andb_false_r.
      destruct (chunk_args_chunked_none nt gk chunks Hne Hl) as [args [E [Hn [Hwf Hc]]]].
      rewrite E. cbn [bind]. rewrite multi_path by auto. now rewrite Hc.
    + cbn [negb]. rewrite andb_true_r. destruct (nt =? 1)%nat eqn:Ent.
      * apply single_path; simpl; auto.
      * destruct (chunk_args_unchunked_none nt gk chunks Hnt Hl) as [args [E [Hn [Hwf Hc]]]].
        rewrite E. cbn [bind]. rewrite multi_path by auto. now rewrite Hc.
  - (* boolean mask, values in one piece *)
    cbn iota beta. rewrite andb_false_r. simpl in Hcov, Hw.
    assert (Ech : (1 <? length chunks)%nat = false) by (apply Nat.ltb_ge; lia).
    rewrite Ech. cbn [negb]. rewrite andb_true_r.
    assert (Hlv : length (concat chunks) = length b) by lia.
    destruct (nt =? 1)%nat eqn:Ent.
    + apply single_path; simpl; auto.
    + unfold chunk_args. cbn [bind].
      assert (Hb : forall i, In i (nonzero b) -> i < Z.of_nat (length gk)).
      { intros i Hi. apply nonzero_from_bound in Hi. lia. }
      destruct (chunk_args_unchunked_idx nt gk chunks (nonzero b) Hnt Hl Hb) as [Hn [Hwf Hc]].
      rewrite multi_path by auto. rewrite Hc. now rewrite nonzero_rows by lia.
  - (* slice: views of keys and values, then no mask *)
    cbn iota beta. cbn [length]. change (1 <? 1)%nat with false. cbn [andb negb].
    assert (Hls : length (slice_list gk a b) = length (concat [slice_list (concat chunks) a b])).
    { simpl. rewrite app_nil_r. now apply slice_list_length. }
    assert (Hrows : combine (slice_list gk a b) (concat [slice_list (concat chunks) a b])
                    = slice_list (combine gk (concat chunks)) a b).
    { simpl. rewrite app_nil_r. symmetry. now apply slice_combine. }
    rewrite andb_true_r. destruct (nt =? 1)%nat eqn:Ent.
    + rewrite single_path; [|auto|exact Hls|exact I|exact I]. cbn [sel_rows]. now rewrite Hrows.
    + destruct (chunk_args_unchunked_none nt (slice_list gk a b) [slice_list (concat chunks) a b] Hnt Hls)
        as [args [E [Hn [Hwf Hc]]]].
      rewrite E. cbn [bind]. rewrite multi_path by auto. now rewrite Hc, Hrows.
  - (* integer positions: values are un-chunked first *)
    cbn iota beta. rewrite andb_true_r. simpl in Hw.
    destruct (1 <? length chunks)%nat eqn:Ech.
    + cbn [negb]. rewrite andb_true_r.
      assert (Hl' : length gk = length (concat [concat chunks])) by (simpl; now rewrite app_nil_r).
      assert (Hcc : concat [concat chunks] = concat chunks) by (simpl; now rewrite app_nil_r).
      destruct (nt =? 1)%nat eqn:Ent.
      * rewrite single_path; [|auto|exact Hl'|exact Hw|exact I]. cbn [sel_rows]. now rewrite Hcc.
      * unfold chunk_args. cbn [bind].
        destruct (chunk_args_unchunked_idx nt gk [concat chunks] idx Hnt Hl' Hw) as [Hn [Hwf Hc]].
        rewrite multi_path by auto. rewrite Hc, Hcc. reflexivity.
    + cbn [negb]. rewrite andb_true_r. destruct (nt =? 1)%nat eqn:Ent.
      * apply single_path; simpl; auto.
      * unfold chunk_args. cbn [bind].
        destruct (chunk_args_unchunked_idx nt gk chunks idx Hnt Hl Hw) as [Hn [Hwf Hc]].
        rewrite multi_path by auto. now rewrite Hc.
Qed.

(* The statement the property is about: the answer does not depend on the split. *)
Corollary group_func_wrap_split_independent r gk chunks chunks' ng m nt nt' :
  kernel_value_reducer r -> sum_needs_no_nulls r -> (0 < nt)%nat -> (0 < nt')%nat -> chunks <> [] -> chunks' <> [] ->
  concat chunks = concat chunks' -> length gk = length (concat chunks) -> wf_mask (length gk) m ->
  covered chunks m -> covered chunks' m ->
  group_func_wrap o r gk chunks ng m nt = group_func_wrap o r gk chunks' ng m nt'.
Proof.
  intros. rewrite !group_func_wrap_any_split; auto; congruence.
Qed.

End Wrap.
