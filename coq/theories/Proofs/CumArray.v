(* C08 — the array-level model of _cumulative_reduce (running value read back from the output array at the
   group's previous accepted row, target[-1] before the first one) computes exactly what the per-group-cell
   model computes.  Removes the "read-back is modelled as a cell" assumption from the C08 theorems. *)
From Coq Require Import List ZArith Lia Bool Arith.
From GL Require Import Lib.Arr Lib.Keyed Model.Dom Model.Scalar Model.Cumulative Proofs.CumSpec.
Import ListNotations.
Open Scope Z_scope.

Lemma combine_app {A B} (l1 l2 : list A) (m1 m2 : list B) : length l1 = length m1 ->
  combine (l1 ++ l2) (m1 ++ m2) = combine l1 m1 ++ combine l2 m2.
Proof. revert m1. induction l1 as [|a t IH]; intros [|b m1] H; simpl in *; try lia; auto. f_equal. apply IH. lia. Qed.

Lemma upd_get_same {A} (d : A) : forall (l : list A) i, upd l i (get d l i) = l.
Proof. unfold get. induction l as [|a t IH]; intros [|i]; simpl; auto. now rewrite IH. Qed.

Lemma nth_map_in {A B} (f : A -> B) (l : list A) i d d' : (i < length l)%nat -> nth i (map f l) d = f (nth i l d').
Proof. revert i. induction l as [|a t IH]; intros [|i] H; simpl in *; try lia; auto. apply IH. lia. Qed.

(* the output of a keyed scan at row j, and the state one row later, from the state after j rows *)
Section ScanSteps.
Context {St R O : Type} (d : St) (sstep : St -> R -> St * O) (skip : O).

Lemma kscan_state_S rows st j k r : nth_error rows j = Some (k, r) ->
  kscan_state d sstep (firstn (S j) rows) st =
  kstep d (fun s x => fst (sstep s x)) (kscan_state d sstep (firstn j rows) st) (k, r).
Proof.
  intros H. rewrite (firstn_S_nth rows j _ H). unfold kscan_state. rewrite kfold_app. reflexivity.
Qed.

Lemma kscan_out rows st j k r (o0 : O) : nth_error rows j = Some (k, r) -> 0 <= k ->
  nth j (kscan d sstep skip rows st) o0 = snd (sstep (get d (kscan_state d sstep (firstn j rows) st) (Z.to_nat k)) r).
Proof.
  intros Hn Hk.
  assert (Hj : (j < length rows)%nat) by (apply nth_error_Some; congruence).
  rewrite <- (firstn_skipn j rows) at 1. rewrite kscan_app.
  rewrite app_nth2; rewrite kscan_length, firstn_length, Nat.min_l by lia; [|lia].
  rewrite Nat.sub_diag.
  destruct (skipn j rows) as [|r0 rest] eqn:Es.
  { exfalso. assert (length (skipn j rows) = 0%nat) by now rewrite Es. rewrite skipn_length in H. lia. }
  assert (r0 = (k, r)).
  { rewrite <- (firstn_skipn j rows) in Hn. rewrite nth_error_app2 in Hn; rewrite firstn_length, Nat.min_l in * by lia; [|lia].
    rewrite Nat.sub_diag, Es in Hn. simpl in Hn. congruence. }
  subst r0. simpl. destruct (k <? 0) eqn:E; [apply Z.ltb_lt in E; lia|]. reflexivity.
Qed.
End ScanSteps.

Section CumArray.
Context {V : Type} (o : ops V).
Variables (rf : @reducer V) (init na : V) (ng : nat).
Variable rows : list (Z * (V * bool)).
Hypothesis Hcodes : forall k r, In (k, r) rows -> k < Z.of_nat ng.

Let n := length rows.
Let d0 : V * Z := (init, 0).
Let st0 := repeat d0 ng.
Let H (i : nat) := kscan_state d0 (cum_step rf) (firstn i rows) st0.
Let outs := kscan d0 (cum_step rf) na rows st0.

Definition AInv (i : nat) (st : astate) : Prop :=
  length (a_target st) = n /\ length (a_last st) = ng /\ length (a_count st) = ng /\
  (forall k, (k < ng)%nat ->
     get 0 (a_count st) k = snd (get d0 (H i) k) /\
     ((get (-1) (a_last st) k = -1 /\ fst (get d0 (H i) k) = init) \/
      (0 <= get (-1) (a_last st) k < Z.of_nat i /\ get init (a_target st) (Z.to_nat (get (-1) (a_last st) k)) = fst (get d0 (H i) k)))) /\
  (forall j, (i <= j)%nat -> (j < n)%nat -> get init (a_target st) j = init) /\
  (forall j k r, (j < i)%nat -> nth_error rows j = Some (k, r) -> 0 <= k -> get init (a_target st) j = nth j outs na).

Lemma H_length i : length (H i) = ng.
Proof. unfold H, kscan_state. rewrite kfold_length. apply repeat_length. Qed.

Lemma AInv_init : AInv 0 {| a_target := repeat init n; a_last := repeat (-1) ng; a_count := repeat 0 ng |}.
Proof.
  unfold AInv. cbn [a_target a_last a_count]. rewrite !repeat_length.
  split; [reflexivity|]. split; [reflexivity|]. split; [reflexivity|]. split; [|split].
  - intros k Hk. unfold H. simpl firstn. unfold kscan_state, kfold. simpl. unfold st0.
    rewrite !get_repeat by auto. split; [reflexivity|]. left. split; reflexivity.
  - intros j _ Hj. apply get_repeat; auto.
  - intros j k r Hj. lia.
Qed.

Lemma AInv_step i st k v sel : (i < n)%nat -> nth_error rows i = Some (k, (v, sel)) -> AInv i st ->
  AInv (S i) (array_step rf init n st (i, (k, (v, sel)))).
Proof.
  intros Hi Hn [Ht [Hl [Hc [Hk [Hun Hout]]]]].
  assert (HS : H (S i) = kstep d0 (fun s x => fst (cum_step rf s x)) (H i) (k, (v, sel))) by (apply kscan_state_S; exact Hn).
  unfold array_step. destruct (k <? 0) eqn:Ek.
  - (* null key: nothing happens *)
    apply Z.ltb_lt in Ek.
    assert (HSi : H (S i) = H i) by (rewrite HS; unfold kstep; cbn [fst]; apply Z.ltb_lt in Ek; now rewrite Ek).
    unfold AInv. rewrite HSi. split; [auto|]. split; [auto|]. split; [auto|]. split; [|split].
    + intros k0 Hk0. destruct (Hk k0 Hk0) as [Hcnt [[Hls Hv]|[Hls Hv]]]; split; auto. right. split; auto. lia.
    + intros j Hj Hjn. apply Hun; lia.
    + intros j k1 r Hj Hnj Hk1. destruct (Nat.eq_dec j i) as [->|Hne]; [rewrite Hn in Hnj; inversion Hnj; subst; lia|].
      eapply Hout; eauto. lia.
  - apply Z.ltb_ge in Ek.
    assert (Hin : In (k, (v, sel)) rows) by (eapply nth_error_In; eauto).
    pose proof (Hcodes _ _ Hin) as Hkng.
    set (kk := Z.to_nat k). assert (Hkk : (kk < ng)%nat) by (unfold kk; lia).
    destruct (Hk kk Hkk) as [Hcnt Hcell].
    set (cell := get d0 (H i) kk) in *.
    set (ls := get (-1) (a_last st) kk) in *.
    (* what target[last_seen] holds: the group's running value *)
    assert (Hat : (if ls <? 0 then get init (a_target st) (n - 1) else get init (a_target st) (Z.to_nat ls)) = fst cell).
    { destruct Hcell as [[Hls Hv]|[Hls Hv]].
      - rewrite Hls. simpl. rewrite Hv. apply Hun; lia.
      - replace (ls <? 0) with false by (symmetry; apply Z.ltb_ge; lia). exact Hv. }
    rewrite Hat.
    (* the scan's output at row i *)
    assert (Hoi : nth i outs na = snd (cum_step rf cell (v, sel))) by (unfold outs, cell, H, kk; apply kscan_out; auto).
    assert (HSk : H (S i) = upd (H i) kk (fst (cum_step rf cell (v, sel)))).
    { rewrite HS. unfold kstep. cbn [fst snd]. replace (k <? 0) with false by (symmetry; apply Z.ltb_ge; lia). reflexivity. }
    destruct sel; cbn [negb].
    + (* accepted row *)
      cbn [cum_step] in *. rewrite Hcnt. fold cell.
      set (ac := rf (fst cell) v (snd cell)) in *.
      unfold AInv. cbn [a_target a_last a_count]. rewrite !upd_length, HSk.
      split; [auto|]. split; [auto|]. split; [auto|]. split; [|split].
      * intros k0 Hk0. destruct (Nat.eq_dec k0 kk) as [->|Hne].
        -- rewrite !get_upd_eq by (rewrite ?H_length; lia). split; [reflexivity|]. right.
           rewrite Nat2Z.id. rewrite get_upd_eq by lia. split; [lia|reflexivity].
        -- rewrite !get_upd_neq by auto. destruct (Hk k0 Hk0) as [Hcnt0 [[Hls Hv]|[Hls Hv]]]; split; auto.
           right. split; [lia|]. rewrite get_upd_neq by lia. exact Hv.
      * intros j Hj Hjn. rewrite get_upd_neq by lia. apply Hun; lia.
      * intros j k1 r Hj Hnj Hk1. destruct (Nat.eq_dec j i) as [->|Hne].
        -- rewrite get_upd_eq by lia. rewrite Hoi. reflexivity.
        -- rewrite get_upd_neq by lia. eapply Hout; eauto. lia.
    + (* masked row: the running value is copied, the cell and the last-seen row stay *)
      cbn [cum_step] in *.
      assert (HSi : H (S i) = H i).
      { rewrite HSk. cbn [fst]. unfold cell. apply upd_get_same. }
      destruct (0 <=? ls) eqn:El; [apply Z.leb_le in El | apply Z.leb_gt in El].
      * unfold AInv. cbn [a_target a_last a_count]. rewrite upd_length, HSi.
        split; [auto|]. split; [auto|]. split; [auto|]. split; [|split].
        -- intros k0 Hk0. destruct (Hk k0 Hk0) as [Hcnt0 [[Hls Hv]|[Hls Hv]]]; split; auto.
           right. split; [lia|]. rewrite get_upd_neq by lia. exact Hv.
        -- intros j Hj Hjn. rewrite get_upd_neq by lia. apply Hun; lia.
        -- intros j k1 r Hj Hnj Hk1. destruct (Nat.eq_dec j i) as [->|Hne].
           ++ rewrite get_upd_eq by lia. rewrite Hoi. reflexivity.
           ++ rewrite get_upd_neq by lia. eapply Hout; eauto. lia.
      * (* no accepted row yet: the cell of the output keeps the fill value = the group's initial value *)
        unfold AInv. rewrite HSi. split; [auto|]. split; [auto|]. split; [auto|]. split; [|split].
        -- intros k0 Hk0. destruct (Hk k0 Hk0) as [Hcnt0 [[Hls Hv]|[Hls Hv]]]; split; auto. right. split; auto. lia.
        -- intros j Hj Hjn. apply Hun; lia.
        -- intros j k1 r Hj Hnj Hk1. destruct (Nat.eq_dec j i) as [->|Hne].
           ++ rewrite Hoi. cbn [snd]. destruct Hcell as [[Hls Hv]|[Hls Hv]]; [|lia]. rewrite Hv. apply Hun; lia.
           ++ eapply Hout; eauto. lia.
Qed.

Lemma AInv_run : forall i, (i <= n)%nat ->
  AInv i (fold_left (array_step rf init n) (combine (seq 0 i) (firstn i rows))
            {| a_target := repeat init n; a_last := repeat (-1) ng; a_count := repeat 0 ng |}).
Proof.
  induction i as [|i IH]; intros Hi; [exact AInv_init|].
  assert (Hnth : exists x, nth_error rows i = Some x) by (destruct (nth_error rows i) eqn:E; eauto; apply nth_error_None in E; unfold n in Hi; lia).
  destruct Hnth as [[k [v sel]] Hn].
  rewrite seq_S, (firstn_S_nth rows i _ Hn). cbn [Nat.add].
  rewrite combine_app by (rewrite seq_length, firstn_length; unfold n in Hi; lia).
  rewrite fold_left_app. cbn [combine fold_left]. apply AInv_step; auto. apply IH. lia.
Qed.
End CumArray.

(* THE statement: the array-level run returns what the per-group-cell model returns *)
Theorem cumulative_array_is_cumulative {V} (o : ops V) temporal op skip_na gk vals ng mask :
  length vals = length gk -> wf_mask (length gk) mask -> (forall k, In k gk -> k < Z.of_nat ng) ->
  cumulative_array o temporal op skip_na gk vals ng mask = cumulative_t o temporal op skip_na gk vals ng mask.
Proof.
  intros Hv Hm Hng. unfold cumulative_array, cumulative_t.
  set (rows := mk_rows gk vals mask). set (rf := reducer_of o (cum_reducer temporal op skip_na)).
  set (init := cum_init o op). set (na := cum_na o op).
  assert (Hcodes : forall k r, In (k, r) rows -> k < Z.of_nat ng).
  { intros k r Hin. apply Hng. unfold rows, mk_rows in Hin. eapply in_combine_l; eauto. }
  pose proof (AInv_run rf init na ng rows Hcodes (length rows) (le_n _)) as HI. rewrite firstn_all in HI.
  set (n := length rows) in *.
  set (st := fold_left (array_step rf init n) (combine (seq 0 n) rows) _) in *.
  destruct HI as [Ht [_ [_ [_ [_ Hout]]]]].
  apply (list_ext na).
  - rewrite map_length, combine_length, Ht, kscan_length. fold n. lia.
  - intros i Hi. rewrite map_length, combine_length, Ht in Hi. fold n in Hi. assert (Hi' : (i < n)%nat) by lia.
    destruct (nth_error rows i) as [[k [v sel]]|] eqn:En; [|apply nth_error_None in En; unfold n in Hi'; lia].
    unfold get at 1.
    rewrite (nth_map_in _ _ i na (init, (0, (init, false)))) by (rewrite combine_length, Ht; fold n; lia).
    rewrite combine_nth by (rewrite Ht; reflexivity).
    rewrite (nth_error_nth rows _ (0, (init, false)) En). cbn [fst snd].
    destruct (k <? 0) eqn:Ek.
    + apply Z.ltb_lt in Ek. unfold get. symmetry. eapply kscan_nth_null; eauto.
    + apply Z.ltb_ge in Ek. change (nth i (a_target st) init) with (get init (a_target st) i).
      rewrite (Hout i k (v, sel) Hi' En Ek). reflexivity.
Qed.
