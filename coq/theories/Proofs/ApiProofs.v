(* Proofs about the decision logic of _apply_gb_reduction (Model/GroupByApi.v). *)
From Coq Require Import List ZArith Lia Bool Arith Sorting.Sorted Sorting.Permutation.
From GL Require Import Lib.Arr Lib.Keyed Model.Dom Model.Scalar Model.Reduce Model.GroupByApi
  Spec.Defs Proofs.ReduceSeries Proofs.ReduceBlocks Proofs.ReduceSpec.
Import ListNotations.
Open Scope Z_scope.

Lemma get_map_d {A B} (f : A -> B) (da : A) (db : B) l i :
  (i < length l)%nat -> get db (map f l) i = f (get da l i).
Proof.
  unfold get. revert i; induction l as [|h t IH]; intros [|i] H; simpl in *; try lia; auto.
  apply IH; lia.
Qed.

Lemma forallb_get (l : list bool) : forallb (fun b => b) l = true -> forall i, (i < length l)%nat -> get false l i = true.
Proof.
  intros H i Hi. rewrite forallb_forall in H. apply H. unfold get. apply nth_In; auto.
Qed.

(* The two-stage observed test equals "the key count is positive", provided a
   value count never exceeds the key count of its group (values counted are rows). *)
Theorem observed_flags_spec is_size count0 keycount :
  length count0 = length keycount ->
  (forall g, (g < length keycount)%nat -> 0 <= get 0 count0 g <= get 0 keycount g) ->
  (is_size = true -> count0 = keycount) ->
  forall g, (g < length keycount)%nat ->
  get false (observed_flags is_size count0 keycount) g = (0 <? get 0 keycount g).
Proof.
  intros Hlen Hle Hsz g Hg. unfold observed_flags.
  destruct is_size; simpl.
  - rewrite (Hsz eq_refl). rewrite (get_map_d _ 0) by auto. reflexivity.
  - destruct (forallb (fun b => b) (map (fun c => 0 <? c) count0)) eqn:E; simpl.
    + pose proof (forallb_get _ E g) as H. rewrite map_length in H. specialize (H ltac:(lia)).
      rewrite H. rewrite (get_map_d _ 0) in H by lia. apply Z.ltb_lt in H.
      symmetry. apply Z.ltb_lt. specialize (Hle g Hg). lia.
    + rewrite (get_map_d _ 0) by auto. reflexivity.
Qed.

Lemma filter_len_le {A} (f : A -> bool) l : (length (filter f l) <= length l)%nat.
Proof. induction l as [|h t IH]; simpl; auto. destruct (f h); simpl; lia. Qed.

(* non-null values of a group are among its rows *)
Lemma red_cnt_le {V} (o : ops V) op l : 0 <= red_cnt o op l <= Z.of_nat (length l).
Proof.
  destruct op; simpl; try lia; unfold nonnull;
    pose proof (filter_len_le (fun x => negb (is_null o x)) l); lia.
Qed.

Section Labels.
Context {V : Type} (o : ops V) (L : laws o).

(* key counts = the size kernel's counts; value counts = the reducing kernel's counts *)
Theorem observed_iff_has_row r op ng rows g :
  kernel_op r = Some op -> (g < ng)%nat ->
  get false (observed_flags (match op with Size => true | _ => false end)
               (snd (P o r ng rows)) (snd (P o Rcount ng rows))) g
  = negb (match group_vals g rows with [] => true | _ => false end).
Proof.
  intros Hop Hg.
  destruct (P_lengths o r ng rows) as [_ Hl1]. destruct (P_lengths o Rcount ng rows) as [_ Hl2].
  rewrite observed_flags_spec; try lia.
  - destruct (P_meets_definition o L Rcount Size ng rows g eq_refl Hg) as [_ Hc]. rewrite Hc. simpl.
    destruct (group_vals g rows); simpl; reflexivity.
  - intros g' Hg'. rewrite Hl2 in Hg'.
    destruct (P_meets_definition o L r op ng rows g' Hop Hg') as [_ Hc1].
    destruct (P_meets_definition o L Rcount Size ng rows g' eq_refl Hg') as [_ Hc2].
    rewrite Hc1, Hc2. simpl. apply red_cnt_le.
  - intros Hs. destruct op; try discriminate. destruct r; simpl in Hop; try discriminate. reflexivity.
Qed.
End Labels.

(* the labels reported: exactly the observed ones, each once, in sort-key order *)
Theorem reported_spec sortkey observed ng :
  Permutation sortkey (seq 0 ng) ->
  NoDup (reported sortkey observed) /\
  (forall g, In g (reported sortkey observed) <-> (g < ng)%nat /\ get false observed g = true).
Proof.
  intros HP. unfold reported. split.
  - apply NoDup_filter. eapply Permutation_NoDup; [symmetry; exact HP|apply seq_NoDup].
  - intros g. rewrite filter_In. split; intros [H1 H2]; split; auto.
    + apply (Permutation_in _ HP) in H1. apply in_seq in H1. lia.
    + apply (Permutation_in _ (Permutation_sym HP)). apply in_seq. lia.
Qed.

Lemma StronglySorted_filter {A} (R : A -> A -> Prop) f l : StronglySorted R l -> StronglySorted R (filter f l).
Proof.
  induction 1 as [|a l Hs IH Hall]; simpl; [constructor|].
  destruct (f a); auto. constructor; auto.
  rewrite Forall_forall in *. intros x Hx. apply filter_In in Hx. apply Hall. tauto.
Qed.

Theorem reported_sorted (rank : nat -> Z) sortkey observed :
  StronglySorted (fun a b => rank a < rank b) sortkey ->
  StronglySorted (fun a b => rank a < rank b) (reported sortkey observed).
Proof. apply StronglySorted_filter. Qed.

Section Mean.
Context {V : Type} (o : ops V).

Theorem mean_column_spec sums counts g :
  length sums = length counts -> (g < length sums)%nat ->
  get (null o) (mean_column o sums counts) g =
    (if get 0 counts g =? 0 then null o else divc o (get (null o) sums g) (get 0 counts g)).
Proof.
  intros Hl Hg. unfold mean_column.
  rewrite (get_map_d _ (null o, 0)) by (rewrite combine_length; lia).
  rewrite get_combine by auto. reflexivity.
Qed.

(* transform: a row with code k >= 0 receives its group's cell, a row with a null
   key receives the trailing cell *)
Theorem transform_gather_spec result codes i :
  (i < length codes)%nat ->
  get (null o) (transform_gather o result codes) i =
    (if get (-1) codes i <? 0
     then get (null o) result (Z.to_nat (get (-1) codes i + Z.of_nat (length result)))
     else get (null o) result (Z.to_nat (get (-1) codes i))).
Proof.
  intros Hi. unfold transform_gather. rewrite (get_map_d _ (-1)) by auto.
  destruct (get (-1) codes i <? 0); reflexivity.
Qed.
End Mean.

Section MeanDef.
Context {V : Type} (o : ops V) (L : laws o).

(* the reported mean of a group = (sum of its non-null selected values) / (their number),
   null when there is none — never a mean of partial means *)
Theorem mean_is_sum_over_count ng rows g : (g < ng)%nat ->
  let l := nonnull o (group_vals g rows) in
  get (null o) (mean_column o (fst (P o Rnansum ng rows)) (snd (P o Rnansum ng rows))) g
  = match l with [] => null o | _ => divc o (sum_list o l) (Z.of_nat (length l)) end.
Proof.
  intros Hg l. destruct (P_lengths o Rnansum ng rows) as [H1 H2].
  rewrite mean_column_spec by lia.
  destruct (P_meets_definition o L Rnansum Sum ng rows g eq_refl Hg) as [Hv Hc].
  simpl in Hv, Hc. rewrite Hv, Hc. fold l.
  destruct l; simpl; auto.
Qed.

(* a group whose selected values are all null: neutral results *)
Theorem all_null_group r op ng rows g :
  kernel_op r = Some op -> (g < ng)%nat -> nonnull o (group_vals g rows) = [] ->
  match op with
  | Sum | SumSq => get (null o) (fst (P o r ng rows)) g = zero o
  | Min | Max | First | Last => get (null o) (fst (P o r ng rows)) g = null o
  | Size | Count => True
  end /\
  match op with Size | Last => True | _ => get 0 (snd (P o r ng rows)) g = 0 end.
Proof.
  intros Hop Hg Hnn. destruct (P_meets_definition o L r op ng rows g Hop Hg) as [Hv Hc].
  destruct op; simpl in *; rewrite ?Hnn in *; simpl in *; auto.
Qed.
End MeanDef.
