(* C05 for the reduction kernels: running a kernel with a mask = running it
   without a mask on keys[mask], values[mask], for the four mask kinds, any thread
   count and any chunking on either side. *)
From Coq Require Import List ZArith Lia Bool Arith.
From GL Require Import Lib.Arr Lib.Keyed Lib.Blocks Model.Dom Model.Scalar Model.Reduce
  Spec.Defs Spec.Exec Proofs.ReduceSeries Proofs.ReduceKernel Proofs.ReduceBlocks Proofs.ReduceWrap Proofs.RowGeneric.
Import ListNotations.
Open Scope Z_scope.

(* array[mask] with NumPy semantics, on a list *)
Definition index_by {A} (d : A) (l : list A) (m : mask) : list A :=
  match m with
  | MNone => l
  | MBool b => filter_by b l
  | MSlice a b => slice_list l a b
  | MIdx idx => map (fun i => get d l (wrap_index (length l) i)) idx
  end.

Lemma filter_by_combine {A B} (b : list bool) : forall (l1 : list A) (l2 : list B),
  length l1 = length b -> length l2 = length b ->
  map fst (filter snd (combine (combine l1 l2) b)) = combine (filter_by b l1) (filter_by b l2).
Proof.
  unfold filter_by. induction b as [|x b IH]; intros [|a l1] [|c l2] H1 H2; simpl in *; try lia; auto.
  destruct x; simpl; [f_equal|]; apply IH; lia.
Qed.

Lemma combine_map_same {A B C} (f : C -> A) (g : C -> B) l :
  combine (map f l) (map g l) = map (fun i => (f i, g i)) l.
Proof. induction l; simpl; auto. now f_equal. Qed.

Section MF.
Context {V : Type} (o : ops V) (L : laws o) (SC : sum_closed o).

Theorem sel_rows_is_indexing gk vals m :
  length gk = length vals -> (match m with MBool b => length b = length gk | _ => True end) ->
  sel_rows o gk vals m = combine (index_by (-1) gk m) (index_by (null o) vals m).
Proof.
  intros Hl Hb. destruct m as [|b|a b|idx]; simpl.
  - reflexivity.
  - apply filter_by_combine; lia.
  - now apply slice_combine.
  - rewrite combine_map_same. rewrite Hl. reflexivity.
Qed.

Lemma index_by_length {A B} (da : A) (db : B) (l1 : list A) (l2 : list B) m :
  length l1 = length l2 -> (match m with MBool b => length b = length l1 | _ => True end) ->
  length (index_by da l1 m) = length (index_by db l2 m).
Proof.
  intros Hl Hb. destruct m as [|b|a b|idx]; simpl; auto.
  - apply filter_by_length; lia.
  - now apply slice_list_length.
  - now rewrite !map_length.
Qed.

(* the masked kernel call = the unmasked call on the filtered data *)
Theorem masked_call_is_filtered_call r gk vals ng m nt nt' :
  kernel_value_reducer r -> sum_needs_no_nulls o r -> (0 < nt)%nat -> (0 < nt')%nat ->
  length gk = length vals -> wf_mask (length gk) m ->
  group_func_wrap o r gk [vals] ng m nt
  = group_func_wrap o r (index_by (-1) gk m) [index_by (null o) vals m] ng MNone nt'.
Proof.
  intros Hr Hs Hnt Hnt' Hl Hw.
  assert (Hb : match m with MBool b => length b = length gk | _ => True end)
    by (destruct m; simpl in *; auto).
  rewrite (group_func_wrap_any_split o L r gk [vals] ng m nt); auto; try discriminate.
  2:{ simpl. now rewrite app_nil_r. }
  2:{ destruct m; simpl; auto. }
  rewrite (group_func_wrap_any_split o L r _ [index_by (null o) vals m] ng MNone nt'); auto; try discriminate.
  2:{ simpl. rewrite app_nil_r. now apply index_by_length. }
  2:{ exact I. }
  2:{ exact I. }
  simpl concat. rewrite !app_nil_r. cbn [sel_rows]. now rewrite sel_rows_is_indexing.
Qed.
End MF.
