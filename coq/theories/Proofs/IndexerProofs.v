(* C02 — the counting sort of row positions by group (Model/Factorize.build_group_sorted_indexer,
   i.e. GroupBy._build_group_sorted_indexer_numba): the slice of the indexer that `groups` hands
   out for a label — offset = sum of the counts of the labels placed before it, length = its
   count — is exactly the ascending list of the positions of that label's (selected) rows.
   With or without a key map (sorted output order), any chunking of the codes, any mask. *)
From Coq Require Import List ZArith Lia Bool Arith.
From GL Require Import Lib.Arr Model.Factorize Spec.RowSpec Proofs.SelectProofs Proofs.CumSpec.
Import ListNotations.
Open Scope Z_scope.

Lemma nth_firstn_lt {A} (d : A) : forall n l j, (j < n)%nat -> nth j (firstn n l) d = nth j l d.
Proof. induction n as [|n IH]; intros [|x l] [|j] H; simpl; auto; try lia. apply IH. lia. Qed.
Lemma nth_skipn_plus {A} (d : A) : forall b l k, nth k (skipn b l) d = nth (b + k) l d.
Proof. induction b as [|b IH]; intros [|x l] k; simpl; auto. destruct k; auto. Qed.

Definition sumz (l : list Z) : Z := fold_left Z.add l 0.
Definition psum (counts : list Z) (p : nat) : Z := sumz (firstn p counts).

Lemma fold_add_acc l : forall a, fold_left Z.add l a = a + sumz l.
Proof. unfold sumz. induction l as [|x t IH]; intros a; cbn [fold_left]; [lia|]. rewrite IH, (IH (0 + x)). lia. Qed.
Lemma sumz_cons x l : sumz (x :: l) = x + sumz l.
Proof. unfold sumz at 1. cbn [fold_left]. rewrite fold_add_acc. lia. Qed.
Lemma sumz_app l1 l2 : sumz (l1 ++ l2) = sumz l1 + sumz l2.
Proof. induction l1 as [|x t IH]; [unfold sumz at 2; simpl; lia|]. cbn [app]. rewrite !sumz_cons, IH. lia. Qed.

Lemma starts_get counts : forall s p, (p < length counts)%nat ->
  get 0 (starts_from s counts) p = s + psum counts p.
Proof.
  induction counts as [|c t IH]; intros s p Hp; [simpl in Hp; lia|].
  destruct p as [|p]; [unfold psum, sumz; simpl; lia|].
  cbn [starts_from]. unfold get. cbn [nth]. fold (get 0 (starts_from (s + c) t) p).
  rewrite IH by (simpl in Hp; lia). unfold psum. cbn [firstn]. rewrite sumz_cons. lia.
Qed.
Lemma starts_length counts : forall s, length (starts_from s counts) = length counts.
Proof. induction counts; intros s; simpl; auto. Qed.

Lemma psum_S counts p : (p < length counts)%nat -> psum counts (S p) = psum counts p + get 0 counts p.
Proof.
  intros Hp. unfold psum.
  assert (Hn : nth_error counts p = Some (get 0 counts p)) by (unfold get; apply nth_error_nth'; auto).
  rewrite (firstn_S_nth counts p _ Hn), sumz_app. unfold sumz at 2. simpl. lia.
Qed.

Lemma in_firstn {A} (x : A) n l : In x (firstn n l) -> In x l.
Proof. revert l. induction n as [|n IH]; intros [|y l] H; simpl in *; try tauto. destruct H; auto. Qed.

Lemma sumz_nonneg l : (forall c, In c l -> 0 <= c) -> 0 <= sumz l.
Proof.
  induction l as [|x t IH]; intros Hl; [unfold sumz; simpl; lia|]. rewrite sumz_cons.
  assert (0 <= x) by (apply Hl; left; auto). assert (0 <= sumz t) by (apply IH; intros; apply Hl; right; auto). lia.
Qed.

(* slots of different labels are disjoint: prefix sums are monotone *)
Lemma psum_mono counts : (forall c, In c counts -> 0 <= c) ->
  forall p q, (p < q)%nat -> (q <= length counts)%nat -> psum counts p + get 0 counts p <= psum counts q.
Proof.
  intros H p q Hpq. induction q as [|q IH]; intros Hq; [lia|].
  destruct (Nat.eq_dec p q) as [->|n].
  - rewrite psum_S by lia. lia.
  - rewrite psum_S by lia. assert (0 <= get 0 counts q) by (apply H; apply nth_In; lia). specialize (IH ltac:(lia) ltac:(lia)). lia.
Qed.
Lemma psum_total counts : psum counts (length counts) = sumz counts.
Proof. unfold psum. now rewrite firstn_all. Qed.

(* the selected positions of group g among the first n rows *)
Definition posi (gk : list Z) (mask : option (list bool)) (g n : nat) : list nat :=
  filter (fun j => (get (-1) gk j =? Z.of_nat g) && sel_at mask j) (seq 0 n).

Lemma posi_all gk mask g : posi gk mask g (length gk) = positions_of g gk mask.
Proof. reflexivity. Qed.
Lemma posi_S gk mask g n : posi gk mask g (S n) =
  posi gk mask g n ++ (if (get (-1) gk n =? Z.of_nat g) && sel_at mask n then [n] else []).
Proof. unfold posi. rewrite seq_S, filter_app. simpl. reflexivity. Qed.
Lemma posi_len_mono gk mask g n m : (n <= m)%nat -> (length (posi gk mask g n) <= length (posi gk mask g m))%nat.
Proof.
  induction 1 as [|m Hle IH]; auto. rewrite posi_S, app_length. lia.
Qed.

Section Indexer.
Variables (gk : list Z) (counts : list Z) (key_map : option (list Z)) (mask : option (list bool)) (ng : nat).
Definition out (k : Z) : Z := match key_map with Some km => get 0 km (Z.to_nat k) | None => k end.
Definition outn (g : nat) : nat := Z.to_nat (out (Z.of_nat g)).

Hypothesis Hout_range : forall g, (g < ng)%nat -> 0 <= out (Z.of_nat g) /\ (outn g < ng)%nat.
Hypothesis Hout_inj : forall g g', (g < ng)%nat -> (g' < ng)%nat -> outn g = outn g' -> g = g'.
Hypothesis Hlen : length counts = ng.
Hypothesis Hcounts : forall g, (g < ng)%nat -> get 0 counts (outn g) = Z.of_nat (length (positions_of g gk mask)).
Hypothesis Hnonneg : forall c, In c counts -> 0 <= c.
Hypothesis Hcodes : forall k, In k gk -> k < Z.of_nat ng.

Let total := sumz counts.
Let st0 := {| current_pos := starts_from 0 counts; indexer := repeat 0 (Z.to_nat total); row := 0 |}.

Definition IInv (n : nat) (st : istate) : Prop :=
  row st = Z.of_nat n /\ length (current_pos st) = ng /\ length (indexer st) = Z.to_nat total /\
  (forall g, (g < ng)%nat -> get 0 (current_pos st) (outn g) = psum counts (outn g) + Z.of_nat (length (posi gk mask g n))) /\
  (forall g j, (g < ng)%nat -> (j < length (posi gk mask g n))%nat ->
     get 0 (indexer st) (Z.to_nat (psum counts (outn g)) + j) = Z.of_nat (nth j (posi gk mask g n) 0%nat)).

Lemma slot_in_total g j : (g < ng)%nat -> (j < length (positions_of g gk mask))%nat ->
  0 <= psum counts (outn g) /\ psum counts (outn g) + Z.of_nat j < total.
Proof.
  intros Hg Hj. destruct (Hout_range g Hg) as [_ Hp].
  assert (H0 : 0 <= psum counts (outn g)) by (unfold psum; apply sumz_nonneg; intros c Hc; apply Hnonneg; eapply in_firstn; eauto).
  split; auto.
  assert (psum counts (outn g) + get 0 counts (outn g) <= total).
  { unfold total. rewrite <- psum_total.
    destruct (Nat.eq_dec (S (outn g)) (length counts)) as [e|n].
    - rewrite <- e, psum_S by lia. lia.
    - pose proof (psum_mono counts Hnonneg (outn g) (length counts) ltac:(lia) ltac:(lia)). lia. }
  rewrite Hcounts in H by auto. lia.
Qed.

Lemma slots_disjoint g g' j j' : (g < ng)%nat -> (g' < ng)%nat -> g <> g' ->
  (j < length (positions_of g gk mask))%nat -> (j' < length (positions_of g' gk mask))%nat ->
  psum counts (outn g) + Z.of_nat j <> psum counts (outn g') + Z.of_nat j'.
Proof.
  intros Hg Hg' Hne Hj Hj'.
  destruct (Hout_range g Hg) as [_ Hp]. destruct (Hout_range g' Hg') as [_ Hp'].
  assert (outn g <> outn g') by (intros E; apply Hne; apply Hout_inj; auto).
  destruct (Nat.lt_ge_cases (outn g) (outn g')) as [Hlt|Hge].
  - pose proof (psum_mono counts Hnonneg _ _ Hlt ltac:(lia)) as M. rewrite Hcounts in M by auto. lia.
  - assert (Hlt : (outn g' < outn g)%nat) by lia.
    pose proof (psum_mono counts Hnonneg _ _ Hlt ltac:(lia)) as M. rewrite Hcounts in M by auto. lia.
Qed.

Lemma IInv_init : IInv 0 st0.
Proof.
  unfold IInv, st0. cbn [row current_pos indexer]. rewrite starts_length, repeat_length.
  repeat split; auto.
  - intros g Hg. destruct (Hout_range g Hg) as [_ Hp]. rewrite starts_get by lia. simpl. lia.
  - intros g j Hg Hj. simpl in Hj. lia.
Qed.

Lemma IInv_step n st : (n < length gk)%nat -> IInv n st ->
  IInv (S n) (indexer_step key_map mask st (get (-1) gk n)).
Proof.
  intros Hn [Hrow [Hcl [Hil [Hcp Hix]]]].
  set (k := get (-1) gk n). unfold indexer_step. rewrite Hrow, Nat2Z.id.
  change (match mask with None => true | Some m => get false m n end) with (sel_at mask n).
  destruct ((0 <=? k) && sel_at mask n) eqn:Econd.
  - apply andb_true_iff in Econd. destruct Econd as [Hk0 Hsel]. apply Z.leb_le in Hk0.
    assert (Hkng : k < Z.of_nat ng) by (apply Hcodes; apply nth_In; auto).
    change (match key_map with Some km => get 0 km (Z.to_nat k) | None => k end) with (out k).
    remember (Z.to_nat k) as g eqn:Eg. assert (Hg : (g < ng)%nat) by lia.
    assert (Ek : k = Z.of_nat g) by lia.
    rewrite Ek. fold (outn g).
    destruct (Hout_range g Hg) as [_ Hp].
    assert (Hpg : posi gk mask g (S n) = posi gk mask g n ++ [n]).
    { rewrite posi_S. fold k. rewrite Ek, Z.eqb_refl, Hsel. reflexivity. }
    assert (Hpo : forall g', (g' < ng)%nat -> g' <> g -> posi gk mask g' (S n) = posi gk mask g' n).
    { intros g' Hg' Hne. rewrite posi_S. fold k. rewrite Ek.
      replace (Z.of_nat g =? Z.of_nat g') with false by (symmetry; apply Z.eqb_neq; lia). simpl. now rewrite app_nil_r. }
    set (c := length (posi gk mask g n)).
    assert (Hc : (c < length (positions_of g gk mask))%nat).
    { rewrite <- posi_all. pose proof (posi_len_mono gk mask g (S n) (length gk) ltac:(lia)) as M.
      rewrite Hpg, app_length in M. simpl in M. unfold c. lia. }
    rewrite (Hcp g Hg). fold c.
    destruct (slot_in_total g c Hg Hc) as [Hs0 Hst].
    unfold IInv. cbn [row current_pos indexer]. rewrite !upd_length.
    split; [lia|]. split; [auto|]. split; [auto|]. split.
    + intros g' Hg'. destruct (Nat.eq_dec g' g) as [->|Hne].
      * rewrite get_upd_eq by lia. rewrite Hpg, app_length. simpl. fold c. lia.
      * rewrite get_upd_neq by (intros E; apply Hne; symmetry; apply Hout_inj; auto).
        rewrite Hpo by auto. apply Hcp; auto.
    + intros g' j Hg' Hj. destruct (Nat.eq_dec g' g) as [->|Hne].
      * rewrite Hpg in *. rewrite app_length in Hj. simpl in Hj. fold c in Hj.
        destruct (Nat.eq_dec j c) as [->|Hjc].
        -- replace (Z.to_nat (psum counts (outn g)) + c)%nat with (Z.to_nat (psum counts (outn g) + Z.of_nat c)) by lia.
           rewrite get_upd_eq by lia. rewrite app_nth2 by (fold c; lia). fold c. now rewrite Nat.sub_diag.
        -- rewrite get_upd_neq by lia. rewrite app_nth1 by (fold c; lia). apply Hix; auto. fold c. lia.
      * rewrite Hpo in * by auto.
        assert (Hj' : (j < length (positions_of g' gk mask))%nat).
        { rewrite <- posi_all. pose proof (posi_len_mono gk mask g' n (length gk) ltac:(lia)). lia. }
        pose proof (slots_disjoint g' g j c Hg' Hg Hne Hj' Hc) as D.
        destruct (slot_in_total g' j Hg' Hj') as [Hs0' _].
        rewrite get_upd_neq by lia. apply Hix; auto.
  - (* null key or unselected row: nothing is written *)
    assert (Hpo : forall g', posi gk mask g' (S n) = posi gk mask g' n).
    { intros g'. rewrite posi_S. fold k. apply andb_false_iff in Econd. destruct Econd as [Hk|Hs].
      - apply Z.leb_gt in Hk. replace (k =? Z.of_nat g') with false by (symmetry; apply Z.eqb_neq; lia). simpl. now rewrite app_nil_r.
      - rewrite Hs, andb_false_r. now rewrite app_nil_r. }
    unfold IInv. cbn [row current_pos indexer]. split; [lia|]. split; [auto|]. split; [auto|]. split.
    + intros g' Hg'. rewrite Hpo. auto.
    + intros g' j Hg' Hj. rewrite Hpo in *. auto.
Qed.

Lemma IInv_run : forall n, (n <= length gk)%nat -> IInv n (fold_left (indexer_step key_map mask) (firstn n gk) st0).
Proof.
  induction n as [|n IH]; intros Hn; [exact IInv_init|].
  assert (Hnth : nth_error gk n = Some (get (-1) gk n)) by (unfold get; apply nth_error_nth'; lia).
  rewrite (firstn_S_nth gk n _ Hnth), fold_left_app. cbn [fold_left]. apply IInv_step; [lia|]. apply IH. lia.
Qed.

(* THE statement for the group-to-rows mapping *)
Theorem indexer_slice chunks g : gk = concat chunks -> (g < ng)%nat ->
  let ix := build_group_sorted_indexer chunks counts key_map mask in
  firstn (length (positions_of g gk mask)) (skipn (Z.to_nat (psum counts (outn g))) ix)
  = map Z.of_nat (positions_of g gk mask).
Proof.
  intros Hgk Hg. cbv zeta. unfold build_group_sorted_indexer. rewrite <- Hgk.
  change (fold_left Z.add counts 0) with total.
  pose proof (IInv_run (length gk) (le_n _)) as HI. rewrite firstn_all in HI. fold st0.
  destruct HI as [_ [_ [Hil [_ Hix]]]].
  set (ix := indexer (fold_left (indexer_step key_map mask) gk st0)) in *.
  set (P := positions_of g gk mask). set (s := Z.to_nat (psum counts (outn g))).
  apply (list_ext 0).
  - rewrite firstn_length, skipn_length, map_length.
    destruct (Nat.eq_dec (length P) 0) as [e|n]; [lia|].
    destruct (slot_in_total g (length P - 1) Hg ltac:(fold P; lia)) as [H0 H1]. fold P in H1. unfold s. lia.
  - intros j Hj. rewrite firstn_length in Hj.
    assert (Hj' : (j < length P)%nat) by lia.
    unfold get at 1. rewrite nth_firstn_lt by exact Hj'. rewrite nth_skipn_plus.
    change (nth (s + j) ix 0) with (get 0 ix (s + j)). unfold s. rewrite Hix by (auto; rewrite posi_all; exact Hj').
    rewrite posi_all. fold P. symmetry. unfold get. change 0 with (Z.of_nat 0) at 1. apply map_nth.
Qed.
End Indexer.

(* without a key map the output slot of a label is its code *)
Corollary indexer_slice_plain gk counts mask chunks g :
  (forall i, (i < length counts)%nat -> get 0 counts i = Z.of_nat (length (positions_of i gk mask))) ->
  (forall k, In k gk -> k < Z.of_nat (length counts)) ->
  gk = concat chunks -> (g < length counts)%nat ->
  firstn (length (positions_of g gk mask)) (skipn (Z.to_nat (psum counts g)) (build_group_sorted_indexer chunks counts None mask))
  = map Z.of_nat (positions_of g gk mask).
Proof.
  intros Hc Hk Hgk Hg.
  pose proof (indexer_slice gk counts None mask (length counts)) as H.
  unfold outn, out in H. setoid_rewrite Nat2Z.id in H.
  apply H; auto.
  - intros g0 Hg0. split; lia.
  - intros c Hin. destruct (In_nth _ _ 0 Hin) as [i [Hi Ei]]. unfold get in Hc. rewrite <- Ei, Hc by auto. lia.
Qed.

(* the values gathered through a label's slice of the indexer are the values of its rows, in row order *)
Theorem group_values_in_row_order {A} (d : A) (vals : list A) gk counts key_map ng chunks g :
  (forall g, (g < ng)%nat -> 0 <= out key_map (Z.of_nat g) /\ (outn key_map g < ng)%nat) ->
  (forall g g', (g < ng)%nat -> (g' < ng)%nat -> outn key_map g = outn key_map g' -> g = g') ->
  length counts = ng ->
  (forall g, (g < ng)%nat -> get 0 counts (outn key_map g) = Z.of_nat (length (positions_of g gk None))) ->
  (forall c, In c counts -> 0 <= c) -> (forall k, In k gk -> k < Z.of_nat ng) ->
  gk = concat chunks -> (g < ng)%nat ->
  map (fun i => get d vals (Z.to_nat i))
      (firstn (length (positions_of g gk None))
         (skipn (Z.to_nat (psum counts (outn key_map g))) (build_group_sorted_indexer chunks counts key_map None)))
  = map (get d vals) (positions_of g gk None).
Proof.
  intros H1 H2 H3 H4 H5 H6 H7 H8.
  rewrite (indexer_slice gk counts key_map None ng H1 H2 H3 H4 H5 H6 chunks g H7 H8).
  rewrite map_map. apply map_ext. intros i. now rewrite Nat2Z.id.
Qed.
