(* C10 / C06 - groups are independent in IEEE arithmetic too.  For every float64 input (NaN, infinities, any magnitude), every
   mask and every interleaving of groups: the outputs the bit-exact model of the grouped EMA kernel (Model/EmaFloat.v) writes at
   the rows of group g are - bit for bit - the outputs of the same kernel run on the rows of group g alone.  No value, no NaN and
   no rounding error of another group ever enters. *)
From Coq Require Import List ZArith Bool PrimFloat Arith Lia.
From GL Require Import Model.EmaFloat.
Import ListNotations.
Open Scope nat_scope.

Definition dcell : ecellf := {| eres := zero; ewt := zero; elast := nan |}.
Definition key_of (r : Z * float * bool) : Z := fst (fst r).
Definition of_group (g : Z) (r : Z * float * bool) : bool := (key_of r =? g)%Z.

(* the outputs at the rows of group g *)
Fixpoint outs_of (g : Z) (rows : list (Z * float * bool)) (outs : list float) : list float :=
  match rows, outs with
  | r :: t, o :: u => if of_group g r then o :: outs_of g t u else outs_of g t u
  | _, _ => []
  end.

Lemma nth_eupd_same st : forall i c, i < length st -> nth i (eupd st i c) dcell = c.
Proof. induction st as [|h t IH]; intros [|i] c H; cbn [length eupd nth] in *; try lia; [reflexivity|]. apply IH. lia. Qed.

Lemma nth_eupd_other st : forall i j c, i <> j -> nth j (eupd st i c) dcell = nth j st dcell.
Proof.
  induction st as [|h t IH]; intros [|i] [|j] c H; cbn [eupd nth]; try reflexivity; try lia.
  apply IH. lia.
Qed.

Lemma eupd_length st : forall i c, length (eupd st i c) = length st.
Proof. induction st as [|h t IH]; intros [|i] c; cbn [eupd length]; auto. Qed.

(* a run over rows of group g alone only looks at cell g *)
Lemma run_depends_on_cell beta g rows : (0 <= g)%Z -> forallb (of_group g) rows = true ->
  forall st st', Z.to_nat g < length st -> Z.to_nat g < length st' -> nth (Z.to_nat g) st dcell = nth (Z.to_nat g) st' dcell ->
  ema_runf beta st rows = ema_runf beta st' rows.
Proof.
  intros Hg. induction rows as [|[[k x] sel] t IH]; intros Hall st st' Hl Hl' Hc; [reflexivity|].
  cbn [forallb] in Hall. apply andb_prop in Hall. destruct Hall as [Hk Ht].
  unfold of_group, key_of in Hk. cbn [fst] in Hk. apply Z.eqb_eq in Hk. subst k.
  cbn [ema_runf]. destruct (g <? 0)%Z eqn:E; [apply Z.ltb_lt in E; lia|].
  fold dcell. rewrite Hc. destruct (ema_stepf beta (nth (Z.to_nat g) st' dcell) x sel) as [c' o].
  f_equal. apply IH; [exact Ht|rewrite eupd_length; exact Hl|rewrite eupd_length; exact Hl'|].
  rewrite !nth_eupd_same by assumption. reflexivity.
Qed.

Theorem groups_are_independent beta g rows : (0 <= g)%Z ->
  forall st, Z.to_nat g < length st ->
  outs_of g rows (ema_runf beta st rows) = ema_runf beta st (filter (of_group g) rows).
Proof.
  intros Hg. induction rows as [|[[k x] sel] t IH]; intros st Hl; [reflexivity|].
  cbn [ema_runf filter]. unfold of_group at 1 3, key_of. cbn [fst].
  destruct (k <? 0)%Z eqn:Ek.
  - cbn [outs_of]. unfold of_group at 1, key_of. cbn [fst].
    assert ((k =? g)%Z = false) as -> by (apply Z.eqb_neq; apply Z.ltb_lt in Ek; lia).
    apply IH. exact Hl.
  - fold dcell. destruct (ema_stepf beta (nth (Z.to_nat k) st dcell) x sel) as [c' o] eqn:Es.
    cbn [outs_of]. unfold of_group at 1, key_of. cbn [fst].
    destruct (k =? g)%Z eqn:Ekg.
    + apply Z.eqb_eq in Ekg. subst k. cbn [ema_runf]. rewrite Ek. fold dcell. rewrite Es.
      f_equal. apply IH. rewrite eupd_length. exact Hl.
    + rewrite IH by (rewrite eupd_length; exact Hl).
      apply (run_depends_on_cell beta g); [exact Hg| |rewrite eupd_length; exact Hl|exact Hl|].
      * apply forallb_forall. intros r Hr. apply filter_In in Hr. apply Hr.
      * apply nth_eupd_other. apply Z.eqb_neq in Ekg. apply Z.ltb_ge in Ek. intros H. apply Ekg. apply Z2Nat.inj; lia.
Qed.

Corollary ema_grouped_groups_are_independent alpha ng g rows : (0 <= g)%Z -> Z.to_nat g < ng ->
  outs_of g rows (ema_grouped_float alpha ng rows) = ema_grouped_float alpha ng (filter (of_group g) rows).
Proof. intros Hg Hl. unfold ema_grouped_float. apply groups_are_independent; [exact Hg|]. rewrite repeat_length. exact Hl. Qed.
