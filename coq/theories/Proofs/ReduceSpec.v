(* The single pass meets the per-group definition of Spec/Defs.v, for every
   reducer a group_* kernel uses; rows with a negative code never matter. *)
From Coq Require Import List ZArith Lia Bool Arith.
From GL Require Import Lib.Arr Lib.Keyed Lib.Blocks Model.Dom Model.Scalar Model.Reduce
                       Spec.Defs Spec.Exec Proofs.ReduceSeries Proofs.ReduceKernel Proofs.ReduceMerge
                       Proofs.ReduceBlocks.
Import ListNotations.
Open Scope Z_scope.

Section SpecSec.
Context {V : Type} (o : ops V) (L : laws o).
Notation dV := (null o).

Definition kernel_op (r : rname) : option rop :=
  match r with
  | Rnansum => Some Sum | Rnansum_squares => Some SumSq | Rnanmin => Some Min | Rnanmax => Some Max
  | Rfirst => Some First | Rlast => Some Last | Rcount => Some Size | Rnancount => Some Count
  | _ => None
  end.

Theorem P_meets_definition r op ng rows g :
  kernel_op r = Some op -> (g < ng)%nat ->
  red_val o op (group_vals g rows) (get dV (fst (P o r ng rows)) g)
  /\ get 0 (snd (P o r ng rows)) g = red_cnt o op (group_vals g rows).
Proof.
  intros Hop Hg. pose proof (P_group o r ng rows g Hg) as E.
  change (rows_of g rows) with (group_vals g rows) in E. set (l := group_vals g rows) in *.
  destruct r; simpl in Hop; inversion Hop; subst op; clear Hop;
    unfold initial_value in E; simpl in E; simpl red_val; simpl red_cnt.
  - (* nansum *) rewrite (nansum_spec o L) in E. inversion E. auto.
  - (* nansum_squares *) rewrite (nansum_squares_spec o L) in E. inversion E. auto.
  - (* nanmax *) destruct (nanmax_spec o L l (null o)) as [Hc Hv]. rewrite <- E in Hc, Hv. simpl in Hc, Hv.
    split; auto.
  - (* nanmin *) destruct (nanmin_spec o L l (null o)) as [Hc Hv]. rewrite <- E in Hc, Hv. simpl in Hc, Hv.
    split; auto.
  - (* nancount *) apply (f_equal snd) in E. simpl in E. rewrite nancount_series in E. split; auto; lia.
  - (* count *) apply (f_equal snd) in E. simpl in E. rewrite count_series in E. split; auto; lia.
  - (* first *) rewrite first_spec in E. inversion E. auto.
  - (* last *) rewrite last_series in E. inversion E. split; auto; lia.
Qed.

(* plain `sum` (signed / unsigned integer inputs): every selected row is added *)
Theorem P_sum_all ng rows g : (forall x, is_null o x = false) -> (g < ng)%nat ->
  get dV (fst (P o Rsum ng rows)) g = sum_list o (group_vals g rows)
  /\ get 0 (snd (P o Rsum ng rows)) g = Z.of_nat (length (group_vals g rows)).
Proof.
  intros Hnn Hg. pose proof (P_group o Rsum ng rows g Hg) as E.
  unfold initial_value in E. simpl in E. rewrite (sum_spec o L) in E by auto. inversion E. auto.
Qed.

(* rows carrying a negative code are ignored *)
Theorem P_drop_null r ng rows :
  P o r ng (filter (fun row => negb (fst row <? 0)) rows) = P o r ng rows.
Proof.
  destruct (P_lengths o r ng rows) as [H1 H2].
  destruct (P_lengths o r ng (filter (fun row => negb (fst row <? 0)) rows)) as [H3 H4].
  rewrite (surjective_pairing (P o r ng rows)), (surjective_pairing (P o r ng (filter _ rows))).
  f_equal.
  - apply (list_ext dV); [lia|]. intros i Hi. rewrite H3 in Hi.
    pose proof (P_group o r ng rows i Hi) as E1.
    pose proof (P_group o r ng (filter (fun row => negb (fst row <? 0)) rows) i Hi) as E2.
    rewrite rows_of_drop_null in E2. rewrite <- E1 in E2. now inversion E2.
  - apply (list_ext 0); [lia|]. intros i Hi. rewrite H4 in Hi.
    pose proof (P_group o r ng rows i Hi) as E1.
    pose proof (P_group o r ng (filter (fun row => negb (fst row <? 0)) rows) i Hi) as E2.
    rewrite rows_of_drop_null in E2. rewrite <- E1 in E2. now inversion E2.
Qed.

End SpecSec.
