(* C09 — rolling sum / mean and shift / diff equal the index-based sliding-window specification
   (Spec/RowSpec.window_spec, shift_spec) as whole arrays: every row, any number of interleaved groups,
   any mask, null keys, any window >= 1 and min_periods.  Lifts the single-series circular-buffer
   theorems of Proofs/RollingInv.v through the keyed-scan lemma and the positions/rows bridge of
   Proofs/CumSpec.v. *)
From Coq Require Import List ZArith Lia Bool Arith.
From GL Require Import Lib.Arr Lib.Keyed Model.Dom Model.Scalar Model.Cumulative Model.Rolling Spec.Defs Spec.Exec
  Spec.RowSpec Proofs.ReduceSeries Proofs.CumProofs Proofs.CumSpec Proofs.RollingInv.
Import ListNotations.
Open Scope Z_scope.

Section Gen.
Context {V C : Type} (step : C -> V * bool -> C * V) (c0 : C) (nullv : V).
Hypothesis Hskip : forall c v, step c (v, false) = (c, nullv).

Lemma sfold_sel rows : forall c, sfold step c rows = sfold step c (map (fun v => (v, true)) (sel_vals rows)).
Proof.
  unfold sfold, sel_vals. induction rows as [|[v b] rest IH]; intros c; simpl; auto.
  destruct b; simpl; [apply IH|]. rewrite Hskip. apply IH.
Qed.

Theorem scan_row gk vals ng mask i k v sel :
  nth_error (mk_rows gk vals mask) i = Some (k, (v, sel)) -> 0 <= k -> (Z.to_nat k < ng)%nat ->
  nth i (kscan c0 step nullv (mk_rows gk vals mask) (repeat c0 ng)) nullv =
    if sel then snd (step (sfold step c0 (map (fun x => (x, true)) (earlier gk vals mask k i))) (v, true)) else nullv.
Proof.
  intros Hn Hk Hlt.
  rewrite (kscan_nth _ _ _ _ _ _ nullv _ _ i k (v, sel) Hn Hk) by (rewrite repeat_length; exact Hlt).
  rewrite get_repeat by exact Hlt. rewrite sfold_sel. unfold earlier.
  destruct sel; [reflexivity|]. now rewrite Hskip.
Qed.
End Gen.

Section Whole.
Context {V : Type} (o : ops V) (L : laws o).

Lemma lastn_same {A} n (l : list A) : RollingInv.lastn n l = RowSpec.lastn n l.
Proof. reflexivity. Qed.

(* ---- shift / diff ---- *)
Theorem rolling_shift_is_spec gk vals ng w mask ws :
  (0 < w)%nat -> length vals = length gk -> wf_mask (length gk) mask ->
  (forall k, In k gk -> k < Z.of_nat ng) ->
  rolling_shift_or_diff o gk vals ng w mask ws = shift_spec o w ws gk vals mask.
Proof.
  intros Hw Hv Hm Hng. apply (list_ext (null o)).
  - unfold rolling_shift_or_diff, shift_spec, rows_of_kernel. rewrite kscan_length, map_length, seq_length. apply rows_length; auto.
  - intros i Hi. unfold rolling_shift_or_diff, rows_of_kernel in Hi. rewrite kscan_length, (rows_length gk vals mask Hv Hm) in Hi.
    unfold shift_spec. unfold get at 2. rewrite nth_map_seq by exact Hi.
    assert (Hn := rows_get o gk vals mask Hv Hm i Hi).
    destruct (get (-1) gk i <? 0) eqn:Ek; cbn [orb].
    + apply Z.ltb_lt in Ek. unfold get at 1, rolling_shift_or_diff, rows_of_kernel.
      eapply kscan_nth_null; [exact Hn | exact Ek].
    + apply Z.ltb_ge in Ek.
      assert (Hlt : (Z.to_nat (get (-1)%Z gk i) < ng)%nat).
      { assert (In (get (-1) gk i) gk) by (apply nth_In; exact Hi). specialize (Hng _ H). lia. }
      unfold get at 1, rolling_shift_or_diff, rows_of_kernel.
      rewrite (scan_row (shift_step o w ws) _ (null o) (fun c v => eq_refl) gk vals ng mask i _ _ _ Hn Ek Hlt).
      rewrite (prefix_is_earlier o gk vals mask Hv Hm i Hi Ek).
      destruct (sel_at mask i); cbn [negb]; [|reflexivity].
      set (l := earlier gk vals mask (get (-1) gk i) i).
      change (sfold (shift_step o w ws) _ (map (fun x => (x, true)) l)) with (run_shift o w ws l).
      rewrite (shift_output o w ws l _ Hw). rewrite app_length. cbn [length].
      destruct (length l <? w)%nat eqn:E; [apply Nat.ltb_lt in E | apply Nat.ltb_ge in E].
      * replace (length l + 1 <=? w)%nat with true by (symmetry; apply Nat.leb_le; lia). reflexivity.
      * replace (length l + 1 <=? w)%nat with false by (symmetry; apply Nat.leb_gt; lia).
        replace (length l + 1 - 1 - w)%nat with (length l - w)%nat by lia.
        rewrite app_nth1 by lia. reflexivity.
Qed.

(* ---- sum / mean ---- *)
Hypothesis cancel : forall old q, is_null o old = false -> sub o (add o old (window_sum o q)) old = window_sum o q.

Theorem rolling_sum_is_spec gk vals ng w mp mask wm :
  (0 < w)%nat -> length vals = length gk -> wf_mask (length gk) mask ->
  (forall k, In k gk -> k < Z.of_nat ng) ->
  rolling_sum_or_mean o gk vals ng w mp mask wm =
  window_spec o (if wm then RMean else RSum) w (match mp with Some m => m | None => Z.of_nat w end) gk vals mask.
Proof.
  intros Hw Hv Hm Hng. set (mpv := match mp with Some m => m | None => Z.of_nat w end).
  apply (list_ext (null o)).
  - unfold rolling_sum_or_mean, window_spec, rows_of_kernel. rewrite kscan_length, map_length, seq_length. apply rows_length; auto.
  - intros i Hi. unfold rolling_sum_or_mean, rows_of_kernel in Hi. rewrite kscan_length, (rows_length gk vals mask Hv Hm) in Hi.
    unfold window_spec. unfold get at 2. rewrite nth_map_seq by exact Hi.
    assert (Hn := rows_get o gk vals mask Hv Hm i Hi).
    destruct (get (-1) gk i <? 0) eqn:Ek; cbn [orb].
    + apply Z.ltb_lt in Ek. unfold get at 1, rolling_sum_or_mean, rows_of_kernel.
      eapply kscan_nth_null; [exact Hn | exact Ek].
    + apply Z.ltb_ge in Ek.
      assert (Hlt : (Z.to_nat (get (-1)%Z gk i) < ng)%nat).
      { assert (In (get (-1) gk i) gk) by (apply nth_In; exact Hi). specialize (Hng _ H). lia. }
      unfold get at 1, rolling_sum_or_mean, rows_of_kernel. fold mpv.
      rewrite (scan_row (sum_step o w mpv wm) _ (null o) (fun c v => eq_refl) gk vals ng mask i _ _ _ Hn Ek Hlt).
      rewrite (prefix_is_earlier o gk vals mask Hv Hm i Hi Ek).
      destruct (sel_at mask i); cbn [negb]; [|reflexivity].
      set (l := earlier gk vals mask (get (-1) gk i) i).
      change (sfold (sum_step o w mpv wm) _ (map (fun x => (x, true)) l)) with (run_sum o w mpv wm l).
      rewrite (sum_output o L cancel w mpv wm l _ Hw). cbv zeta.
      rewrite lastn_same. unfold window_nn, window_sum.
      set (q := nonnull o (RowSpec.lastn w (l ++ [get (null o) vals i]))).
      destruct (mpv <=? Z.of_nat (length q)) eqn:E; [apply Z.leb_le in E | apply Z.leb_gt in E].
      * replace (Z.of_nat (length q) <? mpv) with false by (symmetry; apply Z.ltb_ge; lia). destruct wm; reflexivity.
      * replace (Z.of_nat (length q) <? mpv) with true by (symmetry; apply Z.ltb_lt; lia). reflexivity.
Qed.
End Whole.
