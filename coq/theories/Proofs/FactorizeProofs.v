(* C02 — the jitted factorization kernels (Model/Factorize.v). *)
From Coq Require Import List ZArith Lia Bool Arith.
From GL Require Import Lib.Arr Model.Factorize.
Import ListNotations.
Open Scope Z_scope.

(* ---- _weight_code_sum: null iff some component is null ---- *)
Lemma wcs_none cw : forall out, wcs cw out = None <-> In (-1) (map fst cw).
Proof.
  induction cw as [|[c w] t IH]; intros out; simpl.
  - split; [discriminate|tauto].
  - destruct (c =? -1) eqn:E.
    + apply Z.eqb_eq in E. subst. split; auto.
    + apply Z.eqb_neq in E. rewrite IH. split; [auto|]. intros [H|H]; [congruence|auto].
Qed.

Lemma wcs_some_nonneg cw : forall out r,
  (forall c w, In (c, w) cw -> 0 <= c /\ 0 <= w) -> 0 <= out -> wcs cw out = Some r -> 0 <= r.
Proof.
  induction cw as [|[c w] t IH]; intros out r H Ho E; simpl in E.
  - inversion E; subst; auto.
  - destruct (c =? -1); [discriminate|].
    destruct (H c w (or_introl eq_refl)) as [Hc Hw].
    eapply IH; [intros c' w' Hin; apply H; right; exact Hin| |exact E]. assert (0 <= c * w) by (apply Z.mul_nonneg_nonneg; auto). lia.
Qed.

Lemma map_fst_combine_removelast (codes weights : list Z) : length codes = length weights ->
  map fst (combine (removelast codes) (removelast weights)) = removelast codes.
Proof.
  revert weights. induction codes as [|c codes IH]; intros [|w weights] H; simpl in *; try lia; auto.
  destruct codes as [|c2 codes]; destruct weights as [|w2 weights]; simpl in *; try lia; auto.
  f_equal. apply (IH (w2 :: weights)). simpl. lia.
Qed.

Lemma in_removelast_or_last (l : list Z) x : l <> [] -> (In x l <-> In x (removelast l) \/ x = last l 0).
Proof.
  intros Hne. rewrite (app_removelast_last 0 Hne) at 1. rewrite in_app_iff. simpl. intuition.
Qed.

(* codes are -1 (null) or >= 0, weights are >= 0: the combined key is null exactly when a component is *)
Theorem weight_code_sum_null codes weights :
  codes <> [] -> length codes = length weights ->
  (forall c, In c codes -> -1 <= c) -> (forall w, In w weights -> 0 <= w) ->
  (weight_code_sum codes weights = -1 <-> In (-1) codes).
Proof.
  intros Hne Hl Hc Hw. unfold weight_code_sum.
  rewrite (in_removelast_or_last codes (-1) Hne).
  destruct (wcs (combine (removelast codes) (removelast weights)) 0) as [out|] eqn:E.
  - assert (Hnot : ~ In (-1) (removelast codes)).
    { intros Hin. rewrite <- map_fst_combine_removelast with (weights := weights) in Hin by auto.
      apply (wcs_none _ 0) in Hin. congruence. }
    assert (Hout : 0 <= out).
    { eapply wcs_some_nonneg; [|reflexivity|exact E]. intros c w Hin.
      pose proof (in_combine_l _ _ _ _ Hin) as H1. pose proof (in_combine_r _ _ _ _ Hin) as H2.
      assert (Hcin : In c codes) by (rewrite (app_removelast_last 0 Hne); apply in_or_app; auto).
      assert (Hwne : weights <> []) by (destruct weights; simpl in *; [destruct codes; simpl in *; congruence|discriminate]).
      assert (Hwin : In w weights) by (rewrite (app_removelast_last 0 Hwne); apply in_or_app; auto).
      split; [|auto].
      destruct (Z.eq_dec c (-1)) as [e|n]; [subst; tauto|]. specialize (Hc c Hcin). lia. }
    destruct (last codes 0 =? -1) eqn:El.
    + apply Z.eqb_eq in El. split; auto.
    + apply Z.eqb_neq in El.
      assert (-1 <= last codes 0).
      { apply Hc. rewrite (app_removelast_last 0 Hne) at 2. apply in_or_app. right. left. reflexivity. }
      split; [lia|]. intros [Hx|Hx]; [tauto|congruence].
  - apply wcs_none in E. rewrite map_fst_combine_removelast in E by auto. split; auto.
Qed.
