(* C16 - the accumulators of the bit-exact variance model (Model/VarFloat64.v) ARE the single-pass group reductions of
   Model/ReduceFloat.v (nansum, nansum_squares and their common count), bit for bit, for every float64 input: GroupBy.var is
   the closed formula (q - s*s/n)/(n - ddof), clipped at 0, over three kernel results the stream of C04 ties to _group_func_wrap. *)
From Coq Require Import List ZArith Bool PrimFloat Arith Lia.
From GL Require Import Model.ReduceFloat Model.VarFloat64.
Import ListNotations.
Open Scope nat_scope.

Definition as_rows (g : Z) (l : list float) : list (Z * float) := map (fun x => (g, x)) l.

Lemma red_step_same f g s n x : skips f = true ->
  red_step f g (s, n) (g, x) = if is_nan x then (s, n) else match n with O => (term f x, 1) | _ => (s + term f x, S n)%float end.
Proof. intros H. unfold red_step. rewrite Z.eqb_refl, H. reflexivity. Qed.

Lemma acc_fold g l : forall s q n,
  fold_left acc_step l (s, q, n) =
  (fst (fold_left (red_step FNanSum g) (as_rows g l) (s, n)), fst (fold_left (red_step FNanSumSq g) (as_rows g l) (q, n)),
   snd (fold_left (red_step FNanSum g) (as_rows g l) (s, n))) /\
  snd (fold_left (red_step FNanSum g) (as_rows g l) (s, n)) = snd (fold_left (red_step FNanSumSq g) (as_rows g l) (q, n)).
Proof.
  induction l as [|x t IH]; intros s q n; cbn [fold_left as_rows map]; [split; reflexivity|].
  fold (as_rows g t). rewrite !red_step_same by reflexivity. unfold acc_step. cbn [term].
  destruct (is_nan x); [apply IH|]. destruct n; apply IH.
Qed.

Theorem group_acc_is_the_group_reductions g l :
  group_acc l = (fst (piece_reduce FNanSum g (as_rows g l)), fst (piece_reduce FNanSumSq g (as_rows g l)),
                 snd (piece_reduce FNanSum g (as_rows g l))).
Proof. unfold group_acc, piece_reduce. exact (proj1 (acc_fold g l zero zero 0)). Qed.

Theorem both_reductions_count_the_same g l :
  snd (piece_reduce FNanSum g (as_rows g l)) = snd (piece_reduce FNanSumSq g (as_rows g l)).
Proof. unfold piece_reduce. exact (proj2 (acc_fold g l zero zero 0)). Qed.
