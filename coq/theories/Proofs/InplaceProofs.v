(* C19 / C02 — the in-place re-use of the stacked code matrix by _combine_factorizations (`uniques = codes`)
   is harmless: row group_id is overwritten only after it was read (group_id <= i), so the in-place run
   returns exactly what the pure model returns, and every row not yet read still holds its original
   content when it is read. *)
From Coq Require Import List ZArith Lia Bool Arith.
From GL Require Import Lib.Arr Model.Factorize Proofs.CumSpec.
Import ListNotations.
Open Scope Z_scope.

Section Inplace.
Variables (rows : list (list Z)) (weights : list Z) (cart : nat).

(* the in-place state after i rows vs the pure state after the same rows *)
Definition IP (i : nat) (ip : ipstate) (st : cstate) : Prop :=
  ip_tracker ip = tracker st /\ ip_gid ip = group_id st /\ ip_comb_rev ip = combined_rev st /\
  length (ip_m ip) = length rows /\
  ip_gid ip = Z.of_nat (length (uniques_rev st)) /\ (length (uniques_rev st) <= i)%nat /\
  firstn (length (uniques_rev st)) (ip_m ip) = rev (uniques_rev st) /\
  (forall j, (i <= j)%nat -> get [] (ip_m ip) j = get [] rows j).

Lemma firstn_upd_snoc {A} (d : A) (l : list A) n x : (n < length l)%nat ->
  firstn (S n) (upd l n x) = firstn n l ++ [x].
Proof.
  revert n. induction l as [|a t IH]; intros [|n] H; simpl in *; try lia; auto.
  f_equal. apply IH. lia.
Qed.

Lemma IP_step i ip st : (i < length rows)%nat -> IP i ip st ->
  IP (S i) (inplace_step weights ip i) (combine_step weights st (get [] rows i)).
Proof.
  intros Hi [Ht [Hg [Hc [Hl [Hgl [Hle [Hf Hun]]]]]]].
  unfold inplace_step, combine_step. rewrite (Hun i (le_n _)).
  set (row := get [] rows i). set (k := weight_code_sum row weights).
  destruct (k =? -1) eqn:Ek.
  - unfold IP. cbn [ip_m ip_tracker ip_gid ip_comb_rev tracker group_id combined_rev uniques_rev].
    rewrite Hc. repeat split; auto; try lia. intros j Hj. apply Hun. lia.
  - rewrite Ht. destruct (get (-1) (tracker st) (Z.to_nat k) =? -1) eqn:Et.
    + unfold IP. cbn [ip_m ip_tracker ip_gid ip_comb_rev tracker group_id combined_rev uniques_rev length rev].
      rewrite Hg, Hc, upd_length. rewrite <- Hg, Hgl, Nat2Z.id.
      repeat split; auto; try lia.
      * rewrite (firstn_upd_snoc [] _ _ _) by lia. now rewrite Hf.
      * intros j Hj. rewrite get_upd_neq by lia. apply Hun. lia.
    + unfold IP. cbn [ip_m ip_tracker ip_gid ip_comb_rev tracker group_id combined_rev uniques_rev].
      rewrite Hc. repeat split; auto; try lia. intros j Hj. apply Hun. lia.
Qed.

Lemma IP_run : forall n, (n <= length rows)%nat ->
  IP n (fold_left (inplace_step weights) (seq 0 n)
          {| ip_m := rows; ip_tracker := repeat (-1) cart; ip_gid := 0; ip_comb_rev := [] |})
       (fold_left (combine_step weights) (firstn n rows)
          {| tracker := repeat (-1) cart; group_id := 0; combined_rev := []; uniques_rev := [] |}).
Proof.
  induction n as [|n IH]; intros Hn.
  - unfold IP. simpl. repeat split; auto.
  - rewrite seq_S, fold_left_app. cbn [fold_left Nat.add].
    assert (Hnth : nth_error rows n = Some (get [] rows n)) by (unfold get; apply nth_error_nth'; lia).
    rewrite (firstn_S_nth rows n _ Hnth), fold_left_app. cbn [fold_left].
    apply IP_step; [lia|]. apply IH. lia.
Qed.

Theorem combine_inplace_is_pure : combine_inplace rows weights cart = combine_factorizations rows weights cart.
Proof.
  unfold combine_inplace, combine_inplace_state, combine_factorizations.
  pose proof (IP_run (length rows) (le_n _)) as H. rewrite firstn_all in H.
  destruct H as [_ [Hg [Hc [_ [Hgl [_ [Hf _]]]]]]].
  rewrite Hc. f_equal. rewrite Hgl, Nat2Z.id. exact Hf.
Qed.

(* every row is read with its original content, whatever was written before *)
Theorem rows_read_intact i : (i < length rows)%nat ->
  get [] (ip_m (fold_left (inplace_step weights) (seq 0 i)
          {| ip_m := rows; ip_tracker := repeat (-1) cart; ip_gid := 0; ip_comb_rev := [] |})) i = get [] rows i.
Proof.
  intros Hi. destruct (IP_run i ltac:(lia)) as [_ [_ [_ [_ [_ [_ [_ Hun]]]]]]]. apply Hun. lia.
Qed.
End Inplace.
