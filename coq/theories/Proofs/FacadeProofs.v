From Coq Require Import List Bool Arith.
From GL Require Import Model.Facade.
Import ListNotations.

Lemma value_columns_spec columns keys c :
  In c (value_columns columns keys) <-> In c columns /\ ~ In c keys.
Proof.
  unfold value_columns. rewrite filter_In. split; intros [Hin H]; split; auto.
  - intros Hk. apply negb_true_iff in H.
    assert (E : existsb (Nat.eqb c) keys = true) by (apply existsb_exists; exists c; split; auto; apply Nat.eqb_refl).
    congruence.
  - apply negb_true_iff. destruct (existsb (Nat.eqb c) keys) eqn:E; auto.
    apply existsb_exists in E. destruct E as [x [Hx Hxe]]. apply Nat.eqb_eq in Hxe. subst x. tauto.
Qed.

Lemma value_columns_order columns keys : exists f, value_columns columns keys = filter f columns.
Proof. eexists. reflexivity. Qed.

Lemma selection_honoured columns keys sel : selected_columns columns keys (Some sel) = sel.
Proof. reflexivity. Qed.
