(* Tie B: initial values of the accumulators *)
From Coq Require Import List ZArith String.
From GL Require Import Model.Reduce Gen.TablesGen.

Lemma tie_build_target_rule : gen_build_target_rule = build_target_rule.
Proof. reflexivity. Qed.
