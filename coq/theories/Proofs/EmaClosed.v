(* C10 — the grouped EMA kernels compute the normalised exponentially weighted mean.
   Single-series closed forms (exact arithmetic over Qc), lifted to every group of
   an interleaved input by the keyed-scan theorem. *)
From Coq Require Import List ZArith Lia Bool Arith QArith Qcanon.
From GL Require Import Lib.Arr Lib.Keyed Model.Dom Model.Ema.
Import ListNotations.
Open Scope Z_scope.

(* value carried by a row if it is a valid observation *)
Definition contrib (r : fl * bool) : option Qc :=
  match r with (FFin q, true) => Some q | _ => None end.
Definition cval (r : fl * bool) : Qc := match contrib r with Some q => q | None => 0%Qc end.
Definition cone (r : fl * bool) : Qc := match contrib r with Some _ => 1%Qc | None => 0%Qc end.

(* Sum over the earlier rows of the group, most recent first: the k-th most recent row
   (k = 0 is the row just before) has weight beta^(k+1) — one factor per group row elapsed *)
Fixpoint qpow_ (b : Qc) (n : nat) : Qc := match n with O => 1%Qc | S m => (b * qpow_ b m)%Qc end.
Fixpoint wsum (beta : Qc) (k : nat) (f : fl * bool -> Qc) (recent_first : list (fl * bool)) : Qc :=
  match recent_first with
  | [] => 0%Qc
  | r :: t => (f r * qpow_ beta (S k) + wsum beta (S k) f t)%Qc
  end.

(* Horner form of the same sum: what the kernel's recurrence builds *)
Fixpoint horner (beta : Qc) (f : fl * bool -> Qc) (recent_first : list (fl * bool)) : Qc :=
  match recent_first with
  | [] => 0%Qc
  | r :: t => (beta * (f r + horner beta f t))%Qc
  end.

Lemma horner_wsum beta f l : forall k, (qpow_ beta k * horner beta f l = wsum beta k f l)%Qc.
Proof.
  induction l as [|r t IH]; intros k; simpl.
  - ring.
  - rewrite <- IH. simpl. ring.
Qed.

Corollary horner_is_weighted_sum beta f l : horner beta f l = wsum beta 0 f l.
Proof. rewrite <- horner_wsum. simpl. ring. Qed.

Section Series.
Variable beta : Qc.
Notation step := (ema_step beta).
Definition run_series (l : list (fl * bool)) : ecell := sfold step ecell0 l.

Lemma run_series_snoc l r : run_series (l ++ [r]) = fst (step (run_series l) r).
Proof. unfold run_series, sfold. rewrite fold_left_app. reflexivity. Qed.

Lemma step_valid c q : step c (FFin q, true) =
  ({| res_ := ((res_ c + q) * beta)%Qc; wts := ((wts c + 1) * beta)%Qc;
      last_out := FFin ((q + res_ c) / (1 + wts c))%Qc; seen_ := true; last_t := last_t c |},
   FFin ((q + res_ c) / (1 + wts c))%Qc).
Proof. reflexivity. Qed.

Lemma step_invalid c r : contrib r = None ->
  step c r = ({| res_ := (res_ c * beta)%Qc; wts := (wts c * beta)%Qc; last_out := last_out c;
                 seen_ := true; last_t := last_t c |}, last_out c).
Proof. destruct r as [[|q] [|]]; simpl; intros H; try discriminate; reflexivity. Qed.

(* invariant: the two accumulators are the decayed numerator and denominator *)
Theorem series_state l :
  res_ (run_series l) = horner beta cval (rev l) /\ wts (run_series l) = horner beta cone (rev l).
Proof.
  induction l as [|r l IH] using rev_ind.
  - split; reflexivity.
  - rewrite run_series_snoc, rev_app_distr. simpl rev. simpl app. destruct IH as [IHr IHw].
    destruct (contrib r) eqn:Ec.
    + destruct r as [[|x] [|]]; simpl in Ec; try discriminate. inversion Ec; subst.
      rewrite step_valid. cbn [fst res_ wts]. cbn [horner]. unfold cval at 1, cone at 1. cbn [contrib]. rewrite IHr, IHw. split; ring.
    + rewrite step_invalid by auto. cbn [fst res_ wts]. cbn [horner]. unfold cval at 1, cone at 1. rewrite Ec. rewrite IHr, IHw. split; ring.
Qed.

(* output at a valid row: the weighted mean of all valid observations so far *)
Theorem series_out_valid l q :
  snd (step (run_series l) (FFin q, true))
  = FFin ((q + wsum beta 0 cval (rev l)) / (1 + wsum beta 0 cone (rev l)))%Qc.
Proof.
  rewrite step_valid. simpl. destruct (series_state l) as [Hr Hw].
  rewrite Hr, Hw, !horner_is_weighted_sum. reflexivity.
Qed.

(* output at an invalid row: the previous output of the series (null if there is none) *)
Definition prev_out (l : list (fl * bool)) : fl :=
  match rev l with [] => FNan | r :: t => snd (step (run_series (rev t)) r) end.

Lemma last_out_is_prev l : last_out (run_series l) = prev_out l.
Proof.
  unfold prev_out. induction l as [|r l IH] using rev_ind; [reflexivity|].
  rewrite run_series_snoc, rev_app_distr. simpl. rewrite rev_involutive.
  destruct (contrib r) eqn:Ec.
  - destruct r as [[|x] [|]]; simpl in Ec; try discriminate. reflexivity.
  - rewrite step_invalid by auto. reflexivity.
Qed.

Theorem series_out_invalid l r : contrib r = None -> snd (step (run_series l) r) = prev_out l.
Proof. intros H. rewrite step_invalid by auto. simpl. apply last_out_is_prev. Qed.

(* hence: null until the first valid observation *)
Theorem series_null_before_first_valid l r :
  (forall x, In x l -> contrib x = None) -> contrib r = None -> snd (step (run_series l) r) = FNan.
Proof.
  intros Hall Hr. rewrite series_out_invalid by auto.
  induction l as [|x l IH] using rev_ind; [reflexivity|].
  unfold prev_out. rewrite rev_app_distr. simpl. rewrite rev_involutive.
  rewrite series_out_invalid by (apply Hall; apply in_or_app; right; left; auto).
  apply IH. intros y Hy. apply Hall. apply in_or_app; auto.
Qed.
End Series.

(* ---- lifted to the grouped kernel: every group is an independent series ---- *)
Theorem ema_grouped_row gk vals alpha ng mask i k r :
  nth_error (ema_rows gk vals mask) i = Some (k, r) -> 0 <= k -> (Z.to_nat k < ng)%nat ->
  nth i (ema_grouped gk vals alpha ng mask) FNan
  = snd (ema_step (1 - alpha)%Qc
           (run_series (1 - alpha)%Qc (rows_of (Z.to_nat k) (firstn i (ema_rows gk vals mask)))) r).
Proof.
  intros Hn Hk Hg. unfold ema_grouped.
  rewrite (kscan_nth _ _ ecell0 _ (ema_step (1 - alpha)%Qc) FNan FNan _ _ i k r Hn Hk) by (rewrite repeat_length; auto).
  rewrite get_repeat by auto. reflexivity.
Qed.

(* ---- time-weighted kernel: weights decay (t_i - t_j), for any decay that is a
        homomorphism of elapsed time (2^(-dt/halflife) is one) ---- *)
Section Timed.
Variable decay : Z -> Qc.
Hypothesis decay_zero : decay 0 = 1%Qc.
Hypothesis decay_add : forall a b, decay (a + b) = (decay a * decay b)%Qc.

Definition trow := (fl * bool * Z)%type.
Definition tcontrib (r : trow) : option Qc := match r with (FFin q, true, _) => Some q | _ => None end.
Definition tval (r : trow) : Qc := match tcontrib r with Some q => q | None => 0%Qc end.
Definition tone (r : trow) : Qc := match tcontrib r with Some _ => 1%Qc | None => 0%Qc end.
Definition ttime (r : trow) : Z := snd r.

(* sum over rows of f(row) * decay(T - time of row) *)
Fixpoint tsum (f : trow -> Qc) (T : Z) (l : list trow) : Qc :=
  match l with [] => 0%Qc | r :: t => (f r * decay (T - ttime r) + tsum f T t)%Qc end.

Lemma tsum_app f T l1 l2 : tsum f T (l1 ++ l2) = (tsum f T l1 + tsum f T l2)%Qc.
Proof. induction l1 as [|r t IH]; simpl; [ring|]. rewrite IH. ring. Qed.

Lemma tsum_shift f T T' l : (tsum f T l * decay (T' - T) = tsum f T' l)%Qc.
Proof.
  induction l as [|r t IH]; simpl; [ring|].
  rewrite <- IH. replace (T' - ttime r) with ((T - ttime r) + (T' - T)) by lia. rewrite decay_add. ring.
Qed.

Notation tstep := (ema_timed_step decay).
Definition run_timed (l : list trow) : ecell := sfold tstep ecell0 l.

Lemma run_timed_snoc l r : run_timed (l ++ [r]) = fst (tstep (run_timed l) r).
Proof. unfold run_timed, sfold. rewrite fold_left_app. reflexivity. Qed.

Definition last_time (l : list trow) : Z := match rev l with [] => 0 | r :: _ => ttime r end.

Theorem timed_state l :
  seen_ (run_timed l) = negb (match l with [] => true | _ => false end) /\
  last_t (run_timed l) = last_time l /\
  res_ (run_timed l) = tsum tval (last_time l) l /\ wts (run_timed l) = tsum tone (last_time l) l.
Proof.
  induction l as [|r l IH] using rev_ind.
  - repeat split; reflexivity.
  - rewrite run_timed_snoc. destruct IH as [Hs [Ht [Hr Hw]]].
    assert (Hlt : last_time (l ++ [r]) = ttime r) by (unfold last_time; rewrite rev_app_distr; reflexivity).
    destruct r as [[x sel] t]. unfold ttime in Hlt; cbn [snd] in Hlt.
    split; [destruct l; reflexivity|].
    split; [rewrite Hlt; reflexivity|].
    rewrite Hlt, !tsum_app. cbn [tsum]. unfold ttime; cbn [snd].
    replace (t - t) with 0 by lia. rewrite decay_zero.
    unfold ema_timed_step. cbn [fst res_ wts].
    destruct l as [|r0 l0].
    + (* first row of the series *)
      clear. unfold run_timed, sfold. cbn [fold_left ecell0 seen_ last_t res_ wts tsum].
      split; unfold tval, tone, tcontrib; destruct x as [|q], sel; cbn [flq]; ring.
    + assert (Hs' : seen_ (run_timed (r0 :: l0)) = true) by (rewrite Hs; reflexivity).
      rewrite Hs', Ht, Hr, Hw.
      rewrite <- (tsum_shift tval (last_time (r0 :: l0)) t), <- (tsum_shift tone (last_time (r0 :: l0)) t).
      generalize (tsum tval (last_time (r0 :: l0)) (r0 :: l0)) as A. generalize (tsum tone (last_time (r0 :: l0)) (r0 :: l0)) as B.
      intros B A. split; unfold tval, tone, tcontrib; destruct x as [|q], sel; cbn [flq]; ring.
Qed.

(* output at a valid row at time t: the weighted mean with weights decay (t - t_j) *)
Theorem timed_out_valid l q t :
  snd (tstep (run_timed l) (FFin q, true, t))
  = FFin ((q + tsum tval t l) / (1 + tsum tone t l))%Qc.
Proof.
  destruct (timed_state l) as [Hs [Ht [Hr Hw]]].
  unfold ema_timed_step. cbn [snd]. rewrite Hs, Ht, Hr, Hw.
  destruct l as [|r0 l0].
  - cbn [negb tsum flq]. apply f_equal. apply f_equal2; ring.
  - cbn [negb flq]. rewrite !tsum_shift. reflexivity.
Qed.

Theorem timed_out_invalid l r : tcontrib r = None -> snd (tstep (run_timed l) r) = last_out (run_timed l).
Proof. destruct r as [[[|q] [|]] t]; simpl; intros H; try discriminate; reflexivity. Qed.
End Timed.

(* ---- grouped EMA of a single group = ungrouped EMA, from the first valid observation on ---- *)
Section GroupedVsUngrouped.
Variable beta : Qc.
Notation step := (ema_step beta).

Fixpoint series_outs (c : ecell) (l : list fl) : list fl :=
  match l with
  | [] => []
  | x :: t => let so := step c (x, true) in snd so :: series_outs (fst so) t
  end.

Lemma adjusted_from_is_series t : forall c,
  ema_adjusted_from beta (res_ c) (wts c) (last_out c) t = series_outs c t.
Proof.
  induction t as [|x t IH]; intros c; [reflexivity|].
  destruct x as [|q]; cbn [ema_adjusted_from series_outs].
  - unfold ema_step at 1. cbn [snd]. f_equal. rewrite <- IH. reflexivity.
  - unfold ema_step at 1. cbn [snd flq]. f_equal. rewrite <- IH. reflexivity.
Qed.

Definition zero_state (c : ecell) : Prop := res_ c = 0%Qc /\ wts c = 0%Qc /\ last_out c = FNan.

Lemma nan_prefix_grouped n : forall c rest, zero_state c ->
  exists c', zero_state c' /\ series_outs c (repeat FNan n ++ rest) = repeat FNan n ++ series_outs c' rest.
Proof.
  induction n as [|n IH]; intros c rest Hz; [exists c; auto|].
  destruct Hz as [Hr [Hw Hl]]. cbn [repeat app series_outs].
  set (c1 := fst (step c (FNan, true))).
  assert (Hz1 : zero_state c1).
  { unfold c1, zero_state, ema_step. cbn. rewrite Hr, Hw, Hl. repeat split; ring. }
  destruct (IH c1 rest Hz1) as [c' [Hz' E]]. exists c'. split; auto.
  rewrite E. f_equal. unfold ema_step. cbn. exact Hl.
Qed.

Lemma nan_prefix_ungrouped n : forall rest,
  ema_adjusted_from beta 0%Qc 0%Qc (FFin 0%Qc) (repeat FNan n ++ rest)
  = repeat (FFin 0%Qc) n ++ ema_adjusted_from beta 0%Qc 0%Qc (FFin 0%Qc) rest.
Proof.
  induction n as [|n IH]; intros rest; [reflexivity|].
  cbn [repeat app ema_adjusted_from]. f_equal.
  replace (0 * beta)%Qc with 0%Qc by ring. apply IH.
Qed.

(* both kernels on  NaN^n ++ q :: rest : identical from the first valid observation on;
   before it the grouped kernel reports null, the ungrouped one its initial 0 *)
Theorem grouped_single_equals_ungrouped n q rest :
  exists tail,
    ema_adjusted_from beta 0%Qc 0%Qc (FFin 0%Qc) (repeat FNan n ++ FFin q :: rest) = repeat (FFin 0%Qc) n ++ tail /\
    series_outs ecell0 (repeat FNan n ++ FFin q :: rest) = repeat FNan n ++ tail.
Proof.
  destruct (nan_prefix_grouped n ecell0 (FFin q :: rest)) as [c' [[Hr [Hw Hl]] E]]; [repeat split; reflexivity|].
  exists (series_outs c' (FFin q :: rest)). split; [|exact E].
  rewrite nan_prefix_ungrouped. f_equal.
  cbn [ema_adjusted_from series_outs]. unfold ema_step at 1 2. cbn [snd fst flq]. rewrite Hr, Hw. f_equal.
  set (out := FFin ((q + 0) / (1 + 0))%Qc).
  rewrite <- (adjusted_from_is_series rest
     {| res_ := ((0 + q) * beta)%Qc; wts := ((0 + 1) * beta)%Qc; last_out := out; seen_ := true; last_t := last_t c' |}).
  reflexivity.
Qed.

(* the grouped kernel on one group (all codes 0) is that series *)
Lemma kscan_single_group (l : list fl) : forall c,
  kscan ecell0 step FNan (mk_rows (repeat 0 (length l)) l None) [c] = series_outs c l.
Proof.
  unfold mk_rows, mask_list. rewrite repeat_length.
  induction l as [|x t IH]; intros c; [reflexivity|].
  cbn [length repeat combine kscan fst snd]. change (0 <? 0) with false. cbv iota.
  change (Z.to_nat 0) with 0%nat. cbn [get nth upd series_outs]. f_equal. apply IH.
Qed.
End GroupedVsUngrouped.

Theorem ema_grouped_single_group vals alpha :
  ema_grouped (repeat 0 (length vals)) vals alpha 1 None = series_outs (1 - alpha)%Qc ecell0 vals.
Proof. unfold ema_grouped, ema_rows. apply kscan_single_group. Qed.
