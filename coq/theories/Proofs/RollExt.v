(* C09 — rolling max / min: the circular-buffer invariant of ext_step (Model/Rolling.v) and the
   whole-array equality with the sliding-window specification.

   After the selected values l of a group, with window w >= 1: buffer/position as for the other
   kernels, non_null = number of non-null values among the last w, and the current best IS the
   maximum (minimum) of those non-null values (the null marker when there is none) — including
   the two ways the kernel maintains it: the improvement test (v >= best, or first non-null
   value) and the recomputation over the whole buffer when the window is full and the new value
   does not improve (the previous best may be the one leaving).  The buffer is a rotation of the
   last w values; only its membership matters, because a maximum is determined by the set.

   min is max for the reversed order: [flip] swaps the comparisons, and both the kernel and the
   specification for want_max = false are definitionally the want_max = true ones over [flip o]. *)
From Coq Require Import List ZArith Lia Bool Arith.
From GL Require Import Lib.Arr Lib.Keyed Model.Dom Model.Scalar Model.Cumulative Model.Rolling Spec.Defs Spec.Exec
  Spec.RowSpec Proofs.ReduceSeries Proofs.CumProofs Proofs.CumSpec Proofs.RollingInv Proofs.RollSpec.
Import ListNotations.
Open Scope Z_scope.

Lemma nth_skipn_add {A} (d : A) b : forall l k, nth k (skipn b l) d = nth (b + k) l d.
Proof. induction b as [|b IH]; intros [|x l] k; simpl; auto. destruct k; auto. Qed.

Lemma slot_of w b j : (0 < w)%nat -> (j < w)%nat -> exists k, (k < w)%nat /\ ((b + k) mod w = j)%nat.
Proof.
  intros Hw Hj. set (r := (b mod w)%nat).
  assert (Hr : (r < w)%nat) by (apply Nat.mod_upper_bound; lia).
  pose proof (Nat.div_mod b w ltac:(lia)) as Hb. fold r in Hb.
  destruct (Nat.le_gt_cases r j).
  - exists (j - r)%nat. split; [lia|]. symmetry. apply Nat.mod_unique with (q := (b / w)%nat); lia.
  - exists (j + w - r)%nat. split; [lia|]. symmetry. apply Nat.mod_unique with (q := S (b / w)); lia.
Qed.

(* once full, the buffer holds exactly the last w values (as a set: it is a rotation of them) *)
Lemma buf_members {V} (nullv : V) w l : (0 < w)%nat -> (w <= length l)%nat ->
  forall x, In x (fst (buf_of nullv w l)) <-> In x (RollingInv.lastn w l).
Proof.
  intros Hw Hf x. destruct (buf_of_shape nullv w l Hw) as [Hlen _].
  unfold RollingInv.lastn. set (b := (length l - w)%nat).
  assert (Hsk : length (skipn b l) = w) by (rewrite skipn_length; lia).
  split; intros Hin.
  - destruct (In_nth _ _ nullv Hin) as [j [Hj Ej]]. rewrite Hlen in Hj.
    destruct (slot_of w b j Hw Hj) as [k [Hk Ek]].
    rewrite <- Ej, <- Ek.
    change (nth ((b + k) mod w) (fst (buf_of nullv w l)) nullv) with (get nullv (fst (buf_of nullv w l)) ((b + k) mod w)).
    rewrite recent_values_in_slots by lia. rewrite <- nth_skipn_add. apply nth_In. lia.
  - destruct (In_nth _ _ nullv Hin) as [k [Hk Ek]]. rewrite Hsk in Hk.
    rewrite <- Ek, nth_skipn_add. rewrite <- (recent_values_in_slots nullv w l Hw (b + k)) by lia.
    apply nth_In. rewrite Hlen. apply Nat.mod_upper_bound. lia.
Qed.

Section Ext.
Context {V : Type} (o : ops V) (L : laws o).
Hypothesis null_unique : forall x, is_null o x = true -> x = null o.
Notation nn := (nonnull o).

Lemma nn_snoc q v : nn (q ++ [v]) = if is_null o v then nn q else nn q ++ [v].
Proof.
  rewrite (nn_app o). unfold nonnull at 2. simpl. destruct (is_null o v); simpl; auto using app_nil_r.
Qed.

Lemma nn_members l1 l2 : (forall x, In x l1 <-> In x l2) -> forall x, In x (nn l1) <-> In x (nn l2).
Proof. intros Hm x. unfold nonnull. rewrite !filter_In, Hm. tauto. Qed.

Lemma max_exec_is_max l : l <> [] -> (forall x, In x l -> is_null o x = false) -> is_max_of o (max_exec o l) l.
Proof.
  destruct l as [|h t]; [congruence|]. intros _ H. simpl. apply (fold_pick_max_spec o L).
  - apply H; left; auto.
  - intros; apply H; right; auto.
Qed.

Lemma max_exec_char l m : (forall x, In x l -> is_null o x = false) -> is_max_of o m l -> max_exec o l = m.
Proof.
  intros H Hm.
  assert (l <> []) by (destruct Hm as [Hin _]; destruct l; [destruct Hin | congruence]).
  eapply (is_max_unique o L); eauto. apply max_exec_is_max; auto.
Qed.

Lemma max_exec_members l1 l2 : (forall x, In x l1 <-> In x l2) ->
  (forall x, In x l1 -> is_null o x = false) -> max_exec o l1 = max_exec o l2.
Proof.
  intros Hm Hn. destruct l1 as [|h t].
  - destruct l2 as [|h2 t2]; auto. destruct (proj2 (Hm h2) (or_introl eq_refl)).
  - symmetry. apply max_exec_char.
    + intros x Hx. apply Hn, Hm, Hx.
    + destruct (max_exec_is_max (h :: t)) as [Hin Hmax]; [congruence | auto |].
      split; [apply Hm; auto | intros x Hx; apply Hmax, Hm, Hx].
Qed.

(* the kernel's `>=` test and the specification's strict pick agree on values (ties are equal values) *)
Lemma better_pick best v : is_null o best = false -> is_null o v = false ->
  (if better o true v best then v else best) = pick_max o best v.
Proof.
  intros Hb Hv. unfold better, pick_max. rewrite (leb_spec o L) by auto.
  destruct (ltb o best v) eqn:E1; destruct (ltb o v best) eqn:E2; cbn [negb]; auto.
  - pose proof (ltb_trans o L _ _ _ E1 E2) as H. rewrite (ltb_irrefl o L) in H. discriminate.
  - apply (ltb_total o L); auto.
Qed.

Lemma max_exec_nonnull l : l <> [] -> (forall x, In x l -> is_null o x = false) -> is_null o (max_exec o l) = false.
Proof. intros Hl H. apply H. apply max_exec_is_max; auto. Qed.

Lemma max_snoc l v : (forall x, In x l -> is_null o x = false) -> is_null o v = false ->
  max_exec o (l ++ [v]) = if (Z.of_nat (length l) =? 0) || better o true v (max_exec o l) then v else max_exec o l.
Proof.
  intros Hl Hv. destruct l as [|h t]; [reflexivity|].
  replace (Z.of_nat (length (h :: t)) =? 0) with false by (symmetry; apply Z.eqb_neq; simpl length; lia).
  cbn [orb]. rewrite better_pick by first [assumption | apply max_exec_nonnull; [congruence | auto]].
  simpl. now rewrite fold_left_app.
Qed.

(* ---- min_or_max_and_position (value part) is the maximum of the non-null cells ---- *)
Lemma first_nonnull_spec arr :
  (nn arr = [] /\ first_nonnull_from o arr (null o) = (null o, [])) \/
  (exists b0 rest, first_nonnull_from o arr (null o) = (b0, rest) /\ is_null o b0 = false /\ nn arr = b0 :: nn rest).
Proof.
  induction arr as [|x t IH].
  - left; split; reflexivity.
  - cbn [first_nonnull_from]. destruct (is_null o x) eqn:E.
    + rewrite (nn_cons_null o) by auto. destruct t as [|y t'].
      * left. split; [reflexivity|]. now rewrite (null_unique x E).
      * exact IH.
    + right. exists x, t. split; [reflexivity|]. split; auto. now rewrite (nn_cons_val o).
Qed.

Lemma fold_better rest : forall b, is_null o b = false ->
  fold_left (fun best v => if is_null o v then best else if better o true v best then v else best) rest b
  = fold_left (pick_max o) (nn rest) b.
Proof.
  induction rest as [|x t IH]; intros b Hb; [reflexivity|].
  cbn [fold_left]. destruct (is_null o x) eqn:E.
  - rewrite (nn_cons_null o) by auto. apply IH; auto.
  - rewrite (nn_cons_val o) by auto. cbn [fold_left]. rewrite better_pick by auto. apply IH.
    unfold pick_max. destruct (ltb o b x); auto.
Qed.

Lemma min_or_max_is_exec arr : min_or_max o true arr = max_exec o (nn arr).
Proof.
  unfold min_or_max. destruct (first_nonnull_spec arr) as [[Hn Hf] | [b0 [rest [Hf [Hb Hn]]]]]; rewrite Hf, Hn.
  - reflexivity.
  - simpl. apply fold_better; auto.
Qed.

(* ---- the state after a group's selected values ---- *)
Definition c_init (w : nat) : @rcell V := {| buf := repeat (null o) w; pos := 0; non_null := 0; n_seen := 0; acc := null o |}.
Definition run_ext (w : nat) (mp : Z) (l : list V) : rcell :=
  sfold (ext_step o w mp true) (c_init w) (map (fun v => (v, true)) l).

Lemma run_ext_snoc w mp l v : run_ext w mp (l ++ [v]) = fst (ext_step o w mp true (run_ext w mp l) (v, true)).
Proof. unfold run_ext, sfold. now rewrite map_app, fold_left_app. Qed.

Lemma wnn_snoc q v : window_nn o (q ++ [v]) = if is_null o v then window_nn o q else window_nn o q + 1.
Proof. unfold window_nn. rewrite nn_snoc. destruct (is_null o v); auto. rewrite app_length. simpl. lia. Qed.
Lemma wnn_cons x q : window_nn o (x :: q) = if is_null o x then window_nn o q else window_nn o q + 1.
Proof.
  unfold window_nn. destruct (is_null o x) eqn:E.
  - now rewrite (nn_cons_null o).
  - rewrite (nn_cons_val o) by auto. simpl length. lia.
Qed.

Theorem ext_state w mp l : (0 < w)%nat ->
  let c := run_ext w mp l in
  (buf c, pos c) = buf_of (null o) w l /\ n_seen c = Z.of_nat (Nat.min (length l) w) /\
  non_null c = window_nn o (RollingInv.lastn w l) /\ acc c = max_exec o (nn (RollingInv.lastn w l)).
Proof.
  intros Hw. induction l as [|v l IH] using rev_ind.
  - cbv zeta. repeat split; reflexivity.
  - cbv zeta in *. rewrite run_ext_snoc, buf_of_snoc. destruct IH as [IHb [IHn [IHc IHa]]].
    assert (Ebuf : buf (run_ext w mp l) = fst (buf_of (null o) w l)) by (now rewrite <- IHb).
    assert (Epos : pos (run_ext w mp l) = snd (buf_of (null o) w l)) by (now rewrite <- IHb).
    assert (Hnnq : forall q x, In x (nn q) -> is_null o x = false) by (intros q x; apply (nn_nonnull o)).
    unfold ext_step. cbn [negb fst buf pos n_seen acc non_null]. rewrite IHn.
    split; [rewrite <- IHb; reflexivity|].
    destruct (Nat.lt_ge_cases (length l) w) as [Hs|Hf].
    + (* window not yet full: nothing leaves, the best is updated by the improvement test *)
      replace (Z.of_nat w <=? Z.of_nat (Nat.min (length l) w)) with false by (symmetry; apply Z.leb_gt; lia).
      cbn [andb]. rewrite lastn_snoc_short by auto. rewrite wnn_snoc, nn_snoc, IHc, IHa, app_length. cbn [length].
      split; [lia|].
      destruct (is_null o v) eqn:Ev; cbn [negb andb]; [split; reflexivity|].
      split; [reflexivity|]. rewrite max_snoc by (auto; apply Hnnq). reflexivity.
    + (* full: the value seen w rows earlier leaves *)
      replace (Z.of_nat w <=? Z.of_nat (Nat.min (length l) w)) with true by (symmetry; apply Z.leb_le; lia).
      cbn [andb]. rewrite Ebuf, Epos, evicted_value by auto.
      destruct (lastn_snoc_full (null o) w l v Hw Hf) as [Eq Eq'].
      set (old := nth (length l - w) l (null o)) in *. set (rest := skipn (S (length l - w)) l) in *.
      rewrite Eq', IHc, IHa, Eq, app_length. cbn [length]. rewrite wnn_cons, wnn_snoc.
      split; [lia|].
      assert (Enn1 : (if negb (is_null o old) then (if is_null o old then window_nn o rest else window_nn o rest + 1) - 1
                      else (if is_null o old then window_nn o rest else window_nn o rest + 1)) = window_nn o rest)
        by (destruct (is_null o old); cbn [negb]; lia).
      rewrite Enn1. split; [destruct (is_null o v); reflexivity|].
      destruct (negb (is_null o v) && ((window_nn o rest =? 0) || better o true v (max_exec o (nn (old :: rest))))) eqn:Eimp; cbn [negb].
      * (* improves: v is at least the best of a superset of what remains *)
        apply andb_true_iff in Eimp. destruct Eimp as [Ev Hor]. apply negb_true_iff in Ev.
        rewrite nn_snoc, Ev. symmetry. apply max_exec_char.
        { intros x Hx. apply in_app_or in Hx. destruct Hx as [Hx|[<-|[]]]; auto. eapply Hnnq; eauto. }
        split; [apply in_or_app; right; left; auto|].
        intros x Hx. apply in_app_or in Hx. destruct Hx as [Hx|[<-|[]]]; [|apply (ltb_irrefl o L)].
        apply orb_true_iff in Hor. destruct Hor as [Hz|Hbt].
        { apply Z.eqb_eq in Hz. unfold window_nn in Hz. destruct (nn rest); [destruct Hx | simpl length in Hz; lia]. }
        assert (Hxs : In x (nn (old :: rest))).
        { unfold nonnull in *. rewrite filter_In in *. destruct Hx as [Hx1 Hx2]. split; [right; auto | auto]. }
        assert (Hne : nn (old :: rest) <> []) by (intros Hcontra; rewrite Hcontra in Hxs; destruct Hxs).
        destruct (max_exec_is_max (nn (old :: rest)) Hne (Hnnq _)) as [Min Mmax].
        set (M := max_exec o (nn (old :: rest))) in *.
        assert (HM : is_null o M = false) by (eapply Hnnq; eauto).
        unfold better in Hbt. rewrite (leb_spec o L) in Hbt by auto. apply negb_true_iff in Hbt.
        apply (ltb_false_trans o L x M v); auto. eapply Hnnq; eauto.
      * (* no improvement: recomputed over the whole buffer, which holds exactly the last w values *)
        rewrite min_or_max_is_exec.
        assert (Eb : upd (fst (buf_of (null o) w l)) (snd (buf_of (null o) w l)) v = fst (buf_of (null o) w (l ++ [v])))
          by (rewrite buf_of_snoc; reflexivity).
        rewrite Eb. rewrite <- Eq'. apply max_exec_members; [|apply Hnnq].
        apply nn_members. apply buf_members; [auto|rewrite app_length; simpl; lia].
Qed.

(* output at selected row number |l| of the group *)
Theorem ext_output w mp l v : (0 < w)%nat ->
  snd (ext_step o w mp true (run_ext w mp l) (v, true)) =
    let q := RollingInv.lastn w (l ++ [v]) in
    if mp <=? window_nn o q then max_exec o (nn q) else null o.
Proof.
  intros Hw.
  pose proof (ext_state w mp (l ++ [v]) Hw) as H. cbv zeta in H. destruct H as [_ [_ [Hc Ha]]].
  rewrite run_ext_snoc in Ha, Hc.
  unfold ext_step in *. cbn [negb fst snd acc non_null] in *. cbv zeta. rewrite <- Ha, <- Hc. reflexivity.
Qed.

(* ---- whole arrays ---- *)
Theorem rolling_max_is_spec gk vals ng w mp mask :
  (0 < w)%nat -> length vals = length gk -> wf_mask (length gk) mask ->
  (forall k, In k gk -> k < Z.of_nat ng) ->
  rolling_max_or_min o gk vals ng w mp mask true =
  window_spec o RMax w (match mp with Some m => m | None => Z.of_nat w end) gk vals mask.
Proof.
  intros Hw Hv Hm Hng. set (mpv := match mp with Some m => m | None => Z.of_nat w end).
  apply (list_ext (null o)).
  - unfold rolling_max_or_min, window_spec, rows_of_kernel. rewrite kscan_length, map_length, seq_length. apply rows_length; auto.
  - intros i Hi. unfold rolling_max_or_min, rows_of_kernel in Hi. rewrite kscan_length, (rows_length gk vals mask Hv Hm) in Hi.
    unfold window_spec. unfold get at 2. rewrite nth_map_seq by exact Hi.
    assert (Hn := rows_get o gk vals mask Hv Hm i Hi).
    destruct (get (-1) gk i <? 0) eqn:Ek; cbn [orb].
    + apply Z.ltb_lt in Ek. unfold get at 1, rolling_max_or_min, rows_of_kernel.
      eapply kscan_nth_null; [exact Hn | exact Ek].
    + apply Z.ltb_ge in Ek.
      assert (Hlt : (Z.to_nat (get (-1)%Z gk i) < ng)%nat).
      { assert (In (get (-1) gk i) gk) by (apply nth_In; exact Hi). specialize (Hng _ H). lia. }
      unfold get at 1, rolling_max_or_min, rows_of_kernel. fold mpv.
      rewrite (scan_row (ext_step o w mpv true) _ (null o) (fun c v => eq_refl) gk vals ng mask i _ _ _ Hn Ek Hlt).
      rewrite (prefix_is_earlier o gk vals mask Hv Hm i Hi Ek).
      destruct (sel_at mask i); cbn [negb]; [|reflexivity].
      set (l := earlier gk vals mask (get (-1) gk i) i).
      change (sfold (ext_step o w mpv true) _ (map (fun x => (x, true)) l)) with (run_ext w mpv l).
      rewrite (ext_output w mpv l _ Hw). cbv zeta.
      rewrite lastn_same. unfold window_nn.
      set (q := nonnull o (RowSpec.lastn w (l ++ [get (null o) vals i]))).
      destruct (mpv <=? Z.of_nat (length q)) eqn:E; [apply Z.leb_le in E | apply Z.leb_gt in E].
      * replace (Z.of_nat (length q) <? mpv) with false by (symmetry; apply Z.ltb_ge; lia). reflexivity.
      * replace (Z.of_nat (length q) <? mpv) with true by (symmetry; apply Z.ltb_lt; lia). reflexivity.
Qed.
End Ext.

(* ---- min: the same kernel and specification over the reversed order ---- *)
Definition flip {V} (o : ops V) : ops V :=
  {| add := add o; sub := sub o; sq := sq o; ltb := fun a b => ltb o b a; leb := fun a b => leb o b a;
     zero := zero o; null := null o; is_null := is_null o; of_count := of_count o; divc := divc o |}.

Lemma flip_laws {V} (o : ops V) : laws o -> laws (flip o).
Proof.
  intros L. constructor; simpl.
  - apply (add_assoc o L).
  - apply (add_zero_l o L).
  - apply (add_zero_r o L).
  - intros x. apply (ltb_irrefl o L).
  - intros x y z H1 H2. apply (ltb_trans o L z y x); auto.
  - intros x y Hx Hy H1 H2. apply (ltb_total o L); auto.
  - intros x y Hx Hy. apply (leb_spec o L); auto.
  - apply (null_dichotomy o L).
Qed.

Theorem rolling_min_is_spec {V} (o : ops V) (L : laws o)
  (null_unique : forall x, is_null o x = true -> x = null o) gk vals ng w mp mask :
  (0 < w)%nat -> length vals = length gk -> wf_mask (length gk) mask ->
  (forall k, In k gk -> k < Z.of_nat ng) ->
  rolling_max_or_min o gk vals ng w mp mask false =
  window_spec o RMin w (match mp with Some m => m | None => Z.of_nat w end) gk vals mask.
Proof.
  intros Hw Hv Hm Hng.
  exact (rolling_max_is_spec (flip o) (flip_laws o L) null_unique gk vals ng w mp mask Hw Hv Hm Hng).
Qed.
