(* C08 - the cumulative sum IS the running group sum, bit for bit, in IEEE-754 binary64.
   For every list of rows (code, float64 value, mask bit) - NaN, infinities, any magnitude - and both settings of skip_na:
   the value the cumulative kernel writes at a kept row of group k (Model/CumFloat.v) equals the value the single-pass group
   reduction (Model/ReduceFloat.v, one thread) returns for group k on the rows up to and including that row.  No rounding
   argument is needed: both add the same numbers in the same order, which is what the proof shows. *)
From Coq Require Import List ZArith Bool PrimFloat Arith Lia.
From GL Require Import Model.ReduceFloat Model.CumFloat.
Import ListNotations.
Open Scope nat_scope.

Definition kept (rows : list (Z * float * bool)) : list (Z * float) := map fst (filter snd rows).
Definition fr (skipna : bool) : fred := if skipna then FNanSum else FSum.

Lemma kept_app a b : kept (a ++ b) = kept a ++ kept b.
Proof. unfold kept. rewrite filter_app, map_app. reflexivity. Qed.

Lemma piece_reduce_app f k a b : piece_reduce f k (a ++ b) = fold_left (red_step f k) b (piece_reduce f k a).
Proof. unfold piece_reduce. apply fold_left_app. Qed.

Lemma scalar_is_red_step sk cur x cnt k : scalar CSum sk cur x cnt = red_step (fr sk) k (cur, cnt) (k, x).
Proof. unfold scalar, red_step. rewrite Z.eqb_refl. cbn [negb]. destruct sk; reflexivity. Qed.

Lemma red_step_other f j a k x : (k =? j)%Z = false -> red_step f j a (k, x) = a.
Proof. intros H. unfold red_step. destruct a as [s n]. rewrite H. reflexivity. Qed.

(* the state after the rows p: every group's (latest output, count) is its single-pass reduction of the kept rows of p *)
Definition Inv (sk : bool) (st : gstate) (p : list (Z * float * bool)) : Prop :=
  forall k, (0 <= k)%Z -> fst (st k) = piece_reduce (fr sk) k (kept p) /\ (snd (st k) = false -> fst (fst (st k)) = zero).

Lemma inv_init sk : Inv sk (st0 CSum) [].
Proof. intros k _. split; reflexivity. Qed.

(* one row *)
Lemma step_spec sk st out p r : Inv sk st p ->
  Inv sk (fst (cum_step CSum sk (st, out) r)) (p ++ [r]) /\
  exists o, snd (cum_step CSum sk (st, out) r) = out ++ [o] /\
            (forall k x, r = (k, x, true) -> (0 <= k)%Z -> o = fst (piece_reduce (fr sk) k (kept (p ++ [r])))).
Proof.
  intros HI. destruct r as [[k' x] m]. unfold cum_step.
  destruct (k' <? 0)%Z eqn:Hneg.
  - cbn [fst snd]. split.
    + intros k Hk. destruct (HI k Hk) as [H1 H2]. split; [|exact H2].
      rewrite kept_app, piece_reduce_app, H1. unfold kept. cbn [filter snd]. destruct m; cbn [map fold_left fst]; [|reflexivity].
      rewrite red_step_other; [reflexivity|]. apply Z.eqb_neq. apply Z.ltb_lt in Hneg. lia.
    + exists nan. split; [reflexivity|]. intros k x0 E Hk. inversion E; subst. apply Z.ltb_lt in Hneg. lia.
  - assert (Hk' : (0 <= k')%Z) by (apply Z.ltb_ge in Hneg; exact Hneg).
    destruct (st k') as [[last cnt] seen] eqn:Est.
    destruct m; cbn [negb].
    + (* a kept row *)
      destruct (HI k' Hk') as [H1 H2]. rewrite Est in H1, H2. cbn [fst snd] in H1, H2.
      assert (Hcur : (if seen then last else init CSum) = last).
      { destruct seen; [reflexivity|]. cbn [init]. symmetry. apply H2. reflexivity. }
      rewrite Hcur. destruct (scalar CSum sk last x cnt) as [v c] eqn:Esc. cbn [fst snd].
      assert (Hv : (v, c) = piece_reduce (fr sk) k' (kept (p ++ [(k', x, true)]))).
      { rewrite kept_app, piece_reduce_app, <- H1. unfold kept. cbn [filter snd map fold_left fst].
        rewrite <- Esc. apply scalar_is_red_step. }
      split.
      * intros k Hk. unfold upd. destruct (k =? k')%Z eqn:Ek.
        -- apply Z.eqb_eq in Ek. subst k. cbn [fst snd]. split; [exact Hv|discriminate].
        -- destruct (HI k Hk) as [G1 G2]. split; [|exact G2].
           rewrite kept_app, piece_reduce_app, G1. unfold kept. cbn [filter snd map fold_left fst].
           rewrite red_step_other; [reflexivity|]. rewrite Z.eqb_sym. exact Ek.
      * exists v. split; [reflexivity|]. intros k x0 E Hk. inversion E; subst. rewrite <- Hv. reflexivity.
    + (* a masked-out row: the state stays, nothing is claimed about the output *)
      cbn [fst snd]. split.
      * intros k Hk. destruct (HI k Hk) as [G1 G2]. split; [|exact G2].
        rewrite kept_app. unfold kept at 2. cbn [filter snd map]. rewrite app_nil_r. exact G1.
      * eexists. split; [reflexivity|]. intros k x0 E. discriminate.
Qed.

Lemma cum_run_snoc sk p r : cum_run CSum sk (p ++ [r]) = cum_step CSum sk (cum_run CSum sk p) r.
Proof. unfold cum_run. rewrite fold_left_app. reflexivity. Qed.

Lemma run_spec sk rows :
  Inv sk (fst (cum_run CSum sk rows)) rows /\ length (cum_f CSum sk rows) = length rows /\
  forall i k x, nth_error rows i = Some (k, x, true) -> (0 <= k)%Z ->
    nth_error (cum_f CSum sk rows) i = Some (fst (piece_reduce (fr sk) k (kept (firstn (S i) rows)))).
Proof.
  induction rows as [|r p IH] using rev_ind.
  - split; [apply inv_init|]. split; [reflexivity|]. intros [|i] k x H; discriminate.
  - destruct IH as [HI [HL HN]]. unfold cum_f in *. rewrite cum_run_snoc.
    destruct (cum_run CSum sk p) as [st out] eqn:Erun. cbn [fst snd] in HI, HL, HN.
    destruct (step_spec sk st out p r HI) as [HI' [o [Ho Hlast]]].
    split; [exact HI'|]. rewrite Ho. split; [rewrite !app_length, HL; reflexivity|].
    intros i k x Hi Hk.
    destruct (Nat.lt_ge_cases i (length p)) as [Hlt|Hge].
    + rewrite nth_error_app1 in Hi by exact Hlt. rewrite nth_error_app1 by (rewrite HL; exact Hlt).
      rewrite firstn_app. replace (S i - length p) with 0 by lia. cbn [firstn]. rewrite app_nil_r. apply (HN i k x); assumption.
    + rewrite nth_error_app2 in Hi by exact Hge.
      destruct (i - length p) as [|d] eqn:Ed; [|destruct d; discriminate].
      cbn [nth_error] in Hi. inversion Hi; subst r.
      assert (i = length p) by lia. subst i.
      rewrite nth_error_app2 by (rewrite HL; lia). rewrite HL, Nat.sub_diag. cbn [nth_error].
      rewrite firstn_all2 by (rewrite app_length; cbn [length]; lia).
      f_equal. apply (Hlast k x); [reflexivity|exact Hk].
Qed.

Theorem cumsum_is_running_group_sum sk rows i k x : nth_error rows i = Some (k, x, true) -> (0 <= k)%Z ->
  nth_error (cum_f CSum sk rows) i = Some (fst (piece_reduce (fr sk) k (kept (firstn (S i) rows)))).
Proof. intros H Hk. exact (proj2 (proj2 (run_spec sk rows)) i k x H Hk). Qed.

Theorem cum_one_output_per_row sk rows : length (cum_f CSum sk rows) = length rows.
Proof. exact (proj1 (proj2 (run_spec sk rows))). Qed.
