(* C05 — the time-weighted grouped EMA: a mask IS equivalent to filtering the rows first.
   Unlike the plain EMA (where a masked row still ages the weights by one step: known finding K1),
   the timed kernel ages the weights by decay(elapsed time).  A masked row moves the group's clock
   and multiplies the accumulators by decay(t - last_t); when the row is absent instead, the next row
   applies decay over the whole gap.  For any decay that is a homomorphism (decay (a + b) = decay a *
   decay b, decay 0 = 1 — the exponential 2^(-dt/halflife) is one) the two runs stay in the simulation
   relation [Rel] below, and agree on every output at a selected row. *)
From Coq Require Import List ZArith Lia Bool Arith QArith Qcanon Qpower.
From GL Require Import Lib.Arr Lib.Keyed Model.Dom Model.Ema Proofs.RowGeneric.
Import ListNotations.
Open Scope Z_scope.

(* ---- keyed scans related by a simulation: dropped rows keep the relation, kept rows preserve it and
   produce equal outputs ---- *)
Section ScanSim.
Variables (S R O : Type).
Variable d : S.
Variable sstep : S -> R -> S * O.
Variable skip : O.
Variable keep : Z * R -> bool.
Variable Rel : S -> S -> Prop.
Hypothesis Rel_d : Rel d d.
Hypothesis dropped : forall k r, keep (k, r) = false -> k < 0 \/ forall s s', Rel s s' -> Rel (fst (sstep s r)) s'.
Hypothesis kept : forall k r s s', keep (k, r) = true -> Rel s s' ->
  Rel (fst (sstep s r)) (fst (sstep s' r)) /\ snd (sstep s r) = snd (sstep s' r).

Lemma Forall2_get st st' k : Forall2 Rel st st' -> Rel (get d st k) (get d st' k).
Proof.
  unfold get. intros H. revert k. induction H as [|a b l l' Hab H IH]; intros [|k]; simpl; auto.
Qed.
Lemma Forall2_upd st st' k v v' : Forall2 Rel st st' -> Rel v v' -> Forall2 Rel (upd st k v) (upd st' k v').
Proof.
  intros H Hv. revert k. induction H as [|a b l l' Hab H IH]; intros [|k]; simpl; constructor; auto.
Qed.
Lemma Forall2_upd_l st st' k v : Forall2 Rel st st' -> Rel v (get d st' k) -> Forall2 Rel (upd st k v) st'.
Proof.
  unfold get. intros H. revert k. induction H as [|a b l l' Hab H IH]; intros [|k] Hv; simpl in *; constructor; auto.
Qed.

Theorem kscan_sim rows : forall st st', Forall2 Rel st st' ->
  map snd (filter (fun p => keep (fst p)) (combine rows (kscan d sstep skip rows st)))
  = kscan d sstep skip (filter keep rows) st'.
Proof.
  induction rows as [|[k r] rest IH]; intros st st' Hst; simpl; auto.
  destruct (keep (k, r)) eqn:Ek.
  - destruct (k <? 0) eqn:E; simpl; rewrite Ek; simpl; rewrite E; simpl.
    + f_equal. apply IH; auto.
    + destruct (kept k r _ _ Ek (Forall2_get st st' (Z.to_nat k) Hst)) as [HR Ho].
      rewrite Ho. f_equal. apply IH. apply Forall2_upd; auto.
  - destruct (k <? 0) eqn:E; simpl; rewrite Ek; simpl; [apply IH; auto|].
    destruct (dropped k r Ek) as [Hk | Hn]; [apply Z.ltb_ge in E; lia|].
    apply IH. apply Forall2_upd_l; auto. apply Hn. apply Forall2_get; auto.
Qed.
End ScanSim.

Section Timed.
Variable decay : Z -> Qc.
Hypothesis decay_zero : decay 0 = 1%Qc.
Hypothesis decay_add : forall a b, decay (a + b) = (decay a * decay b)%Qc.

(* c: the run that saw the masked rows; c': the run on the filtered data *)
Definition Rel (c c' : ecell) : Prop :=
  last_out c = last_out c' /\
  ((seen_ c' = true /\ seen_ c = true /\
    res_ c = (res_ c' * decay (last_t c - last_t c'))%Qc /\ wts c = (wts c' * decay (last_t c - last_t c'))%Qc)
   \/ (seen_ c' = false /\ res_ c = 0%Qc /\ wts c = 0%Qc /\ res_ c' = 0%Qc /\ wts c' = 0%Qc)).

Lemma Rel_init : Rel ecell0 ecell0.
Proof. unfold Rel, ecell0; simpl. split; [reflexivity|]. right. repeat split; reflexivity. Qed.

Lemma Rel_dropped x t c c' : Rel c c' -> Rel (fst (ema_timed_step decay c (x, false, t))) c'.
Proof.
  intros [Hlo [[Hs' [Hs [Hr Hw]]] | [Hs' [Hr [Hw [Hr' Hw']]]]]]; unfold Rel, ema_timed_step; cbn [fst res_ wts last_out seen_ last_t].
  - assert (Hv : match x with FNan => false | _ => false end = false) by (destruct x; reflexivity).
    rewrite Hv, Hs. split; auto. left. repeat split; auto.
    + rewrite Hr. replace (t - last_t c') with ((last_t c - last_t c') + (t - last_t c)) by lia. rewrite decay_add. ring.
    + rewrite Hw. replace (t - last_t c') with ((last_t c - last_t c') + (t - last_t c)) by lia. rewrite decay_add. ring.
  - assert (Hv : match x with FNan => false | _ => false end = false) by (destruct x; reflexivity).
    rewrite Hv. split; auto. right. rewrite Hr, Hw. repeat split; auto; ring.
Qed.

Lemma Rel_kept x t c c' : Rel c c' ->
  Rel (fst (ema_timed_step decay c (x, true, t))) (fst (ema_timed_step decay c' (x, true, t))) /\
  snd (ema_timed_step decay c (x, true, t)) = snd (ema_timed_step decay c' (x, true, t)).
Proof.
  intros [Hlo HR].
  assert (E : (res_ c * (if seen_ c then decay (t - last_t c) else 1) = res_ c' * (if seen_ c' then decay (t - last_t c') else 1) /\
               wts c * (if seen_ c then decay (t - last_t c) else 1) = wts c' * (if seen_ c' then decay (t - last_t c') else 1))%Qc).
  { destruct HR as [[Hs' [Hs [Hr Hw]]] | [Hs' [Hr [Hw [Hr' Hw']]]]].
    - rewrite Hs, Hs', Hr, Hw. replace (t - last_t c') with ((last_t c - last_t c') + (t - last_t c)) by lia.
      rewrite decay_add. split; ring.
    - rewrite Hr, Hw, Hr', Hw'. split; ring. }
  destruct E as [Er Ew].
  unfold ema_timed_step. cbn [fst snd]. rewrite Er, Ew, Hlo. split; [|reflexivity].
  unfold Rel. cbn [res_ wts last_out seen_ last_t]. split; [reflexivity|]. left.
  replace (t - t) with 0 by lia. rewrite decay_zero. repeat split; auto; ring.
Qed.

(* the rows of the timed kernel: (code, ((value, selected?), time)) *)
Definition timed_rows (gk : list Z) (vals : list fl) (times : list Z) (mask : option (list bool)) :=
  map (fun r : Z * ((fl * Z) * bool) => (fst r, (fst (fst (snd r)), snd (snd r), snd (fst (snd r)))))
      (mk_rows gk (combine vals times) mask).

Lemma timed_rows_filter m : forall gk vals times,
  length gk = length m -> length vals = length m -> length times = length m ->
  filter (fun r : Z * (fl * bool * Z) => snd (fst (snd r))) (timed_rows gk vals times (Some m))
  = timed_rows (filter_by m gk) (filter_by m vals) (filter_by m times) None.
Proof.
  unfold timed_rows, mk_rows, filter_by, mask_list.
  induction m as [|b m IH]; intros [|k gk] [|v vals] [|t times] Hg Hv Ht; simpl in *; try lia; auto.
  destruct b; simpl.
  - f_equal. rewrite IH by lia. reflexivity.
  - apply IH; lia.
Qed.

(* THE statement for the timed EMA *)
Theorem ema_timed_mask_is_filter gk vals times ng m :
  length gk = length m -> length vals = length m -> length times = length m ->
  filter_by m (ema_grouped_timed decay gk vals times ng (Some m))
  = ema_grouped_timed decay (filter_by m gk) (filter_by m vals) (filter_by m times) ng None.
Proof.
  intros Hg Hv Ht. unfold ema_grouped_timed. fold (timed_rows gk vals times (Some m)).
  fold (timed_rows (filter_by m gk) (filter_by m vals) (filter_by m times) None).
  rewrite <- timed_rows_filter by auto.
  rewrite <- (kscan_sim ecell (fl * bool * Z) fl ecell0 (ema_timed_step decay) FNan
                (fun r => snd (fst (snd r))) Rel Rel_init) with (st := repeat ecell0 ng).
  - unfold filter_by.
    set (outs := kscan ecell0 (ema_timed_step decay) FNan (timed_rows gk vals times (Some m)) (repeat ecell0 ng)).
    assert (Hlen : length outs = length m).
    { unfold outs. rewrite kscan_length. unfold timed_rows, mk_rows, mask_list. rewrite map_length, !combine_length. lia. }
    clearbody outs. unfold timed_rows, mk_rows, mask_list.
    revert gk vals times outs Hg Hv Ht Hlen.
    induction m as [|b m IH]; intros [|k gk] [|v vals] [|t times] [|x outs] Hg Hv Ht Hl; simpl in *; try lia; auto.
    destruct b; simpl; [f_equal|]; apply IH; lia.
  - intros k [[x sel] t] E. simpl in E. subst sel. right. intros s s'. apply Rel_dropped.
  - intros k [[x sel] t] s s' E. simpl in E. subst sel. apply Rel_kept.
  - clear. induction ng; simpl; constructor; auto. apply Rel_init.
Qed.
End Timed.

(* a non-trivial decay satisfying the two hypotheses on ALL of Z: the exponential with halflife 1,
   decay k = (1/2)^k  (negative k: 2^|k|) *)
Definition decay_exp (k : Z) : Qc := Q2Qc ((1 # 2) ^ k).

Lemma Q2Qc_mult x y : Q2Qc (x * y) = (Q2Qc x * Q2Qc y)%Qc.
Proof.
  unfold Qcmult. apply Q2Qc_eq_iff. simpl this. now rewrite !Qred_correct.
Qed.

Lemma decay_exp_zero : decay_exp 0 = 1%Qc.
Proof. unfold decay_exp. apply Qc_is_canon. reflexivity. Qed.

Lemma decay_exp_add a b : decay_exp (a + b) = (decay_exp a * decay_exp b)%Qc.
Proof.
  unfold decay_exp. rewrite <- Q2Qc_mult. apply Q2Qc_eq_iff. apply Qpower_plus. discriminate.
Qed.
