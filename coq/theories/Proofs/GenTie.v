(* Tie B: the scalar reducers regenerated from /repo's Python source on this run
   (Gen/ScalarFuncsGen.v, Gen/ReductionOpsGen.v) are equal to the hand models the proofs are about.  The tables and statement
   lists are tied in their own files (Proofs/Tie*.v), so that a change is reported by the properties it concerns only.  The tactic is
   shape-insensitive: unfold, case-split every boolean, reflexivity / lia. *)
From Coq Require Import List ZArith Lia Bool String.
From GL Require Import Model.Dom Model.Scalar Gen.ScalarFuncsGen Gen.ReductionOpsGen.
Open Scope Z_scope.

Ltac split_ifs :=
  repeat match goal with
         | |- context [if ?b then _ else _] => destruct b eqn:?
         end.
Ltac tie := intros; cbv zeta; split_ifs; try reflexivity; try congruence;
            try (f_equal; lia); try (f_equal; f_equal; lia).

Section Tie.
Context {V : Type} (o : ops V).

Lemma tie_sum a b c : g_sum o a b c = r_sum o a b c.
Proof. unfold g_sum, r_sum; tie. Qed.
Lemma tie_nullsum a b c : g_nullsum o a b c = r_nullsum o a b c.
Proof. unfold g_nullsum, r_nullsum; tie. Qed.
Lemma tie_nansum a b c : g_nansum o a b c = r_nansum o a b c.
Proof. unfold g_nansum, r_nansum; tie. Qed.
Lemma tie_nansum_squares a b c : g_nansum_squares o a b c = r_nansum_squares o a b c.
Proof. unfold g_nansum_squares, r_nansum_squares; tie. Qed.
Lemma tie_max a b c : g_max o a b c = r_max o a b c.
Proof. unfold g_max, r_max; tie. Qed.
Lemma tie_nanmax a b c : g_nanmax o a b c = r_nanmax o a b c.
Proof. unfold g_nanmax, r_nanmax; tie. Qed.
Lemma tie_min a b c : g_min o a b c = r_min o a b c.
Proof. unfold g_min, r_min; tie. Qed.
Lemma tie_nanmin a b c : g_nanmin o a b c = r_nanmin o a b c.
Proof. unfold g_nanmin, r_nanmin; tie. Qed.
Lemma tie_nancount a b c : g_nancount o a b c = r_nancount o a b c.
Proof. unfold g_nancount, r_nancount; tie. Qed.
Lemma tie_count a b c : g_count o a b c = r_count o a b c.
Proof. unfold g_count, r_count; tie. Qed.
Lemma tie_first a b c : g_first o a b c = r_first o a b c.
Proof. unfold g_first, r_first; tie. Qed.
Lemma tie_last a b c : g_last o a b c = r_last o a b c.
Proof. unfold g_last, r_last; tie. Qed.

Lemma tie_op_count x (y : V) : b_count x y = op_count x y.
Proof. unfold b_count, op_count; tie. Qed.
Lemma tie_op_min x y : b_min o x y = op_min o x y.
Proof. unfold b_min, op_min; tie. Qed.
Lemma tie_op_max x y : b_max o x y = op_max o x y.
Proof. unfold b_max, op_max; tie. Qed.
Lemma tie_op_sum x y : b_sum o x y = op_sum o x y.
Proof. unfold b_sum, op_sum; tie. Qed.
Lemma tie_op_first (x y : V) : b_first x y = op_first x y.
Proof. unfold b_first, op_first; tie. Qed.
Lemma tie_op_first_skipna x y : b_first_skipna o x y = op_first_skipna o x y.
Proof. unfold b_first_skipna, op_first_skipna; tie. Qed.
Lemma tie_op_last (x y : V) : b_last x y = op_last x y.
Proof. unfold b_last, op_last; tie. Qed.
Lemma tie_op_last_skipna x y : b_last_skipna o x y = op_last_skipna o x y.
Proof. unfold b_last_skipna, op_last_skipna; tie. Qed.
Lemma tie_op_sum_square x y : b_sum_square o x y = op_sum_square o x y.
Proof. unfold b_sum_square, op_sum_square; tie. Qed.
End Tie.
