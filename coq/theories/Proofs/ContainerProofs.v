(* C12 — what does not depend on the container: selection-type results are elements of the
   input, and 64-bit integer sums are exact whenever the true sum is in range, whatever the
   intermediate partial sums did. *)
From Coq Require Import List ZArith Lia Bool Arith.
From GL Require Import Lib.Arr Model.Dom Model.Scalar Model.Reduce Spec.Defs
  Proofs.ReduceSeries Proofs.ReduceBlocks Proofs.ReduceSpec.
Import ListNotations.
Open Scope Z_scope.

Section Selection.
Context {V : Type} (o : ops V) (L : laws o).

Lemma hd_in_or_default (d : V) l : hd d l = d \/ In (hd d l) l.
Proof. destruct l; simpl; auto. Qed.
Lemma last_in_or_default (d : V) l : last l d = d \/ In (last l d) l.
Proof.
  induction l as [|x t IH]; simpl; auto. destruct t as [|y t']; [right; left; auto|].
  destruct IH as [E|Hin]; [left; exact E|right; right; exact Hin].
Qed.

(* min / max / first / last of a group: an element of the group's (non-null) input values, or null *)
Theorem selection_is_input_element r op ng rows g :
  kernel_op r = Some op -> (g < ng)%nat ->
  match op with
  | Min | Max | First | Last =>
      let v := get (null o) (fst (P o r ng rows)) g in
      v = null o \/ In v (nonnull o (group_vals g rows))
  | _ => True
  end.
Proof.
  intros Hop Hg. destruct (P_meets_definition o L r op ng rows g Hop Hg) as [Hv _].
  destruct op; simpl in *; auto.
  - destruct (nonnull o (group_vals g rows)) eqn:E; [left; exact Hv|right; rewrite <- E in *; apply Hv].
  - destruct (nonnull o (group_vals g rows)) eqn:E; [left; exact Hv|right; rewrite <- E in *; apply Hv].
  - rewrite Hv. apply hd_in_or_default.
  - rewrite Hv. apply last_in_or_default.
Qed.
End Selection.

(* ---- two's-complement 64-bit accumulation ---- *)
Definition wrap64 (z : Z) : Z := (z + 2 ^ 63) mod 2 ^ 64 - 2 ^ 63.

Lemma wrap64_in_range z : - 2 ^ 63 <= z < 2 ^ 63 -> wrap64 z = z.
Proof. intros H. unfold wrap64. rewrite Z.mod_small; lia. Qed.

Lemma wrap64_add_l a b : wrap64 (wrap64 a + b) = wrap64 (a + b).
Proof.
  unfold wrap64. f_equal.
  replace ((a + 2 ^ 63) mod 2 ^ 64 - 2 ^ 63 + b + 2 ^ 63) with ((a + 2 ^ 63) mod 2 ^ 64 + b) by lia.
  rewrite Zplus_mod_idemp_l. f_equal. lia.
Qed.

(* a sum accumulated in a wrapping int64 register *)
Definition wrapped_sum (l : list Z) : Z := fold_left (fun acc x => wrap64 (acc + x)) l 0.

Lemma wrapped_sum_from l : forall acc, fold_left (fun acc x => wrap64 (acc + x)) l (wrap64 acc) = wrap64 (fold_left Z.add l acc).
Proof.
  induction l as [|x t IH]; intros acc; simpl; auto.
  rewrite wrap64_add_l. apply IH.
Qed.

Theorem int_sum_no_wrap l :
  - 2 ^ 63 <= fold_left Z.add l 0 < 2 ^ 63 -> wrapped_sum l = fold_left Z.add l 0.
Proof.
  intros H. unfold wrapped_sum.
  replace 0 with (wrap64 0) at 1 by reflexivity.
  rewrite wrapped_sum_from. now apply wrap64_in_range.
Qed.
