(* Tie B: reduce_1d's dispatch table *)
From Coq Require Import List ZArith String.
From GL Require Import Model.Nanops Gen.TablesGen.

Lemma tie_nanops_dispatch : gen_nanops_dispatch = nanops_dispatch.
Proof. reflexivity. Qed.
