(* C04 - facts about the bit-exact float model of the grouped sums (Model/ReduceFloat.v) that hold for EVERY number of kernel
   threads, every mask and every float64 input (NaN, infinities, any magnitude):
   * np.array_split loses and duplicates no row;
   * the count returned for a group is the number of its kept rows the reducer does not skip - the same for every thread count;
   * a group without such rows comes out as 0.0 with count 0 whatever the other groups hold, for every thread count
     (no partial result of another piece, no NaN of a neighbour, leaks into it).
   The VALUES of non-empty groups do depend on the bracketing in floating point - that is what the model computes bit for bit and
   what Proofs/VarFloat.sum_error bounds; in exact arithmetic the bracketing is irrelevant (block-merge algebra of C04). *)
From Coq Require Import List ZArith Bool PrimFloat Arith Lia.
From GL Require Import Model.ReduceFloat.
Import ListNotations.
Open Scope nat_scope.

Section SplitFacts.
Context {A : Type}.

Lemma take_pieces_concat (sizes : list nat) : forall l : list A, list_sum sizes = length l -> concat (take_pieces l sizes) = l.
Proof.
  induction sizes as [|s t IH]; intros l H; cbn [take_pieces concat].
  - destruct l; [reflexivity|discriminate].
  - change (list_sum (s :: t)) with (s + list_sum t) in H. rewrite IH; [apply firstn_skipn|]. rewrite skipn_length. lia.
Qed.

Lemma list_sum_repeat x n : list_sum (repeat x n) = n * x.
Proof. induction n as [|n IH]; cbn [repeat]; [reflexivity|]. change (list_sum (x :: repeat x n)) with (x + list_sum (repeat x n)). lia. Qed.

Lemma split_sizes_sum n k : 0 < k -> list_sum (split_sizes n k) = n.
Proof.
  intros Hk. unfold split_sizes. rewrite list_sum_app, !list_sum_repeat.
  pose proof (Nat.div_mod n k ltac:(lia)) as Hd. pose proof (Nat.mod_upper_bound n k ltac:(lia)) as Hm.
  set (q := Nat.div n k) in *. set (r := Nat.modulo n k) in *. nia.
Qed.

Theorem array_split_concat (l : list A) k : 0 < k -> concat (array_split l k) = l.
Proof. intros Hk. unfold array_split. apply take_pieces_concat. now apply split_sizes_sum. Qed.

Lemma array_split_nonempty (l : list A) k : 0 < k -> array_split l k <> [].
Proof.
  intros Hk. unfold array_split, split_sizes.
  pose proof (Nat.mod_upper_bound (length l) k ltac:(lia)) as Hm.
  destruct (Nat.modulo (length l) k) as [|r] eqn:E; cbn [repeat app].
  - rewrite Nat.sub_0_r. destruct k as [|k]; [lia|]. cbn [repeat take_pieces]. discriminate.
  - cbn [take_pieces]. discriminate.
Qed.
End SplitFacts.

(* the rows of group g the reducer f takes *)
Definition taken (f : fred) (g : Z) (r : Z * float) : bool := (fst r =? g)%Z && negb (skips f && is_nan (snd r)).
Definition count_rows (f : fred) (g : Z) (rows : list (Z * float)) : nat := length (filter (taken f g) rows).

Lemma red_step_count f g s n r : snd (red_step f g (s, n) r) = n + (if taken f g r then 1 else 0).
Proof.
  destruct r as [k x]. unfold red_step, taken. cbn [fst snd].
  destruct (k =? g)%Z; cbn [negb andb snd]; [|lia].
  destruct (skips f && is_nan x); cbn [negb snd]; [lia|].
  destruct n; cbn [snd]; lia.
Qed.

Lemma fold_count f g rows : forall a, snd (fold_left (red_step f g) rows a) = snd a + count_rows f g rows.
Proof.
  induction rows as [|r t IH]; intros [s n]; cbn [fold_left]; [unfold count_rows; cbn; lia|].
  rewrite IH. destruct (red_step f g (s, n) r) as [s' n'] eqn:E.
  pose proof (red_step_count f g s n r) as H. rewrite E in H. cbn [snd] in *.
  unfold count_rows. cbn [filter]. destruct (taken f g r); cbn [length]; lia.
Qed.

Lemma piece_count f g piece : snd (piece_reduce f g piece) = count_rows f g piece.
Proof. unfold piece_reduce. rewrite fold_count. reflexivity. Qed.

(* a piece that took nothing leaves its accumulator at 0.0 *)
Lemma fold_untouched f g rows : forall a, count_rows f g rows = 0 -> fold_left (red_step f g) rows a = a.
Proof.
  induction rows as [|r t IH]; intros [s n] H; cbn [fold_left]; [reflexivity|].
  unfold count_rows in H. cbn [filter] in H. destruct (taken f g r) eqn:E; [discriminate|].
  assert (red_step f g (s, n) r = (s, n)) as ->.
  { destruct r as [k x]. unfold red_step, taken in *. cbn [fst snd] in E.
    destruct (k =? g)%Z; cbn [negb andb] in *; [|reflexivity]. destruct (skips f && is_nan x); [reflexivity|discriminate]. }
  apply IH. exact H.
Qed.

Lemma merge_step_count a y : snd (merge_step a y) = snd a + snd y.
Proof. destruct a as [s n], y as [t m]. unfold merge_step. destruct m; simpl; lia. Qed.

Lemma fold_merge_count rs : forall a, snd (fold_left merge_step rs a) = snd a + list_sum (map snd rs).
Proof.
  induction rs as [|r t IH]; intros a; cbn [fold_left map].
  - change (list_sum []) with 0. lia.
  - change (list_sum (snd r :: map snd t)) with (snd r + list_sum (map snd t)). rewrite IH, merge_step_count. lia.
Qed.

Lemma merge_count rs : snd (merge rs) = list_sum (map snd rs).
Proof.
  destruct rs as [|r t]; cbn [merge map]; [reflexivity|].
  change (list_sum (snd r :: map snd t)) with (snd r + list_sum (map snd t)). apply fold_merge_count.
Qed.

Lemma count_rows_app f g l1 l2 : count_rows f g (l1 ++ l2) = count_rows f g l1 + count_rows f g l2.
Proof. unfold count_rows. rewrite filter_app, app_length. reflexivity. Qed.

Lemma count_rows_concat f g pieces : count_rows f g (concat pieces) = list_sum (map (count_rows f g) pieces).
Proof.
  induction pieces as [|p t IH]; cbn [concat map]; [reflexivity|].
  change (list_sum (count_rows f g p :: map (count_rows f g) t)) with (count_rows f g p + list_sum (map (count_rows f g) t)).
  rewrite count_rows_app, IH. reflexivity.
Qed.

Theorem count_any_threads f keys vals mask nt g : 0 < nt ->
  snd (group_reduce_f f keys vals mask nt g) = count_rows f g (keep_rows keys vals mask).
Proof.
  intros Hnt. unfold group_reduce_f. rewrite merge_count, map_map.
  rewrite (map_ext _ (count_rows f g)) by (intros p; apply piece_count).
  rewrite <- count_rows_concat, array_split_concat by exact Hnt. reflexivity.
Qed.

Corollary count_thread_independent f keys vals mask nt nt' g : 0 < nt -> 0 < nt' ->
  snd (group_reduce_f f keys vals mask nt g) = snd (group_reduce_f f keys vals mask nt' g).
Proof. intros H H'. rewrite !count_any_threads by assumption. reflexivity. Qed.

(* merging results that are all (0.0, 0) gives (0.0, 0) *)
Lemma fold_merge_empty rs : Forall (fun r => r = (zero, 0)) rs -> fold_left merge_step rs (zero, 0) = (zero, 0).
Proof.
  induction rs as [|r t IH]; intros H; cbn [fold_left]; [reflexivity|].
  inversion H as [|? ? Hr Ht]; subst. cbn [merge_step]. apply IH. exact Ht.
Qed.

Theorem empty_group_any_threads f keys vals mask nt g : 0 < nt ->
  count_rows f g (keep_rows keys vals mask) = 0 -> group_reduce_f f keys vals mask nt g = (zero, 0).
Proof.
  intros Hnt H0. unfold group_reduce_f.
  set (pieces := array_split (keep_rows keys vals mask) nt).
  assert (Hall : Forall (fun r => r = (zero, 0)) (map (piece_reduce f g) pieces)).
  { apply Forall_forall. intros r Hr. apply in_map_iff in Hr. destruct Hr as [p [<- Hp]].
    unfold piece_reduce. apply fold_untouched.
    assert (Hsum : list_sum (map (count_rows f g) pieces) = 0).
    { rewrite <- count_rows_concat. unfold pieces. rewrite array_split_concat by exact Hnt. exact H0. }
    clear -Hp Hsum. induction pieces as [|q t IH]; [contradiction|]. cbn [map] in Hsum.
    change (list_sum (count_rows f g q :: map (count_rows f g) t)) with (count_rows f g q + list_sum (map (count_rows f g) t)) in Hsum.
    destruct Hp as [->|Hp]; [lia|]. apply IH; [exact Hp|lia]. }
  destruct (map (piece_reduce f g) pieces) as [|r t] eqn:E.
  - reflexivity.
  - cbn [merge]. inversion Hall as [|? ? Hr Ht]; subst. apply fold_merge_empty. exact Ht.
Qed.

(* one thread: the single pass *)
Theorem one_thread_is_the_single_pass f keys vals mask g :
  group_reduce_f f keys vals mask 1 g = piece_reduce f g (keep_rows keys vals mask).
Proof.
  unfold group_reduce_f, array_split, split_sizes. rewrite Nat.div_1_r, Nat.mod_1_r. cbn [repeat app Nat.sub take_pieces map merge fold_left].
  rewrite firstn_all. reflexivity.
Qed.

(* the single pass of group g reads the rows of group g only: values, NaNs and infinities of other groups never enter *)
Theorem single_pass_ignores_other_groups f g rows :
  piece_reduce f g rows = piece_reduce f g (filter (fun r => (fst r =? g)%Z) rows).
Proof.
  unfold piece_reduce. generalize (zero, 0) as a.
  induction rows as [|[k x] t IH]; intros a; cbn [fold_left filter fst]; [reflexivity|].
  destruct (k =? g)%Z eqn:E.
  - cbn [fold_left]. apply IH.
  - assert (red_step f g a (k, x) = a) as ->.
    { unfold red_step. destruct a as [s n]. rewrite E. reflexivity. }
    apply IH.
Qed.
