(* C08 — the cumulative kernel equals the index-based prefix-reduction specification
   (Spec/RowSpec.cum_spec) as whole arrays: every row, any number of interleaved groups, any mask,
   null keys included.  The bridge is [prefix_is_earlier]: "the selected positions of the group
   up to row i" (how the specification speaks) are "the selected rows of the group before row i,
   plus row i when selected" (how the scan sees them). *)
From Coq Require Import List ZArith Lia Bool Arith.
From GL Require Import Lib.Arr Lib.Keyed Model.Dom Model.Scalar Model.Cumulative Spec.Defs Spec.Exec
  Spec.RowSpec Proofs.ReduceSeries Proofs.CumProofs.
Import ListNotations.
Open Scope Z_scope.

Definition wf_mask (n : nat) (mask : option (list bool)) : Prop :=
  match mask with None => True | Some m => length m = n end.

Lemma mask_list_length n mask : wf_mask n mask -> length (mask_list n mask) = n.
Proof. destruct mask; simpl; intros H; auto. apply repeat_length. Qed.

Lemma get_mask_list n mask i : (i < n)%nat -> get false (mask_list n mask) i = sel_at mask i.
Proof. destruct mask; simpl; intros H; auto. apply get_repeat; auto. Qed.


Lemma filter_none {A} (P : A -> bool) l : (forall x, In x l -> P x = false) -> filter P l = [].
Proof. induction l as [|x t IH]; simpl; intros H; auto. rewrite (H x) by auto. apply IH. intros; apply H; auto. Qed.

Lemma filter_seq_le (P : nat -> bool) i n : (i < n)%nat ->
  filter (fun j => (j <=? i)%nat) (filter P (seq 0 n)) = filter P (seq 0 (S i)).
Proof.
  intros H. replace n with (S i + (n - S i))%nat by lia. rewrite seq_app, !filter_app.
  rewrite <- (app_nil_r (filter P (seq 0 (S i)))). f_equal.
  - assert (Hall : forall j, In j (filter P (seq 0 (S i))) -> (j <=? i)%nat = true).
    { intros j Hj. apply filter_In in Hj. destruct Hj as [Hj _]. apply in_seq in Hj. apply Nat.leb_le. lia. }
    revert Hall. generalize (filter P (seq 0 (S i))) as l. induction l as [|x t IH]; simpl; intros Hall; auto.
    rewrite (Hall x) by auto. f_equal. apply IH. intros; apply Hall; auto.
  - apply filter_none. intros j Hj. apply filter_In in Hj. destruct Hj as [Hj _]. apply in_seq in Hj.
    apply Nat.leb_gt. lia.
Qed.

Lemma firstn_S_nth {A} (l : list A) : forall i x, nth_error l i = Some x -> firstn (S i) l = firstn i l ++ [x].
Proof.
  induction l as [|y t IH]; intros [|i] x H; simpl in *; try discriminate.
  - congruence.
  - f_equal. apply IH; auto.
Qed.

Lemma nth_map_seq {A} (f : nat -> A) n i d : (i < n)%nat -> nth i (map f (seq 0 n)) d = f i.
Proof.
  intros H. rewrite (nth_indep _ d (f 0%nat)) by (now rewrite map_length, seq_length).
  rewrite map_nth, seq_nth by exact H. reflexivity.
Qed.

Section Bridge.
Context {V : Type} (o : ops V).

Variables (gk : list Z) (vals : list V) (mask : option (list bool)).
Hypothesis Hv : length vals = length gk.
Hypothesis Hm : wf_mask (length gk) mask.

Let rows := mk_rows gk vals mask.

Lemma rows_length : length rows = length gk.
Proof.
  unfold rows, mk_rows. rewrite !combine_length, mask_list_length by auto. lia.
Qed.

Lemma rows_get i : (i < length gk)%nat ->
  nth_error rows i = Some (get (-1) gk i, (get (null o) vals i, sel_at mask i)).
Proof.
  intros Hi. assert (Hl := rows_length).
  rewrite (nth_error_nth' rows (-1, (null o, false))) by lia. f_equal.
  change (nth i rows (-1, (null o, false))) with (get (-1, (null o, false)) rows i).
  unfold rows, mk_rows. rewrite get_combine by (rewrite combine_length, mask_list_length by auto; lia).
  rewrite get_combine by (rewrite mask_list_length by auto; lia).
  now rewrite get_mask_list.
Qed.

(* the selected values of group g among the first i rows, by positions *)
Lemma sel_vals_firstn g : forall i, (i <= length gk)%nat ->
  sel_vals (rows_of g (firstn i rows)) =
  map (get (null o) vals) (filter (fun j => (get (-1) gk j =? Z.of_nat g) && sel_at mask j) (seq 0 i)).
Proof.
  induction i as [|i IH]; intros Hi; [reflexivity|].
  assert (Hn := rows_get i ltac:(lia)).
  assert (Hf : firstn (S i) rows = firstn i rows ++ [(get (-1) gk i, (get (null o) vals i, sel_at mask i))]).
  { apply firstn_S_nth; exact Hn. }
  rewrite Hf, rows_of_app. unfold sel_vals in *. rewrite filter_app, map_app, IH by lia.
  rewrite seq_S, filter_app, map_app. f_equal. simpl.
  unfold rows_of. simpl. destruct (get (-1) gk i =? Z.of_nat g); simpl; auto.
  destruct (sel_at mask i); reflexivity.
Qed.

Theorem prefix_is_earlier i : (i < length gk)%nat -> 0 <= get (-1) gk i ->
  prefix_vals o gk vals mask i =
  earlier gk vals mask (get (-1) gk i) i ++ (if sel_at mask i then [get (null o) vals i] else []).
Proof.
  intros Hi Hk. unfold prefix_vals, earlier, positions_of. fold rows.
  rewrite filter_seq_le by auto. rewrite <- (sel_vals_firstn _ (S i)) by lia.
  assert (Hn := rows_get i Hi).
  assert (Hf : firstn (S i) rows = firstn i rows ++ [(get (-1) gk i, (get (null o) vals i, sel_at mask i))]).
  { apply firstn_S_nth; exact Hn. }
  rewrite Hf, rows_of_app. unfold sel_vals. rewrite filter_app, map_app. f_equal.
  unfold rows_of. simpl. rewrite Z2Nat.id, Z.eqb_refl by auto. simpl.
  destruct (sel_at mask i); reflexivity.
Qed.
End Bridge.

Section CumEq.
Context {V : Type} (o : ops V) (L : laws o).

Lemma nanmin_is_min_exec l : fst (series (r_nanmin o) l (null o, 0)) = min_exec o (nonnull o l).
Proof. rewrite (nanmin_series o) by lia. reflexivity. Qed.
Lemma nanmax_is_max_exec l : fst (series (r_nanmax o) l (null o, 0)) = max_exec o (nonnull o l).
Proof. rewrite (nanmax_series o) by lia. reflexivity. Qed.

Lemma nancount_fst l : forall a c, a = of_count o c ->
  fst (series (r_nancount o) l (a, c)) = of_count o (c + Z.of_nat (length (nonnull o l))).
Proof.
  induction l as [|x t IH]; intros a c Ha.
  - rewrite series_nil. change (nonnull o []) with (@nil V). simpl. rewrite Z.add_0_r. exact Ha.
  - rewrite series_cons. cbn [fst snd]. unfold r_nancount. destruct (is_null o x) eqn:E.
    + rewrite IH by reflexivity. now rewrite (nn_cons_null o) by auto.
    + cbv zeta. rewrite IH by reflexivity. rewrite (nn_cons_val o) by auto. f_equal. simpl length. lia.
Qed.

(* THE C08 statement, null skipping: the kernel's output array IS the per-group prefix reduction *)
Theorem cumulative_is_cum_spec temporal op gk vals ng mask :
  length vals = length gk -> wf_mask (length gk) mask ->
  (forall k, In k gk -> k < Z.of_nat ng) ->
  cumulative_t o temporal op true gk vals ng mask = cum_spec o op gk vals mask.
Proof.
  intros Hv Hm Hng. apply (list_ext (null o)).
  - unfold cumulative_t, cum_spec. rewrite kscan_length, map_length, seq_length. apply rows_length; auto.
  - intros i Hi. unfold cumulative_t in Hi. rewrite kscan_length, (rows_length gk vals mask Hv Hm) in Hi.
    unfold cum_spec. unfold get at 2.
    rewrite nth_map_seq by exact Hi.
    assert (Hn := rows_get o gk vals mask Hv Hm i Hi).
    destruct (get (-1) gk i <? 0) eqn:Ek.
    + apply Z.ltb_lt in Ek. unfold get at 1, cumulative_t.
      eapply kscan_nth_null; [exact Hn | exact Ek].
    + apply Z.ltb_ge in Ek.
      assert (Hlt : (Z.to_nat (get (-1)%Z gk i) < ng)%nat).
      { assert (In (get (-1) gk i) gk) by (apply nth_In; exact Hi). specialize (Hng _ H). lia. }
      unfold get at 1. rewrite (cumulative_row_t o temporal op true gk vals ng mask i _ _ _ Hn Ek Hlt).
      rewrite <- (prefix_is_earlier o gk vals mask Hv Hm i Hi Ek).
      destruct op; cbn [cum_reducer reducer_of cum_init].
      * now rewrite (nansum_spec o L).
      * apply nanmin_is_min_exec.
      * apply nanmax_is_max_exec.
      * rewrite nancount_fst by reflexivity. reflexivity.
Qed.

(* ---- skip_na = False on numeric columns: every selected value is added.  For floats a NaN makes the
   running sum NaN from there on (addition propagates it); plain integers hold no nulls. ---- *)
Hypothesis null_unique : forall x, is_null o x = true -> x = null o.
Hypothesis add_null : forall a b, is_null o a = true \/ is_null o b = true -> is_null o (add o a b) = true.

Lemma sum_plain_run l : forall a c, 0 < c -> fst (series (r_sum o) l (a, c)) = fold_left (add o) l a.
Proof.
  induction l as [|x t IH]; intros a c Hc; [reflexivity|].
  rewrite series_cons. cbn [fst snd fold_left]. unfold r_sum. rewrite (truthy_pos c Hc). apply IH. lia.
Qed.

Lemma sum_plain l : fst (series (r_sum o) l (zero o, 0)) = sum_list o l.
Proof.
  destruct l as [|x t]; [reflexivity|].
  rewrite series_cons. cbn [fst snd]. unfold r_sum. change (truthy 0) with false. cbv iota.
  rewrite sum_plain_run by lia. unfold sum_list. cbn [fold_left]. now rewrite (add_zero_l _ L).
Qed.

Lemma fold_add_null_acc l : forall a, is_null o a = true -> is_null o (fold_left (add o) l a) = true.
Proof. induction l as [|x t IH]; intros a Ha; simpl; auto. Qed.
Lemma fold_add_null_in l : forall a, existsb (is_null o) l = true -> is_null o (fold_left (add o) l a) = true.
Proof.
  induction l as [|x t IH]; intros a H; simpl in *; [discriminate|].
  destruct (is_null o x) eqn:E; simpl in H.
  - apply fold_add_null_acc. apply add_null. auto.
  - apply IH; auto.
Qed.

Lemma sum_noskip_spec l :
  fst (series (r_sum o) l (zero o, 0)) = if existsb (is_null o) l then null o else sum_list o l.
Proof.
  rewrite sum_plain. destruct (existsb (is_null o) l) eqn:E; auto.
  apply null_unique. unfold sum_list. now apply fold_add_null_in.
Qed.

Theorem cumsum_noskip_is_spec gk vals ng mask :
  length vals = length gk -> wf_mask (length gk) mask ->
  (forall k, In k gk -> k < Z.of_nat ng) ->
  cumulative o CSum false gk vals ng mask = cumsum_noskip_spec o gk vals mask.
Proof.
  intros Hv Hm Hng. apply (list_ext (null o)).
  - unfold cumulative, cumulative_t, cumsum_noskip_spec. rewrite kscan_length, map_length, seq_length. apply rows_length; auto.
  - intros i Hi. unfold cumulative, cumulative_t in Hi. rewrite kscan_length, (rows_length gk vals mask Hv Hm) in Hi.
    unfold cumsum_noskip_spec. unfold get at 2. rewrite nth_map_seq by exact Hi.
    assert (Hn := rows_get o gk vals mask Hv Hm i Hi).
    destruct (get (-1) gk i <? 0) eqn:Ek.
    + apply Z.ltb_lt in Ek. unfold get at 1, cumulative, cumulative_t.
      eapply kscan_nth_null; [exact Hn | exact Ek].
    + apply Z.ltb_ge in Ek.
      assert (Hlt : (Z.to_nat (get (-1)%Z gk i) < ng)%nat).
      { assert (In (get (-1) gk i) gk) by (apply nth_In; exact Hi). specialize (Hng _ H). lia. }
      unfold get at 1. rewrite (cumulative_row o CSum false gk vals ng mask i _ _ _ Hn Ek Hlt).
      rewrite <- (prefix_is_earlier o gk vals mask Hv Hm i Hi Ek).
      cbn [cum_reducer reducer_of cum_init]. apply sum_noskip_spec.
Qed.
(* ---- skip_na = False, min / max: the non-skipping reducers keep a null from where it is met - first position included,
   in-band integer sentinels (NaT) included - and agree with the skipping ones on null-free data. ---- *)
Lemma truthy_false_0 c : truthy c = false -> c = 0.
Proof. unfold truthy. destruct (c =? 0) eqn:E; [intros _; now apply Z.eqb_eq|discriminate]. Qed.

Lemma ext_noskip_clean (want_max : bool) l : forall a c, existsb (is_null o) l = false -> (c = 0 \/ is_null o a = false) ->
  series (if want_max then r_max o else r_min o) l (a, c) = series (if want_max then r_nanmax o else r_nanmin o) l (a, c).
Proof.
  destruct want_max;
  (induction l as [|x t IH]; intros a c Hl Ha; [reflexivity|];
   cbn [existsb] in Hl; apply orb_false_iff in Hl; destruct Hl as [Hx Ht];
   rewrite !series_cons; cbn [fst snd]; unfold r_max, r_nanmax, r_min, r_nanmin; rewrite Hx;
   destruct (truthy c) eqn:Et;
   [ destruct Ha as [-> | Ha]; [discriminate Et|]; rewrite Ha;
     match goal with |- context [if ?b then _ else _] => destruct b end; (apply IH; [exact Ht|right; assumption])
   | apply IH; [exact Ht|right; exact Hx] ]).
Qed.

Lemma ext_noskip_stuck (want_max : bool) l : forall a c, 0 < c -> is_null o a = true ->
  is_null o (fst (series (if want_max then r_max o else r_min o) l (a, c))) = true.
Proof.
  destruct want_max;
  (induction l as [|x t IH]; intros a c Hc Ha; [exact Ha|];
   rewrite series_cons; cbn [fst snd]; unfold r_max, r_min;
   destruct (is_null o x) eqn:Ex; [apply IH; [lia|exact Ex]|];
   rewrite (truthy_pos c Hc), Ha; apply IH; [lia|exact Ha]).
Qed.

Lemma ext_noskip_null (want_max : bool) l : forall a c, 0 <= c -> existsb (is_null o) l = true ->
  is_null o (fst (series (if want_max then r_max o else r_min o) l (a, c))) = true.
Proof.
  pose proof (ext_noskip_stuck want_max) as Hstuck.
  destruct want_max;
  (induction l as [|x t IH]; intros a c Hc Hl; [discriminate|];
   cbn [existsb] in Hl; rewrite series_cons; cbn [fst snd]; unfold r_max, r_min;
   destruct (is_null o x) eqn:Ex;
   [ apply Hstuck; [lia|exact Ex]
   | cbn [orb] in Hl; destruct (truthy c); [destruct (is_null o a)|];
     try match goal with |- context [if ?b then _ else _] => destruct b end; (apply IH; [lia|exact Hl]) ]).
Qed.

Lemma nonnull_clean l : existsb (is_null o) l = false -> nonnull o l = l.
Proof.
  induction l as [|x t IH]; intros H; [reflexivity|]. cbn [existsb] in H. apply orb_false_iff in H. destruct H as [Hx Ht].
  rewrite (nn_cons_val o) by exact Hx. now rewrite IH.
Qed.

Lemma ext_noskip_spec (want_max : bool) l :
  fst (series (if want_max then r_max o else r_min o) l (null o, 0))
  = if existsb (is_null o) l then null o else if want_max then max_exec o l else min_exec o l.
Proof.
  destruct (existsb (is_null o) l) eqn:E.
  - apply null_unique. apply ext_noskip_null; [lia|exact E].
  - rewrite (ext_noskip_clean want_max l (null o) 0 E (or_introl eq_refl)).
    destruct want_max; [rewrite nanmax_is_max_exec|rewrite nanmin_is_min_exec]; now rewrite nonnull_clean.
Qed.

Theorem cumext_noskip_is_spec temporal (want_max : bool) gk vals ng mask :
  length vals = length gk -> wf_mask (length gk) mask ->
  (forall k, In k gk -> k < Z.of_nat ng) ->
  cumulative_t o temporal (if want_max then CMax else CMin) false gk vals ng mask = cumext_noskip_spec o want_max gk vals mask.
Proof.
  intros Hv Hm Hng. apply (list_ext (null o)).
  - unfold cumulative_t, cumext_noskip_spec. rewrite kscan_length, map_length, seq_length. apply rows_length; auto.
  - intros i Hi. unfold cumulative_t in Hi. rewrite kscan_length, (rows_length gk vals mask Hv Hm) in Hi.
    unfold cumext_noskip_spec. unfold get at 2. rewrite nth_map_seq by exact Hi.
    assert (Hn := rows_get o gk vals mask Hv Hm i Hi).
    destruct (get (-1) gk i <? 0) eqn:Ek.
    + apply Z.ltb_lt in Ek. unfold get at 1, cumulative_t.
      destruct want_max; (eapply kscan_nth_null; [exact Hn | exact Ek]).
    + apply Z.ltb_ge in Ek.
      assert (Hlt : (Z.to_nat (get (-1)%Z gk i) < ng)%nat).
      { assert (In (get (-1) gk i) gk) by (apply nth_In; exact Hi). specialize (Hng _ H). lia. }
      unfold get at 1. rewrite (cumulative_row_t o temporal (if want_max then CMax else CMin) false gk vals ng mask i _ _ _ Hn Ek Hlt).
      rewrite <- (prefix_is_earlier o gk vals mask Hv Hm i Hi Ek).
      destruct want_max; cbn [cum_reducer reducer_of cum_init]; [apply (ext_noskip_spec true)|apply (ext_noskip_spec false)].
Qed.
End CumEq.
