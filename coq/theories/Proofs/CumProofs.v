(* C08 — the cumulative kernel on one group's series of selected rows: the cell after the rows l is
   the reducer folded over l, so the output at a row is the reduction of the group's values from
   its first selected row up to and including that row (per-group prefix reduction). *)
From Coq Require Import List ZArith Lia Bool Arith.
From GL Require Import Lib.Arr Lib.Keyed Model.Dom Model.Scalar Model.Cumulative Spec.Defs Proofs.ReduceSeries.
Import ListNotations.
Open Scope Z_scope.

Section Cum.
Context {V : Type} (o : ops V) (L : laws o).

Definition run_cum (rf : @reducer V) (init : V) (l : list V) : V * Z :=
  sfold (cum_step rf) (init, 0) (map (fun v => (v, true)) l).

Lemma run_cum_is_series rf init l : run_cum rf init l = series rf l (init, 0).
Proof.
  unfold run_cum, sfold, series. generalize (init, 0) as c.
  induction l as [|v l IH]; intros c; simpl; auto.
Qed.

(* output at the next selected row = value part of the reducer folded over the prefix including it *)
Theorem cum_output rf init l v :
  snd (cum_step rf (run_cum rf init l) (v, true)) = fst (series rf (l ++ [v]) (init, 0)).
Proof.
  rewrite run_cum_is_series, series_app. unfold cum_step, series. simpl. reflexivity.
Qed.

(* a masked (unselected) row passes the running value through and leaves the cell alone *)
Theorem cum_masked (rf : @reducer V) (c : V * Z) v : cum_step rf c (v, false) = (c, fst c).
Proof. reflexivity. Qed.

(* cumsum (null skipping): the sum of the non-null values of the prefix *)
Theorem cumsum_prefix l v :
  snd (cum_step (r_nansum o) (run_cum (r_nansum o) (zero o) l) (v, true)) = sum_list o (nonnull o (l ++ [v])).
Proof. rewrite cum_output, (nansum_spec o L). reflexivity. Qed.

(* cummin / cummax: an extreme of the non-null values of the prefix that occurs among them
   (null while there is none) *)
Theorem cummin_prefix l v :
  let out := snd (cum_step (r_nanmin o) (run_cum (r_nanmin o) (null o) l) (v, true)) in
  match nonnull o (l ++ [v]) with [] => out = null o | _ => is_min_of o out (nonnull o (l ++ [v])) end.
Proof.
  cbv zeta. rewrite cum_output. destruct (nanmin_spec o L (l ++ [v]) (null o)) as [_ H]. exact H.
Qed.
Theorem cummax_prefix l v :
  let out := snd (cum_step (r_nanmax o) (run_cum (r_nanmax o) (null o) l) (v, true)) in
  match nonnull o (l ++ [v]) with [] => out = null o | _ => is_max_of o out (nonnull o (l ++ [v])) end.
Proof.
  cbv zeta. rewrite cum_output. destruct (nanmax_spec o L (l ++ [v]) (null o)) as [_ H]. exact H.
Qed.

(* cumcount: the counter after the row is the number of rows of the group so far (the public
   cumcount subtracts one: the number of EARLIER rows) *)
Theorem cumcount_prefix l v init :
  snd (series (r_count o) (l ++ [v]) (init, 0)) = Z.of_nat (length l) + 1.
Proof. rewrite count_series, app_length. simpl. lia. Qed.

(* the last cumulative value of a group is its group reduction (same fold) *)
Theorem last_cumulative_is_reduction rf init l v :
  snd (cum_step rf (run_cum rf init l) (v, true)) = fst (series rf (l ++ [v]) (init, 0)).
Proof. apply cum_output. Qed.

(* ---- whole array: every row, any number of groups, any mask ---- *)
Definition sel_vals (rows : list (V * bool)) : list V := map fst (filter snd rows).

Lemma sfold_cum_is_series rf rows : forall c,
  sfold (cum_step rf) c rows = series rf (sel_vals rows) c.
Proof.
  unfold sfold, series, sel_vals. induction rows as [|[v b] rest IH]; intros c; simpl; auto.
  destruct b; simpl; apply IH.
Qed.

(* the earlier selected values of group k before row i *)
Definition earlier (gk : list Z) (vals : list V) (mask : option (list bool)) (k : Z) (i : nat) : list V :=
  sel_vals (rows_of (Z.to_nat k) (firstn i (mk_rows gk vals mask))).

Theorem cumulative_row_t temporal op skip_na gk vals ng mask i k v sel :
  nth_error (mk_rows gk vals mask) i = Some (k, (v, sel)) -> 0 <= k -> (Z.to_nat k < ng)%nat ->
  let rf := reducer_of o (cum_reducer temporal op skip_na) in
  nth i (cumulative_t o temporal op skip_na gk vals ng mask) (null o) =
    fst (series rf (earlier gk vals mask k i ++ (if sel then [v] else [])) (cum_init o op, 0)).
Proof.
  intros Hn Hk Hlt rf. unfold cumulative_t.
  rewrite (kscan_nth _ _ _ _ _ _ (null o) _ _ i k (v, sel) Hn Hk) by (rewrite repeat_length; exact Hlt).
  rewrite get_repeat by exact Hlt. rewrite sfold_cum_is_series. fold rf. unfold earlier.
  rewrite series_app. destruct sel; reflexivity.
Qed.

Theorem cumulative_row op skip_na gk vals ng mask i k v sel :
  nth_error (mk_rows gk vals mask) i = Some (k, (v, sel)) -> 0 <= k -> (Z.to_nat k < ng)%nat ->
  let rf := reducer_of o (cum_reducer false op skip_na) in
  nth i (cumulative o op skip_na gk vals ng mask) (null o) =
    fst (series rf (earlier gk vals mask k i ++ (if sel then [v] else [])) (cum_init o op, 0)).
Proof. exact (cumulative_row_t false op skip_na gk vals ng mask i k v sel). Qed.

Theorem cumsum_row gk vals ng mask i k v :
  nth_error (mk_rows gk vals mask) i = Some (k, (v, true)) -> 0 <= k -> (Z.to_nat k < ng)%nat ->
  nth i (cumulative o CSum true gk vals ng mask) (null o) =
    sum_list o (nonnull o (earlier gk vals mask k i ++ [v])).
Proof.
  intros Hn Hk Hlt. rewrite (cumulative_row CSum true gk vals ng mask i k v true Hn Hk Hlt).
  exact (f_equal fst (nansum_spec o L _)).
Qed.
End Cum.
