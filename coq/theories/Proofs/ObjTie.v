(* C13 / C19 — Tie B for the GroupBy object (regenerated from /repo's core.py on every run):
   the state machine of Model/GroupByObj.v has three kinds of steps — operations that leave the key
   representation alone, unify(keep_chunked=True) + fill of the key-count cache, unify(keep_chunked=False).
   That is adequate only if no other method assigns the object's attributes.  Checked by computation on
   the tables extracted by translator/py2coq.py:groupby_object_writes. *)
From Coq Require Import List String Bool.
From GL Require Import Gen.TablesGen.
Import ListNotations.
Open Scope string_scope.

(* the only methods that assign attributes of self: construction (with its two helpers) and chunk unification *)
Definition state_mutators : list string :=
  ["__init__"; "_factorize_group_key_in_chunks"; "_order_boolean_labels_by_first_appearance"; "_unify_group_key_chunks"].
(* what unification may assign: the codes and the pointer tables — never the labels *)
Definition unify_may_write : list string := ["_group_ikey"; "_group_key_pointers"].

Definition mem (x : string) (l : list string) : bool := existsb (String.eqb x) l.

Definition self_write_ok (mw : string * list string) : bool :=
  mem (fst mw) state_mutators &&
  (if String.eqb (fst mw) "_unify_group_key_chunks" then forallb (fun a => mem a unify_may_write) (snd mw) else true).

(* unify(keep_chunked=True) only from the cached group-sort indexer (model step OUnifyKeep: unify + key-count
   cache); every other call site is the plain unify (model step OUnify) *)
Definition unify_site_ok (s : string * list bool) : bool :=
  if String.eqb (fst s) "_group_sort_indexer" then forallb (fun b => b) (snd s) else forallb negb (snd s).

(* everything else that is remembered on the object is a cached_property: a function of the codes and labels *)
Definition cached_properties : list string :=
  ["_group_key_lengths"; "_chunk_offsets"; "_labels_argsort"; "ikey_count"; "key_count"; "_group_sort_indexer";
   "groups"; "has_null_keys"; "_group_first_sort_key"].

Lemma self_writes_ok : forallb self_write_ok gen_self_writes = true.
Proof. vm_compute. reflexivity. Qed.
Lemma unify_sites_ok : forallb unify_site_ok gen_unify_sites = true.
Proof. vm_compute. reflexivity. Qed.
Lemma unify_keep_site_exists : existsb (fun s => String.eqb (fst s) "_group_sort_indexer") gen_unify_sites = true.
Proof. vm_compute. reflexivity. Qed.
Lemma tie_cached_properties : gen_cached_properties = cached_properties.
Proof. reflexivity. Qed.
