(* Tie B: the closed-form ingredients of emas.py *)
From Coq Require Import List ZArith String.
From GL Require Import Model.Ema Gen.TablesGen.

Lemma tie_ema_formulas : gen_ema_formulas = ema_formulas.
Proof. reflexivity. Qed.
