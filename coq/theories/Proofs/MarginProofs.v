(* C14 — a margin ('All' row, cross-tab total) re-aggregates the per-group results of the groups
   it summarises.  In exact arithmetic that is the aggregation over the union of their rows:
   sums and counts add up, extremes are the extremes of the group extremes, and a mean margin is
   total sum / total count — not a mean of means. *)
From Coq Require Import List ZArith Lia Bool Arith.
From GL Require Import Lib.Arr Model.Dom Model.Scalar Spec.Defs Proofs.ReduceSeries Proofs.ReduceMerge Proofs.NanopsProofs.
Import ListNotations.
Open Scope Z_scope.

Section Margins.
Context {V : Type} (o : ops V) (L : laws o) (SC : sum_closed o).

(* sum margin over any list of groups *)
Theorem sum_margin (groups : list (list V)) :
  sum_list o (nonnull o (concat groups)) = fold_left (add o) (map (fun g => sum_list o (nonnull o g)) groups) (zero o).
Proof.
  assert (G : forall gs acc, fold_left (add o) (map (fun g => sum_list o (nonnull o g)) gs) acc
                             = add o acc (sum_list o (nonnull o (concat gs)))).
  { induction gs as [|g gs IH]; intros acc; simpl.
    - unfold sum_list, nonnull. simpl. now rewrite (add_zero_r o L).
    - rewrite IH. rewrite (nonnull_app o), (sum_list_app o L). now rewrite (add_assoc o L). }
  rewrite G. now rewrite (add_zero_l o L).
Qed.

(* count / size margins *)
Theorem count_margin (groups : list (list V)) :
  Z.of_nat (length (nonnull o (concat groups))) = fold_left Z.add (map (fun g => Z.of_nat (length (nonnull o g))) groups) 0.
Proof.
  assert (G : forall gs acc, fold_left Z.add (map (fun g => Z.of_nat (length (nonnull o g))) gs) acc
                             = acc + Z.of_nat (length (nonnull o (concat gs)))).
  { induction gs as [|g gs IH]; intros acc; simpl; [lia|].
    rewrite IH, (nonnull_app o), app_length. lia. }
  rewrite G. lia.
Qed.
Theorem size_margin (groups : list (list V)) :
  Z.of_nat (length (concat groups)) = fold_left Z.add (map (fun g : list V => Z.of_nat (length g)) groups) 0.
Proof.
  assert (G : forall (gs : list (list V)) acc, fold_left Z.add (map (fun g : list V => Z.of_nat (length g)) gs) acc = acc + Z.of_nat (length (concat gs))).
  { induction gs as [|g gs IH]; intros acc; simpl; [lia|]. rewrite IH, app_length. lia. }
  rewrite G. lia.
Qed.

(* extremes, first, last: the partial result of a union is the count-aware merge of the partial
   results — the group that has no non-null value does not take part *)
Theorem min_margin l1 l2 :
  series (r_nanmin o) (l1 ++ l2) (null o, 0)
  = merge_pair (r_nanmin o) (series (r_nanmin o) l1 (null o, 0)) (series (r_nanmin o) l2 (null o, 0)).
Proof. apply merges_nanmin; auto. Qed.
Theorem max_margin l1 l2 :
  series (r_nanmax o) (l1 ++ l2) (null o, 0)
  = merge_pair (r_nanmax o) (series (r_nanmax o) l1 (null o, 0)) (series (r_nanmax o) l2 (null o, 0)).
Proof. apply merges_nanmax; auto. Qed.
End Margins.
