(* C02 — several keys: _combine_factorizations (Model/Factorize.v) with the weights of factorize_2d is
   a faithful first-appearance factorization of the rows' code tuples.

   1. mixed radix: with weights = products of the later key cardinalities, _weight_code_sum is the
      mixed-radix number of the tuple: in [0, cartesian size) and injective on in-range tuples;
   2. the tracker array is a faithful image of "position of this tuple among the uniques so far"
      (refinement to [spec_combine], which looks the tuple up in the list of uniques);
   3. hence: the label at a row's code is the row's tuple, two rows share a code exactly when their
      tuples are equal, a row is null exactly when a component is null, labels are pairwise
      distinct and every label is the tuple of some row.  Any number of keys, rows, nulls. *)
From Coq Require Import List ZArith Lia Bool Arith.
From GL Require Import Lib.Arr Model.Factorize Proofs.FactorizeProofs.
Import ListNotations.
Open Scope Z_scope.

Lemma Forall2_len {A B} (P : A -> B -> Prop) l1 l2 : Forall2 P l1 l2 -> length l1 = length l2.
Proof. induction 1; simpl; auto. Qed.
Lemma Forall2_mono {A B} (P Q : A -> B -> Prop) l1 l2 : (forall a b, P a b -> Q a b) -> Forall2 P l1 l2 -> Forall2 Q l1 l2.
Proof. intros H. induction 1; constructor; auto. Qed.
Lemma NoDup_snoc {A} (l : list A) x : NoDup l -> ~ In x l -> NoDup (l ++ [x]).
Proof.
  intros Hn Hx. apply NoDup_rev in Hn. rewrite <- (rev_involutive (l ++ [x])). apply NoDup_rev.
  rewrite rev_app_distr. simpl. constructor; auto. now rewrite <- in_rev.
Qed.

Definition prod (l : list Z) : Z := fold_left Z.mul l 1.

Lemma fold_mul_acc l : forall a, fold_left Z.mul l a = a * prod l.
Proof.
  unfold prod. induction l as [|x t IH]; intros a; cbn [fold_left]; [lia|]. rewrite IH, (IH (1 * x)). lia.
Qed.
Lemma prod_cons s ss : prod (s :: ss) = s * prod ss.
Proof. unfold prod at 1. cbn [fold_left]. rewrite fold_mul_acc. lia. Qed.

(* the mixed-radix number of a tuple *)
Fixpoint enc (shape codes : list Z) : Z :=
  match shape, codes with
  | _ :: ss, c :: cs => c * prod ss + enc ss cs
  | _, _ => 0
  end.

Definition in_range (shape codes : list Z) : Prop := Forall2 (fun s c => 0 <= c < s) shape codes.
(* what the per-key factorizers deliver: -1 (null) or a code below the key's cardinality *)
Definition row_ok (shape codes : list Z) : Prop := Forall2 (fun s c => -1 <= c < s) shape codes.

Lemma enc_bound shape : forall codes, in_range shape codes -> 0 <= enc shape codes < prod shape.
Proof.
  induction shape as [|s ss IH]; intros codes H; inversion H; subst; simpl.
  - unfold prod; simpl; lia.
  - rewrite prod_cons. specialize (IH _ H4). nia.
Qed.

Lemma enc_inj shape : forall c1 c2, in_range shape c1 -> in_range shape c2 ->
  enc shape c1 = enc shape c2 -> c1 = c2.
Proof.
  induction shape as [|s ss IH]; intros c1 c2 H1 H2 E; inversion H1; subst; inversion H2; subst; auto.
  simpl in E. pose proof (enc_bound ss _ H5) as B1. pose proof (enc_bound ss _ H7) as B2.
  assert (y = y0) by nia. subst. f_equal. apply IH; auto. lia.
Qed.

Lemma row_ok_cases shape codes : row_ok shape codes -> In (-1) codes \/ in_range shape codes.
Proof.
  induction 1 as [|s c ss cs Hc H IH]; [right; constructor|].
  destruct (Z.eq_dec c (-1)) as [->|n]; [left; left; auto|].
  destruct IH as [IH|IH]; [left; right; auto|right; constructor; auto; lia].
Qed.

Lemma in_range_no_null shape codes : in_range shape codes -> ~ In (-1) codes.
Proof. induction 1 as [|s c ss cs Hc H IH]; simpl; [tauto|]. intros [E|E]; [lia|tauto]. Qed.

Lemma code_weights_length shape : length (code_weights shape) = length shape.
Proof. induction shape; simpl; auto. Qed.

(* _weight_code_sum on an in-range tuple is its mixed-radix number *)
Lemma wcs_enc shape : forall codes out, shape <> [] -> in_range shape codes ->
  exists r, wcs (combine (removelast codes) (removelast (code_weights shape))) out = Some r /\
            last codes 0 <> -1 /\ r + last codes 0 = out + enc shape codes.
Proof.
  induction shape as [|s ss IH]; intros codes out Hne H; [congruence|].
  inversion H as [|s0 c ss0 cs Hc Hrest]; subst.
  destruct ss as [|s2 ss].
  - inversion Hrest; subst. exists out. simpl. unfold prod; simpl. repeat split; lia.
  - inversion Hrest as [|s1 c2 ss1 cs2 Hc2 Hrest2]; subst.
    destruct (IH (c2 :: cs2) (out + c * prod (s2 :: ss)) ltac:(congruence) Hrest) as [r [Hr [Hl He]]].
    exists r.
    change (removelast (c :: c2 :: cs2)) with (c :: removelast (c2 :: cs2)).
    change (code_weights (s :: s2 :: ss)) with (fold_left Z.mul (s2 :: ss) 1 :: code_weights (s2 :: ss)).
    assert (Hcw : exists w ws, code_weights (s2 :: ss) = w :: ws) by (simpl; eauto).
    destruct Hcw as [w [ws Hcw]]. rewrite Hcw in *.
    change (removelast (fold_left Z.mul (s2 :: ss) 1 :: w :: ws)) with (fold_left Z.mul (s2 :: ss) 1 :: removelast (w :: ws)).
    cbn [combine wcs]. replace (c =? -1) with false by (symmetry; apply Z.eqb_neq; lia).
    change (fold_left Z.mul (s2 :: ss) 1) with (prod (s2 :: ss)).
    rewrite Hr. split; [reflexivity|]. change (last (c :: c2 :: cs2) 0) with (last (c2 :: cs2) 0).
    split; [exact Hl|]. cbn [enc]. cbn [enc] in He. lia.
Qed.

Theorem weight_code_sum_is_enc shape codes : shape <> [] -> in_range shape codes ->
  weight_code_sum codes (code_weights shape) = enc shape codes.
Proof.
  intros Hne H. unfold weight_code_sum. destruct (wcs_enc shape codes 0 Hne H) as [r [Hr [Hl He]]].
  rewrite Hr. apply Z.eqb_neq in Hl. rewrite Hl. lia.
Qed.

Lemma shape_nonneg shape codes : row_ok shape codes -> forall s, In s shape -> 0 <= s.
Proof. induction 1 as [|s c ss cs Hc H IH]; intros s' Hs; [destruct Hs|]. destruct Hs as [E|E]; subst; auto; lia. Qed.

Lemma prod_nonneg l : (forall s, In s l -> 0 <= s) -> 0 <= prod l.
Proof. induction l as [|x t IH]; intros H; [unfold prod; simpl; lia|]. rewrite prod_cons. apply Z.mul_nonneg_nonneg; [apply H; left; auto|apply IH; intros; apply H; right; auto]. Qed.

Lemma code_weights_nonneg shape : (forall s, In s shape -> 0 <= s) -> forall w, In w (code_weights shape) -> 0 <= w.
Proof.
  induction shape as [|s ss IH]; intros H w Hw; [destruct Hw|]. simpl in Hw. destruct Hw as [<-|Hw].
  - apply (prod_nonneg ss). intros; apply H; right; auto.
  - apply IH; auto. intros; apply H; right; auto.
Qed.

Theorem weight_code_sum_null_row shape codes : shape <> [] -> row_ok shape codes ->
  (weight_code_sum codes (code_weights shape) = -1 <-> In (-1) codes).
Proof.
  intros Hne H. pose proof (Forall2_len _ _ _ H) as Hl.
  apply weight_code_sum_null.
  - destruct codes; [destruct shape; simpl in *; congruence|congruence].
  - now rewrite code_weights_length.
  - intros c Hc. clear Hne Hl. induction H as [|s c0 ss cs Hc0 H IH]; [destruct Hc|]. destruct Hc as [<-|Hc]; [lia|auto].
  - apply code_weights_nonneg. apply (shape_nonneg shape codes H).
Qed.

(* ---- the specification: look the tuple up among the uniques so far ---- *)
Definition row_eq_dec : forall a b : list Z, {a = b} + {a <> b} := list_eq_dec Z.eq_dec.

Fixpoint index_of (r : list Z) (U : list (list Z)) : option nat :=
  match U with
  | [] => None
  | u :: t => if row_eq_dec r u then Some 0%nat else option_map S (index_of r t)
  end.

Lemma index_of_some r U : forall g, index_of r U = Some g -> nth_error U g = Some r.
Proof.
  induction U as [|u t IH]; intros g H; simpl in H; [discriminate|].
  destruct (row_eq_dec r u) as [->|n]; [inversion H; reflexivity|].
  destruct (index_of r t) as [g'|]; simpl in H; [|discriminate]. inversion H; subst. simpl. auto.
Qed.
Lemma index_of_none r U : index_of r U = None -> ~ In r U.
Proof.
  induction U as [|u t IH]; simpl; [tauto|]. destruct (row_eq_dec r u) as [->|n]; [discriminate|].
  destruct (index_of r t); simpl; [discriminate|]. intros _ [E|E]; [congruence|tauto].
Qed.

Definition is_null_row (row : list Z) : bool := existsb (Z.eqb (-1)) row.
Lemma is_null_row_spec row : is_null_row row = true <-> In (-1) row.
Proof.
  unfold is_null_row. rewrite existsb_exists. split.
  - intros [x [Hx E]]. apply Z.eqb_eq in E. subst. auto.
  - intros H. exists (-1). split; auto.
Qed.

Definition spec_step (st : list Z * list (list Z)) (row : list Z) : list Z * list (list Z) :=
  let '(C, U) := st in
  if is_null_row row then (C ++ [-1], U)
  else match index_of row U with
       | Some g => (C ++ [Z.of_nat g], U)
       | None => (C ++ [Z.of_nat (length U)], U ++ [row])
       end.
Definition spec_combine (rows : list (list Z)) : list Z * list (list Z) := fold_left spec_step rows ([], []).

(* ---- refinement: the tracker array implements the lookup ---- *)
Section Refine.
Variable shape : list Z.
Hypothesis Hne : shape <> [].
Let weights := code_weights shape.
Let cart := Z.to_nat (prod shape).

Definition R (st : cstate) (sp : list Z * list (list Z)) : Prop :=
  let U := snd sp in
  rev (combined_rev st) = fst sp /\ rev (uniques_rev st) = U /\ group_id st = Z.of_nat (length U) /\
  length (tracker st) = cart /\
  Forall (in_range shape) U /\
  (forall g u, nth_error U g = Some u -> get (-1) (tracker st) (Z.to_nat (enc shape u)) = Z.of_nat g) /\
  (forall k, (k < cart)%nat -> get (-1) (tracker st) k <> -1 ->
     exists g u, nth_error U g = Some u /\ get (-1) (tracker st) k = Z.of_nat g /\ Z.to_nat (enc shape u) = k).

Lemma R_step st sp row : row_ok shape row -> R st sp -> R (combine_step weights st row) (spec_step sp row).
Proof.
  intros Hrow [HC [HU [Hg [Hlen [Hrng [H3 H4]]]]]]. destruct sp as [C U]. cbn [fst snd] in *.
  unfold combine_step, spec_step. fold weights.
  pose proof (weight_code_sum_null_row shape row Hne Hrow) as Hnull.
  destruct (is_null_row row) eqn:En.
  - apply is_null_row_spec in En. apply Hnull in En. unfold weights. rewrite En, Z.eqb_refl.
    unfold R. cbn [combined_rev uniques_rev group_id tracker fst snd rev]. cbv zeta. cbn [combined_rev uniques_rev group_id tracker fst snd rev]. rewrite HC. repeat split; auto.
  - assert (Hnn : ~ In (-1) row) by (intros Hin; apply is_null_row_spec in Hin; congruence).
    destruct (row_ok_cases _ _ Hrow) as [Hin|Hir]; [tauto|].
    unfold weights. rewrite (weight_code_sum_is_enc shape row Hne Hir).
    pose proof (enc_bound shape row Hir) as Hb.
    replace (enc shape row =? -1) with false by (symmetry; apply Z.eqb_neq; lia).
    assert (Hk : (Z.to_nat (enc shape row) < cart)%nat) by (unfold cart; lia).
    destruct (get (-1) (tracker st) (Z.to_nat (enc shape row)) =? -1) eqn:Et.
    + (* unseen tuple: a new label *)
      apply Z.eqb_eq in Et.
      assert (Hidx : index_of row U = None).
      { destruct (index_of row U) as [g|] eqn:Ei; auto. apply index_of_some in Ei. rewrite (H3 _ _ Ei) in Et. lia. }
      rewrite Hidx. unfold R. cbn [combined_rev uniques_rev group_id tracker fst snd rev]. cbv zeta. cbn [combined_rev uniques_rev group_id tracker fst snd rev].
      rewrite HC, HU, Hg, app_length, upd_length. cbn [length].
      split; [reflexivity|]. split; [reflexivity|]. split; [lia|]. split; [exact Hlen|].
      split; [apply Forall_app; split; auto|].
      split.
      * intros g u Hgu. destruct (Nat.lt_ge_cases g (length U)) as [Hlt|Hge].
        -- rewrite nth_error_app1 in Hgu by auto.
           rewrite get_upd_neq; [apply H3; auto|].
           intros E. rewrite E in Et. rewrite (H3 _ _ Hgu) in Et. lia.
        -- rewrite nth_error_app2 in Hgu by auto. destruct (g - length U)%nat as [|m] eqn:Em; simpl in Hgu.
           ++ inversion Hgu; subst u. rewrite get_upd_eq by (rewrite Hlen; exact Hk). f_equal. lia.
           ++ destruct m; discriminate.
      * intros k Hkc Hkn. destruct (Nat.eq_dec k (Z.to_nat (enc shape row))) as [->|Hneq].
        -- exists (length U), row. rewrite nth_error_app2, Nat.sub_diag by lia. simpl.
           rewrite get_upd_eq by (rewrite Hlen; exact Hk). auto.
        -- rewrite get_upd_neq in * by auto. destruct (H4 k Hkc Hkn) as [g [u [Hgu [Hgk Hku]]]].
           exists g, u. split; [|auto]. rewrite nth_error_app1; auto. apply nth_error_Some. congruence.
    + (* tuple seen before: its label *)
      apply Z.eqb_neq in Et. destruct (H4 _ Hk Et) as [g [u [Hgu [Hgk Hku]]]].
      assert (Hu : in_range shape u) by (eapply Forall_forall; [exact Hrng|]; eapply nth_error_In; eauto).
      assert (u = row).
      { apply (enc_inj shape); auto. pose proof (enc_bound shape u Hu). lia. }
      subst u.
      destruct (index_of row U) as [g'|] eqn:Ei.
      * apply index_of_some in Ei. pose proof (H3 _ _ Ei) as Hg'. rewrite Hg'.
        unfold R. cbn [combined_rev uniques_rev group_id tracker fst snd rev]. cbv zeta. cbn [combined_rev uniques_rev group_id tracker fst snd rev]. rewrite HC. repeat split; auto.
      * apply index_of_none in Ei. exfalso. apply Ei. eapply nth_error_In; eauto.
Qed.

Lemma R_init : R {| tracker := repeat (-1) cart; group_id := 0; combined_rev := []; uniques_rev := [] |} ([], []).
Proof.
  unfold R. cbn [combined_rev uniques_rev group_id tracker fst snd rev length].
  repeat split; auto.
  - apply repeat_length.
  - intros g u H. destruct g; discriminate.
  - intros k Hk Hn. rewrite get_repeat in Hn by auto. congruence.
Qed.

Theorem combine_refines rows : Forall (row_ok shape) rows ->
  combine_factorizations rows weights cart = spec_combine rows.
Proof.
  intros Hrows. unfold combine_factorizations, spec_combine.
  assert (G : forall rows st sp, Forall (row_ok shape) rows -> R st sp ->
              R (fold_left (combine_step weights) rows st) (fold_left spec_step rows sp)).
  { clear rows Hrows. induction rows as [|r t IH]; intros st sp Hr HR; simpl; auto.
    inversion Hr; subst. apply IH; auto. apply R_step; auto. }
  destruct (G rows _ _ Hrows R_init) as [HC [HU _]].
  rewrite HC, HU. now destruct (fold_left spec_step rows ([], [])).
Qed.
End Refine.

(* ---- what the specification guarantees ---- *)
Definition code_ok (U : list (list Z)) (row : list Z) (c : Z) : Prop :=
  (In (-1) row /\ c = -1) \/ (~ In (-1) row /\ 0 <= c /\ nth_error U (Z.to_nat c) = Some row).

Lemma code_ok_extend U U' row c : code_ok U row c -> code_ok (U ++ U') row c.
Proof.
  intros [H|[H1 [H2 H3]]]; [left; auto|right]. repeat split; auto.
  rewrite nth_error_app1; auto. apply nth_error_Some. congruence.
Qed.

Lemma spec_invariant rows : forall C U P,
  Forall2 (code_ok U) P C -> NoDup U -> (forall u, In u U -> In u P /\ ~ In (-1) u) ->
  let r := fold_left spec_step rows (C, U) in
  Forall2 (code_ok (snd r)) (P ++ rows) (fst r) /\ NoDup (snd r) /\
  (forall u, In u (snd r) -> In u (P ++ rows) /\ ~ In (-1) u).
Proof.
  induction rows as [|row t IH]; intros C U P HF HN HI; cbv zeta.
  - simpl. rewrite app_nil_r. auto.
  - cbn [fold_left]. replace (P ++ row :: t) with ((P ++ [row]) ++ t) by (rewrite <- app_assoc; reflexivity).
    remember (spec_step (C, U) row) as st' eqn:Es. unfold spec_step in Es. destruct (is_null_row row) eqn:En.
    + subst st'. apply is_null_row_spec in En. apply IH; auto.
      * apply Forall2_app; auto. constructor; [left; auto|constructor].
      * intros u Hu. destruct (HI u Hu). split; auto. apply in_or_app; auto.
    + assert (Hnn : ~ In (-1) row) by (intros Hin; apply is_null_row_spec in Hin; congruence).
      destruct (index_of row U) as [g|] eqn:Ei.
      * subst st'. apply index_of_some in Ei. apply IH; auto.
        -- apply Forall2_app; auto. constructor; [|constructor]. right. repeat split; auto; [lia|]. now rewrite Nat2Z.id.
        -- intros u Hu. destruct (HI u Hu). split; auto. apply in_or_app; auto.
      * subst st'. apply index_of_none in Ei. apply IH.
        -- apply Forall2_app.
           ++ eapply Forall2_mono; [|exact HF]. intros a b Hab. now apply code_ok_extend.
           ++ constructor; [|constructor]. right. repeat split; auto; [lia|].
              rewrite Nat2Z.id, nth_error_app2, Nat.sub_diag by lia. reflexivity.
        -- apply NoDup_snoc; auto.
        -- intros u Hu. apply in_app_or in Hu. destruct Hu as [Hu|[<-|[]]].
           ++ destruct (HI u Hu). split; auto. apply in_or_app; auto.
           ++ split; auto. apply in_or_app; right; left; auto.
Qed.

(* ---- THE statement for several keys ---- *)
Theorem combine_faithful shape rows : shape <> [] -> Forall (row_ok shape) rows ->
  let r := combine_factorizations rows (code_weights shape) (Z.to_nat (prod shape)) in
  let codes := fst r in let labels := snd r in
  (* every row: null code iff a component is null, otherwise the label at its code is its tuple *)
  Forall2 (code_ok labels) rows codes /\
  (* labels pairwise distinct, each the (null-free) tuple of some row *)
  NoDup labels /\ (forall u, In u labels -> In u rows /\ ~ In (-1) u).
Proof.
  intros Hne Hrows. cbv zeta. rewrite (combine_refines shape Hne rows Hrows).
  exact (spec_invariant rows [] [] [] (Forall2_nil _) (NoDup_nil _) (fun u (H : In u []) => match H with end)).
Qed.

(* two rows share a code exactly when their tuples are equal (non-null rows) *)
Corollary same_code_iff_same_key labels rows codes i j ri rj ci cj :
  Forall2 (code_ok labels) rows codes -> NoDup labels ->
  nth_error rows i = Some ri -> nth_error rows j = Some rj ->
  nth_error codes i = Some ci -> nth_error codes j = Some cj ->
  ~ In (-1) ri -> ~ In (-1) rj ->
  (ci = cj <-> ri = rj).
Proof.
  intros HF HN Hri Hrj Hci Hcj Hni Hnj.
  assert (G : forall k r c, nth_error rows k = Some r -> nth_error codes k = Some c -> code_ok labels r c).
  { clear -HF. induction HF as [|a b l1 l2 Hab HF IH]; intros [|k] r c H1 H2; simpl in *; try discriminate.
    - inversion H1; inversion H2; subst; auto.
    - eapply IH; eauto. }
  destruct (G _ _ _ Hri Hci) as [[Hx _]|[_ [Hi0 Hi]]]; [tauto|].
  destruct (G _ _ _ Hrj Hcj) as [[Hx _]|[_ [Hj0 Hj]]]; [tauto|].
  split; intros E.
  - subst cj. congruence.
  - subst rj. assert (Z.to_nat ci = Z.to_nat cj); [|lia].
    eapply (proj1 (NoDup_nth_error labels) HN); [apply nth_error_Some; congruence|congruence].
Qed.

(* ---- sort=True: relabelling by a permutation of the labels keeps the factorization faithful ----
   factorize_2d(sort=True):  argsort = multi_index.argsort()
                             combined_codes = np.argsort(argsort)[combined_codes]   (null stays -1)
                             multi_index = multi_index[argsort]
   np.argsort(argsort)[g] is the position of g in argsort. *)
From Coq Require Import Sorting.Permutation.

Fixpoint pos_of (g : nat) (p : list nat) : nat :=
  match p with [] => 0%nat | x :: t => if Nat.eqb x g then 0%nat else S (pos_of g t) end.

Definition relabel (p : list nat) (labels : list (list Z)) (codes : list Z) : list Z * list (list Z) :=
  (map (fun c => if c <? 0 then -1 else Z.of_nat (pos_of (Z.to_nat c) p)) codes,
   map (fun j => nth j labels []) p).

Lemma pos_of_nth g p : In g p -> nth_error p (pos_of g p) = Some g.
Proof.
  induction p as [|x t IH]; intros H; [destruct H|]. simpl. destruct (Nat.eqb x g) eqn:E.
  - apply Nat.eqb_eq in E. now subst.
  - destruct H as [H|H]; [subst; rewrite Nat.eqb_refl in E; discriminate|]. simpl. auto.
Qed.

Lemma map_nth_seq {A} (d : A) (l : list A) : map (fun j => nth j l d) (seq 0 (length l)) = l.
Proof.
  induction l as [|x t IH] using rev_ind; [reflexivity|].
  rewrite app_length. simpl length. rewrite Nat.add_1_r, seq_S, map_app. simpl.
  rewrite app_nth2, Nat.sub_diag by lia. simpl. f_equal.
  transitivity (map (fun j => nth j t d) (seq 0 (length t))); [|exact IH].
  apply map_ext_in. intros j Hj. apply in_seq in Hj. now rewrite app_nth1 by lia.
Qed.

Theorem relabel_faithful p labels rows codes :
  Permutation p (seq 0 (length labels)) ->
  Forall2 (code_ok labels) rows codes -> NoDup labels ->
  let r := relabel p labels codes in
  Forall2 (code_ok (snd r)) rows (fst r) /\ NoDup (snd r) /\ Permutation (snd r) labels.
Proof.
  intros Hp HF HN. cbv zeta. unfold relabel. cbn [fst snd].
  assert (Hperm : Permutation (map (fun j => nth j labels []) p) labels).
  { pose proof (Permutation_map (fun j => nth j labels []) Hp) as H. now rewrite map_nth_seq in H. }
  split; [|split; auto].
  - induction HF as [|row c rows' codes' Hc HF IH]; simpl; constructor; auto.
    destruct Hc as [[Hn ->]|[Hn [H0 Hnth]]].
    + left. split; auto.
    + right. replace (c <? 0) with false by (symmetry; apply Z.ltb_ge; lia).
      split; auto. split; [lia|]. rewrite Nat2Z.id.
      assert (Hin : In (Z.to_nat c) p).
      { apply (Permutation_in _ (Permutation_sym Hp)). apply in_seq. split; [lia|]. simpl. apply nth_error_Some. congruence. }
      rewrite nth_error_map, (pos_of_nth _ _ Hin). simpl. f_equal. now apply nth_error_nth.
  - eapply Permutation_NoDup; [apply Permutation_sym; exact Hperm | exact HN].
Qed.

(* a row's combined code is the null code exactly when one of its component codes is null *)
Lemma code_ok_null_iff U row c : code_ok U row c -> (c = -1 <-> In (-1) row).
Proof. intros [[H ->]|[H [H0 _]]]; split; intros; auto; try lia; tauto. Qed.

Theorem multi_key_null_iff shape rows : shape <> [] -> Forall (row_ok shape) rows ->
  Forall2 (fun row c => c = -1 <-> In (-1) row) rows
          (fst (combine_factorizations rows (code_weights shape) (Z.to_nat (prod shape)))).
Proof.
  intros Hne Hr. destruct (combine_faithful shape rows Hne Hr) as [HF _]. cbv zeta in HF.
  eapply Forall2_mono; [|exact HF]. intros a b. apply code_ok_null_iff.
Qed.
