(* Tie B: nanops.nanmean / nanvar / nanstd *)
From Coq Require Import List ZArith String.
From GL Require Import Model.Moments Gen.TablesGen.

Lemma tie_nanops_moments : gen_nanops_moments = nanops_moments.
Proof. reflexivity. Qed.
