(* Tie B: rolling dispatch and the update statements of the running sum *)
From Coq Require Import List ZArith String.
From GL Require Import Model.Reduce Model.Rolling Gen.TablesGen.

Lemma tie_rolling_dispatch : gen_rolling_dispatch = rolling_dispatch.
Proof. reflexivity. Qed.
Lemma tie_rolling_sum_updates : gen_rolling_sum_updates = rolling_sum_updates.
Proof. reflexivity. Qed.
