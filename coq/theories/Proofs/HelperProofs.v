(* C20 — the boolean-frame labeller names exactly the true columns; the binning helper puts every
   value into the bin whose bounds contain it. *)
From Coq Require Import List ZArith Lia Bool Arith.
From GL Require Import Lib.Arr Model.Helpers Proofs.MonoProofs.
Import ListNotations.
Open Scope Z_scope.

(* ---- bits ---- *)
Fixpoint encode (bs : list bool) : Z :=
  match bs with [] => 0 | b :: t => Z.b2z b + 2 * encode t end.

Lemma fold_mask_shift bits : forall k acc,
  fold_left (fun acc cb => acc + Z.b2z (fst cb) * snd cb)
            (combine bits (map (fun i => 2 ^ Z.of_nat i) (seq k (length bits)))) acc
  = acc + 2 ^ Z.of_nat k * encode bits.
Proof.
  induction bits as [|b t IH]; intros k acc; cbn [length seq map combine fold_left fst snd encode]; [lia|].
  rewrite IH. rewrite Nat2Z.inj_succ, Z.pow_succ_r by lia. destruct b; cbn [Z.b2z]; lia.
Qed.

Theorem row_mask_is_encode bits : row_mask bits = encode bits.
Proof. unfold row_mask, bit_weights. rewrite fold_mask_shift. change (2 ^ Z.of_nat 0) with 1. lia. Qed.

Lemma encode_bounds bs : 0 <= encode bs < 2 ^ Z.of_nat (length bs).
Proof.
  induction bs as [|b t IH]; cbn [length encode]; [change (2 ^ Z.of_nat 0) with 1; lia|].
  rewrite Nat2Z.inj_succ, Z.pow_succ_r by lia. destruct b; cbn [Z.b2z]; lia.
Qed.

Lemma encode_testbit bs : forall i, Z.testbit (encode bs) (Z.of_nat i) = nth i bs false.
Proof.
  induction bs as [|b t IH]; intros i; cbn [encode].
  - rewrite Z.testbit_0_l. destruct i; reflexivity.
  - replace (Z.b2z b + 2 * encode t) with (2 * encode t + Z.b2z b) by lia.
    destruct i as [|i].
    + simpl Z.of_nat. rewrite Z.testbit_0_r. reflexivity.
    + rewrite Nat2Z.inj_succ, Z.testbit_succ_r by lia. cbn [nth]. apply IH.
Qed.

Lemma land_pow2_zero a n : 0 <= n -> (Z.land a (2 ^ n) =? 0) = negb (Z.testbit a n).
Proof.
  intros Hn. destruct (Z.testbit a n) eqn:E; simpl.
  - apply Z.eqb_neq. intros H.
    assert (Z.testbit (Z.land a (2 ^ n)) n = true) by (rewrite Z.land_spec, E, Z.pow2_bits_true; auto).
    rewrite H, Z.testbit_0_l in H0. discriminate.
  - apply Z.eqb_eq. apply Z.bits_inj'. intros m Hm. rewrite Z.land_spec, Z.testbit_0_l.
    destruct (Z.eq_dec n m) as [->|Hne]; [now rewrite E|].
    rewrite Z.pow2_bits_false by auto. apply andb_false_r.
Qed.

(* THE statement: the label of a row's mask names exactly its true columns *)
Theorem mask_labels_are_true_columns bits :
  mask_labels (length bits) (row_mask bits) = filter (fun i => nth i bits false) (seq 0 (length bits)).
Proof.
  unfold mask_labels. rewrite row_mask_is_encode. apply filter_ext. intros i.
  rewrite land_pow2_zero by lia. rewrite encode_testbit. now rewrite negb_involutive.
Qed.

(* equal masks <=> equal rows (np.unique on the masks groups exactly the equal rows) *)
Theorem encode_inj : forall b1 b2, length b1 = length b2 -> encode b1 = encode b2 -> b1 = b2.
Proof.
  induction b1 as [|x t IH]; intros [|y t2] Hl E; simpl in Hl; try lia; auto.
  cbn [encode] in E. assert (x = y /\ encode t = encode t2) as [-> E2] by (destruct x, y; cbn [Z.b2z] in E; split; try reflexivity; lia).
  f_equal. apply IH; auto.
Qed.

(* the mask fits the signed integer type chosen for it: no wrap-around *)
Theorem mask_fits bits w : min_bits (length bits) = Some w -> 0 <= row_mask bits < 2 ^ (w - 1).
Proof.
  intros Hw. rewrite row_mask_is_encode. pose proof (encode_bounds bits) as B.
  assert (Hlt : Z.of_nat (length bits) < w /\ 0 < w).
  { unfold min_bits in Hw. apply find_some in Hw. destruct Hw as [Hin H]. apply Z.ltb_lt in H. simpl in Hin. lia. }
  assert (2 ^ Z.of_nat (length bits) <= 2 ^ (w - 1)) by (apply Z.pow_le_mono_r; lia). lia.
Qed.

(* ---- bins ---- *)
Lemma filter_len_le {A} (P : A -> bool) l : (length (filter P l) <= length l)%nat.
Proof. induction l as [|x t IH]; simpl; auto. destruct (P x); simpl; lia. Qed.

Lemma count_below_sorted bins x : nondec bins ->
  forall i b, nth_error bins i = Some b ->
  ((Z.of_nat i < bin_code bins x) <-> b < x).
Proof.
  unfold bin_code. induction bins as [|a t IH]; intros Hs i b Hn; [destruct i; discriminate|].
  assert (Hst : nondec t) by (destruct t; [exact I|destruct Hs; auto]).
  assert (Hall : forall j c, nth_error t j = Some c -> a <= c).
  { clear IH Hn. revert a Hs. induction t as [|z t' IHt]; intros a Hs j c Hj; [destruct j; discriminate|].
    destruct Hs as [Haz Hs]. destruct j as [|j]; simpl in Hj; [inversion Hj; subst; auto|].
    assert (z <= c) by (eapply IHt; eauto; destruct t'; [exact I|destruct Hs; auto]). lia. }
  simpl filter. destruct (a <? x) eqn:E; [apply Z.ltb_lt in E | apply Z.ltb_ge in E].
  - simpl length. destruct i as [|i]; simpl in Hn.
    + inversion Hn; subst. lia.
    + rewrite Nat2Z.inj_succ. rewrite <- (IH Hst i b Hn). lia.
  - (* a >= x: nothing after it is below x either *)
    assert (Hnone : filter (fun b0 => b0 <? x) t = []).
    { assert (G : forall l, (forall c, In c l -> a <= c) -> filter (fun b0 => b0 <? x) l = []).
      { induction l as [|a0 l IHl]; simpl; intros H; auto.
        replace (a0 <? x) with false by (symmetry; apply Z.ltb_ge; specialize (H a0 (or_introl eq_refl)); lia).
        apply IHl. intros; apply H; right; auto. }
      apply G. intros c Hc. destruct (In_nth_error _ _ Hc) as [j Hj]. eapply Hall; eauto. }
    rewrite Hnone. simpl. destruct i as [|i]; simpl in Hn.
    + inversion Hn; subst. lia.
    + pose proof (Hall _ _ Hn). lia.
Qed.

(* THE statement: with c = searchsorted(sorted bins, x), exactly the bins before position c are below x:
   bins[c-1] < x <= bins[c]  (first bin: x <= bins[0]; last: x > bins[-1]) — the printed bounds
   "b(c-1) - b(c)" (integers: "b(c-1)+1 - b(c)") contain x *)
Theorem bin_contains bins x c : nondec bins -> c = Z.to_nat (bin_code bins x) ->
  (forall b, nth_error bins c = Some b -> x <= b) /\
  (forall b, (0 < c)%nat -> nth_error bins (c - 1) = Some b -> b < x) /\
  (c <= length bins)%nat.
Proof.
  intros Hs Hc.
  assert (Hcode : bin_code bins x = Z.of_nat c) by (unfold bin_code in *; lia).
  split; [|split].
  - intros b Hb. pose proof (count_below_sorted bins x Hs _ b Hb) as H. rewrite Hcode in H.
    destruct (Z.lt_ge_cases b x) as [Hlt|Hge]; auto. apply H in Hlt. lia.
  - intros b Hpos Hb. pose proof (count_below_sorted bins x Hs _ b Hb) as H. rewrite Hcode in H.
    apply H. lia.
  - unfold bin_code in Hcode. apply Nat2Z.inj in Hcode. rewrite <- Hcode. apply filter_len_le.
Qed.
