(* C03 / C07 / C13: keys factorized per chunk.  Running the kernel per key chunk on
   chunk-LOCAL codes and scattering the partial results through the pointer tables with
   the count-aware merge gives exactly the single pass over the whole input with GLOBAL
   (unified) codes — for every chunking, every per-chunk dictionary order, every reducer
   the kernels merge with. *)
From Coq Require Import List ZArith Lia Bool Arith.
From GL Require Import Lib.Arr Lib.Keyed Model.Dom Model.Scalar Model.Reduce Model.GroupByApi
  Spec.Defs Proofs.ReduceSeries Proofs.ReduceKernel Proofs.ReduceMerge Proofs.ReduceBlocks.
Import ListNotations.
Open Scope Z_scope.

(* updates at pairwise distinct positions: each cell is rewritten at most once, from its
   ORIGINAL content *)
Lemma fold_upd_distinct {S} (d : S) (idx : nat -> nat) (F : nat -> S -> S) (ls : list nat) : forall a g,
  NoDup (map idx ls) -> (forall l, In l ls -> (idx l < length a)%nat) -> (g < length a)%nat ->
  get d (fold_left (fun a l => upd a (idx l) (F l (get d a (idx l)))) ls a) g =
    match find (fun l => Nat.eqb (idx l) g) ls with
    | Some l => F l (get d a g)
    | None => get d a g
    end.
Proof.
  induction ls as [|l ls IH]; intros a g Hnd Hin Hg; simpl; auto.
  inversion Hnd as [|x xs Hnot Hnd']; subst.
  rewrite IH; auto.
  2:{ intros l' Hl'. rewrite upd_length. apply Hin. right; auto. }
  2:{ now rewrite upd_length. }
  destruct (Nat.eqb (idx l) g) eqn:E.
  - apply Nat.eqb_eq in E. subst g.
    destruct (find (fun l' => Nat.eqb (idx l') (idx l)) ls) eqn:Fd.
    + exfalso. apply find_some in Fd. destruct Fd as [Hi He]. apply Nat.eqb_eq in He.
      apply Hnot. rewrite <- He. now apply in_map.
    + apply get_upd_eq. apply Hin. left; auto.
  - apply Nat.eqb_neq in E.
    destruct (find (fun l' => Nat.eqb (idx l') g) ls) eqn:Fd.
    + f_equal. apply get_upd_neq. auto.
    + apply get_upd_neq. auto.
Qed.

Lemma fold_upd_length {S} (idx : nat -> nat) (G : list S -> nat -> S) (ls : list nat) : forall a,
  length (fold_left (fun a l => upd a (idx l) (G a l)) ls a) = length a.
Proof. induction ls as [|l ls IH]; intros a; simpl; auto. rewrite IH. apply upd_length. Qed.

Section CK.
Context {V : Type} (o : ops V) (L : laws o).
Notation dV := (null o).

(* the (value, count) cells of a single pass *)
Definition cells (r : rname) (ng : nat) (rows : list (Z * V)) : list (V * Z) :=
  combine (fst (P o r ng rows)) (snd (P o r ng rows)).

Lemma cells_length r ng rows : length (cells r ng rows) = ng.
Proof. unfold cells. destruct (P_lengths o r ng rows) as [H1 H2]. rewrite combine_length. lia. Qed.

Lemma cells_get r ng rows g : (g < ng)%nat ->
  get (dV, 0) (cells r ng rows) g = series (reducer_of o r) (rows_of g rows) (initial_value o r, 0).
Proof.
  intros Hg. unfold cells. destruct (P_lengths o r ng rows) as [H1 H2].
  rewrite get_combine by lia. apply P_group; auto.
Qed.

(* rows of a chunk with their codes unified *)
Definition unify_rows (p : list nat) (rows : list (Z * V)) : list (Z * V) :=
  map (fun kv => (unify_code p (fst kv), snd kv)) rows.

Definition local_ok (p : list nat) (rows : list (Z * V)) : Prop :=
  forall kv, In kv rows -> fst kv < Z.of_nat (length p).

(* with a duplicate-free pointer, the rows carrying global code p[l] are the rows carrying local code l *)
Lemma rows_of_unify p rows l : NoDup p -> local_ok p rows -> (l < length p)%nat ->
  rows_of (get 0%nat p l) (unify_rows p rows) = rows_of l rows.
Proof.
  intros Hnd Hok Hl. induction rows as [|[k v] rows IH]; auto.
  assert (Hok' : local_ok p rows) by (intros kv Hkv; apply Hok; right; auto).
  specialize (IH Hok'). unfold unify_rows in *. cbn [map fst snd].
  pose proof (Hok (k, v) (or_introl eq_refl)) as Hk. cbn [fst] in Hk.
  unfold unify_code at 1. destruct (k <? 0) eqn:Ek.
  - apply Z.ltb_lt in Ek. rewrite !rows_of_cons_neq; auto; cbn [fst]; lia.
  - apply Z.ltb_ge in Ek.
    destruct (Nat.eq_dec (Z.to_nat k) l) as [e|ne].
    + subst l. rewrite rows_of_cons_eq by (cbn [fst]; reflexivity).
      rewrite (@rows_of_cons_eq V (Z.to_nat k) (k, v)) by (cbn [fst]; lia).
      cbn [snd]. f_equal. exact IH.
    + rewrite !rows_of_cons_neq; auto; cbn [fst]; try lia.
      intros C. apply Nat2Z.inj in C. apply ne.
      (* p is injective on in-range positions *)
      assert (Hinj : forall a b, (a < length p)%nat -> (b < length p)%nat -> get 0%nat p a = get 0%nat p b -> a = b).
      { clear - Hnd. intros a b Ha Hb E. unfold get in E. eapply NoDup_nth in E; eauto. }
      apply Hinj; auto. lia.
Qed.

Lemma rows_of_nil_if {R} g (rows : list (Z * R)) :
  (forall row, In row rows -> fst row <> Z.of_nat g) -> rows_of g rows = [].
Proof.
  induction rows as [|r rest IH]; intros H; auto.
  rewrite rows_of_cons_neq by (apply H; left; auto). apply IH. intros row Hr. apply H. right; auto.
Qed.

Lemma rows_of_unify_absent p rows g : local_ok p rows -> ~ In g p -> rows_of g (unify_rows p rows) = [].
Proof.
  intros Hok Hnot. apply rows_of_nil_if. intros row Hr.
  unfold unify_rows in Hr. apply in_map_iff in Hr. destruct Hr as [[k v] [<- Hin]]. cbn [fst snd].
  unfold unify_code. destruct (k <? 0) eqn:Ek; [lia|]. apply Z.ltb_ge in Ek.
  intros C. apply Nat2Z.inj in C. apply Hnot. rewrite <- C.
  pose proof (Hok (k, v) Hin) as Hk. cbn [fst] in Hk. unfold get. apply nth_In. lia.
Qed.

Variables (r mr : rname).
Hypothesis Hm : merges (reducer_of o r) (reducer_of o mr) (initial_value o r).

Lemma scatter_cell_is_merge x y : scatter_cell (reducer_of o mr) x y = merge_pair (reducer_of o mr) x y.
Proof. reflexivity. Qed.

(* one chunk: scatter its local partials into the global cells *)
Theorem scatter_chunk_spec ng (done_rows : list (Z * V)) (p : list nat) (rows : list (Z * V)) :
  NoDup p -> (forall g, In g p -> (g < ng)%nat) -> local_ok p rows ->
  scatter_chunk o (reducer_of o mr) (cells r ng done_rows) p (cells r (length p) rows)
  = cells r ng (done_rows ++ unify_rows p rows).
Proof.
  intros Hnd Hrange Hok. apply (list_ext (dV, 0)).
  - unfold scatter_chunk. rewrite fold_upd_length. now rewrite !cells_length.
  - intros g Hg. unfold scatter_chunk in *. rewrite fold_upd_length, cells_length in Hg.
    rewrite (fold_upd_distinct (dV, 0) (fun l => get 0%nat p l)
               (fun l c => scatter_cell (reducer_of o mr) c (get (dV, 0) (cells r (length p) rows) l))).
    2:{ (* the pointer read at 0..len-1 is the pointer itself *)
        assert (E : map (fun l => get 0%nat p l) (seq 0 (length p)) = p).
        { clear. unfold get. induction p as [|a p IH]; simpl; auto. f_equal. rewrite <- seq_shift, map_map. exact IH. }
        now rewrite E. }
    2:{ intros l Hl. apply in_seq in Hl. rewrite cells_length. apply Hrange. unfold get. apply nth_In. lia. }
    2:{ now rewrite cells_length. }
    rewrite (cells_get r ng (done_rows ++ unify_rows p rows) g Hg). rewrite rows_of_app, Hm.
    rewrite (cells_get r ng done_rows g Hg).
    destruct (find (fun l => Nat.eqb (get 0%nat p l) g) (seq 0 (length p))) as [l|] eqn:Fd.
    + apply find_some in Fd. destruct Fd as [Hl He]. apply in_seq in Hl. apply Nat.eqb_eq in He.
      rewrite scatter_cell_is_merge. rewrite (cells_get r (length p) rows l) by lia.
      rewrite <- He. rewrite rows_of_unify by (auto; lia). reflexivity.
    + rewrite rows_of_unify_absent; auto.
      * rewrite series_nil. unfold merge_pair. cbn [fst snd]. change (0 =? 0) with true. cbv iota.
        rewrite Z.add_0_r. destruct (series (reducer_of o r) (rows_of g done_rows) (initial_value o r, 0)); reflexivity.
      * intros Hin. destruct (In_nth _ _ 0%nat Hin) as [l [Hl El]].
        eapply find_none in Fd; [|apply in_seq; split; [lia|simpl; exact Hl]].
        simpl in Fd. unfold get in Fd. rewrite El, Nat.eqb_refl in Fd. discriminate.
Qed.

Lemma chunk_cells_is_cells np rows : chunk_cells o r np rows = cells r np rows.
Proof. reflexivity. Qed.

(* all chunks, in chunk order *)
Definition across_chunks (ng : nat) (chunks : list (list nat * list (Z * V))) : list (V * Z) :=
  fold_left (fun acc ch => scatter_chunk o (reducer_of o mr) acc (fst ch) (cells r (length (fst ch)) (snd ch)))
            chunks (cells r ng []).

Definition chunk_ok (ng : nat) (ch : list nat * list (Z * V)) : Prop :=
  NoDup (fst ch) /\ (forall g, In g (fst ch) -> (g < ng)%nat) /\ local_ok (fst ch) (snd ch).

Lemma across_chunks_from ng chunks : forall done_rows,
  (forall ch, In ch chunks -> chunk_ok ng ch) ->
  fold_left (fun acc ch => scatter_chunk o (reducer_of o mr) acc (fst ch) (cells r (length (fst ch)) (snd ch)))
            chunks (cells r ng done_rows)
  = cells r ng (done_rows ++ concat (map (fun ch => unify_rows (fst ch) (snd ch)) chunks)).
Proof.
  induction chunks as [|ch chunks IH]; intros done_rows Hok.
  - simpl. now rewrite app_nil_r.
  - cbn [fold_left map concat].
    destruct (Hok ch (or_introl eq_refl)) as [H1 [H2 H3]].
    rewrite scatter_chunk_spec by auto.
    rewrite IH by (intros c Hc; apply Hok; right; auto).
    now rewrite app_assoc.
Qed.

Lemma apply_across_chunks_is_across ng chunks : apply_across_chunks o r mr ng chunks = across_chunks ng chunks.
Proof. reflexivity. Qed.

Theorem across_chunks_is_single_pass ng chunks :
  (forall ch, In ch chunks -> chunk_ok ng ch) ->
  across_chunks ng chunks = cells r ng (concat (map (fun ch => unify_rows (fst ch) (snd ch)) chunks)).
Proof. intros Hok. unfold across_chunks. now rewrite across_chunks_from. Qed.
End CK.

(* ---- the reducers core.py merges chunk partials with: nansum for sums / counts / squares,
        the nan-version where it exists, otherwise the reducer itself ---- *)
Section CoreMerges.
Context {V : Type} (o : ops V) (L : laws o).

Inductive api_value_reducer : rname -> Prop :=
  | av_nansum : api_value_reducer Rnansum
  | av_nansum_squares : api_value_reducer Rnansum_squares
  | av_nanmin : api_value_reducer Rnanmin
  | av_nanmax : api_value_reducer Rnanmax
  | av_first : api_value_reducer Rfirst
  | av_last : api_value_reducer Rlast.

Lemma core_merges r : api_value_reducer r ->
  merges (reducer_of o r) (reducer_of o (core_merge r)) (initial_value o r).
Proof.
  intros []; unfold core_merge, initial_value; simpl.
  - apply merges_nansum; auto.
  - apply merges_nansum_squares; auto.
  - apply merges_nanmin; auto.
  - apply merges_nanmax; auto.
  - apply merges_first; auto.
  - apply merges_last; auto.
Qed.

(* the statement for the public reductions *)
Theorem chunked_keys_equal_whole_keys r ng chunks : api_value_reducer r ->
  (forall ch, In ch chunks -> chunk_ok ng ch) ->
  across_chunks o r (core_merge r) ng chunks
  = cells o r ng (concat (map (fun ch => unify_rows (fst ch) (snd ch)) chunks)).
Proof. intros Hr Hok. apply across_chunks_is_single_pass; auto. apply core_merges; auto. Qed.
End CoreMerges.

(* the same statement about the executable model of Model/GroupByApi.v *)
Theorem chunked_model_equal_whole {V} (o : ops V) (L : laws o) r ng chunks :
  api_value_reducer r -> (forall ch, In ch chunks -> chunk_ok ng ch) ->
  apply_across_chunks o r (core_merge r) ng chunks
  = chunk_cells o r ng (concat (map (fun ch => unify_rows (fst ch) (snd ch)) chunks)).
Proof. intros Hr Hok. exact (chunked_keys_equal_whole_keys o L r ng chunks Hr Hok). Qed.

(* ---- transform on chunk-factorized keys: unify the codes, then gather ---- *)
Lemma unify_code_nonneg p k : 0 <= k -> unify_code p k = Z.of_nat (get 0%nat p (Z.to_nat k)).
Proof. intros H. unfold unify_code. destruct (k <? 0) eqn:E; [apply Z.ltb_lt in E; lia|reflexivity]. Qed.
Lemma unify_code_null p k : k < 0 -> unify_code p k = -1.
Proof. intros H. unfold unify_code. destruct (k <? 0) eqn:E; [reflexivity|apply Z.ltb_ge in E; lia]. Qed.

(* a row of a key chunk receives the cell of its GLOBAL group: the pointer image of its local
   code; a row with a null key reads the trailing cell *)
Theorem transform_through_pointer {V} (o : ops V) (result : list V) p codes i :
  (i < length codes)%nat ->
  get (null o) (transform_gather o result (unify_codes p codes)) i =
    (if get (-1) codes i <? 0
     then get (null o) result (Z.to_nat (-1 + Z.of_nat (length result)))
     else get (null o) result (get 0%nat p (Z.to_nat (get (-1) codes i)))).
Proof.
  intros Hi. unfold transform_gather, unify_codes.
  assert (Hm : forall {A B} (f : A -> B) (da : A) (db : B) (l : list A) j, (j < length l)%nat -> get db (map f l) j = f (get da l j)).
  { intros A B f da db l. unfold get. induction l as [|h t IH]; intros [|j] Hj; simpl in *; try lia; auto. apply IH; lia. }
  rewrite (Hm _ _ _ (-1) (null o)) by (rewrite map_length; auto).
  rewrite (Hm _ _ _ (-1) (-1)) by auto.
  destruct (get (-1) codes i <? 0) eqn:E.
  - apply Z.ltb_lt in E. rewrite unify_code_null by auto. reflexivity.
  - apply Z.ltb_ge in E. rewrite unify_code_nonneg by auto.
    destruct (Z.of_nat (get 0%nat p (Z.to_nat (get (-1) codes i))) <? 0) eqn:E2; [apply Z.ltb_lt in E2; lia|].
    now rewrite Nat2Z.id.
Qed.
