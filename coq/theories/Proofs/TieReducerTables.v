(* Tie B: no reducer appeared or disappeared, and every wrapper passes the reducer the model says *)
From Coq Require Import List ZArith String.
From GL Require Import Model.Scalar Gen.ScalarFuncsGen Gen.TablesGen.

Lemma tie_scalar_func_names : gen_scalar_func_names = scalar_func_names.
Proof. reflexivity. Qed.
Lemma tie_kernel_reducers : gen_kernel_reducers = kernel_reducers.
Proof. reflexivity. Qed.
Lemma tie_direct_reducers : gen_direct_reducers = direct_reducers.
Proof. reflexivity. Qed.
