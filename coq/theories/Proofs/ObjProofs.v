(* C13 — history independence of the GroupBy state machine (Model/GroupByObj.v):
   the logical codes [abs] are invariant under every operation, every cached value is a
   function of [abs], and a reduction on any representation equals the single pass over
   (abs, values). *)
From Coq Require Import List ZArith Lia Bool Arith.
From GL Require Import Lib.Arr Lib.Keyed Model.Dom Model.Scalar Model.Reduce Model.GroupByApi Model.GroupByObj
  Proofs.ReduceMerge Proofs.ReduceBlocks Proofs.ReduceWrap Proofs.ChunkedKeys.
Import ListNotations.
Open Scope Z_scope.

Lemma concat_map_id {A} (l : list (list A)) : concat (map (fun x => x) l) = concat l.
Proof. now rewrite map_id. Qed.

Theorem abs_unify b k : abs (unify b k) = abs k.
Proof.
  destruct k as [c|chs|chs]; simpl; auto; destruct b; simpl; auto.
Qed.

Theorem abs_step ng s o : abs (rep (step ng s o)) = abs (rep s).
Proof. destruct o; simpl; auto; apply abs_unify. Qed.

Theorem abs_history ng ops : forall s, abs (rep (fold_left (step ng) ops s)) = abs (rep s).
Proof.
  induction ops as [|o ops IH]; intros s; simpl; auto. rewrite IH. apply abs_step.
Qed.

(* the cache, once filled, holds the key counts of the logical codes — whenever it was filled *)
Definition cache_ok (ng : nat) (s : gbstate) : Prop :=
  match cached_count s with Some c => c = key_counts ng (abs (rep s)) | None => True end.

Theorem cache_ok_step ng s o : cache_ok ng s -> cache_ok ng (step ng s o).
Proof.
  unfold cache_ok. destruct o; simpl; auto.
  - destruct (cached_count s) as [c|]; intros H; rewrite abs_unify; auto.
  - rewrite abs_unify. auto.
Qed.

Theorem cache_ok_history ng ops : forall s, cache_ok ng s -> cache_ok ng (fold_left (step ng) ops s).
Proof.
  induction ops as [|o ops IH]; intros s H; simpl; auto. apply IH. now apply cache_ok_step.
Qed.

(* ---- reductions on any representation ---- *)
Section Red.
Context {V : Type} (o : ops V) (L : laws o).

Lemma unify_rows_combine p (codes : list Z) (vc : list V) :
  unify_rows p (combine codes vc) = combine (unify_codes p codes) vc.
Proof.
  unfold unify_rows, unify_codes. revert vc. induction codes as [|k codes IH]; intros [|v vc]; simpl; auto.
  f_equal. apply IH.
Qed.

Lemma unify_codes_length p codes : length (unify_codes p codes) = length codes.
Proof. unfold unify_codes. apply map_length. Qed.

(* well-formed chunked representation: duplicate-free pointers into [0, ng), local codes in range,
   value pieces as long as their key chunk *)
Definition local_wf (ng : nat) (chs : list (list nat * list Z)) (vchunks : list (list V)) : Prop :=
  Forall2 (fun ch vc => NoDup (fst ch) /\ (forall g, In g (fst ch) -> (g < ng)%nat) /\
                        (forall k, In k (snd ch) -> k < Z.of_nat (length (fst ch))) /\
                        length (snd ch) = length vc) chs vchunks.

Lemma local_rows chs vchunks ng : local_wf ng chs vchunks ->
  concat (map (fun ch => unify_rows (fst ch) (snd ch)) (map2 (fun ch vc => (fst ch, combine (snd ch) vc)) chs vchunks))
  = combine (concat (map (fun ch => unify_codes (fst ch) (snd ch)) chs)) (concat vchunks).
Proof.
  induction 1 as [|ch vc chs vchunks [_ [_ [_ Hl]]] _ IH]; simpl; auto.
  rewrite IH, unify_rows_combine. rewrite combine_app_len; auto. now rewrite unify_codes_length.
Qed.

Lemma local_chunks_ok chs vchunks ng : local_wf ng chs vchunks ->
  forall ch', In ch' (map2 (fun ch vc => (fst ch, combine (snd ch) vc)) chs vchunks) -> chunk_ok ng ch'.
Proof.
  induction 1 as [|ch vc chs vchunks [Hnd [Hr [Hk Hl]]] _ IH]; simpl; [tauto|].
  intros ch' [E|Hin]; [|auto]. subst ch'. repeat split; simpl; auto.
  intros [k v] Hkv. apply in_combine_l in Hkv. simpl. auto.
Qed.

Theorem reduce_on_local r ng chs vchunks : api_value_reducer r -> local_wf ng chs vchunks ->
  reduce_on o r ng (ChunkedLocal chs) vchunks
  = chunk_cells o r ng (combine (abs (ChunkedLocal chs)) (concat vchunks)).
Proof.
  intros Hr Hwf. unfold reduce_on. simpl abs.
  rewrite (chunked_model_equal_whole o L r ng _ Hr (local_chunks_ok chs vchunks ng Hwf)).
  now rewrite (local_rows chs vchunks ng Hwf).
Qed.

(* codes that are already global: the identity pointer changes nothing *)
Lemma unify_codes_identity ng codes :
  (forall k, In k codes -> k = -1 \/ 0 <= k < Z.of_nat ng) -> unify_codes (seq 0 ng) codes = codes.
Proof.
  intros H. unfold unify_codes. rewrite <- (map_id codes) at 2. apply map_ext_in. intros k Hk.
  unfold unify_code. destruct (H k Hk) as [E|[H0 H1]].
  - subst. reflexivity.
  - destruct (k <? 0) eqn:E; [apply Z.ltb_lt in E; lia|].
    unfold get. rewrite seq_nth by lia. simpl. lia.
Qed.

Definition global_wf (ng : nat) (chs : list (list Z)) (vchunks : list (list V)) : Prop :=
  Forall2 (fun c vc => (forall k, In k c -> k = -1 \/ 0 <= k < Z.of_nat ng) /\ length c = length vc) chs vchunks.

Lemma global_as_local ng chs vchunks : global_wf ng chs vchunks ->
  local_wf ng (map (fun c => (seq 0 ng, c)) chs) vchunks /\
  map2 (fun c vc => (seq 0 ng, combine c vc)) chs vchunks
  = map2 (fun ch vc => (fst ch, combine (snd ch) vc)) (map (fun c => (seq 0 ng, c)) chs) vchunks /\
  concat (map (fun ch => unify_codes (fst ch) (snd ch)) (map (fun c => (seq 0 ng, c)) chs)) = concat chs.
Proof.
  induction 1 as [|c vc chs vchunks [Hk Hl] _ [IH1 [IH2 IH3]]]; simpl.
  - repeat split; constructor.
  - repeat split.
    + constructor; auto. simpl. repeat split; auto.
      * apply seq_NoDup.
      * intros g Hg. apply in_seq in Hg. lia.
      * intros k Hin. rewrite seq_length. destruct (Hk k Hin); lia.
    + now rewrite IH2.
    + rewrite IH3. now rewrite unify_codes_identity.
Qed.

Theorem reduce_on_global r ng chs vchunks : api_value_reducer r -> global_wf ng chs vchunks ->
  reduce_on o r ng (ChunkedGlobal chs) vchunks
  = chunk_cells o r ng (combine (abs (ChunkedGlobal chs)) (concat vchunks)).
Proof.
  intros Hr Hwf. destruct (global_as_local ng chs vchunks Hwf) as [Hl [E1 E2]].
  unfold reduce_on. rewrite E1.
  pose proof (reduce_on_local r ng _ vchunks Hr Hl) as R. unfold reduce_on in R. rewrite R.
  simpl abs. now rewrite E2.
Qed.

Theorem reduce_on_contig r ng c vchunks :
  reduce_on o r ng (Contig c) vchunks = chunk_cells o r ng (combine (abs (Contig c)) (concat vchunks)).
Proof. reflexivity. Qed.
End Red.
