(* C08 / C06 - groups are independent in IEEE arithmetic: for every float64 input, mask, operation (sum / min / max) and both
   settings of skip_na, the outputs the bit-exact model of the cumulative kernel (Model/CumFloat.v) writes at the rows of group g
   are, bit for bit, the outputs of the same kernel run on the rows of group g alone. *)
From Coq Require Import List ZArith Bool PrimFloat Arith Lia.
From GL Require Import Model.CumFloat Proofs.EmaFloatProofs.
Import ListNotations.
Open Scope nat_scope.

(* the kernel's loop, head first *)
Fixpoint cum_go (o : cop) (sk : bool) (st : gstate) (rows : list (Z * float * bool)) : list float :=
  match rows with
  | [] => []
  | r :: t => snd (cum_step o sk (st, []) r) ++ cum_go o sk (fst (cum_step o sk (st, []) r)) t
  end.

Lemma cum_step_out o sk st out r :
  cum_step o sk (st, out) r = (fst (cum_step o sk (st, []) r), out ++ snd (cum_step o sk (st, []) r)).
Proof.
  destruct r as [[k x] m]. unfold cum_step. destruct (k <? 0)%Z; [reflexivity|].
  destruct (st k) as [[last cnt] seen]. destruct (negb m); [reflexivity|].
  destruct (scalar o sk (if seen then last else init o) x cnt). reflexivity.
Qed.

Lemma fold_is_go o sk rows : forall st out, snd (fold_left (cum_step o sk) rows (st, out)) = out ++ cum_go o sk st rows.
Proof.
  induction rows as [|r t IH]; intros st out; cbn [fold_left cum_go]; [now rewrite app_nil_r|].
  rewrite cum_step_out, IH. now rewrite app_assoc.
Qed.

Lemma cum_f_is_go o sk rows : cum_f o sk rows = cum_go o sk (st0 o) rows.
Proof. unfold cum_f, cum_run. apply fold_is_go. Qed.

Lemma step_one_output o sk (st : gstate) r : exists v, snd (cum_step o sk (st, []) r) = [v].
Proof.
  destruct r as [[k x] m]. unfold cum_step. destruct (k <? 0)%Z; [eexists; reflexivity|].
  destruct (st k) as [[last cnt] seen]. destruct (negb m); [eexists; reflexivity|].
  destruct (scalar o sk (if seen then last else init o) x cnt). eexists; reflexivity.
Qed.

(* a step of a row of group k reads cell k only and changes cell k only *)
Lemma step_local o sk (st st' : gstate) k x m : (0 <= k)%Z -> st k = st' k ->
  snd (cum_step o sk (st, []) (k, x, m)) = snd (cum_step o sk (st', []) (k, x, m)) /\
  fst (cum_step o sk (st, []) (k, x, m)) k = fst (cum_step o sk (st', []) (k, x, m)) k.
Proof.
  intros Hk E. unfold cum_step. destruct (k <? 0)%Z eqn:En; [apply Z.ltb_lt in En; lia|]. rewrite <- E.
  destruct (negb m); [destruct (st k) as [[last cnt] seen] eqn:Ek; cbn [fst snd]; split; [reflexivity|rewrite Ek; exact E]|].
  destruct (st k) as [[last cnt] seen].
  destruct (scalar o sk (if seen then last else init o) x cnt). cbn [fst snd]. split; [reflexivity|].
  unfold upd. now rewrite Z.eqb_refl.
Qed.

Lemma step_other o sk (st : gstate) r g : key_of r <> g -> fst (cum_step o sk (st, []) r) g = st g.
Proof.
  destruct r as [[k x] m]. unfold key_of. cbn [fst]. intros Hne. unfold cum_step. destruct (k <? 0)%Z; [reflexivity|].
  destruct (st k) as [[last cnt] seen]. destruct (negb m); [reflexivity|].
  destruct (scalar o sk (if seen then last else init o) x cnt). cbn [fst]. unfold upd.
  destruct (g =? k)%Z eqn:E; [apply Z.eqb_eq in E; congruence|reflexivity].
Qed.

Lemma go_depends_on_cell o sk g rows : (0 <= g)%Z -> forallb (of_group g) rows = true ->
  forall st st' : gstate, st g = st' g -> cum_go o sk st rows = cum_go o sk st' rows.
Proof.
  intros Hg. induction rows as [|[[k x] m] t IH]; intros Hall st st' E; [reflexivity|].
  cbn [forallb] in Hall. apply andb_prop in Hall. destruct Hall as [Hk Ht].
  unfold of_group, key_of in Hk. cbn [fst] in Hk. apply Z.eqb_eq in Hk. subst k.
  cbn [cum_go]. destruct (step_local o sk st st' g x m Hg E) as [Ho Hs].
  rewrite Ho. f_equal. apply IH; assumption.
Qed.

Theorem cum_groups_are_independent o sk g rows : (0 <= g)%Z ->
  outs_of g rows (cum_f o sk rows) = cum_f o sk (filter (of_group g) rows).
Proof.
  intros Hg. rewrite !cum_f_is_go. generalize (st0 o) as st.
  induction rows as [|r t IH]; intros st; [reflexivity|].
  cbn [cum_go filter]. destruct (step_one_output o sk st r) as [v Hv]. rewrite Hv. cbn [app outs_of].
  destruct (of_group g r) eqn:Eg.
  - cbn [cum_go]. rewrite Hv. cbn [app]. f_equal. apply IH.
  - rewrite IH. apply (go_depends_on_cell o sk g); [exact Hg| |].
    + apply forallb_forall. intros r' Hr. apply filter_In in Hr. apply Hr.
    + apply step_other. unfold of_group in Eg. apply Z.eqb_neq in Eg. exact Eg.
Qed.
