(* C20 — nan-min / nan-max / nan-sum-of-squares for every number of worker threads.
   The array is split into n_threads pieces (np.array_split), each piece is reduced, and the piece
   results are reduced again with null skipping.  A piece with no non-null element (all-null, or
   empty when there are more threads than elements) yields a null, which the second stage skips.
   (For an EMPTY piece the jitted reducer returns arr[0] of a zero-length view; NumPy gives such a
   view the address of the parent's first element, so the value read is an element of the array or
   a null and cannot change an extreme.  The model takes it to be the null marker — trusted base.) *)
From Coq Require Import List ZArith Lia Bool Arith.
From GL Require Import Lib.Arr Lib.Blocks Model.Dom Model.Scalar Model.Nanops Spec.Defs Spec.Exec
  Proofs.ReduceSeries Proofs.ReduceMerge Proofs.NanopsProofs Proofs.RollExt.
Import ListNotations.
Open Scope Z_scope.

Section NMax.
Context {V : Type} (o : ops V) (L : laws o).
Hypothesis null_unique : forall x, is_null o x = true -> x = null o.
Hypothesis null_is_null : is_null o (null o) = true.
Notation nn := (nonnull o).

Lemma op_max_pick a v : is_null o a = false -> is_null o v = false -> op_max o a v = pick_max o a v.
Proof.
  intros Ha Hv. unfold op_max, pick_max. rewrite Ha, Hv. rewrite (leb_spec o L) by auto.
  destruct (ltb o a v); reflexivity.
Qed.

Lemma fold_skip_max rest : forall a, is_null o a = false ->
  fold_skip o (op_max o) true rest a = fold_left (pick_max o) (nn rest) a.
Proof.
  unfold fold_skip. induction rest as [|x t IH]; intros a Ha; [reflexivity|].
  cbn [fold_left]. destruct (is_null o x) eqn:E; cbn [andb].
  - rewrite (nn_cons_null o) by auto. apply IH; auto.
  - rewrite (nn_cons_val o) by auto. cbn [fold_left]. rewrite op_max_pick by auto. apply IH.
    unfold pick_max. destruct (ltb o a x); auto.
Qed.

Lemma first_non_null_spec arr :
  (first_non_null o arr = None /\ nn arr = [] /\ hd (null o) arr = null o) \/
  (exists x rest, first_non_null o arr = Some (x, rest) /\ is_null o x = false /\ nn arr = x :: nn rest).
Proof.
  induction arr as [|x t IH].
  - left. repeat split; reflexivity.
  - cbn [first_non_null]. destruct (is_null o x) eqn:E.
    + rewrite (nn_cons_null o) by auto. destruct IH as [[H1 [H2 _]]|[y [rest [H1 [H2 H3]]]]].
      * left. repeat split; auto.
      * right. exists y, rest. auto.
    + right. exists x, t. repeat split; auto. now rewrite (nn_cons_val o).
Qed.

(* one pass *)
Theorem nanmax_one_pass arr : nb_reduce o (op_max o) arr true None = max_exec o (nn arr).
Proof.
  unfold nb_reduce. destruct (first_non_null_spec arr) as [[H1 [H2 H3]]|[x [rest [H1 [H2 H3]]]]]; rewrite H1.
  - rewrite H2, H3. reflexivity.
  - rewrite H3. simpl. apply fold_skip_max; auto.
Qed.

Lemma nn_in l x : In x (nn l) -> In x l.
Proof. unfold nonnull. intros H. apply filter_In in H. tauto. Qed.
Lemma in_nn l x : In x l -> is_null o x = false -> In x (nn l).
Proof. unfold nonnull. intros H E. apply filter_In. rewrite E. auto. Qed.

(* the maximum of the per-piece maxima *)
Lemma max_of_maxima (chunks : list (list V)) :
  max_exec o (nn (map (fun c => max_exec o (nn c)) chunks)) = max_exec o (nn (concat chunks)).
Proof.
  set (R := nn (map (fun c => max_exec o (nn c)) chunks)).
  assert (Hnn : forall q x, In x (nn q) -> is_null o x = false) by (intros q x; apply (nn_nonnull o)).
  assert (HinR : forall r, In r R -> exists c, In c chunks /\ nn c <> [] /\ r = max_exec o (nn c)).
  { intros r Hr. unfold R in Hr. pose proof (Hnn _ _ Hr) as Hn. apply nn_in in Hr.
    apply in_map_iff in Hr. destruct Hr as [c [<- Hc]]. exists c. repeat split; auto.
    intros E. rewrite E in Hn. simpl in Hn. rewrite null_is_null in Hn. discriminate. }
  assert (Hsub : forall c x, In c chunks -> In x (nn c) -> In x (nn (concat chunks))).
  { intros c x Hc Hx. apply in_nn; [|eapply Hnn; eauto]. apply in_concat. exists c. split; auto. now apply nn_in. }
  assert (Hcase : nn (concat chunks) = [] \/ nn (concat chunks) <> []) by (destruct (nn (concat chunks)); [left; auto|right; discriminate]).
  destruct Hcase as [Ecc|Hne].
  - (* nothing non-null anywhere *)
    assert (R = []).
    { destruct R as [|r R'] eqn:ER; auto. destruct (HinR r (or_introl eq_refl)) as [c [Hc [Hne _]]].
      destruct (nn c) as [|y ys] eqn:Ey; [congruence|]. specialize (Hsub c y Hc). rewrite Ey, Ecc in Hsub.
      destruct (Hsub (or_introl eq_refl)). }
    rewrite H, Ecc. reflexivity.
  - 
    destruct (max_exec_is_max o L (nn (concat chunks)) Hne (Hnn _)) as [Min Mmax].
    set (M := max_exec o (nn (concat chunks))) in *.
    apply (max_exec_char o L).
    + intros x Hx. unfold R in Hx. eapply Hnn; eauto.
    + split.
      * (* M is the maximum of the piece that holds it *)
        assert (HM : exists c, In c chunks /\ In M (nn c)).
        { pose proof (Hnn _ _ Min) as Hn. apply nn_in in Min. apply in_concat in Min.
          destruct Min as [c [Hc HMc]]. exists c. split; auto. now apply in_nn. }
        destruct HM as [c [Hc HMc]].
        assert (Hcne : nn c <> []) by (intros E; rewrite E in HMc; destruct HMc).
        destruct (max_exec_is_max o L (nn c) Hcne (Hnn _)) as [Cin Cmax].
        assert (E : max_exec o (nn c) = M).
        { apply (ltb_total o L).
          - eapply Hnn; eauto.
          - eapply Hnn; eauto.
          - apply Cmax; auto.
          - apply Mmax. eapply Hsub; eauto. }
        unfold R. apply in_nn.
        -- apply in_map_iff. exists c. auto.
        -- eapply Hnn; eauto.
      * intros r Hr. destruct (HinR r Hr) as [c [Hc [Hcne ->]]].
        apply Mmax. eapply Hsub; eauto. apply (max_exec_is_max o L); auto. apply Hnn.
Qed.

Theorem nanmax_any_threads arr n : (0 < n)%nat -> nan_reduce o NMax arr n = max_exec o (nn arr).
Proof.
  intros Hn. unfold nan_reduce, reduce_1d. destruct (n =? 1)%nat.
  - apply nanmax_one_pass.
  - rewrite nanmax_one_pass.
    rewrite (map_ext _ (fun c => max_exec o (nn c))) by (intros c; apply nanmax_one_pass).
    rewrite max_of_maxima. now rewrite array_split_concat.
Qed.
(* ---- skipna = False: nulls are not skipped, and a null anywhere makes the maximum / minimum null (one pass; before /repo's
   fix of NumbaReductionOps.max / min a NaN was dropped or restarted the scan, differently for different thread counts). ---- *)
Lemma op_min_pick a v : is_null o a = false -> is_null o v = false -> op_min o a v = pick_min o a v.
Proof.
  intros Ha Hv. unfold op_min, pick_min. rewrite Ha, Hv. rewrite (leb_spec o L) by auto.
  destruct (ltb o v a); reflexivity.
Qed.

Lemma fold_ext_null (want_max : bool) t : forall a, is_null o a = true ->
  fold_left (if want_max then op_max o else op_min o) t a = a.
Proof.
  destruct want_max; (induction t as [|x t IH]; intros a Ha; [reflexivity|]; cbn [fold_left]; unfold op_max, op_min; rewrite Ha; apply IH; exact Ha).
Qed.

Lemma fold_ext_noskip (want_max : bool) t : forall a, is_null o a = false ->
  fold_left (if want_max then op_max o else op_min o) t a
  = if existsb (is_null o) t then null o else fold_left (if want_max then pick_max o else pick_min o) t a.
Proof.
  pose proof (fold_ext_null want_max) as Hnull.
  destruct want_max;
  (induction t as [|x t IH]; intros a Ha; [reflexivity|]; cbn [fold_left existsb];
   destruct (is_null o x) eqn:Ex; cbn [orb];
   [ assert (Hs : is_null o x = true) by exact Ex;
     match goal with |- fold_left ?f t (?g a x) = _ => assert (Hx : g a x = x) by (unfold op_max, op_min; rewrite Ha, Ex; reflexivity) end;
     rewrite Hx, Hnull by exact Ex; apply null_unique; exact Ex
   | first [rewrite op_max_pick by auto | rewrite op_min_pick by auto]; apply IH;
     unfold pick_max, pick_min; match goal with |- context [if ?b then _ else _] => destruct b end; assumption ]).
Qed.

Theorem noskip_ext_one_pass (want_max : bool) arr : arr <> [] ->
  nb_reduce o (if want_max then op_max o else op_min o) arr false None
  = if existsb (is_null o) arr then null o else if want_max then max_exec o arr else min_exec o arr.
Proof.
  intros Hne. destruct arr as [|x t]; [congruence|]. unfold nb_reduce. cbn [existsb].
  destruct (is_null o x) eqn:Ex; cbn [orb]; [apply null_unique; exact Ex|].
  rewrite (fold_ext_noskip want_max t x Ex). destruct (existsb (is_null o) t); [reflexivity|].
  destruct want_max; reflexivity.
Qed.
(* ... and over worker threads: when every piece holds an element (n_threads <= length), reducing the pieces without skipping
   and then the piece results without skipping is the one-pass result - null if any element is null, else the maximum *)
Lemma nn_clean l : existsb (is_null o) l = false -> nn l = l.
Proof.
  induction l as [|x t IH]; intros H; [reflexivity|]. cbn [existsb] in H. apply orb_false_iff in H. destruct H as [Hx Ht].
  rewrite (nn_cons_val o) by exact Hx. now rewrite IH.
Qed.

Lemma existsb_concat (chunks : list (list V)) :
  existsb (is_null o) (concat chunks) = existsb (fun c => existsb (is_null o) c) chunks.
Proof. induction chunks as [|c t IH]; [reflexivity|]. cbn [concat existsb]. rewrite existsb_app, IH. reflexivity. Qed.

Lemma max_exec_clean_nonnull l : l <> [] -> existsb (is_null o) l = false -> is_null o (max_exec o l) = false.
Proof.
  intros Hne Hc. assert (Hin : In (max_exec o l) l).
  { pose proof (max_exec_is_max o L (nn l)) as H. rewrite (nn_clean l Hc) in H. apply H; [exact Hne|].
    intros x Hx. destruct (is_null o x) eqn:E; [|reflexivity].
    assert (existsb (is_null o) l = true) by (apply existsb_exists; exists x; auto). congruence. }
  destruct (is_null o (max_exec o l)) eqn:E; [|reflexivity].
  assert (existsb (is_null o) l = true) by (apply existsb_exists; exists (max_exec o l); auto). congruence.
Qed.

Theorem noskip_max_chunks (chunks : list (list V)) : chunks <> [] -> Forall (fun c => c <> []) chunks ->
  nb_reduce o (op_max o) (map (fun c => nb_reduce o (op_max o) c false None) chunks) false None
  = if existsb (is_null o) (concat chunks) then null o else max_exec o (concat chunks).
Proof.
  intros Hne Hall.
  set (spec := fun c : list V => if existsb (is_null o) c then null o else max_exec o c).
  assert (Hmap : map (fun c => nb_reduce o (op_max o) c false None) chunks = map spec chunks).
  { apply map_ext_in. intros c Hc. rewrite Forall_forall in Hall. exact (noskip_ext_one_pass true c (Hall c Hc)). }
  rewrite Hmap. rewrite (noskip_ext_one_pass true (map spec chunks)) by (destruct chunks; [congruence|discriminate]).
  cbv iota. rewrite existsb_concat.
  assert (Hex : existsb (is_null o) (map spec chunks) = existsb (fun c => existsb (is_null o) c) chunks).
  { clear Hmap Hne. induction chunks as [|c t IH]; [reflexivity|]. cbn [map existsb].
    inversion Hall as [|? ? Hc Ht]; subst. rewrite (IH Ht). f_equal. unfold spec.
    destruct (existsb (is_null o) c) eqn:E; [exact null_is_null|]. apply max_exec_clean_nonnull; assumption. }
  rewrite Hex. destruct (existsb (fun c => existsb (is_null o) c) chunks) eqn:E; [reflexivity|].
  assert (Hclean : forall c, In c chunks -> existsb (is_null o) c = false).
  { intros c Hc. destruct (existsb (is_null o) c) eqn:Ec; [|reflexivity].
    assert (existsb (fun c => existsb (is_null o) c) chunks = true) by (apply existsb_exists; exists c; auto). congruence. }
  assert (Hspec : map spec chunks = map (fun c => max_exec o (nn c)) chunks).
  { apply map_ext_in. intros c Hc. unfold spec. rewrite (Hclean c Hc), (nn_clean c (Hclean c Hc)). reflexivity. }
  assert (Hcc : existsb (is_null o) (concat chunks) = false) by (rewrite existsb_concat; exact E).
  rewrite Hspec. rewrite <- (nn_clean (concat chunks) Hcc) at 1.
  rewrite <- max_of_maxima. f_equal. symmetry. apply nn_clean. rewrite <- Hspec. exact Hex.
Qed.

Theorem noskip_max_any_threads arr n : (0 < n)%nat -> Forall (fun c => c <> []) (array_split arr n) ->
  reduce_1d o (op_max o) (op_max o) None false false arr n
  = if existsb (is_null o) arr then null o else max_exec o arr.
Proof.
  intros Hn Hall. unfold reduce_1d. destruct (n =? 1)%nat eqn:E1.
  - apply Nat.eqb_eq in E1. subst n. apply (noskip_ext_one_pass true).
    intros ->. unfold array_split, array_split_sizes in Hall. cbn in Hall. inversion Hall; congruence.
  - rewrite noskip_max_chunks; [now rewrite array_split_concat| |exact Hall].
    intros E. pose proof (array_split_length arr n) as Hl. rewrite E in Hl. cbn in Hl. lia.
Qed.
End NMax.

(* nan-min is nan-max for the reversed order *)
Theorem nanmin_any_threads {V} (o : ops V) (L : laws o)
  (null_unique : forall x, is_null o x = true -> x = null o) (null_is_null : is_null o (null o) = true) arr n :
  (0 < n)%nat -> nan_reduce o NMin arr n = min_exec o (nonnull o arr).
Proof. exact (nanmax_any_threads (flip o) (flip_laws o L) null_unique null_is_null arr n). Qed.

(* the non-skipping minimum is the non-skipping maximum for the reversed order *)
Theorem noskip_min_any_threads {V} (o : ops V) (L : laws o)
  (null_unique : forall x, is_null o x = true -> x = null o) (null_is_null : is_null o (null o) = true) arr n :
  (0 < n)%nat -> Forall (fun c => c <> []) (array_split arr n) ->
  reduce_1d o (op_min o) (op_min o) None false false arr n
  = if existsb (is_null o) arr then null o else min_exec o arr.
Proof. exact (noskip_max_any_threads (flip o) (flip_laws o L) null_unique null_is_null arr n). Qed.
