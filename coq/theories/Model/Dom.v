(* Value domains.  [ops V] bundles exactly the scalar operations the numba
   kernels use on values; [laws] are the algebraic facts the proofs need.
   Instances:  [zops nullable nullv] — machine integers modelled as unbounded Z
   (int64/datetime64/timedelta64 viewed as int64 use the sentinel MIN_INT as
   null; narrower/unsigned ints and bools are never null, [nullv] is the initial
   accumulator `_null_value_for_numpy_type` gives them);  [fops] — float64 as
   NaN | exact rational (no rounding, no infinities, no signed zero). *)
From Coq Require Import List ZArith Lia Bool QArith Qcanon.
Import ListNotations.
Open Scope Z_scope.

Record ops (V : Type) := {
  is_null : V -> bool;
  add : V -> V -> V;
  sub : V -> V -> V;
  sq : V -> V;
  ltb : V -> V -> bool;       (* strict `<`; false whenever an operand is NaN *)
  leb : V -> V -> bool;       (* `<=`; false whenever an operand is NaN *)
  zero : V;
  null : V;                    (* initial accumulator of non-sum reductions *)
  of_count : Z -> V;           (* a count stored into the (ignored) target of count reductions *)
  divc : V -> Z -> V           (* accumulator / count (rolling mean) *)
}.
Arguments is_null {V}. Arguments add {V}. Arguments sub {V}. Arguments sq {V}.
Arguments ltb {V}. Arguments leb {V}. Arguments zero {V}. Arguments null {V}. Arguments of_count {V}. Arguments divc {V}.

Record laws {V} (o : ops V) : Prop := {
  add_assoc : forall x y z, add o x (add o y z) = add o (add o x y) z;
  add_zero_l : forall x, add o (zero o) x = x;
  add_zero_r : forall x, add o x (zero o) = x;
  ltb_irrefl : forall x, ltb o x x = false;
  ltb_trans : forall x y z, ltb o x y = true -> ltb o y z = true -> ltb o x z = true;
  (* on non-null values `<` is a strict total order *)
  ltb_total : forall x y, is_null o x = false -> is_null o y = false ->
      ltb o x y = false -> ltb o y x = false -> x = y;
  (* the initial accumulator of non-sum reductions is recognisably null, unless
     the dtype has no null at all *)
  leb_spec : forall x y, is_null o x = false -> is_null o y = false -> leb o x y = negb (ltb o y x);
  null_dichotomy : is_null o (null o) = true \/ forall x, is_null o x = false
}.

(* sums of non-null values are non-null (true of floats and of never-null integer
   dtypes; for sentinel-null integers it is the side condition "no partial sum equals
   the sentinel") *)
Definition sum_closed {V} (o : ops V) : Prop :=
  (forall x y, is_null o x = false -> is_null o y = false -> is_null o (add o x y) = false) /\
  (forall x, is_null o x = false -> is_null o (sq o x) = false) /\
  is_null o (zero o) = false.

(* ---------- integers ---------- *)
Definition MIN_INT : Z := - 2 ^ 63.

Definition zops (nullable : bool) (nullv : Z) : ops Z := {|
  is_null := fun x => nullable && (x =? MIN_INT);
  add := Z.add; sub := Z.sub; sq := fun x => x * x; ltb := Z.ltb; leb := Z.leb;
  zero := 0; null := (if nullable then MIN_INT else nullv); of_count := fun c => c;
  divc := fun x c => Z.quot x c |}.

Lemma zops_laws nullable nullv : laws (zops nullable nullv).
Proof.
  constructor; simpl; intros; try lia.
  destruct nullable; simpl; auto.
Qed.

Lemma zops_never_null_closed nullv : sum_closed (zops false nullv).
Proof. repeat split; reflexivity. Qed.

(* ---------- floats (exact) ---------- *)
Inductive fl := FNan | FFin (q : Qc).

Definition fl_add (x y : fl) : fl :=
  match x, y with FFin a, FFin b => FFin (a + b)%Qc | _, _ => FNan end.
Definition fl_sub (x y : fl) : fl :=
  match x, y with FFin a, FFin b => FFin (a - b)%Qc | _, _ => FNan end.
Definition fl_sq (x : fl) : fl := match x with FFin a => FFin (a * a)%Qc | FNan => FNan end.
Definition Qc_ltb (a b : Qc) : bool :=
  match (a ?= b)%Qc with Lt => true | _ => false end.
Definition fl_ltb (x y : fl) : bool :=
  match x, y with FFin a, FFin b => Qc_ltb a b | _, _ => false end.
Definition Qc_leb (a b : Qc) : bool :=
  match (a ?= b)%Qc with Gt => false | _ => true end.
Definition fl_leb (x y : fl) : bool :=
  match x, y with FFin a, FFin b => Qc_leb a b | _, _ => false end.
Definition fl_of_Z (z : Z) : fl := FFin (Q2Qc (inject_Z z)).

Definition fops : ops fl := {|
  is_null := fun x => match x with FNan => true | _ => false end;
  add := fl_add; sub := fl_sub; sq := fl_sq; ltb := fl_ltb; leb := fl_leb;
  zero := FFin 0%Qc; null := FNan; of_count := fl_of_Z;
  divc := fun x c => match x with FFin a => FFin (a / Q2Qc (inject_Z c))%Qc | FNan => FNan end |}.

Lemma Qclt_irrefl' (a : Qc) : ~ (a < a)%Qc.
Proof. intros H. apply Qclt_not_eq in H. congruence. Qed.

Lemma Qc_ltb_lt a b : Qc_ltb a b = true <-> (a < b)%Qc.
Proof.
  unfold Qc_ltb. destruct (a ?= b)%Qc eqn:E.
  - apply Qceq_alt in E. subst. split; [discriminate|]. intros H. exfalso. eapply Qclt_irrefl'; eauto.
  - apply Qclt_alt in E. tauto.
  - apply Qcgt_alt in E. split; [discriminate|]. intros H. exfalso.
    eapply Qclt_irrefl'. eapply Qclt_trans; eauto.
Qed.

Lemma fops_laws : laws fops.
Proof.
  constructor; simpl.
  - intros [|a] [|b] [|c]; simpl; auto. now rewrite Qcplus_assoc.
  - intros [|a]; simpl; auto. now rewrite Qcplus_0_l.
  - intros [|a]; simpl; auto. now rewrite Qcplus_0_r.
  - intros [|a]; simpl; auto. destruct (Qc_ltb a a) eqn:E; auto.
    apply Qc_ltb_lt in E. exfalso. eapply Qclt_irrefl'; eauto.
  - intros [|a] [|b] [|c]; simpl; try discriminate. rewrite !Qc_ltb_lt. apply Qclt_trans.
  - intros [|a] [|b]; simpl; try discriminate. intros _ _ H1 H2. f_equal.
    destruct (Qc_dec a b) as [[l|g]|e]; auto.
    + apply Qc_ltb_lt in l. congruence.
    + apply Qc_ltb_lt in g. congruence.
  - intros [|a] [|b]; simpl; try discriminate. intros _ _.
    unfold Qc_leb, Qc_ltb, Qccompare. rewrite <- (Qcompare_antisym a b).
    destruct (Qcompare a b); reflexivity.
  - left; reflexivity.
Qed.

Lemma fops_sum_closed : sum_closed fops.
Proof.
  repeat split; simpl.
  - intros [|a] [|b]; simpl; congruence.
  - intros [|a]; simpl; congruence.
Qed.

Lemma fops_null_unique : forall x, is_null fops x = true -> x = null fops.
Proof. intros [|a]; simpl; congruence. Qed.

Lemma zops_null_unique nullable nullv : forall x, is_null (zops nullable nullv) x = true -> x = null (zops nullable nullv).
Proof. intros x. simpl. destruct nullable; simpl; [|discriminate]. intros H. now apply Z.eqb_eq in H. Qed.

Lemma fops_add_null : forall a b, is_null fops a = true \/ is_null fops b = true -> is_null fops (add fops a b) = true.
Proof. intros [|a] [|b] [H|H]; simpl in *; congruence. Qed.
