(* Model of groupby_lib/groupby/core.py:add_row_margin for a result indexed by n key levels.
   A row is (key, value); a key is one entry per level, None standing for the label 'All'.
     data.groupby(level=other_levels).agg(f)   = collapse l : drop level l, merging the rows that agree elsewhere
     pd.concat({"All": summary}) + reorder     = the dropped level comes back holding 'All' (setAll l)
     the recursive call on the summary         = margins over every subset of the remaining levels
     out.drop("All", level=lvl) for the levels that were not requested, out[keep]
   The aggregation is any commutative monoid (sum and count margins: addition; min / max: the extreme with its
   neutral element); a mean margin is formed from the sum and the count margins (C14_mean_margin). *)
From Coq Require Import List ZArith Bool Arith.
From GL Require Import Lib.Arr.
Import ListNotations.

Definition mkey := list (option Z).

Definition opt_eqb (a b : option Z) : bool :=
  match a, b with Some x, Some y => Z.eqb x y | None, None => true | _, _ => false end.
Fixpoint key_eqb (a b : mkey) : bool :=
  match a, b with
  | [], [] => true
  | x :: a', y :: b' => opt_eqb x y && key_eqb a' b'
  | _, _ => false
  end.

Definition setAll (l : nat) (k : mkey) : mkey := upd k l None.

Section Margins.
Context {V : Type} (agg : V -> V -> V) (e : V).

(* group-by in row order: the first row of a key opens its cell, later ones are aggregated into it *)
Fixpoint insert_agg (k : mkey) (v : V) (acc : list (mkey * V)) : list (mkey * V) :=
  match acc with
  | [] => [(k, v)]
  | (k', v') :: t => if key_eqb k k' then (k', agg v' v) :: t else (k', v') :: insert_agg k v t
  end.

Definition collapse (l : nat) (D : list (mkey * V)) : list (mkey * V) :=
  fold_left (fun acc r => insert_agg (setAll l (fst r)) (snd r) acc) D [].

(* margins over every non-empty subset of the active levels (fuel = number of active levels) *)
Fixpoint margins_all (fuel : nat) (active : list nat) (D : list (mkey * V)) : list (mkey * V) :=
  match fuel with
  | O => D
  | S f => D ++ flat_map (fun l => margins_all f (remove Nat.eq_dec l active) (collapse l D)) active
  end.

Definition is_all (k : mkey) (i : nat) : bool := match nth i k (Some 0%Z) with None => true | Some _ => false end.

Definition add_row_margin (n : nat) (levels : list nat) (D : list (mkey * V)) : list (mkey * V) :=
  let out := D ++ flat_map (fun l => margins_all (n - 1) (remove Nat.eq_dec l (seq 0 n)) (collapse l D)) levels in
  filter (fun r => forallb (fun i => implb (is_all (fst r) i) (existsb (Nat.eqb i) levels)) (seq 0 n)) out.

(* core.crosstab: one grouping over the row keys followed by the column keys, margins over the levels of the axes that were
   asked for, then unstack(column levels): the cell (r, c) is the row of the long result whose key is r ++ c, null
   (None) when there is no such row *)
Definition lookup (k : mkey) (T : list (mkey * V)) : option V :=
  match find (fun r => key_eqb k (fst r)) T with Some r => Some (snd r) | None => None end.
Definition crosstab_levels (n0 n1 : nat) (row_margin col_margin : bool) : list nat :=
  (if row_margin then seq 0 n0 else []) ++ (if col_margin then seq n0 n1 else []).
Definition crosstab_cell (n0 n1 : nat) (row_margin col_margin : bool) (D : list (mkey * V)) (r c : mkey) : option V :=
  lookup (r ++ c) (add_row_margin (n0 + n1) (crosstab_levels n0 n1 row_margin col_margin) D).

(* add_row_margin refuses a frame in which a group is itself labelled 'All' (the total would overwrite it) *)
Definition has_all_label (D : list (mkey * V)) : bool :=
  existsb (fun r => existsb (fun x => match x with None => true | Some _ => false end) (fst r)) D.
Definition add_row_margin_checked (n : nat) (levels : list nat) (D : list (mkey * V)) : option (list (mkey * V)) :=
  if has_all_label D then None else Some (add_row_margin n levels D).

(* what a row of the result must be: the aggregate of the data rows its key stands for *)
Fixpoint matches (q k : mkey) : bool :=
  match q, k with
  | [], [] => true
  | p :: q', x :: k' => (match p with None => true | Some _ => opt_eqb p x end) && matches q' k'
  | _, _ => false
  end.
Definition total (q : mkey) (D : list (mkey * V)) : V :=
  fold_right (fun r acc => if matches q (fst r) then agg (snd r) acc else acc) e D.
End Margins.

(* the statements of core.add_row_margin (regenerated: Gen/TablesGen.gen_add_row_margin); the model above reads them as:
   one level -> the single 'All' row; otherwise, for every requested level, group by the other levels, add all margins of
   that summary (recursive call with every remaining level), put 'All' back at the level, write the summaries into the
   frame, drop 'All' at the levels that were not requested, keep the rows that were written. *)
From Coq Require Import String.
Open Scope string_scope.
Definition add_row_margin_source : list string :=
  ["index = data.index";
   "for lvl in range(index.nlevels)";
   "if 'All' in index.get_level_values(lvl)";
   "raise ValueError('Conflicting name 'All' in margins: a group is labelled 'All'')";
   "end";
   "end";
   "data = data.sort_index()";
   "index = data.index";
   "if index.nlevels == 1";
   "data.loc['All'] = data.agg(agg_func)";
   "return data";
   "end";
   "all_levels = list(range(data.index.nlevels))";
   "if levels is None";
   "levels = all_levels";
   "end";
   "new_levels = [index.levels[lvl].tolist() + ['All'] for lvl in all_levels]";
   "grids = np.meshgrid(*[np.arange(len(lvl)) for lvl in new_levels], indexing='ij')";
   "new_codes = [grid.ravel() for grid in grids]";
   "new_index = pd.MultiIndex(codes=new_codes, levels=new_levels, names=index.names)";
   "out = data.reindex(new_index, fill_value=0)";
   "keep = pd.Series(False, index=out.index)";
   "keep.loc[data.index] = True";
   "summaries = []";
   "for level in levels";
   "other_levels = [lvl for lvl in all_levels if lvl != level]";
   "summary = data.groupby(level=other_levels, observed=True).agg(agg_func)";
   "summary = add_row_margin(summary, agg_func)";
   "summary = pd.concat({'All': summary}, names=[data.index.names[lvl] for lvl in [level, *other_levels]])";
   "summary.index = summary.index.reorder_levels(np.argsort([level, *other_levels]))";
   "summaries.append(summary)";
   "end";
   "for summary in summaries";
   "out.loc[summary.index] = summary";
   "keep.loc[summary.index] = True";
   "end";
   "for lvl in set(all_levels) - set(levels)";
   "out.drop('All', level=lvl, inplace=True)";
   "end";
   "return out[keep]"].
