(* Bit-exact model of emas._ema_grouped (the grouped, not time-weighted EMA kernel) in IEEE-754 binary64, using Coq's primitive
   floats: the same operations in the same order, several groups, null keys, masks.  Evaluated inside Coq (vm_compute) by C10's
   stream against the real kernel.  The exact-arithmetic model and its theorems are Model/Ema.v / Proofs/Ema*.v. *)
From Coq Require Import List ZArith Bool PrimFloat.
Import ListNotations.
Open Scope float_scope.

Record ecellf := { eres : float; ewt : float; elast : float }.

Definition ema_stepf (beta : float) (c : ecellf) (x : float) (sel : bool) : ecellf * float :=
  let skip := is_nan x || negb sel in
  let out := if skip then elast c else (x + eres c) / (1 + ewt c) in
  let w1 := if skip then ewt c else ewt c + 1 in
  let r1 := if skip then eres c else eres c + x in
  ({| eres := r1 * beta; ewt := w1 * beta; elast := out |}, out).

Fixpoint eupd (l : list ecellf) (i : nat) (c : ecellf) : list ecellf :=
  match l, i with
  | [], _ => []
  | _ :: t, O => c :: t
  | h :: t, S j => h :: eupd t j c
  end.

Fixpoint ema_runf (beta : float) (st : list ecellf) (rows : list (Z * float * bool)) : list float :=
  match rows with
  | [] => []
  | (k, x, sel) :: t =>
      if (k <? 0)%Z then nan :: ema_runf beta st t
      else
        let i := Z.to_nat k in
        let c := nth i st {| eres := zero; ewt := zero; elast := nan |} in
        let '(c', o) := ema_stepf beta c x sel in
        o :: ema_runf beta (eupd st i c') t
  end.

Definition ema_grouped_float (alpha : float) (ngroups : nat) (rows : list (Z * float * bool)) : list float :=
  ema_runf (1 - alpha) (repeat {| eres := zero; ewt := zero; elast := nan |} ngroups) rows.

Definition same_floatE (x y : float) : bool :=
  (is_nan x && is_nan y) || ((x =? y) && (get_sign x || negb (get_sign y)) && (get_sign y || negb (get_sign x))).
Fixpoint same_listE (l1 l2 : list float) : bool :=
  match l1, l2 with
  | [], [] => true
  | x :: t1, y :: t2 => same_floatE x y && same_listE t1 t2
  | _, _ => false
  end.
Definition check_ema (c : float * nat * list (Z * float * bool) * list float) : bool :=
  let '(alpha, ng, rows, outs) := c in same_listE (ema_grouped_float alpha ng rows) outs.
