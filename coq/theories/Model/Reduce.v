(* Hand model of the reduction kernels of groupby_lib/groupby/numba.py:
   _build_target_for_groupby, _group_by_reduce, _apply_group_method_single_chunk,
   reduce_array_pair, combine_chunk_results_for_factorized_key,
   _chunk_groupby_args (+ its two helpers) and _group_func_wrap.
   Same loop structure, same state cells, same branch order; Python exceptions
   are explicit [Err] results. *)
From Coq Require Import List ZArith Lia Bool Arith.
From GL Require Import Lib.Arr Lib.Blocks Model.Dom Model.Scalar.
Import ListNotations.
Open Scope Z_scope.

(* ---- masks, as NumPy indexing understands them ---- *)
Inductive mask :=
  | MNone
  | MBool (m : list bool)
  | MSlice (start stop : option Z)     (* step = None *)
  | MIdx (idx : list Z).               (* integer positions, negative ones wrap *)

(* slice(start, stop).indices(n) *)
Definition slice_bound (n : Z) (b : option Z) (dflt : Z) : Z :=
  match b with
  | None => dflt
  | Some x => if x <? 0 then Z.max (x + n) 0 else Z.min x n
  end.
Definition slice_range (n : nat) (start stop : option Z) : nat * nat :=
  let zn := Z.of_nat n in
  let a := slice_bound zn start 0 in
  let b := slice_bound zn stop zn in
  (Z.to_nat a, Z.to_nat (Z.max (b - a) 0)).
Definition slice_list {A} (l : list A) (start stop : option Z) : list A :=
  let '(a, len) := slice_range (length l) start stop in firstn len (skipn a l).

(* mask.nonzero()[0] *)
Fixpoint nonzero_from (i : Z) (m : list bool) : list Z :=
  match m with
  | [] => []
  | b :: t => if b then i :: nonzero_from (i + 1) t else nonzero_from (i + 1) t
  end.
Definition nonzero (m : list bool) : list Z := nonzero_from 0 m.

Section Reduce.
Context {V : Type} (o : ops V).
Let dV : V := null o.

(* _build_target_for_groupby: initial accumulator per reduction name
   (count reductions: a dummy target, the counts are collected separately) *)
Definition initial_value (r : rname) : V :=
  if name_has_count r then of_count o 0
  else if name_has_sum r then zero o
  else null o.
Definition build_target (r : rname) (shape : nat) : list V := repeat (initial_value r) shape.

(* _group_by_reduce: one row *)
Definition gbr_row (rf : reducer) (st : list V * list Z) (key : Z) (v : V) : list V * list Z :=
  if key <? 0 then st
  else
    let k := Z.to_nat key in
    let '(target, count) := st in
    let '(a, c) := rf (get dV target k) v (get 0 count k) in
    (upd target k a, upd count k c).

(* numba wrap-around indexing of a length-n array by a possibly negative i *)
Definition wrap_index (n : nat) (i : Z) : nat :=
  if i <? 0 then Z.to_nat (i + Z.of_nat n) else Z.to_nat i.

Fixpoint gbr_indexed (rf : reducer) (group_key : list Z) (values : list V)
    (check_in_bounds : bool) (indexer : list Z) (st : list V * list Z) : res (list V * list Z) :=
  match indexer with
  | [] => Ok st
  | i :: rest =>
      if check_in_bounds && (Z.of_nat (length group_key) <=? i) then Err EValue
      else
        let p := wrap_index (length group_key) i in
        gbr_indexed rf group_key values check_in_bounds rest
          (gbr_row rf st (get (-1) group_key p) (get dV values p))
  end.

Definition group_by_reduce (rf : reducer) (group_key : list Z) (values : list V)
    (target : list V) (indexer : option (list Z)) (check_in_bounds : bool)
    : res (list V * list Z) :=
  let count := repeat 0 (length target) in
  match indexer with
  | None =>
      Ok (fold_left (fun st row => gbr_row rf st (fst row) (snd row))
            (combine group_key values) (target, count))
  | Some idx => gbr_indexed rf group_key values check_in_bounds idx (target, count)
  end.

(* _apply_group_method_single_chunk (decorated with check_data_inputs_aligned) *)
Definition apply_single_chunk (r : rname) (group_key : list Z) (values : list V)
    (ngroups : nat) (m : mask) : res (list V * list Z) :=
  if negb (length group_key =? length values)%nat then Err EValue
  else
    let target := build_target r ngroups in
    match m with
    | MBool b =>
        if negb (length b =? length group_key)%nat then Err EValue
        else group_by_reduce (reducer_of o r) group_key values target (Some (nonzero b)) false
    | MIdx idx => group_by_reduce (reducer_of o r) group_key values target (Some idx) true
    | MNone => group_by_reduce (reducer_of o r) group_key values target None true
    | MSlice _ _ => Err EOther   (* slices are resolved into views by the caller *)
    end.

(* reduce_array_pair: out[i] = reducer(x[i], y[i], counts[i])[0], leaving x[i]
   alone where the right-hand partial is empty (y_counts[i] == 0) *)
Definition reduce_array_pair (rf : reducer) (x y : list V)
    (counts y_counts : option (list Z)) : list V :=
  map (fun i =>
         let skip := match y_counts with Some cy => get 0 cy i =? 0 | None => false end in
         if skip then get dV x i
         else fst (rf (get dV x i) (get dV y i)
                      (match counts with Some c => get 0 c i | None => 1 end)))
      (seq 0 (length x)).

Definition add_counts (a b : list Z) : list Z := map (fun p => fst p + snd p) (combine a b).

(* combine_chunk_results_for_factorized_key, counts always given by _group_func_wrap *)
Definition combine_factorized (r : rname) (chunks : list (list V)) (counts : list (list Z))
    : list V * list Z :=
  match chunks, counts with
  | c0 :: cs, n0 :: ns =>
      fold_left (fun acc cn =>
                   (reduce_array_pair (reducer_of o r) (fst acc) (fst cn) (Some (snd acc)) (Some (snd cn)),
                    add_counts (snd acc) (snd cn)))
                (combine cs ns) (c0, n0)
  | _, _ => ([], [])
  end.

(* _chunk_groupby_args: argument tuples (group_key, values, mask) per block *)
Definition chunk_args_chunked_values (group_key : list Z) (chunks : list (list V)) (m : mask)
    : res (list (list Z * list V * mask)) :=
  let lengths := map (@length V) chunks in
  if negb (list_sum lengths =? length group_key)%nat then Err EValue
  else
    let keys := split_by lengths group_key in
    let masks := match m with
                 | MBool b =>
                     (* np.array_split(mask, splits): the last piece takes the remainder *)
                     let pieces := split_by lengths b in
                     let extra := skipn (list_sum lengths) b in
                     map (fun p => MBool p) (removelast pieces ++ [last pieces [] ++ extra])
                 | _ => repeat MNone (length chunks)
                 end in
    Ok (combine (combine keys chunks) masks).

Definition chunk_args (n_chunks : nat) (group_key : list Z) (values : list (list V))
    (chunked : bool) (m : mask) : res (list (list Z * list V * mask)) :=
  if chunked then chunk_args_chunked_values group_key values m
  else
    let v := concat values in
    match m with
    | MNone =>
        Ok (combine (combine (array_split group_key n_chunks) (array_split v n_chunks))
                    (repeat MNone n_chunks))
    | MBool b => Ok (map (fun piece => (group_key, v, MIdx piece)) (array_split (nonzero b) n_chunks))
    | MIdx idx => Ok (map (fun piece => (group_key, v, MIdx piece)) (array_split idx n_chunks))
    | MSlice _ _ => Err EOther
    end.

(* _group_func_wrap.  [values] is the list of value chunks (one chunk = plain array). *)
Definition group_func_wrap (r : rname) (group_key : list Z) (values : list (list V))
    (ngroups : nat) (m : mask) (n_threads : nat) : res (list V * list Z) :=
  (* slices: views of keys and values *)
  let '(group_key, values, m) :=
    match m with
    | MSlice a b => (slice_list group_key a b, [slice_list (concat values) a b], MNone)
    | _ => (group_key, values, m)
    end in
  let values_are_chunked := (1 <? length values)%nat in
  let fancy := match m with MIdx _ => true | _ => false end in
  let '(values, values_are_chunked) :=
    if values_are_chunked && fancy then ([concat values], false) else (values, values_are_chunked) in
  let counting := name_has_count r in
  if (n_threads =? 1)%nat && negb values_are_chunked then
    bind (apply_single_chunk r group_key (concat values) ngroups m)
         (fun rc => Ok (if counting then (map (of_count o) (snd rc), snd rc) else rc))
  else
    bind (chunk_args n_threads group_key values values_are_chunked m) (fun args =>
    bind (mapM (fun a => apply_single_chunk r (fst (fst a)) (snd (fst a)) ngroups (snd a)) args)
         (fun results =>
            let chunks := map fst results in
            let counts := map snd results in
            let chunks := if counting then map (map (of_count o)) counts else chunks in
            let merge_name := if counting || name_has_sum r then Rsum else r in
            Ok (combine_factorized merge_name chunks counts))).

End Reduce.

(* what initial_value / build_target encode of _build_target_for_groupby, and which 1-D kernel each rolling operation
   dispatches to (regenerated tables: Gen/TablesGen.gen_build_target_rule / gen_rolling_dispatch) *)
From Coq Require Import String.
Open Scope string_scope.
Definition build_target_rule : list (string * string) :=
  [("operation in ('count', 'nancount')", "np.zeros(shape, dtype=bool)");
   ("'sum' in operation", "0");
   ("else", "_null_value_for_numpy_type(np.dtype(dtype))")].
Definition rolling_dispatch : list (string * string) :=
  [("sum", "_rolling_sum_or_mean_1d"); ("mean", "_rolling_sum_or_mean_1d"); ("min", "_rolling_max_or_min_1d");
   ("max", "_rolling_max_or_min_1d"); ("shift", "_rolling_shift_or_diff_1d"); ("diff", "_rolling_shift_or_diff_1d")].
