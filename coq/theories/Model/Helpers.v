(* Models of two helpers of groupby_lib/util.py.

   bools_to_categorical: each row of the boolean frame is turned into the integer
       bit_mask = nb_dot(df, 2 ** arange(ncols))            (sum over the columns of bit * 2^col)
   np.unique groups equal masks, and the label of a mask names the columns i with  bit_mask & 2**i.

   pretty_cut: codes = sorted_bins.searchsorted(x)  (side='left': the number of bins strictly
   below x); label c is " <= b0", "b(c-1) - b(c)" (integers: "b(c-1)+1 - b(c)"), " > b(last)". *)
From Coq Require Import List ZArith Lia Bool Arith.
From GL Require Import Lib.Arr.
Import ListNotations.
Open Scope Z_scope.

Definition bit_weights (n : nat) : list Z := map (fun i => 2 ^ Z.of_nat i) (seq 0 n).

(* one row of _nb_dot: out[row] += a[col][row] * b[col] over the columns *)
Definition row_mask (bits : list bool) : Z :=
  fold_left (fun acc cb => acc + Z.b2z (fst cb) * snd cb) (combine bits (bit_weights (length bits))) 0.

(* for i, col in enumerate(df.columns): if bit_mask & 2**i: labels.append(col) *)
Definition mask_labels (ncols : nat) (mask : Z) : list nat :=
  filter (fun i => negb (Z.land mask (2 ^ Z.of_nat i) =? 0)) (seq 0 ncols).

(* smallest of 8, 16, 32, 64 above the number of columns (None: more than 63 columns are not supported) *)
Definition min_bits (ncols : nat) : option Z :=
  find (fun x => Z.of_nat ncols <? x) [8; 16; 32; 64].

(* numpy searchsorted(side='left') on sorted bins: the insertion point = number of bins below x *)
Definition bin_code (bins : list Z) (x : Z) : Z := Z.of_nat (length (filter (fun b => b <? x) bins)).
