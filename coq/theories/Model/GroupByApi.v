(* Decision logic of groupby_lib/groupby/core.py:GroupBy._apply_gb_reduction that the
   properties hinge on (the pandas containers around it are not modelled):
     - which labels are reported (observed filter: value counts first, key counts
       when some value count is zero; `size` uses its own counts),
     - the order they are reported in (sort key applied to the observed flags),
     - mean = sum / count per label,
     - transform: gathering the per-group result (with its trailing null slot) by
       the row codes. *)
From Coq Require Import List ZArith Lia Bool Arith.
From GL Require Import Lib.Arr Model.Dom.
Import ListNotations.
Open Scope Z_scope.

(* observed = count_df.iloc[:, 0].values > 0
   if func_name != "size" and not observed.all(): observed = key counts > 0 *)
Definition observed_flags (is_size : bool) (count0 keycount : list Z) : list bool :=
  let obs := map (fun c => 0 <? c) count0 in
  if negb is_size && negb (forallb (fun b => b) obs) then map (fun c => 0 <? c) keycount else obs.

(* observed = sortkey[observed[sortkey]]  (sortkey = range when no sort is needed):
   the group codes reported, in output order *)
Definition reported (sortkey : list nat) (observed : list bool) : list nat :=
  filter (fun g => get false observed g) sortkey.

(* with observed_only=False every label is reported, in sort order *)
Definition reported_all (sortkey : list nat) : list nat := sortkey.

Section Values.
Context {V : Type} (o : ops V).

(* mean_from_sum_count on one label: sum / count, null when the count is zero
   (0/0 in floating point) *)
Definition mean_cell (s : V) (c : Z) : V := if c =? 0 then null o else divc o s c.

Definition mean_column (sums : list V) (counts : list Z) : list V :=
  map (fun p => mean_cell (fst p) (snd p)) (combine sums counts).

(* transform: result[group_ikey] — the result array has ngroups + 1 cells, code -1
   reads the last one (never written by the kernel: no row carries that code) *)
Definition transform_gather (result : list V) (codes : list Z) : list V :=
  map (fun k => get (null o) result (if k <? 0 then Z.to_nat (k + Z.of_nat (length result)) else Z.to_nat k)) codes.

End Values.
