(* Decision logic of groupby_lib/groupby/core.py:GroupBy._apply_gb_reduction that the
   properties hinge on (the pandas containers around it are not modelled):
     - which labels are reported (observed filter: value counts first, key counts
       when some value count is zero; `size` uses its own counts),
     - the order they are reported in (sort key applied to the observed flags),
     - mean = sum / count per label,
     - transform: gathering the per-group result (with its trailing null slot) by
       the row codes. *)
From Coq Require Import List ZArith Lia Bool Arith.
From GL Require Import Lib.Arr Model.Dom Model.Scalar Model.Reduce.
Import ListNotations.
Open Scope Z_scope.

(* observed = count_df.iloc[:, 0].values > 0
   if func_name != "size" and not observed.all(): observed = key counts > 0 *)
Definition observed_flags (is_size : bool) (count0 keycount : list Z) : list bool :=
  let obs := map (fun c => 0 <? c) count0 in
  if negb is_size && negb (forallb (fun b => b) obs) then map (fun c => 0 <? c) keycount else obs.

(* observed = sortkey[observed[sortkey]]  (sortkey = range when no sort is needed):
   the group codes reported, in output order *)
Definition reported (sortkey : list nat) (observed : list bool) : list nat :=
  filter (fun g => get false observed g) sortkey.

(* with observed_only=False every label is reported, in sort order *)
Definition reported_all (sortkey : list nat) : list nat := sortkey.

Section Values.
Context {V : Type} (o : ops V).

(* mean_from_sum_count on one label: sum / count, null when the count is zero
   (0/0 in floating point) *)
Definition mean_cell (s : V) (c : Z) : V := if c =? 0 then null o else divc o s c.

Definition mean_column (sums : list V) (counts : list Z) : list V :=
  map (fun p => mean_cell (fst p) (snd p)) (combine sums counts).

(* transform: result[group_ikey] — the result array has ngroups + 1 cells, code -1
   reads the last one (never written by the kernel: no row carries that code) *)
Definition transform_gather (result : list V) (codes : list Z) : list V :=
  map (fun k => get (null o) result (if k <? 0 then Z.to_nat (k + Z.of_nat (length result)) else Z.to_nat k)) codes.

End Values.

(* ---- _apply_gb_func_across_chunked_group_keys, one value column ----
   The keys are factorized per chunk: chunk j holds local codes (into its own dictionary)
   and a pointer table p_j : local code -> global code.  The kernel runs per chunk; each
   chunk's (result, count) arrays are merged into the global arrays through the pointer:
       combined[pointer] = reduce_array_pair(combined[pointer], result, reducer,
                                              counts=count[pointer], y_counts=chunk_count)
       count[pointer]   += chunk_count
   Granularity: the two aligned arrays (combined, count) are one array of (value, count)
   cells; the vectorised gather/scatter through a duplicate-free pointer is the fold over
   the local codes below. *)
Section ChunkedKeys.
Context {V : Type} (o : ops V).

Definition scatter_cell (mf : V -> V -> Z -> V * Z) (x y : V * Z) : V * Z :=
  ((if snd y =? 0 then fst x else fst (mf (fst x) (fst y) (snd x))), snd x + snd y).

Definition scatter_chunk (mf : V -> V -> Z -> V * Z) (acc : list (V * Z)) (p : list nat) (local : list (V * Z))
    : list (V * Z) :=
  fold_left (fun a l => let g := get 0%nat p l in
                        upd a g (scatter_cell mf (get (null o, 0) a g) (get (null o, 0) local l)))
            (seq 0 (length p)) acc.

(* _unify_group_key_chunks: local code -> global code through the pointer, null stays null *)
Definition unify_code (p : list nat) (k : Z) : Z :=
  if k <? 0 then -1 else Z.of_nat (get 0%nat p (Z.to_nat k)).
Definition unify_codes (p : list nat) (codes : list Z) : list Z := map (unify_code p) codes.

(* core.py: reducer used to merge the chunk results of GroupBy.<func_name>:
   the plain sum for size / count / sum / sum_squares (partial sums hold no nulls; an empty partial is skipped
   through its count), the nan-version where ScalarFuncs has one, otherwise the reducer itself *)
Definition core_merge (r : rname) : rname :=
  match r with
  | Rnansum | Rnansum_squares | Rsum => Rsum
  | Rnanmin => Rnanmin | Rnanmax => Rnanmax | Rfirst => Rfirst | Rlast => Rlast
  | other => other
  end.

(* the per-chunk kernel call (ngroups = len(pointer), the trailing null slot is dropped) as cells *)
Definition chunk_cells (r : rname) (np : nat) (rows : list (Z * V)) : list (V * Z) :=
  let st := fold_left (fun st row => gbr_row o (reducer_of o r) st (fst row) (snd row)) rows
                      (build_target o r np, repeat 0 np) in
  combine (fst st) (snd st).

(* the whole loop over the key chunks: chunk = (pointer, rows with chunk-local codes) *)
Definition apply_across_chunks (r mr : rname) (ng : nat) (chunks : list (list nat * list (Z * V))) : list (V * Z) :=
  fold_left (fun acc ch => scatter_chunk (reducer_of o mr) acc (fst ch) (chunk_cells r (length (fst ch)) (snd ch)))
            chunks (chunk_cells r ng []).

End ChunkedKeys.

(* what core_merge encodes of core.py's dispatch (regenerated: Gen/TablesGen.gen_core_merge_sums): size / count /
   sum / sum_squares merge with the plain sum; every other func_name with its nan-version if ScalarFuncs has one *)
From Coq Require Import String.
Open Scope string_scope.
Definition core_merge_sums : list string * string * string :=
  (["size"; "count"; "sum"; "sum_squares"], "sum", "hasattr(numba_funcs.ScalarFuncs, f'nan{func_name}')").
