(* Bit-exact model of the grouped cumulative kernels on float64 values - numba._apply_cumulative / _cumulative_reduce with
   'sum', 'min', 'max', skip_na on or off, an optional boolean mask - in IEEE-754 binary64 (Coq's primitive floats).
   One pass over the rows; per group the running value, the running count and whether a row of the group was reduced yet:
     a row with a negative code comes out as NaN (result[group_key < 0] = null);
     a masked-out row repeats the group's latest output, or the initial value of the target (0.0 for sum, NaN for min / max)
       when the group has none yet;
     any other row is fed to the scalar reducer with the group's latest output and count; its value is the row's output.
   Evaluated inside Coq (vm_compute) by C08's stream against the real function.  Proofs/CumFloatProofs.v: the cumulative sum
   at a row IS, bit for bit, the single-pass group sum (Model/ReduceFloat.v) of the rows up to and including it. *)
From Coq Require Import List ZArith Bool PrimFloat Arith.
Import ListNotations.
Open Scope float_scope.

Inductive cop := CSum | CMin | CMax.
Definition init (o : cop) : float := match o with CSum => zero | _ => nan end.

(* ScalarFuncs.sum / nansum / min / nanmin / max / nanmax on (current, next, count); the non-skipping min / max count a null
   and keep it from there on *)
Definition scalar (o : cop) (skipna : bool) (cur x : float) (cnt : nat) : float * nat :=
  match o with
  | CSum => if skipna && is_nan x then (cur, cnt) else match cnt with O => (x, 1%nat) | _ => (cur + x, S cnt) end
  | CMin => if is_nan x then (if skipna then (cur, cnt) else (x, S cnt)) else
            match cnt with O => (x, 1%nat)
            | _ => if negb skipna && is_nan cur then (cur, S cnt) else ((if x <? cur then x else cur), S cnt) end
  | CMax => if is_nan x then (if skipna then (cur, cnt) else (x, S cnt)) else
            match cnt with O => (x, 1%nat)
            | _ => if negb skipna && is_nan cur then (cur, S cnt) else ((if cur <? x then x else cur), S cnt) end
  end.

Definition gstate := Z -> float * nat * bool.       (* group code -> (latest output, count, reduced a row yet) *)
Definition upd (st : gstate) (k : Z) (v : float * nat * bool) : gstate := fun j => if (j =? k)%Z then v else st j.
Definition st0 (o : cop) : gstate := fun _ => (init o, 0%nat, false).

Definition cum_step (o : cop) (skipna : bool) (acc : gstate * list float) (r : Z * float * bool) : gstate * list float :=
  let '(st, out) := acc in let '(k, x, m) := r in
  if (k <? 0)%Z then (st, out ++ [nan]) else
  let '(last, cnt, seen) := st k in
  if negb m then (st, out ++ [if seen then last else init o]) else
  let '(v, c) := scalar o skipna (if seen then last else init o) x cnt in
  (upd st k (v, c, true), out ++ [v]).

Definition cum_run (o : cop) (skipna : bool) (rows : list (Z * float * bool)) : gstate * list float :=
  fold_left (cum_step o skipna) rows (st0 o, []).
Definition cum_f (o : cop) (skipna : bool) (rows : list (Z * float * bool)) : list float := snd (cum_run o skipna rows).

Definition same_floatC (x y : float) : bool :=
  (is_nan x && is_nan y) || ((x =? y) && (get_sign x || negb (get_sign y)) && (get_sign y || negb (get_sign x))).
Fixpoint all_same (a b : list float) : bool :=
  match a, b with
  | [], [] => true
  | x :: a', y :: b' => same_floatC x y && all_same a' b'
  | _, _ => false
  end.
Definition ccode (n : nat) : cop := match n with O => CSum | S O => CMin | _ => CMax end.
(* (operation, skip_na, rows (code, value, mask bit), output of the implementation) *)
Definition check_cum (c : nat * bool * list (Z * float * bool) * list float) : bool :=
  let '(o, sk, rows, out) := c in all_same (cum_f (ccode o) sk rows) out.
