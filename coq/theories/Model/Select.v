(* Model of _find_nth and _find_first_or_last_n (groupby_lib/groupby/numba.py):
   one forward / backward scan over the rows with one (out, seen) cell per group;
   rows with a negative code and unselected rows `continue`. *)
From Coq Require Import List ZArith Lia Bool Arith.
From GL Require Import Lib.Arr Lib.Keyed.
Import ListNotations.
Open Scope Z_scope.

(* rows as the loops see them: (code, (position, selected?)) *)
Definition enum_rows (gk : list Z) (mask : option (list bool)) : list (Z * (Z * bool)) :=
  map (fun i => (get (-1) gk i, (Z.of_nat i, match mask with None => true | Some m => get false m i end)))
      (seq 0 (length gk)).

Definition nth_step (n : Z) (cell : Z * Z) (row : Z * bool) : Z * Z :=
  let '(out, seen) := cell in
  let '(i, sel) := row in
  if sel then ((if seen =? n then i else out), seen + 1) else cell.

Definition find_nth (gk : list Z) (ngroups : nat) (n : Z) (mask : option (list bool)) : list Z :=
  let rows := enum_rows gk mask in
  let '(rows, n) := if 0 <=? n then (rows, n) else (rev rows, - n - 1) in
  map fst (kfold (-1, 0) (nth_step n) rows (repeat (-1, 0) ngroups)).

Definition firstn_step (n : nat) (cell : list Z * Z) (row : Z * bool) : list Z * Z :=
  let '(out, seen) := cell in
  let '(i, sel) := row in
  if sel && (seen <? Z.of_nat n) then (upd out (Z.to_nat seen) i, seen + 1) else cell.

Definition find_first_or_last_n (gk : list Z) (ngroups : nat) (n : nat) (mask : option (list bool))
    (forward : bool) : list (list Z) :=
  let rows := enum_rows gk mask in
  let rows := if forward then rows else rev rows in
  let cells := kfold (repeat (-1) n, 0) (firstn_step n) rows (repeat (repeat (-1) n, 0) ngroups) in
  map (fun c => if forward then fst c else rev (fst c)) cells.
