(* Model of the moment formulas built on top of the sum / count reducers:
   - util.mean_from_sum_count for datetime64 / timedelta64 columns (tick counts): whole-number division of the
     (64-bit) sum by the count, null where the count is 0;
   - nanops.nanmean / nanvar / nanstd: mean = sum / n; variance in two passes (squared deviations from the mean),
     as NumPy; integers are converted to floating point first.
   The real-number content of the variance is modelled over Q (exact); rounding is the subject of Proofs/VarFloat.v. *)
From Coq Require Import List ZArith QArith String.
Import ListNotations.

(* mean_from_sum_count, temporal branch *)
Definition mean_ticks (sum count : Z) : option Z :=
  if (0 <? count)%Z then Some (sum / count)%Z else None.

(* nanops: the non-null values are given as a list of rationals *)
Definition qsum (l : list Q) : Q := fold_right Qplus 0 l.
Definition qlen (l : list Q) : Q := inject_Z (Z.of_nat (List.length l)).
Definition qmean (l : list Q) : Q := qsum l / qlen l.
Definition qsq (x : Q) : Q := x * x.
(* nanvar as it is now: second pass over the deviations *)
Definition var_two_pass (ddof : Z) (l : list Q) : Q :=
  qsum (map (fun x => qsq (x - qmean l)) l) / (qlen l - inject_Z ddof).
(* the textbook one-pass formula it replaced (still used by GroupBy.var, C16) *)
Definition var_one_pass (ddof : Z) (l : list Q) : Q :=
  (qsum (map qsq l) - qsq (qsum l) / qlen l) / (qlen l - inject_Z ddof).

(* what the two functions say in the source (regenerated: Gen/TablesGen.gen_mean_formula, gen_nanops_moments) *)
Open Scope string_scope.
Definition mean_formula : list (string * list string) :=
  [("mean_from_sum_count", ["if sum_.dtype.kind in 'mM'"; "mean = sum_.astype('int64') // count.where(count > 0, 1)"; "return mean.astype(sum_.dtype).where(count > 0)"; "else"; "return sum_ / count"; "end"])].
Definition nanops_moments : list (string * list string) :=
  [("nanmean", ["arr = np.asarray(arr)"; "if arr.dtype.kind in 'iu'"; "arr = arr.astype(np.float64)"; "end"; "sum = nansum(**locals())"; "n = count(arr, axis=axis)"; "if n == 0"; "return _null_value_for_numpy_type(arr.dtype)"; "end"; "return sum / n"]);
   ("nanvar", ["arr = np.asarray(arr)"; "if arr.dtype.kind in 'iu'"; "arr = arr.astype(np.float64)"; "end"; "kwargs = locals().copy()"; "del kwargs['ddof']"; "n = count(arr, axis=axis)"; "sum = reduce(reduce_func_name='sum', **kwargs)"; "d = n - ddof"; "if arr.ndim == 1"; "if d == 0 or n == 0"; "return np.nan"; "end"; "kwargs['arr'] = arr - sum / n"; "return reduce(reduce_func_name='sum_square', **kwargs) / d"; "end"; "sum_sq = reduce(reduce_func_name='sum_square', **kwargs)"; "if d == 0 or n == 0"; "return np.nan"; "end"; "return (sum_sq - sum ** 2 / n) / d"]);
   ("nanstd", ["return nanvar(**locals()) ** 0.5"])].
