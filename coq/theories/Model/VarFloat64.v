(* Bit-exact model of GroupBy.var for float64 values (single kernel thread) in IEEE-754 binary64 (Coq's primitive floats):
   per group, in row order and skipping NaN: count, running sum (the first value, then additions), running sum of squares (the
   square of the first value, then additions); var = (sum_sq - sum * sum / count) / (count - ddof), clipped at 0 (pandas
   Series.clip(lower=0): NaN stays NaN); a group without values has sum = sum_sq = 0.  Evaluated inside Coq (vm_compute) by
   C16's stream against the real GroupBy.var.  The rounding bound of this formula is Proofs/VarFloat.v. *)
From Coq Require Import List ZArith Bool PrimFloat Uint63 Arith.
Import ListNotations.
Open Scope float_scope.

Definition fofn (n : nat) : float := of_uint63 (Uint63.of_Z (Z.of_nat n)).
Definition fofz (z : Z) : float := if (z <? 0)%Z then - of_uint63 (Uint63.of_Z (- z)) else of_uint63 (Uint63.of_Z z).

(* (sum, sum of squares, count) of the non-NaN values of one group in row order *)
Definition acc_step (a : float * float * nat) (x : float) : float * float * nat :=
  let '(s, q, n) := a in
  if is_nan x then a else
  match n with O => (x, x * x, 1%nat) | _ => (s + x, q + x * x, S n) end.
Definition group_acc (l : list float) : float * float * nat := fold_left acc_step l (zero, zero, 0%nat).

Definition var_f64 (ddof : Z) (l : list float) : float :=
  let '(s, q, n) := group_acc l in
  let cnt := fofn n in
  let v := (q - (s * s) / cnt) / fofz (Z.of_nat n - ddof) in
  if v <? zero then zero else v.        (* clip(lower=0); NaN compares false and stays *)

Definition same_floatV (x y : float) : bool := (is_nan x && is_nan y) || (x =? y).
Definition check_var (c : Z * list float * float) : bool := let '(ddof, vals, out) := c in same_floatV (var_f64 ddof vals) out.
