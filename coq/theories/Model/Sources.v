(* The statements of the functions the hand models transcribe, as they were when the models were last examined
   against them (written by tools/sync_pins.py; compared with Gen/SourcesGen.v, regenerated from /repo on every run,
   in Proofs/Pin*.v). *)
From Coq Require Import List String.
Import ListNotations.
Open Scope string_scope.

(* numba: _build_target_for_groupby *)
Definition src_build_target_for_groupby : list string :=
  ["def _build_target_for_groupby(np_type, operation: str, shape)";
   "if operation in ('count', 'nancount')";
   "target = np.zeros(shape, dtype=bool)";
   "return target";
   "end";
   "dtype = np_type";
   "if 'sum' in operation";
   "if np_type.kind in 'iub'";
   "dtype = 'uint64' if np_type.kind == 'u' else 'int64'";
   "end";
   "initial_value = 0";
   "else";
   "initial_value = _null_value_for_numpy_type(np.dtype(dtype))";
   "end";
   "target = np.full(shape, initial_value, dtype=dtype)";
   "return target"].

(* numba: _group_by_reduce *)
Definition src_group_by_reduce : list string :=
  ["@nb.njit(nogil=True, cache=True) def _group_by_reduce(group_key: np.ndarray, values: np.ndarray, target: np.ndarray, reduce_func: Callable, indexer: Optional[np.ndarray]=None, check_in_bounds: bool=True)";
   "count = np.full(len(target), 0, dtype='int64')";
   "if indexer is None";
   "for i in range(len(group_key))";
   "key = group_key[i]";
   "if key < 0";
   "continue";
   "end";
   "target[key], count[key] = reduce_func(target[key], values[i], count[key])";
   "end";
   "else";
   "n_rows = len(group_key)";
   "for i in indexer";
   "if check_in_bounds and i >= n_rows";
   "raise ValueError(f'Indexer {i} is out of bounds for array of length {n_rows}')";
   "end";
   "key = group_key[i]";
   "if key < 0";
   "continue";
   "end";
   "target[key], count[key] = reduce_func(target[key], values[i], count[key])";
   "end";
   "end";
   "return (target, count)"].

(* numba: _apply_group_method_single_chunk *)
Definition src_apply_group_method_single_chunk : list string :=
  ["@check_data_inputs_aligned('group_key', 'values') def _apply_group_method_single_chunk(reduce_func_name: str, group_key: ArrayType1D, values: ArrayType1D, ngroups: int, mask: Optional[ArrayType1D]=None)";
   "group_key = _val_to_numpy(group_key)";
   "if mask is not None and mask.dtype.kind == 'b'";
   "if len(mask) != len(group_key)";
   "raise ValueError('Mask must have the same length as group_key')";
   "end";
   "indexer = mask.nonzero()[0]";
   "check_in_bounds = False";
   "else";
   "indexer = mask";
   "check_in_bounds = True";
   "end";
   "target = _build_target_for_groupby(values.dtype, reduce_func_name, ngroups)";
   "return _group_by_reduce(group_key=group_key, values=values, target=target, indexer=indexer, reduce_func=getattr(ScalarFuncs, reduce_func_name), check_in_bounds=check_in_bounds)"].

(* numba: _chunk_groupby_args *)
Definition src_chunk_groupby_args : list string :=
  ["def _chunk_groupby_args(n_chunks: int, reduce_func_name: str, group_key: np.ndarray, values: List[np.ndarray] | np.ndarray | None, ngroups: int, mask: Optional[np.ndarray]=None)";
   "kwargs = locals().copy()";
   "del kwargs['n_chunks']";
   "if isinstance(values, NumbaList)";
   "if mask is not None and mask.dtype.kind in 'ui'";
   "assert isinstance(values, np.ndarray), 'Fancy indexing with chunked args is not allowed'";
   "end";
   "chunked_args = [kwargs | chunk for chunk in _chunk_args_for_chunked_values(group_key, values, mask)]";
   "else";
   "if mask is not None";
   "if mask.dtype.kind == 'b'";
   "mask = mask.nonzero()[0]";
   "end";
   "chunked_args = (kwargs | dict(mask=chunk) for chunk in np.array_split(mask, n_chunks))";
   "else";
   "chunked_args = [kwargs | chunk for chunk in _chunk_args_for_unchunked_values(group_key, values, n_chunks)]";
   "end";
   "end";
   "return [signature(_apply_group_method_single_chunk).bind_partial(**chunk) for chunk in chunked_args]"].

(* numba: reduce_array_pair *)
Definition src_reduce_array_pair : list string :=
  ["@nb.njit(parallel=True, cache=True) def reduce_array_pair(x: np.ndarray, y: np.ndarray, reducer: Callable, counts: Optional[np.ndarray]=None, y_counts: Optional[np.ndarray]=None)";
   "out = x.copy()";
   "for i in nb.prange(len(x))";
   "if y_counts is not None and y_counts[i] == 0";
   "continue";
   "end";
   "if counts is None";
   "count = 1";
   "else";
   "count = counts[i]";
   "end";
   "out[i] = reducer(x[i], y[i], count=count)[0]";
   "end";
   "return out"].

(* numba: combine_chunk_results_for_factorized_key *)
Definition src_combine_chunk_results : list string :=
  ["def combine_chunk_results_for_factorized_key(reduce_func_name: str, chunks: List[np.ndarray], counts: Optional[List[np.ndarray]]=None)";
   "combined = chunks[0]";
   "reducer = getattr(ScalarFuncs, reduce_func_name)";
   "if counts is None";
   "for chunk in chunks[1:]";
   "combined = reduce_array_pair(combined, chunk, reducer)";
   "end";
   "return (combined, 0)";
   "end";
   "combined_count = counts[0]";
   "for (chunk, count) in zip(chunks[1:], counts[1:])";
   "combined = reduce_array_pair(combined, chunk, reducer, counts=combined_count, y_counts=count)";
   "combined_count = combined_count + count";
   "end";
   "return (combined, combined_count)"].

(* numba: _group_func_wrap *)
Definition src_group_func_wrap : list string :=
  ["def _group_func_wrap(reduce_func_name: str, group_key: ArrayType1D, values: ArrayType1D, ngroups: int, mask: Optional[ArrayType1D]=None, n_threads: int=1, return_count: bool=False)";
   "if isinstance(mask, slice)";
   "values = values[mask]";
   "group_key = group_key[mask]";
   "mask = None";
   "end";
   "group_key = _val_to_numpy(group_key)";
   "values = _val_to_numpy(values, as_list=True)";
   "values_are_chunked = len(values) > 1";
   "fancy_indexing = False";
   "if mask is not None";
   "mask = _val_to_numpy(mask)";
   "if mask.dtype.kind in 'ui'";
   "fancy_indexing = True";
   "end";
   "end";
   "values, orig_types = zip(*list(map(_cast_timestamps_to_ints, values)))";
   "orig_type = orig_types[0]";
   "if 'sum_squares' in reduce_func_name";
   "values = [v.astype(float) for v in values]";
   "end";
   "if values_are_chunked";
   "if fancy_indexing";
   "values = np.concatenate(values)";
   "values_are_chunked = False";
   "else";
   "values = NumbaList(values)";
   "end";
   "else";
   "values = values[0]";
   "end";
   "kwargs = dict(group_key=group_key, values=values, ngroups=ngroups, mask=mask, reduce_func_name=reduce_func_name)";
   "counting = 'count' in reduce_func_name";
   "if n_threads == 1 and (not values_are_chunked)";
   "result, count = _apply_group_method_single_chunk(**kwargs)";
   "if counting";
   "result = count";
   "end";
   "else";
   "chunked_args = _chunk_groupby_args(**kwargs, n_chunks=n_threads)";
   "chunks = parallel_map(_apply_group_method_single_chunk, [args.args for args in chunked_args])";
   "chunks, counts = zip(*chunks)";
   "if counting";
   "chunks = counts";
   "end";
   "result, count = combine_chunk_results_for_factorized_key('sum' if counting or 'sum' in reduce_func_name else reduce_func_name, chunks, counts)";
   "end";
   "if orig_type.kind in 'mM'";
   "result = result.astype(orig_type)";
   "end";
   "if return_count";
   "return (result, count)";
   "else";
   "return result";
   "end"].

(* numba: group_mean *)
Definition src_group_mean : list string :=
  ["def group_mean(group_key: ArrayType1D, values: ArrayType1D, ngroups: int, mask: Optional[ArrayType1D]=None, n_threads: int=1, return_count: bool=False)";
   "kwargs = locals().copy()";
   "kwargs['return_count'] = True";
   "sum_, count = _group_func_wrap('nansum', **kwargs)";
   "sum_, orig_type = _cast_timestamps_to_ints(sum_)";
   "mean = sum_ / count";
   "if orig_type.kind in 'mM'";
   "mean = mean.astype(orig_type)";
   "end";
   "return (mean, count) if return_count else mean"].

(* core: GroupBy._apply_gb_func_across_chunked_group_keys *)
Definition src_apply_across_chunked_keys : list string :=
  ["def _apply_gb_func_across_chunked_group_keys(self, func_name: str, value_list, mask=None)";
   "group_key, first_chunk_in, mask_chunks = self._resolve_mask_argument_into_chunks(mask)";
   "group_keys = group_key.chunks if self.key_is_chunked else [group_key]";
   "group_key_lengths = [len(k) for k in group_keys]";
   "func = getattr(numba_funcs, f'group_{func_name}')";
   "n_values = len(value_list)";
   "arg_list = []";
   "if self.key_is_chunked";
   "threads_for_one_call = 1";
   "else";
   "n_cpus = multiprocessing.cpu_count()";
   "max_threads = 2 * n_cpus - 1";
   "threads_for_one_call = max(1, max_threads // len(value_list))";
   "threads_for_one_call = min(threads_for_one_call, self._max_threads_for_numba)";
   "end";
   "for values in value_list";
   "if isinstance(mask, slice)";
   "values = values[mask]";
   "end";
   "value_chunks = array_split_with_chunk_handling(values, chunk_lengths=group_key_lengths)";
   "for (i, group_key) in enumerate(group_keys)";
   "pointer = self._group_key_pointers[first_chunk_in + i] if self._group_key_pointers is not None else self.result_index";
   "bound_args = signature(func).bind(values=value_chunks[i], group_key=group_key, mask=mask_chunks[i], ngroups=len(pointer) + 1 if pointer is not None else self.ngroups + 1, n_threads=threads_for_one_call, return_count=True)";
   "arg_list.append(bound_args.args)";
   "end";
   "end";
   "results, counts = zip(*parallel_map(func, arg_list))";
   "if not self.key_is_chunked";
   "return list(zip(results, counts))";
   "end";
   "individual_results = []";
   "if func_name in ('size', 'count', 'sum', 'sum_squares')";
   "reducer = numba_funcs.ScalarFuncs.sum";
   "else";
   "if hasattr(numba_funcs.ScalarFuncs, f'nan{func_name}')";
   "reducer = getattr(numba_funcs.ScalarFuncs, f'nan{func_name}')";
   "else";
   "reducer = getattr(numba_funcs.ScalarFuncs, func_name)";
   "end";
   "end";
   "for i in range(n_values)";
   "slice_ = slice(i * len(group_keys), (i + 1) * len(group_keys))";
   "results_one_value = results[slice_]";
   "time_dtype = results_one_value[0].dtype if results_one_value[0].dtype.kind in 'mM' else None";
   "if time_dtype is not None";
   "results_one_value = [r.view('int64') for r in results_one_value]";
   "end";
   "combined = numba_funcs._build_target_for_groupby(results_one_value[0].dtype, 'sum' if func_name in ('size', 'count') else func_name, len(self._result_index) + 1)";
   "counts_one_value = counts[slice_]";
   "count = np.zeros(len(self._result_index), dtype=np.int64)";
   "for (j, result) in enumerate(results_one_value)";
   "result = result[:-1]";
   "if self._group_key_pointers is None";
   "pointer = slice(None)";
   "else";
   "pointer = self._group_key_pointers[first_chunk_in + j]";
   "end";
   "chunk_count = counts_one_value[j][:-1]";
   "combined[pointer] = numba_funcs.reduce_array_pair(combined[pointer], result, reducer=reducer, counts=count[pointer], y_counts=chunk_count)";
   "count[pointer] += chunk_count";
   "end";
   "if time_dtype is not None";
   "combined = combined.view(time_dtype)";
   "end";
   "individual_results.append((combined, count))";
   "end";
   "return individual_results"].

(* factorization: _combine_factorizations *)
Definition src_combine_factorizations : list string :=
  ["@nb.njit(cache=True) def _combine_factorizations(codes: np.ndarray, code_weights: np.ndarray, code_tracker: Union[np.ndarray, nb.typed.Dict])";
   "combined_codes = np.zeros(len(codes), dtype='int64')";
   "uniques = codes";
   "group_id = 0";
   "tracker_is_array = len(code_tracker) > 0";
   "for i in range(len(combined_codes))";
   "k = _weight_code_sum(codes[i], code_weights)";
   "if k == -1";
   "combined_codes[i] = -1";
   "else";
   "if tracker_is_array";
   "code = code_tracker[k]";
   "else";
   "if k in code_tracker";
   "code = code_tracker[k]";
   "else";
   "code = -1";
   "end";
   "end";
   "if code == -1";
   "code_tracker[k] = group_id";
   "combined_codes[i] = group_id";
   "uniques[group_id] = codes[i]";
   "group_id += 1";
   "else";
   "combined_codes[i] = code_tracker[k]";
   "end";
   "end";
   "end";
   "return (combined_codes, uniques[:group_id])"].

(* factorization: _monotonic_factorization *)
Definition src_monotonic_factorization : list string :=
  ["@nb.njit(cache=True) def _monotonic_factorization(arr_list, total_len)";
   "codes = np.empty(total_len, dtype=np.uint32)";
   "labels = np.empty(total_len, dtype=arr_list[0].dtype)";
   "arr_num = 0";
   "arr = arr_list[arr_num]";
   "if arr[0] != arr[0]";
   "return (0, codes, labels[:0])";
   "end";
   "labels[0] = arr[0]";
   "n_labels = 1";
   "codes[0] = 0";
   "prev = arr[0]";
   "cur_arr_pos = 0";
   "for i in range(1, total_len)";
   "cur_arr_pos += 1";
   "if cur_arr_pos == len(arr)";
   "arr_num += 1";
   "arr = arr_list[arr_num]";
   "cur_arr_pos = 0";
   "end";
   "x = arr[cur_arr_pos]";
   "if x < prev or x != x";
   "return (i, codes, labels[:n_labels])";
   "else";
   "if x > prev";
   "labels[n_labels] = x";
   "n_labels += 1";
   "end";
   "end";
   "codes[i] = n_labels - 1";
   "prev = x";
   "end";
   "return (i + 1, codes, labels[:n_labels])"].

(* factorization: factorize_2d *)
Definition src_factorize_2d : list string :=
  ["def factorize_2d(*vals, sort: bool=False, factorize_in_parallel: bool=True, use_dict_limit: int=500000000)";
   "if factorize_in_parallel";
   "factored = parallel_map(lambda x: factorize_1d(x, sort=False), list(zip(vals)))";
   "else";
   "factored = [factorize_1d(x, sort=False) for x in vals]";
   "end";
   "codes_list, labels = zip(*factored)";
   "shape = list(map(len, labels))";
   "code_arr = np.vstack(codes_list).T";
   "def combine(code_arr, shape)";
   "code_weights = np.cumprod(shape)";
   "code_weights, cartesian_product_size = (code_weights[-1] // code_weights, code_weights[-1])";
   "if cartesian_product_size < use_dict_limit";
   "code_tracker = np.full(cartesian_product_size, -1, dtype='int32')";
   "else";
   "code_tracker = nb.typed.Dict.empty(nb.types.int64, nb.types.int64)";
   "end";
   "return _combine_factorizations(code_arr, code_weights=code_weights, code_tracker=code_tracker)";
   "end";
   "leading = None";
   "while len(shape) > 2 and math.prod(map(int, shape)) >= MAX_CARTESIAN_PRODUCT";
   "folded_codes, folded_uniques = combine(code_arr[:, :2].copy(), shape[:2])";
   "if leading is None";
   "leading = folded_uniques";
   "else";
   "leading = np.column_stack([leading[folded_uniques[:, 0]], folded_uniques[:, 1]])";
   "end";
   "code_arr = np.column_stack([folded_codes, code_arr[:, 2:]])";
   "shape = [len(folded_uniques), *shape[2:]]";
   "end";
   "combined_codes, uniques = combine(code_arr, shape)";
   "if leading is not None";
   "uniques = np.column_stack([leading[uniques[:, 0]], uniques[:, 1:]])";
   "end";
   "multi_index = pd.MultiIndex(codes=list(uniques.T), levels=labels, names=[get_array_name(lvl) for lvl in labels])";
   "if sort and len(multi_index) > 0";
   "argsort = multi_index.argsort()";
   "null = combined_codes == -1";
   "combined_codes = np.argsort(argsort)[combined_codes]";
   "combined_codes[null] = -1";
   "multi_index = multi_index[argsort]";
   "end";
   "return (combined_codes, multi_index)"].

(* core: GroupBy._build_group_sorted_indexer_numba *)
Definition src_build_group_sorted_indexer : list string :=
  ["@staticmethod @nb.njit(nogil=True, cache=True) def _build_group_sorted_indexer_numba(group_key_list: NumbaList[np.ndarray], group_counts: np.ndarray, key_map: Optional[np.ndarray]=None, mask: Optional[np.ndarray]=None)";
   "ngroups = len(group_counts)";
   "group_starts = np.zeros(ngroups + 1, dtype=np.int64)";
   "for i in range(ngroups)";
   "group_starts[i + 1] = group_starts[i] + group_counts[i]";
   "end";
   "total_valid = group_starts[ngroups]";
   "indexer = np.zeros(total_valid, dtype=np.int64)";
   "current_pos = group_starts[:-1].copy()";
   "i = 0";
   "unmasked = mask is None";
   "mapping = key_map is not None";
   "for arr in group_key_list";
   "for k in arr";
   "if k >= 0 and (unmasked or mask[i])";
   "if mapping";
   "k = key_map[k]";
   "end";
   "pos = current_pos[k]";
   "indexer[pos] = i";
   "current_pos[k] += 1";
   "end";
   "i += 1";
   "end";
   "end";
   "return indexer"].

(* core: GroupBy._apply_gb_reduction *)
Definition src_apply_gb_reduction : list string :=
  ["def _apply_gb_reduction(self, func_name: str, values: Optional[ArrayCollection]=None, mask: Optional[ArrayType1D]=None, transform: bool=False, margins: bool=False, observed_only: bool=True)";
   "if transform and margins";
   "raise ValueError('Cannot use transform and margins together')";
   "end";
   "effective_func_name = func_name";
   "func_is_mean = func_name == 'mean'";
   "if func_is_mean";
   "effective_func_name = 'sum'";
   "end";
   "value_names, value_list, type_list, common_index = self._preprocess_arguments(values, mask)";
   "return_polars = self._values_is_polars(type_list) and transform";
   "results = self._apply_gb_func_across_chunked_group_keys(effective_func_name, value_list=value_list, mask=mask)";
   "result_columns, counts = map(list, zip(*results))";
   "result_len = len(self.result_index)";
   "if transform";
   "self._unify_group_key_chunks()";
   "if func_is_mean";
   "means = []";
   "for (result, count) in zip(result_columns, counts)";
   "count = np.append(count[:result_len], 0)";
   "with np.errstate(invalid='ignore', divide='ignore')";
   "means.append(mean_from_sum_count(pd.Series(result), pd.Series(count)).to_numpy())";
   "end";
   "end";
   "result_columns = means";
   "end";
   "result_columns = [result[self.group_ikey] for result in result_columns]";
   "if common_index is not None";
   "result_index = common_index";
   "else";
   "if getattr(self, '_key_index', None) is not None";
   "result_index = self._key_index";
   "else";
   "result_index = pd.RangeIndex(len(self))";
   "end";
   "end";
   "else";
   "result_index = self.result_index";
   "end";
   "result_col_names = self._col_names_from_value_names(value_names)";
   "if return_polars";
   "result_columns = [self._convert_arr_to_polars_series(arr=result, orig_type=orig_type) for result, orig_type in zip(result_columns, type_list)]";
   "result_df = pl.DataFrame(dict(zip(result_col_names, result_columns)))";
   "else";
   "result_columns = [self._convert_arr_to_pandas_series(arr=result[:len(result_index)], orig_type=orig_type, index=result_index) for result, orig_type in zip(result_columns, type_list)]";
   "result_df = pd.DataFrame(dict(zip(result_col_names, result_columns)), copy=False)";
   "end";
   "result = self._maybe_squeeze_to_1d(result_df, values, len(value_list))";
   "if transform";
   "return result";
   "end";
   "count_df = pd.DataFrame({key: count[:result_len] for key, count in zip(result_col_names, counts)}, index=result_index, copy=False)";
   "if func_name in ('size', 'count')";
   "result_df = count_df";
   "end";
   "sortkey = self._labels_argsort";
   "if observed_only";
   "observed = count_df.iloc[:, 0].values > 0";
   "if func_name != 'size' and (not observed.all())";
   "if mask is not None";
   "observed = self.count_ikey(mask=mask) > 0";
   "else";
   "observed = self.ikey_count > 0";
   "end";
   "end";
   "if isinstance(sortkey, np.ndarray)";
   "observed = sortkey[observed[sortkey]]";
   "result_df = result_df.iloc[observed]";
   "count_df = count_df.iloc[observed]";
   "else";
   "result_df = result_df.loc[observed]";
   "count_df = count_df.loc[observed]";
   "end";
   "else";
   "result_df = result_df.iloc[sortkey]";
   "count_df = count_df.iloc[sortkey]";
   "end";
   "if margins";
   "timestamps = {k: dtype for k, dtype in result_df.dtypes.items() if effective_func_name == 'sum' and dtype.kind in 'mM'}";
   "if timestamps";
   "result_df = pd.DataFrame({k: self._add_margins(result_df[k].astype('int64'), margins, 'sum').astype(timestamps[k]) if k in timestamps else self._add_margins(result_df[k], margins, 'sum') for k in result_df})";
   "else";
   "result_df = self._add_margins(result_df, margins=margins, func_name=effective_func_name)";
   "end";
   "if func_is_mean";
   "count_df = self._add_margins(count_df, margins=margins, func_name='sum')";
   "end";
   "end";
   "if func_is_mean";
   "with np.errstate(invalid='ignore', divide='ignore')";
   "result_df = pd.DataFrame({k: mean_from_sum_count(result_df[k], count_df[k].reindex(result_df.index)) for k in result_df})";
   "end";
   "end";
   "return self._maybe_squeeze_to_1d(result_df, values, len(value_list))"].

(* numba: _cumulative_reduce *)
Definition src_cumulative_reduce : list string :=
  ["@nb.njit(nogil=True, fastmath=False, cache=True) def _cumulative_reduce(group_key: np.ndarray, values: np.ndarray, reduce_func: Callable, ngroups: int, target: np.ndarray, mask: Optional[np.ndarray]=None)";
   "masked = mask is not None";
   "group_last_seen = np.full(ngroups, -1)";
   "group_count = np.zeros(ngroups, dtype='uint32')";
   "i = -1";
   "has_null_key = False";
   "for arr in values";
   "for val in arr";
   "i += 1";
   "key = group_key[i]";
   "if key < 0";
   "has_null_key = True";
   "continue";
   "end";
   "last_seen = group_last_seen[key]";
   "if masked and (not mask[i])";
   "if last_seen >= 0";
   "target[i] = target[last_seen]";
   "end";
   "continue";
   "end";
   "target[i], group_count[key] = reduce_func(target[last_seen], val, group_count[key])";
   "group_last_seen[key] = i";
   "end";
   "end";
   "return (target, has_null_key)"].

(* numba: _apply_cumulative *)
Definition src_apply_cumulative : list string :=
  ["def _apply_cumulative(operation: str, group_key: ArrayType1D, values: ArrayType1D | None, ngroups: int, mask: Optional[ArrayType1D]=None, skip_na: bool=True, use_py_func: bool=False)";
   "group_key = _val_to_numpy(group_key)";
   "if mask is not None";
   "mask = _val_to_numpy(mask)";
   "if mask.dtype.kind != 'b'";
   "raise TypeError('mask must be a boolean array')";
   "end";
   "end";
   "try";
   "name = 'nan' + operation if skip_na else operation";
   "reduce_func = getattr(ScalarFuncs, name)";
   "except AttributeError";
   "raise ValueError(f'Unsupported cumulative operation: {name}')";
   "end";
   "if values is None";
   "raise ValueError(f'values cannot be None for operation '{operation}'')";
   "end";
   "counting = 'count' in operation";
   "values = _val_to_numpy(values, as_list=True)";
   "_check_row_aligned_lengths(group_key, values, mask)";
   "values, orig_dtypes = zip(*list(map(_cast_timestamps_to_ints, values)))";
   "values = NumbaList(values)";
   "orig_dtype = orig_dtypes[0]";
   "if name == 'sum' and orig_dtype.kind in 'mM'";
   "reduce_func = ScalarFuncs.nullsum";
   "end";
   "target = _build_target_for_groupby(np.dtype('int64') if counting else values[0].dtype, 'sum' if counting else operation, len(group_key))";
   "func = _cumulative_reduce.py_func if use_py_func else _cumulative_reduce";
   "result, has_null_keys = func(group_key=group_key, values=values, reduce_func=reduce_func, ngroups=ngroups, mask=mask, target=target)";
   "if has_null_keys";
   "if 'count' in operation";
   "na_rep = 0";
   "else";
   "na_rep = _null_value_for_numpy_type(result.dtype)";
   "end";
   "result[np.asarray(group_key) < 0] = na_rep";
   "end";
   "if orig_dtype.kind in 'mM'";
   "result = result.astype(orig_dtype)";
   "end";
   "return result"].

(* numba: _rolling_max_or_min_1d *)
Definition src_rolling_max_or_min_1d : list string :=
  ["@nb.njit(nogil=True, fastmath=False, cache=True) def _rolling_max_or_min_1d(group_key: np.ndarray, values: np.ndarray, ngroups: int, window: int, min_periods: Optional[int]=None, mask: Optional[np.ndarray]=None, null_value=np.nan, want_max: bool=True)";
   "if min_periods is None";
   "min_periods = window";
   "end";
   "out = np.full(len(group_key), null_value)";
   "masked = mask is not None";
   "want_min = not want_max";
   "current_best = np.full(ngroups, null_value)";
   "pos_of_current_best = np.zeros(ngroups, dtype=np.int64)";
   "group_buffers = np.full((ngroups, window), null_value)";
   "group_buffer_pos = np.zeros(ngroups, dtype=np.int64)";
   "group_non_null = np.zeros(ngroups, dtype=np.int64)";
   "group_n_seen = np.zeros(ngroups, dtype=np.int64)";
   "i = -1";
   "for arr in values";
   "for val in arr";
   "i += 1";
   "key = group_key[i]";
   "if key < 0";
   "continue";
   "end";
   "if masked and (not mask[i])";
   "continue";
   "end";
   "val_is_null = is_null(val)";
   "pos = group_buffer_pos[key]";
   "cur_best = current_best[key]";
   "need_recalc = pos == pos_of_current_best[key]";
   "need_recalc = True";
   "n_seen = group_n_seen[key]";
   "group_full = n_seen >= window";
   "if group_full";
   "to_remove = group_buffers[key, pos]";
   "if not is_null(to_remove)";
   "group_non_null[key] -= 1";
   "end";
   "end";
   "group_buffers[key, pos] = val";
   "if not val_is_null";
   "if group_non_null[key] == 0 or (want_max and val >= cur_best) or (want_min and val <= cur_best)";
   "current_best[key] = val";
   "pos_of_current_best[key] = pos";
   "need_recalc = False";
   "end";
   "group_non_null[key] += 1";
   "end";
   "if group_full and need_recalc";
   "window_vals = group_buffers[key]";
   "window_best, pos_of_best = min_or_max_and_position(window_vals, want_max)";
   "current_best[key] = window_best";
   "pos_of_current_best[key] = (pos_of_best - pos) % window";
   "end";
   "new_position = (pos + 1) % window";
   "group_buffer_pos[key] = new_position";
   "if not group_full";
   "group_n_seen[key] += 1";
   "end";
   "if group_non_null[key] >= min_periods";
   "out[i] = current_best[key]";
   "end";
   "end";
   "end";
   "return out"].

(* numba: min_or_max_and_position *)
Definition src_min_or_max_and_position : list string :=
  ["@nb.njit(nogil=True, cache=True) def min_or_max_and_position(arr, want_max: bool=True)";
   "i = 0";
   "while is_null(arr[i]) and i < len(arr) - 1";
   "i += 1";
   "end";
   "best = arr[i]";
   "best_pos = i";
   "for (j, v) in enumerate(arr[i + 1:], i)";
   "if is_null(v)";
   "continue";
   "end";
   "if want_max and v >= best or (not want_max and v <= best)";
   "best = v";
   "best_pos = j";
   "end";
   "end";
   "return (best, best_pos)"].

(* numba: _rolling_shift_or_diff_1d *)
Definition src_rolling_shift_or_diff_1d : list string :=
  ["@nb.njit(nogil=True, fastmath=False, cache=True) def _rolling_shift_or_diff_1d(group_key: np.ndarray, values: np.ndarray, ngroups: int, window: int, mask: Optional[np.ndarray]=None, null_value: float | int=np.nan, want_shift: bool=True)";
   "out = np.full(len(group_key), null_value)";
   "masked = mask is not None";
   "group_buffers = np.full((ngroups, window), null_value)";
   "group_buffer_pos = np.zeros(ngroups, dtype=np.int64)";
   "group_counts = np.zeros(ngroups, dtype=np.int64)";
   "i = -1";
   "for arr in values";
   "for val in arr";
   "i += 1";
   "key = group_key[i]";
   "if key < 0";
   "continue";
   "end";
   "if masked and (not mask[i])";
   "continue";
   "end";
   "pos = group_buffer_pos[key]";
   "if group_counts[key] >= window";
   "if want_shift";
   "out[i] = group_buffers[key, pos]";
   "else";
   "old_val = group_buffers[key, pos]";
   "if is_null(val) or is_null(old_val)";
   "out[i] = null_value";
   "else";
   "out[i] = val - old_val";
   "end";
   "end";
   "else";
   "group_counts[key] += 1";
   "end";
   "group_buffers[key, pos] = val";
   "group_buffer_pos[key] = (pos + 1) % window";
   "end";
   "end";
   "return out"].

(* emas: _ema_adjusted *)
Definition src_ema_adjusted : list string :=
  ["@nb.njit(nogil=True, cache=True) def _ema_adjusted(arr: np.ndarray, alpha: float)";
   "out = np.zeros_like(arr, dtype='float64')";
   "beta = 1 - alpha";
   "residual = 0";
   "residual_weights = 0";
   "for (i, x) in enumerate(arr)";
   "if np.isnan(x)";
   "out[i] = out[i - 1]";
   "else";
   "out[i] = (x + residual) / (1 + residual_weights)";
   "residual_weights += 1";
   "residual += x";
   "end";
   "residual *= beta";
   "residual_weights *= beta";
   "end";
   "return out"].

(* emas: _ema_time_weighted *)
Definition src_ema_time_weighted : list string :=
  ["@nb.njit(nogil=True, cache=True) def _ema_time_weighted(arr: np.ndarray, times: np.ndarray, halflife: int)";
   "out = np.zeros_like(arr, dtype='float64')";
   "if np.isnan(arr[0])";
   "out[0] = np.nan";
   "residual = 0.0";
   "residual_weights = 0.0";
   "else";
   "out[0] = arr[0]";
   "residual = out[0]";
   "residual_weights = 1.0";
   "end";
   "for (i, x) in enumerate(arr[1:], 1)";
   "hl = (times[i] - times[i - 1]) / halflife";
   "beta = np.exp(-np.log(2) * hl)";
   "residual *= beta";
   "residual_weights *= beta";
   "if np.isnan(x)";
   "out[i] = out[i - 1]";
   "else";
   "out[i] = (x + residual) / (1 + residual_weights)";
   "residual_weights += 1";
   "residual += x";
   "end";
   "end";
   "return out"].

(* emas: _ema_grouped *)
Definition src_ema_grouped : list string :=
  ["@nb.njit(nogil=True, cache=True) def _ema_grouped(group_key: np.ndarray, values: np.ndarray, alpha: float, ngroups: int, mask: Optional[np.ndarray]=None)";
   "out = np.zeros_like(values, dtype='float64')";
   "beta = 1 - alpha";
   "residuals = np.zeros(ngroups, dtype='float64')";
   "residual_weights = np.zeros(ngroups, dtype='float64')";
   "last_seen = np.full(ngroups, np.nan, dtype='float64')";
   "masked = mask is not None";
   "for (i, (k, x)) in enumerate(zip(group_key, values))";
   "if k < 0";
   "out[i] = np.nan";
   "continue";
   "end";
   "if np.isnan(x) or (masked and (not mask[i]))";
   "out[i] = last_seen[k]";
   "else";
   "out[i] = (x + residuals[k]) / (1 + residual_weights[k])";
   "residual_weights[k] += 1";
   "residuals[k] += x";
   "end";
   "residuals[k] *= beta";
   "residual_weights[k] *= beta";
   "last_seen[k] = out[i]";
   "end";
   "return out"].

(* emas: _ema_grouped_timed *)
Definition src_ema_grouped_timed : list string :=
  ["@nb.njit(nogil=True, cache=True) def _ema_grouped_timed(group_key: np.ndarray, values: np.ndarray, times: np.ndarray, halflife: int, ngroups: int, mask: Optional[np.ndarray]=None)";
   "out = np.zeros_like(values, dtype='float64')";
   "residuals = np.zeros(ngroups, dtype='float64')";
   "residual_weights = np.zeros(ngroups, dtype='float64')";
   "last_seen_times = np.zeros(ngroups, dtype='int64')";
   "seen = np.zeros(ngroups, dtype=np.bool_)";
   "last_seen = np.full(ngroups, np.nan, dtype='float64')";
   "masked = mask is not None";
   "for (i, (k, x)) in enumerate(zip(group_key, values))";
   "if k < 0";
   "out[i] = np.nan";
   "continue";
   "end";
   "if seen[k]";
   "hl = (times[i] - last_seen_times[k]) / halflife";
   "beta = np.exp(-np.log(2) * hl)";
   "residuals[k] *= beta";
   "residual_weights[k] *= beta";
   "end";
   "if np.isnan(x) or (masked and (not mask[i]))";
   "out[i] = last_seen[k]";
   "else";
   "out[i] = (x + residuals[k]) / (1 + residual_weights[k])";
   "residual_weights[k] += 1";
   "residuals[k] += x";
   "end";
   "last_seen_times[k] = times[i]";
   "seen[k] = True";
   "last_seen[k] = out[i]";
   "end";
   "return out"].

(* numba: _find_nth *)
Definition src_find_nth : list string :=
  ["@nb.njit(cache=True) def _find_nth(group_key: np.ndarray, ngroups: np.ndarray, n: int, mask: Optional[np.ndarray]=None)";
   "out = np.full(ngroups, -1, dtype=np.int64)";
   "seen = np.zeros(ngroups, dtype=np.int64)";
   "masked = mask is not None";
   "if n >= 0";
   "rng = range(len(group_key))";
   "else";
   "rng = range(len(group_key) - 1, -1, -1)";
   "n = -n - 1";
   "end";
   "for i in rng";
   "k = group_key[i]";
   "if k < 0";
   "continue";
   "end";
   "if masked and (not mask[i])";
   "continue";
   "end";
   "if seen[k] == n";
   "assert out[k] == -1";
   "out[k] = i";
   "end";
   "seen[k] += 1";
   "end";
   "return out"].

(* numba: _find_first_or_last_n *)
Definition src_find_first_or_last_n : list string :=
  ["@nb.njit(cache=True) def _find_first_or_last_n(group_key: np.ndarray, ngroups: np.ndarray, n: int, mask: Optional[np.ndarray]=None, forward: bool=True)";
   "out = np.full((ngroups, n), -1, dtype=np.int64)";
   "seen = np.zeros(ngroups, dtype=np.int64)";
   "masked = mask is not None";
   "if forward";
   "rng = range(len(group_key))";
   "else";
   "rng = range(len(group_key) - 1, -1, -1)";
   "end";
   "for i in rng";
   "k = group_key[i]";
   "if k < 0";
   "continue";
   "end";
   "if masked and (not mask[i])";
   "continue";
   "end";
   "j = seen[k]";
   "if j < n";
   "out[k, j] = i";
   "seen[k] += 1";
   "end";
   "end";
   "if not forward";
   "out = out[:, ::-1]";
   "end";
   "return out"].

(* core: GroupBy.var *)
Definition src_groupby_var : list string :=
  ["@groupby_method(_GB_REDUCTION_DOCSTRING, full_name='variance') def var(self, values: ArrayCollection, mask: Optional[ArrayType1D]=None, transform: bool=False, margins: bool=False, ddof: int=1, observed_only: bool=True)";
   "if transform and isinstance(values, (pl.Series, pl.DataFrame))";
   "result = self.var(values.to_pandas(), mask=mask, transform=True, ddof=ddof, observed_only=observed_only)";
   "return pl.from_pandas(result)";
   "end";
   "kwargs = dict(mask=mask, margins=margins, transform=transform, observed_only=observed_only)";
   "sq_sum = self._apply_gb_reduction('sum_squares', values=values, **kwargs)";
   "sum_sq = self.sum(values=values, **kwargs).to_numpy().astype(np.float64) ** 2";
   "count = self.count(values=values, **kwargs)";
   "var = (sq_sum - sum_sq / count) / (count - ddof)";
   "return var.clip(lower=0)"].

(* core: _validate_input_lengths_and_indexes *)
Definition src_validate_lengths_and_indexes : list string :=
  ["def _validate_input_lengths_and_indexes(arr_list: List[ArrayType1D])";
   "lengths = set(map(len, arr_list))";
   "if len(lengths) > 1";
   "raise ValueError(f'found more than one unique length: {lengths}')";
   "end";
   "indexes = _get_indexes_from_values(arr_list)";
   "if len(indexes) == 0";
   "return None";
   "end";
   "for (left, right) in zip(indexes, indexes[1:])";
   "if not left.equals(right)";
   "raise ValueError('Found different indices in the array_inputs')";
   "end";
   "end";
   "return indexes[0]"].

(* core: GroupBy._preprocess_arguments *)
Definition src_preprocess_arguments : list string :=
  ["def _preprocess_arguments(self, values: ArrayCollection, mask: Union[ArrayType1D, None])";
   "value_list, value_names = convert_data_to_arr_list_and_keys(values)";
   "if isinstance(values, (pd.DataFrame, pl.DataFrame))";
   "value_list, value_names = map(list, zip(*[(val, name) for val, name in zip(value_list, value_names) if series_is_numeric(val)]))";
   "end";
   "to_check = list(value_list)";
   "mask_is_boolean = mask is not None and (pd.api.types.is_bool_dtype(mask) or (isinstance(mask, (pl.Series, pa.Array, pa.ChunkedArray)) and np.asarray(mask).dtype.kind == 'b'))";
   "if mask_is_boolean";
   "to_check = [*to_check, mask]";
   "end";
   "common_index = _validate_input_lengths_and_indexes(to_check)";
   "input_len = len(to_check[0])";
   "type_list = [None] * len(value_list)";
   "for (i, val) in enumerate(value_list)";
   "if series_is_timestamp(val)";
   "value_list[i], type_list[i] = _convert_timestamp_to_tz_unaware(val)";
   "else";
   "type_list[i] = val.dtype if hasattr(val, 'dtype') else val.type";
   "end";
   "end";
   "if input_len != len(self)";
   "raise ValueError(f'Length of the input values ({input_len}) does not match length of group keys ({len(self)})')";
   "end";
   "if self._key_index is not None and common_index is not None";
   "if not self._key_index.equals(common_index)";
   "raise ValueError('Pandas index of inputs does not match that of the group keys')";
   "end";
   "end";
   "return (value_names, value_list, type_list, common_index)"].

(* util: check_data_inputs_aligned *)
Definition src_check_data_inputs_aligned : list string :=
  ["def check_data_inputs_aligned(*args_to_check, check_index: bool=True)";
   "def decorator(func: F)";
   "@wraps(func) def wrapper(*args, **kwargs)";
   "arguments = signature(func).bind(*args, **kwargs).arguments";
   "lengths = {}";
   "for (k, x) in arguments.items()";
   "if not args_to_check or k in args_to_check";
   "if x is not None";
   "lengths[k] = len(x)";
   "end";
   "end";
   "end";
   "if len(set(lengths.values())) > 1";
   "raise ValueError(f'{', '.join(lengths)} must have equal length. Got lengths: {lengths}')";
   "end";
   "if check_index";
   "pandas_args = [arg for arg in args if isinstance(arg, (pd.Series, pd.DataFrame))]";
   "if pandas_args";
   "first_index = pandas_args[0].index";
   "for arg in pandas_args[1:]";
   "if not first_index.equals(arg.index)";
   "raise ValueError('All pandas objects must share the same index')";
   "end";
   "end";
   "end";
   "end";
   "return func(*args, **kwargs)";
   "end";
   "return cast(F, wrapper)";
   "end";
   "return decorator"].

(* nanops: _nb_reduce *)
Definition src_nb_reduce : list string :=
  ["@nb.njit(nogil=True, cache=True) def _nb_reduce(reduce_func, arr, skipna: bool=True, initial_value=None)";
   "if initial_value is None";
   "if skipna";
   "loc, out = _get_first_non_null(arr)";
   "start = loc + 1";
   "if loc == -1";
   "return arr[0]";
   "end";
   "else";
   "start, out = (1, arr[0])";
   "if is_null(out)";
   "return out";
   "end";
   "end";
   "else";
   "start, out = (0, initial_value)";
   "end";
   "if skipna";
   "for j in range(start, len(arr))";
   "x = arr[j]";
   "if is_null(x)";
   "continue";
   "end";
   "out = reduce_func(out, x)";
   "end";
   "else";
   "for j in range(start, len(arr))";
   "x = arr[j]";
   "out = reduce_func(out, x)";
   "end";
   "end";
   "return out"].

(* nanops: reduce_1d *)
Definition src_reduce_1d : list string :=
  ["def reduce_1d(reduce_func_name: str, arr, skipna: bool=True, n_threads: int=None)";
   "reduce_func = getattr(NumbaReductionOps, reduce_func_name)";
   "is_datetime = np.issubdtype(arr.dtype, np.datetime64)";
   "is_timedelta = np.issubdtype(arr.dtype, np.timedelta64)";
   "is_count = reduce_func_name == 'count'";
   "if is_datetime and (not is_count)";
   "output_converter = pd.to_datetime";
   "else";
   "if is_timedelta and (not is_count)";
   "output_converter = pd.to_timedelta";
   "else";
   "output_converter = np.asarray";
   "end";
   "end";
   "if is_count";
   "kwargs = dict(skipna=True, initial_value=int(0))";
   "chunk_reduction = 'sum'";
   "else";
   "if 'sum' in reduce_func_name";
   "kwargs = dict(skipna=skipna, initial_value=0)";
   "chunk_reduction = 'sum'";
   "else";
   "kwargs = dict(skipna=skipna, initial_value=None)";
   "chunk_reduction = reduce_func_name";
   "end";
   "end";
   "if is_datetime or is_timedelta";
   "arr = arr.view('int64')";
   "end";
   "if n_threads is None";
   "n_threads = n_threads_from_array_length(len(arr))";
   "end";
   "if n_threads == 1";
   "result = output_converter(_nb_reduce(reduce_func=reduce_func, arr=arr, **kwargs))";
   "else";
   "chunks = parallel_map(lambda a: _nb_reduce(reduce_func=reduce_func, arr=a, **kwargs), list(zip(np.array_split(arr, n_threads))))";
   "chunks = output_converter(chunks)";
   "merge_skipna = skipna and chunk_reduction != 'sum'";
   "result = reduce_1d(chunk_reduction, chunks, skipna=merge_skipna, n_threads=1)";
   "end";
   "if is_count";
   "result = np.int64(result)";
   "end";
   "return result"].

(* util: _nb_dot *)
Definition src_nb_dot : list string :=
  ["@nb.njit(parallel=True, cache=True) def _nb_dot(a: List[np.ndarray], b: np.ndarray, out: np.ndarray)";
   "for row in nb.prange(len(a[0]))";
   "for col in nb.prange(len(b))";
   "out[row] += a[col][row] * b[col]";
   "end";
   "end";
   "return out"].

(* util: bools_to_categorical *)
Definition src_bools_to_categorical : list string :=
  ["def bools_to_categorical(df: pd.DataFrame, sep: str=' & ', na_rep='None', allow_duplicates=True)";
   "if na_rep in df";
   "raise ValueError(f'na_rep={na_rep} clashes with one of the column names')";
   "end";
   "min_bits = min([x for x in [8, 16, 32, 64] if x > df.shape[1]])";
   "bit_mask = nb_dot(df, 2 ** np.arange(df.shape[1], dtype=f'int{min_bits}'))";
   "uniques, codes = np.unique(bit_mask, return_inverse=True)";
   "cats = []";
   "for bit_mask in uniques";
   "labels = []";
   "for (i, col) in enumerate(df.columns)";
   "if bit_mask & 2 ** i";
   "labels.append(col)";
   "end";
   "end";
   "if labels";
   "if not allow_duplicates and len(labels) > 1";
   "raise ValueError('Some rows have more than one True value and allow_duplicates is False')";
   "end";
   "cat = sep.join(labels)";
   "else";
   "cat = na_rep";
   "end";
   "cats.append(cat)";
   "end";
   "out = pd.Categorical.from_codes(codes, cats)";
   "out = pd.Series(out, index=df.index)";
   "return out"].

(* util: pretty_cut *)
Definition src_pretty_cut : list string :=
  ["def pretty_cut(x: ArrayType1D, bins: ArrayType1D | List, precision: int=None)";
   "bins = np.array(bins)";
   "np_type = np.asarray(x).dtype";
   "bins = np.array(bins)";
   "is_integer = np_type.kind in 'ui' and bins.dtype.kind in 'ui'";
   "is_float = np_type.kind == 'f'";
   "is_timedelta = np_type.kind == 'm'";
   "if is_timedelta";
   "numeric_bins = pd.to_timedelta(bins)";
   "else";
   "numeric_bins = bins";
   "end";
   "sort_key = np.argsort(numeric_bins)";
   "bins = bins[sort_key]";
   "numeric_bins = numeric_bins[sort_key]";
   "if precision is None and (not is_integer)";
   "def get_decimals(x)";
   "x = str(x)";
   "int, *decimals = str(x).split('.')";
   "return len(decimals[0]) if decimals else 0";
   "end";
   "precision = max(map(get_decimals, bins))";
   "end";
   "labels = [f' <= {bins[0]}']";
   "for (left, right) in zip(bins, bins[1:])";
   "if is_integer";
   "left = str(left + is_integer)";
   "right = str(right)";
   "else";
   "if is_float";
   "left, right = (f'{x:.{precision}f}' for x in [left, right])";
   "end";
   "end";
   "if left == right";
   "labels.append(str(left))";
   "else";
   "labels.append(f'{left} - {right}')";
   "end";
   "end";
   "labels.append(f' > {bins[-1]}')";
   "codes = numeric_bins.searchsorted(x)";
   "if not is_integer";
   "codes[pd.Series(x).isnull()] = -1";
   "end";
   "out = pd.Categorical.from_codes(codes, pd.Index(labels))";
   "if isinstance(x, pd.Series)";
   "out = pd.Series(out, index=x.index, name=x.name)";
   "end";
   "return out"].

(* api: DataFrameGroupBy._from_by_keys *)
Definition src_dataframe_from_by_keys : list string :=
  ["@classmethod def _from_by_keys(cls, obj: Union[pd.DataFrame, pl.DataFrame], by=None, level=None)";
   "if not isinstance(obj, (pd.DataFrame, pl.DataFrame))";
   "raise TypeError('obj must be a pandas DataFrame')";
   "end";
   "if by is None and level is None";
   "raise ValueError('Must provide either 'by' or 'level' for grouping')";
   "end";
   "grouping_keys = []";
   "columns_used_as_keys = set()";
   "if by is not None";
   "if isinstance(by, tuple) and by in obj.columns";
   "by = [by]";
   "else";
   "if not isinstance(by, (list, tuple))";
   "by = [by]";
   "end";
   "end";
   "for key in by";
   "if hasattr(key, '__iter__') and (not isinstance(key, (str, bytes, tuple)))";
   "if hasattr(key, '__len__') and len(key) != len(obj)";
   "raise ValueError(f'Length of grouper ({len(key)}) != length of DataFrame ({len(obj)})')";
   "end";
   "grouping_keys.append(key)";
   "else";
   "if callable(key)";
   "grouping_keys.append(obj.index.map(key))";
   "else";
   "try";
   "if key in obj.columns";
   "grouping_keys.append(obj[key])";
   "columns_used_as_keys.add(key)";
   "else";
   "if hasattr(obj.index, 'names') and key in obj.index.names";
   "if isinstance(obj.index, pd.MultiIndex)";
   "level_idx = obj.index.names.index(key)";
   "grouping_keys.append(obj.index.get_level_values(level_idx))";
   "else";
   "grouping_keys.append(obj.index)";
   "end";
   "else";
   "raise KeyError(f'Column or index level '{key}' not found')";
   "end";
   "end";
   "except TypeError";
   "if hasattr(key, '__len__') and len(key) == len(obj)";
   "grouping_keys.append(key)";
   "else";
   "raise KeyError(f'Invalid grouping key: {key}')";
   "end";
   "end";
   "end";
   "end";
   "end";
   "end";
   "if level is not None";
   "if not isinstance(level, (list, tuple))";
   "levels = [level]";
   "else";
   "levels = level";
   "end";
   "for lv in levels";
   "grouping_keys.append(obj.index.get_level_values(lv))";
   "end";
   "end";
   "grouper = GroupBy(grouping_keys)";
   "value_columns = [col for col in obj.columns if col not in columns_used_as_keys]";
   "return cls(obj, grouper=grouper, value_columns=value_columns)"].

(* api: SeriesGroupBy._from_by_keys *)
Definition src_series_from_by_keys : list string :=
  ["@classmethod def _from_by_keys(cls, obj: pd.Series, by=None, level=None)";
   "if by is None and level is None";
   "raise ValueError('Must provide either 'by' or 'level' for grouping')";
   "end";
   "grouping_keys = []";
   "if by is not None";
   "if isinstance(by, (list, tuple))";
   "grouping_keys.extend(by)";
   "else";
   "grouping_keys.append(by)";
   "end";
   "end";
   "if level is not None";
   "if not isinstance(level, (list, tuple))";
   "levels = [level]";
   "else";
   "levels = level";
   "end";
   "for lv in levels";
   "grouping_keys.append(obj.index.get_level_values(lv))";
   "end";
   "end";
   "grouper = GroupBy(grouping_keys)";
   "return cls(obj, grouper=grouper)"].

(* core: crosstab *)
Definition src_crosstab : list string :=
  ["def crosstab(index: ArrayCollection, columns: ArrayCollection, values: Optional[ArrayCollection]=None, aggfunc: str='sum', mask: Optional[ArrayType1D]=None, margins: Literal[True, False, 'row', 'column']=False)";
   "index, index_names = convert_data_to_arr_list_and_keys(index)";
   "columns, index_columns = convert_data_to_arr_list_and_keys(columns)";
   "n0, n1 = (len(index), len(columns))";
   "levels = list(range(n0 + n1))";
   "n0, n1 = (len(index), len(columns))";
   "levels = list(range(n0 + n1))";
   "row_levels = levels[:n0]";
   "column_levels = levels[n0:]";
   "do_column_margin = margins in (True, 'column')";
   "do_row_margin = margins in (True, 'row')";
   "margin_levels = []";
   "if do_row_margin";
   "margin_levels += row_levels";
   "end";
   "if do_column_margin";
   "margin_levels += column_levels";
   "end";
   "grouper = GroupBy(index + columns, sort=False)";
   "if values is None";
   "aggregation = grouper.size(mask=mask, margins=margin_levels)";
   "else";
   "if aggfunc == 'size'";
   "raise ValueError('aggfunc == 'size' only valid when values is None. Try count instead (for count of non-null values)')";
   "else";
   "aggregation = grouper.agg(values=values, agg_func=aggfunc, mask=mask, margins=margin_levels)";
   "end";
   "end";
   "table = aggregation.unstack(level=column_levels)";
   "if not do_column_margin";
   "all_levels = grouper.result_index.levels";
   "if len(column_levels) == 1";
   "columns = all_levels[-1]";
   "else";
   "columns = pd.MultiIndex.from_product([all_levels[lvl] for lvl in column_levels])";
   "end";
   "table = table[[c for c in columns if c in table]]";
   "end";
   "return table"].
