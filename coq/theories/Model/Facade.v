(* The column-resolution rule of groupby_lib/groupby/api.py (DataFrameGroupBy._from_by_keys,
   __getitem__): columns named in `by` are key columns; the value columns are the other
   columns, in frame order; a [] selection replaces them. *)
From Coq Require Import List Bool Arith.
Import ListNotations.

Definition value_columns (columns : list nat) (key_columns : list nat) : list nat :=
  filter (fun c => negb (existsb (Nat.eqb c) key_columns)) columns.

Definition selected_columns (columns key_columns : list nat) (selection : option (list nat)) : list nat :=
  match selection with Some cols => cols | None => value_columns columns key_columns end.
