(* The GroupBy object as a state machine (groupby_lib/groupby/core.py).
   State: the key representation (_group_ikey + _group_key_pointers) and the cached
   per-group key counts.  Operations fall in three classes by what they do to the
   representation:
     OReduce     size/count/sum/mean/min/max/first/last/var/... : nothing
     OUnifyKeep  groups, apply, median, quantile, _group_sort_indexer : _unify_group_key_chunks(keep_chunked=True)
     OUnify      transform, head/tail/nth, cumulative, rolling, shift/diff, ema, unordered
                 positional masks : _unify_group_key_chunks()  (codes become one contiguous array)
   [abs] is the logical content: the global group code of every row. *)
From Coq Require Import List ZArith Lia Bool Arith.
From GL Require Import Lib.Arr Model.Dom Model.Scalar Model.Reduce Model.GroupByApi.
Import ListNotations.
Open Scope Z_scope.

Inductive keyrep :=
  | Contig (codes : list Z)
  | ChunkedLocal (chunks : list (list nat * list Z))     (* (pointer, chunk-local codes) *)
  | ChunkedGlobal (chunks : list (list Z)).              (* global codes, still chunked, no pointers *)

Definition abs (k : keyrep) : list Z :=
  match k with
  | Contig c => c
  | ChunkedLocal chs => concat (map (fun ch => unify_codes (fst ch) (snd ch)) chs)
  | ChunkedGlobal chs => concat chs
  end.

(* _unify_group_key_chunks(keep_chunked) *)
Definition unify (keep_chunked : bool) (k : keyrep) : keyrep :=
  match k with
  | Contig c => Contig c
  | ChunkedLocal chs =>
      let g := map (fun ch => unify_codes (fst ch) (snd ch)) chs in
      if keep_chunked then ChunkedGlobal g else Contig (concat g)
  | ChunkedGlobal chs => if keep_chunked then ChunkedGlobal chs else Contig (concat chs)
  end.

Inductive opclass := OReduce | OUnifyKeep | OUnify.

Record gbstate := { rep : keyrep; cached_count : option (list Z) }.

(* group_size of the codes: the cached ikey_count *)
Definition key_counts (ng : nat) (codes : list Z) : list Z :=
  map (fun g => Z.of_nat (length (filter (fun c => c =? Z.of_nat g) codes))) (seq 0 ng).

Definition step (ng : nat) (s : gbstate) (o : opclass) : gbstate :=
  match o with
  | OReduce => s
  | OUnifyKeep =>   (* _group_sort_indexer reads ikey_count (cached) after unifying *)
      {| rep := unify true (rep s);
         cached_count := match cached_count s with Some c => Some c | None => Some (key_counts ng (abs (rep s))) end |}
  | OUnify => {| rep := unify false (rep s); cached_count := cached_count s |}
  end.

Fixpoint map2 {A B C} (f : A -> B -> C) (l1 : list A) (l2 : list B) : list C :=
  match l1, l2 with a :: t1, b :: t2 => f a b :: map2 f t1 t2 | _, _ => [] end.

Section Results.
Context {V : Type} (o : ops V).

(* a reduction on the current representation; the values arrive split like the key chunks *)
Definition reduce_on (r : rname) (ng : nat) (k : keyrep) (vchunks : list (list V)) : list (V * Z) :=
  match k with
  | Contig c => chunk_cells o r ng (combine c (concat vchunks))
  | ChunkedLocal chs =>
      apply_across_chunks o r (core_merge r) ng (map2 (fun ch vc => (fst ch, combine (snd ch) vc)) chs vchunks)
  | ChunkedGlobal chs =>
      apply_across_chunks o r (core_merge r) ng (map2 (fun c vc => (seq 0 ng, combine c vc)) chs vchunks)
  end.
End Results.
