(* Hand model of groupby_lib/groupby/numba.py:ScalarFuncs — one definition per
   method, same branch order.  Gen/ScalarFuncsGen.v is regenerated from the
   Python source on every run and proved equal to these in Proofs/GenTie.v. *)
From Coq Require Import List ZArith Lia Bool.
From GL Require Import Model.Dom.
Import ListNotations.
Open Scope Z_scope.

Definition truthy (c : Z) : bool := negb (c =? 0).

Section Scalar.
Context {V : Type} (o : ops V).

Definition reducer := V -> V -> Z -> V * Z.

Definition r_sum (cur_sum next_val : V) (count : Z) : V * Z :=
  if truthy count then (add o cur_sum next_val, count + 1)
  else (next_val, count + 1).

(* non-skipping sum of timestamps / timedeltas: the in-band integer sentinel stays null *)
Definition r_nullsum (cur_sum next_val : V) (count : Z) : V * Z :=
  if truthy count then
    if is_null o cur_sum then (cur_sum, count + 1)
    else if is_null o next_val then (next_val, count + 1)
    else (add o cur_sum next_val, count + 1)
  else (next_val, count + 1).

Definition r_nansum (cur_sum next_val : V) (count : Z) : V * Z :=
  if is_null o next_val then (cur_sum, count)
  else if truthy count then (add o cur_sum next_val, count + 1)
  else (next_val, count + 1).

Definition r_nansum_squares (cur_sum next_val : V) (count : Z) : V * Z :=
  if is_null o next_val then (cur_sum, count)
  else if truthy count then (add o cur_sum (sq o next_val), count + 1)
  else (sq o next_val, count + 1).

Definition r_max (cur_max next_val : V) (count : Z) : V * Z :=
  if is_null o next_val then (next_val, count + 1)
  else if truthy count then
    if is_null o cur_max then (cur_max, count + 1)
    else ((if ltb o cur_max next_val then next_val else cur_max), count + 1)
  else (next_val, count + 1).

Definition r_nanmax (cur_max next_val : V) (count : Z) : V * Z :=
  if is_null o next_val then (cur_max, count)
  else if truthy count then
    ((if ltb o cur_max next_val then next_val else cur_max), count + 1)
  else (next_val, count + 1).

Definition r_min (cur_max next_val : V) (count : Z) : V * Z :=
  if is_null o next_val then (next_val, count + 1)
  else if truthy count then
    if is_null o cur_max then (cur_max, count + 1)
    else ((if ltb o next_val cur_max then next_val else cur_max), count + 1)
  else (next_val, count + 1).

Definition r_nanmin (cur_min next_val : V) (count : Z) : V * Z :=
  if is_null o next_val then (cur_min, count)
  else if truthy count then
    ((if ltb o next_val cur_min then next_val else cur_min), count + 1)
  else (next_val, count + 1).

Definition r_nancount (cur_count next_val : V) (count : Z) : V * Z :=
  if is_null o next_val then (of_count o count, count)
  else let new_count := count + 1 in (of_count o new_count, new_count).

Definition r_count (cur_size next_val : V) (count : Z) : V * Z :=
  let new_count := count + 1 in (of_count o new_count, new_count).

Definition r_first (cur_first next_val : V) (count : Z) : V * Z :=
  if is_null o next_val then (cur_first, count)
  else if truthy count then (cur_first, count + 1)
  else (next_val, count + 1).

Definition r_last (cur_last next_val : V) (count : Z) : V * Z :=
  if is_null o next_val then (cur_last, count + 1)
  else (next_val, count + 1).

Inductive rname :=
  | Rsum | Rnullsum | Rnansum | Rnansum_squares | Rmax | Rnanmax | Rmin | Rnanmin
  | Rnancount | Rcount | Rfirst | Rlast.

Definition reducer_of (r : rname) : reducer :=
  match r with
  | Rsum => r_sum | Rnullsum => r_nullsum | Rnansum => r_nansum | Rnansum_squares => r_nansum_squares
  | Rmax => r_max | Rnanmax => r_nanmax | Rmin => r_min | Rnanmin => r_nanmin
  | Rnancount => r_nancount | Rcount => r_count | Rfirst => r_first | Rlast => r_last
  end.

(* "sum" in name / "count" in name — the substring tests of the Python *)
Definition name_has_sum (r : rname) : bool :=
  match r with Rsum | Rnullsum | Rnansum | Rnansum_squares => true | _ => false end.
Definition name_has_count (r : rname) : bool :=
  match r with Rnancount | Rcount => true | _ => false end.

End Scalar.

(* Hand model of groupby_lib/util.py:NumbaReductionOps (binary reducers used by
   the stand-alone nan-reductions). *)
Section ReductionOps.
Context {V : Type} (o : ops V).
Definition op_count (x : Z) (y : V) : Z := x + 1.
(* a null operand is only met when nulls are not skipped: it makes the result null *)
Definition op_min (x y : V) : V := if is_null o x then x else if is_null o y then y else if leb o x y then x else y.
Definition op_max (x y : V) : V := if is_null o x then x else if is_null o y then y else if leb o y x then x else y.
Definition op_sum (x y : V) : V := add o x y.
Definition op_first (x y : V) : V := x.
Definition op_first_skipna (x y : V) : V := if is_null o x then y else x.
Definition op_last (x y : V) : V := y.
Definition op_last_skipna (x y : V) : V := if is_null o y then x else y.
Definition op_sum_square (x y : V) : V := add o x (sq o y).
End ReductionOps.

(* which reducer name(s) each public kernel wrapper passes on *)
From Coq Require Import String.
Open Scope string_scope.
Definition kernel_reducers : list (string * list string) :=
  [("cumcount", ["count"]); ("cummax", ["max"]); ("cummin", ["min"]); ("cumsum", ["sum"]);
   ("group_count", ["nancount"]); ("group_first", ["first"]); ("group_last", ["last"]);
   ("group_max", ["nanmax"]); ("group_mean", ["nansum"]); ("group_min", ["nanmin"]);
   ("group_size", ["count"]); ("group_sum", ["nansum"; "sum"]);
   ("group_sum_squares", ["nansum_squares"]);
   ("rolling_diff", ["diff"]); ("rolling_max", ["max"]); ("rolling_mean", ["mean"]);
   ("rolling_min", ["min"]); ("rolling_shift", ["shift"]); ("rolling_sum", ["sum"])].
(* reducers a dispatcher selects by attribute instead of by name: _apply_cumulative replaces the plain sum of a
   timestamp / timedelta column by the null-keeping one (Model/Cumulative.cum_reducer, temporal = true) *)
Definition direct_reducers : list (string * list string) := [("_apply_cumulative", ["nullsum"])].

Definition scalar_func_names : list string :=
  ["sum"; "nullsum"; "nansum"; "nansum_squares"; "max"; "nanmax"; "min"; "nanmin"; "nancount"; "count"; "first"; "last"].
