(* Model of groupby_lib/emas.py: _ema_adjusted, _ema_time_weighted, _ema_grouped,
   _ema_grouped_timed — exact arithmetic over Qc.  Per group: decayed numerator
   (residual), decayed denominator (residual_weights), previous output, and for the
   timed kernel whether the group was seen and its previous timestamp.  The decay
   of the timed kernels is a parameter [decay : Z -> Qc] (elapsed time -> factor);
   the executable instance counts time in whole halflives, decay k = (1/2)^k. *)
From Coq Require Import List ZArith Lia Bool Arith QArith Qcanon.
From GL Require Import Lib.Arr Lib.Keyed Model.Dom.
Import ListNotations.
Open Scope Z_scope.

Definition flq (x : fl) : Qc := match x with FFin q => q | FNan => 0%Qc end.

Record ecell := { res_ : Qc; wts : Qc; last_out : fl; seen_ : bool; last_t : Z }.
Definition ecell0 : ecell := {| res_ := 0%Qc; wts := 0%Qc; last_out := FNan; seen_ := false; last_t := 0 |}.

(* one row of _ema_grouped: payload (value, selected?) *)
Definition ema_step (beta : Qc) (c : ecell) (row : fl * bool) : ecell * fl :=
  let '(x, sel) := row in
  let valid := match x with FNan => false | _ => sel end in
  let out := if valid then FFin ((flq x + res_ c) / (1 + wts c))%Qc else last_out c in
  let r1 := if valid then (res_ c + flq x)%Qc else res_ c in
  let w1 := if valid then (wts c + 1)%Qc else wts c in
  ({| res_ := (r1 * beta)%Qc; wts := (w1 * beta)%Qc; last_out := out; seen_ := true; last_t := last_t c |}, out).

Definition ema_rows (gk : list Z) (vals : list fl) (mask : option (list bool)) := mk_rows gk vals mask.

Definition ema_grouped (gk : list Z) (vals : list fl) (alpha : Qc) (ngroups : nat)
    (mask : option (list bool)) : list fl :=
  kscan ecell0 (ema_step (1 - alpha)%Qc) FNan (ema_rows gk vals mask) (repeat ecell0 ngroups).

(* one row of _ema_grouped_timed: payload (value, selected?, time) *)
Definition ema_timed_step (decay : Z -> Qc) (c : ecell) (row : fl * bool * Z) : ecell * fl :=
  let '(x, sel, t) := row in
  let beta := if seen_ c then decay (t - last_t c) else 1%Qc in
  let r0 := (res_ c * beta)%Qc in
  let w0 := (wts c * beta)%Qc in
  let valid := match x with FNan => false | _ => sel end in
  let out := if valid then FFin ((flq x + r0) / (1 + w0))%Qc else last_out c in
  ({| res_ := (if valid then r0 + flq x else r0)%Qc; wts := (if valid then w0 + 1 else w0)%Qc;
      last_out := out; seen_ := true; last_t := t |}, out).

Definition ema_grouped_timed (decay : Z -> Qc) (gk : list Z) (vals : list fl) (times : list Z)
    (ngroups : nat) (mask : option (list bool)) : list fl :=
  kscan ecell0 (ema_timed_step decay) FNan
        (map (fun r => (fst r, (fst (fst (snd r)), snd (snd r), snd (fst (snd r))))) (mk_rows gk (combine vals times) mask))
        (repeat ecell0 ngroups).

(* ungrouped kernels *)
Fixpoint ema_adjusted_from (beta : Qc) (res w : Qc) (prev : fl) (arr : list fl) : list fl :=
  match arr with
  | [] => []
  | x :: t =>
      match x with
      | FNan => prev :: ema_adjusted_from beta (res * beta)%Qc (w * beta)%Qc prev t
      | FFin q => let out := FFin ((q + res) / (1 + w))%Qc in
                  out :: ema_adjusted_from beta ((res + q) * beta)%Qc ((w + 1) * beta)%Qc out t
      end
  end.
(* out[i-1] for i = 0 reads out[-1], the still-zero last cell of np.zeros_like *)
Definition ema_adjusted (arr : list fl) (alpha : Qc) : list fl :=
  ema_adjusted_from (1 - alpha)%Qc 0%Qc 0%Qc (FFin 0%Qc) arr.

(* decay used by the executable instance: elapsed time in whole halflives *)
Fixpoint half_pow (n : nat) : Qc := match n with O => 1%Qc | S m => (half_pow m / Q2Qc (inject_Z 2))%Qc end.
Definition decay_halflives (halflife : Z) (dt : Z) : Qc := half_pow (Z.to_nat (dt / halflife)).

(* The formulas the model stands for (regenerated table: Gen/TablesGen.gen_ema_formulas, tied in Proofs/GenTie.v):
   beta = 1 - alpha per group row; with times, beta = exp(-log 2 * dt / halflife) = (1/2)^(dt / halflife), a
   homomorphism from elapsed time to factors (the [decay] parameter of the timed kernels); halflife h counted in rows
   means alpha = 1 - exp(-log 2 / h) = 1 - 2^(-1/h). *)
From Coq Require Import String.
Open Scope string_scope.
Definition ema_formulas : list (string * string * string) :=
  [("_ema_adjusted", "beta", "1 - alpha");
   ("_ema_unadjusted", "beta", "1 - alpha");
   ("_ema_time_weighted", "hl", "(times[i] - times[i - 1]) / halflife");
   ("_ema_time_weighted", "beta", "np.exp(-np.log(2) * hl)");
   ("ema", "alpha", "1 - np.exp(-np.log(2) / halflife)");
   ("_ema_grouped", "beta", "1 - alpha");
   ("_ema_grouped_timed", "hl", "(times[i] - last_seen_times[k]) / halflife");
   ("_ema_grouped_timed", "beta", "np.exp(-np.log(2) * hl)");
   ("ema_grouped", "alpha", "1 - np.exp(-np.log(2) / halflife)")].
