(* Model of the input validators (groupby_lib/groupby/core.py:_validate_input_lengths_and_indexes,
   GroupBy._preprocess_arguments; groupby_lib/util.py:check_data_inputs_aligned) as decision
   functions.  An input is (length, index) where index = None for objects that are not pandas
   objects and Some id for a pandas index, two indexes being `.equals` iff their ids are equal. *)
From Coq Require Import List ZArith Lia Bool Arith.
Import ListNotations.

Definition input := (nat * option nat)%type.

Fixpoint all_eq (l : list nat) : bool :=
  match l with
  | [] | [_] => true
  | a :: ((b :: _) as t) => Nat.eqb a b && all_eq t
  end.

Fixpoint somes {A} (l : list (option A)) : list A :=
  match l with [] => [] | Some a :: t => a :: somes t | None :: t => somes t end.

(* lengths = set(map(len, arr_list)); if len(lengths) > 1: raise
   indexes = the pandas indexes; for left, right in zip(indexes, indexes[1:]): if not left.equals(right): raise *)
Definition validate_lengths_and_indexes (args : list input) : bool :=
  all_eq (map fst args) && all_eq (somes (map snd args)).

(* _preprocess_arguments: the values (and a boolean mask) are validated together, then compared
   with the keys: length equal to len(self), and — when both sides have a pandas index — equal *)
Definition preprocess_ok (key_len : nat) (key_index : option nat) (args : list input) : bool :=
  validate_lengths_and_indexes args &&
  match args with
  | [] => true
  | (len0, _) :: _ =>
      Nat.eqb len0 key_len &&
      match key_index, somes (map snd args) with
      | Some ki, ci :: _ => Nat.eqb ki ci
      | _, _ => true
      end
  end.

(* the definition of "aligned" the property uses *)
Definition aligned (key_len : nat) (key_index : option nat) (args : list input) : Prop :=
  (forall a, In a args -> fst a = key_len) /\
  (forall a i, In a args -> snd a = Some i -> forall b j, In b args -> snd b = Some j -> i = j) /\
  (forall ki a i, key_index = Some ki -> In a args -> snd a = Some i -> i = ki).
