(* Model of _cumulative_reduce / _apply_cumulative (cumsum, cummin, cummax, cumcount).
   Granularity: one (running value, count) cell per group.  In the Python the
   running value of a group is not a separate cell: it is read back from the output
   array at the group's previous accepted row (target[group_last_seen[k]], and
   target[-1] — still the fill value — before the first one); the cell here is
   that value.  Masked rows copy it to the output without changing it, null-key
   rows are post-filled with the null marker. *)
From Coq Require Import List ZArith Lia Bool Arith.
From GL Require Import Lib.Arr Lib.Keyed Model.Dom Model.Scalar.
Import ListNotations.
Open Scope Z_scope.

Section Cum.
Context {V : Type} (o : ops V).

Inductive cumop := CSum | CMin | CMax | CCount.

(* "nan" + operation if skip_na else operation; the plain sum of a timestamp / timedelta column
   (temporal = orig_dtype.kind in "mM") is replaced by the null-keeping one *)
Definition cum_reducer (temporal : bool) (op : cumop) (skip_na : bool) : rname :=
  match op, skip_na with
  | CSum, true => Rnansum | CSum, false => if temporal then Rnullsum else Rsum
  | CMin, true => Rnanmin | CMin, false => Rmin
  | CMax, true => Rnanmax | CMax, false => Rmax
  | CCount, true => Rnancount | CCount, false => Rcount
  end.

(* _build_target_for_groupby(dtype, "sum" if counting else operation, n) *)
Definition cum_init (op : cumop) : V :=
  match op with CSum => zero o | CCount => of_count o 0 | _ => null o end.
(* na_rep of the null-key post-fill *)
Definition cum_na (op : cumop) : V :=
  match op with CCount => of_count o 0 | _ => null o end.

Definition cum_step (rf : @reducer V) (cell : V * Z) (row : V * bool) : (V * Z) * V :=
  let '(v, sel) := row in
  if sel then let ac := rf (fst cell) v (snd cell) in (ac, fst ac)
  else (cell, fst cell).

Definition cumulative_t (temporal : bool) (op : cumop) (skip_na : bool) (gk : list Z) (vals : list V)
    (ngroups : nat) (mask : option (list bool)) : list V :=
  let rows := mk_rows gk vals mask in
  kscan (cum_init op, 0) (cum_step (reducer_of o (cum_reducer temporal op skip_na))) (cum_na op)
        rows (repeat (cum_init op, 0) ngroups).

(* numeric (non-temporal) columns *)
Definition cumulative := cumulative_t false.

(* ---- _cumulative_reduce as written, with its arrays ----
   target (the output, pre-filled with the initial value), group_last_seen, group_count.  The running value of a
   group is READ BACK from the output array at the group's previous accepted row; before the first one the code reads
   target[-1] — Python's last cell, which is still the fill value because rows are written in order.  Masked rows
   copy the value without becoming the "last seen" row.  The caller then overwrites null-key rows with na_rep. *)
Record astate := { a_target : list V; a_last : list Z; a_count : list Z }.

Definition array_step (rf : @reducer V) (init : V) (n : nat) (st : astate) (ir : nat * (Z * (V * bool))) : astate :=
  let '(i, (k, (v, sel))) := ir in
  if k <? 0 then st
  else
    let kk := Z.to_nat k in
    let ls := get (-1) (a_last st) kk in
    let at_ls := if ls <? 0 then get init (a_target st) (n - 1) else get init (a_target st) (Z.to_nat ls) in
    if negb sel then
      (if 0 <=? ls then {| a_target := upd (a_target st) i at_ls; a_last := a_last st; a_count := a_count st |} else st)
    else
      let ac := rf at_ls v (get 0 (a_count st) kk) in
      {| a_target := upd (a_target st) i (fst ac); a_last := upd (a_last st) kk (Z.of_nat i); a_count := upd (a_count st) kk (snd ac) |}.

Definition cumulative_array (temporal : bool) (op : cumop) (skip_na : bool) (gk : list Z) (vals : list V)
    (ngroups : nat) (mask : option (list bool)) : list V :=
  let rows := mk_rows gk vals mask in
  let n := length rows in
  let st := fold_left (array_step (reducer_of o (cum_reducer temporal op skip_na)) (cum_init op) n) (combine (seq 0 n) rows)
              {| a_target := repeat (cum_init op) n; a_last := repeat (-1) ngroups; a_count := repeat 0 ngroups |} in
  map (fun p : V * (Z * (V * bool)) => if fst (snd p) <? 0 then cum_na op else fst p) (combine (a_target st) rows).

End Cum.
