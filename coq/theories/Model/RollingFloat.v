(* Bit-exact model of _compensated_add and _rolling_sum_or_mean_1d (groupby_lib/groupby/numba.py) for ONE group in IEEE-754
   binary64, using Coq's primitive floats: the same operations in the same order, so that the kernel and the model must agree
   to the last bit on every input - large magnitudes, infinities, overflow, NaN (= null) included.  (Groups are independent and
   masked / null-key rows are skipped before any state is touched: Lib/Keyed, Proofs/RowGeneric; the exact-arithmetic content
   is Model/Rolling.sum_step, the error analysis Proofs/CompensatedSum.v.)  Evaluated inside Coq (vm_compute) by C09's stream. *)
From Coq Require Import List ZArith Bool PrimFloat Uint63.
Import ListNotations.
Open Scope float_scope.

Definition compensated_add (total comp x : float) : float * float :=
  let nt := total + x in
  if is_finite nt then
    (nt, if abs x <=? abs total then comp + ((total - nt) + x) else comp + ((x - nt) + total))
  else (nt, comp).

Record fcell := { fbuf : list float; fpos : nat; fnon_null : Z; fn_seen : Z; fsum : float; fcomp : float }.

Fixpoint fupd (l : list float) (i : nat) (x : float) : list float :=
  match l, i with
  | [], _ => []
  | _ :: t, O => x :: t
  | h :: t, S j => h :: fupd t j x
  end.

(* add up the buffer except position p (after a non-finite running sum) *)
Fixpoint resum (l : list float) (j p : nat) (acc : float * float) : float * float :=
  match l with
  | [] => acc
  | b :: t => resum t (S j) p (if Nat.eqb j p || is_nan b then acc else compensated_add (fst acc) (snd acc) b)
  end.

Definition float_of_Z (z : Z) : float := of_uint63 (Uint63.of_Z z).

Definition fstep (window : nat) (min_periods : Z) (want_mean : bool) (c : fcell) (val : float) : fcell * float :=
  let full := (Z.of_nat window <=? fn_seen c)%Z in
  let old := nth (fpos c) (fbuf c) nan in
  let '(s1, c1, nn1) :=
    if full && negb (is_nan old) then
      let '(t, cp) := compensated_add (fsum c) (fcomp c) (- old) in
      let nn := (fnon_null c - 1)%Z in
      if (nn =? 0)%Z then (zero, zero, nn)
      else if negb (is_finite t) then let '(t2, cp2) := resum (fbuf c) 0 (fpos c) (zero, zero) in (t2, cp2, nn)
      else (t, cp, nn)
    else (fsum c, fcomp c, fnon_null c) in
  let '(s2, c2, nn2) :=
    if negb (is_nan val) then let '(t, cp) := compensated_add s1 c1 val in (t, cp, (nn1 + 1)%Z) else (s1, c1, nn1) in
  let c' := {| fbuf := fupd (fbuf c) (fpos c) val; fpos := Nat.modulo (S (fpos c)) window; fnon_null := nn2;
               fn_seen := (if full then fn_seen c else fn_seen c + 1)%Z; fsum := s2; fcomp := c2 |} in
  (c', if (min_periods <=? nn2)%Z then (let ws := s2 + c2 in if want_mean then ws / float_of_Z nn2 else ws) else nan).

Fixpoint frun (window : nat) (mp : Z) (want_mean : bool) (c : fcell) (vals : list float) : list float :=
  match vals with
  | [] => []
  | v :: t => let '(c', o) := fstep window mp want_mean c v in o :: frun window mp want_mean c' t
  end.

Definition rolling_float (window : nat) (mp : Z) (want_mean : bool) (vals : list float) : list float :=
  frun window mp want_mean {| fbuf := repeat nan window; fpos := 0; fnon_null := 0; fn_seen := 0; fsum := zero; fcomp := zero |} vals.

(* bit-level agreement of two outputs, NaN = NaN *)
Definition same_float (x y : float) : bool := (is_nan x && is_nan y) || ((x =? y) && (get_sign x || negb (get_sign y)) && (get_sign y || negb (get_sign x))).
Fixpoint same_list (l1 l2 : list float) : bool :=
  match l1, l2 with
  | [], [] => true
  | x :: t1, y :: t2 => same_float x y && same_list t1 t2
  | _, _ => false
  end.
Definition check_case (c : nat * Z * bool * list float * list float) : bool :=
  let '(w, mp, mean, vals, outs) := c in same_list (rolling_float w mp mean vals) outs.
