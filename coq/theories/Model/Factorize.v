(* Models of the jitted factorization kernels:
     groupby_lib/groupby/factorization.py: _weight_code_sum, _combine_factorizations
     groupby_lib/groupby/core.py:          GroupBy._build_group_sorted_indexer_numba
   Same loops, same state cells.  [_combine_factorizations] re-uses the stacked code matrix
   for the uniques (uniques = codes): row group_id is overwritten only after it was read
   (group_id <= i), so the pure version below is equivalent (proved in Proofs/FactorizeProofs.v
   for the explicit in-place variant). *)
From Coq Require Import List ZArith Lia Bool Arith.
From GL Require Import Lib.Arr.
Import ListNotations.
Open Scope Z_scope.

(* for c, w in zip(codes[:-1], weights[:-1]): if c == -1: return -1; out += c * w *)
Fixpoint wcs (cw : list (Z * Z)) (out : Z) : option Z :=
  match cw with
  | [] => Some out
  | (c, w) :: t => if c =? -1 then None else wcs t (out + c * w)
  end.

(* ... if codes[-1] == -1: return -1; return out + codes[-1]   (weight of the last code is 1) *)
Definition weight_code_sum (codes weights : list Z) : Z :=
  match wcs (combine (removelast codes) (removelast weights)) 0 with
  | None => -1
  | Some out => if last codes 0 =? -1 then -1 else out + last codes 0
  end.

(* weights of factorize_2d: cumprod(shape)[-1] // cumprod(shape) = product of the later shapes *)
Fixpoint code_weights (shape : list Z) : list Z :=
  match shape with
  | [] => []
  | _ :: t => fold_left Z.mul t 1 :: code_weights t
  end.

(* the weights as factorize_2d really computes them: np.cumprod(shape) in int64 - two's-complement wrap-around - and then
   cumprod[-1] // cumprod.  Equal to [code_weights] as long as the cartesian product fits (factorize_2d folds leading keys
   together until it is below MAX_CARTESIAN_PRODUCT = 2^62); beyond that they are what made unrelated rows share a code. *)
Definition wrap_i64 (z : Z) : Z := (z + 2 ^ 63) mod 2 ^ 64 - 2 ^ 63.
Fixpoint cumprod_i64 (acc : Z) (shape : list Z) : list Z :=
  match shape with [] => [] | s :: t => let a := wrap_i64 (acc * s) in a :: cumprod_i64 a t end.
Definition code_weights_i64 (shape : list Z) : list Z :=
  let cp := cumprod_i64 1 shape in map (fun c => last cp 1 / c) cp.

Record cstate := { tracker : list Z; group_id : Z; combined_rev : list Z; uniques_rev : list (list Z) }.

Definition combine_step (weights : list Z) (st : cstate) (row : list Z) : cstate :=
  let k := weight_code_sum row weights in
  if k =? -1 then
    {| tracker := tracker st; group_id := group_id st; combined_rev := -1 :: combined_rev st; uniques_rev := uniques_rev st |}
  else
    let code := get (-1) (tracker st) (Z.to_nat k) in
    if code =? -1 then
      {| tracker := upd (tracker st) (Z.to_nat k) (group_id st); group_id := group_id st + 1;
         combined_rev := group_id st :: combined_rev st; uniques_rev := row :: uniques_rev st |}
    else
      {| tracker := tracker st; group_id := group_id st; combined_rev := code :: combined_rev st; uniques_rev := uniques_rev st |}.

Definition combine_factorizations (rows : list (list Z)) (weights : list Z) (cart : nat) : list Z * list (list Z) :=
  let st := fold_left (combine_step weights) rows
              {| tracker := repeat (-1) cart; group_id := 0; combined_rev := []; uniques_rev := [] |} in
  (rev (combined_rev st), rev (uniques_rev st)).

(* ---- counting sort of the row positions by group ---- *)
(* group_starts[i+1] = group_starts[i] + group_counts[i];  current_pos = group_starts[:-1] *)
Fixpoint starts_from (s : Z) (counts : list Z) : list Z :=
  match counts with [] => [] | c :: t => s :: starts_from (s + c) t end.

Record istate := { current_pos : list Z; indexer : list Z; row : Z }.

Definition indexer_step (key_map : option (list Z)) (mask : option (list bool)) (st : istate) (k : Z) : istate :=
  let i := row st in
  let sel := match mask with None => true | Some m => get false m (Z.to_nat i) end in
  if (0 <=? k) && sel then
    let k' := match key_map with Some km => get 0 km (Z.to_nat k) | None => k end in
    let pos := get 0 (current_pos st) (Z.to_nat k') in
    {| current_pos := upd (current_pos st) (Z.to_nat k') (pos + 1);
       indexer := upd (indexer st) (Z.to_nat pos) i; row := i + 1 |}
  else {| current_pos := current_pos st; indexer := indexer st; row := i + 1 |}.

Definition build_group_sorted_indexer (chunks : list (list Z)) (counts : list Z)
    (key_map : option (list Z)) (mask : option (list bool)) : list Z :=
  let total := fold_left Z.add counts 0 in
  let st := fold_left (indexer_step key_map mask) (concat chunks)
              {| current_pos := starts_from 0 counts; indexer := repeat 0 (Z.to_nat total); row := 0 |} in
  indexer st.

(* ---- _monotonic_factorization: the run detector of the chunked route ----
   Values are integers (floats / timestamps through their order-preserving image) or null (None:
   NaN / NaT, which compare false with everything).  The walk over arr_list is a walk over the
   concatenation (empty chunks are removed by the wrapper).  Only the written prefix of `codes`
   is returned (the caller slices [:cutoff]). *)
Record mstate := { m_codes : list Z; m_labels : list Z; m_prev : Z }.

Fixpoint mono_loop (xs : list (option Z)) (i : Z) (st : mstate) : Z * mstate :=
  match xs with
  | [] => (i, st)
  | None :: _ => (i, st)                                (* x != x *)
  | Some v :: t =>
      if v <? m_prev st then (i, st)                    (* x < prev *)
      else
        let labels := if m_prev st <? v then m_labels st ++ [v] else m_labels st in
        mono_loop t (i + 1)
          {| m_codes := m_codes st ++ [Z.of_nat (length labels) - 1]; m_labels := labels; m_prev := v |}
  end.

Definition monotonic_factorization (arr : list (option Z)) : Z * list Z * list Z :=
  match arr with
  | [] => (0, [], [])                                   (* not reached: the wrapper is given >= 1 row *)
  | None :: _ => (0, [], [])
  | Some v :: t =>
      let '(c, st) := mono_loop t 1 {| m_codes := [0]; m_labels := [v]; m_prev := v |} in
      (c, m_codes st, m_labels st)
  end.

(* ---- _combine_factorizations as written: `uniques = codes`, the stacked code matrix is re-used to gather
   the uniques (row group_id is overwritten with row i).  State: the matrix, the tracker, group_id, the
   combined codes written so far. ---- *)
Record ipstate := { ip_m : list (list Z); ip_tracker : list Z; ip_gid : Z; ip_comb_rev : list Z }.

Definition inplace_step (weights : list Z) (st : ipstate) (i : nat) : ipstate :=
  let row := get [] (ip_m st) i in                        (* codes[i], read from the matrix as it is NOW *)
  let k := weight_code_sum row weights in
  if k =? -1 then
    {| ip_m := ip_m st; ip_tracker := ip_tracker st; ip_gid := ip_gid st; ip_comb_rev := -1 :: ip_comb_rev st |}
  else
    let code := get (-1) (ip_tracker st) (Z.to_nat k) in
    if code =? -1 then
      {| ip_m := upd (ip_m st) (Z.to_nat (ip_gid st)) row;    (* uniques[group_id] = codes[i], same array *)
         ip_tracker := upd (ip_tracker st) (Z.to_nat k) (ip_gid st); ip_gid := ip_gid st + 1;
         ip_comb_rev := ip_gid st :: ip_comb_rev st |}
    else
      {| ip_m := ip_m st; ip_tracker := ip_tracker st; ip_gid := ip_gid st; ip_comb_rev := code :: ip_comb_rev st |}.

Definition combine_inplace_state (rows : list (list Z)) (weights : list Z) (cart : nat) : ipstate :=
  fold_left (inplace_step weights) (seq 0 (length rows))
            {| ip_m := rows; ip_tracker := repeat (-1) cart; ip_gid := 0; ip_comb_rev := [] |}.
Definition combine_inplace (rows : list (list Z)) (weights : list Z) (cart : nat) : list Z * list (list Z) :=
  let st := combine_inplace_state rows weights cart in
  (rev (ip_comb_rev st), firstn (Z.to_nat (ip_gid st)) (ip_m st)).        (* uniques[:group_id] *)
(* what the stacked matrix holds afterwards (observable: the caller of the kernel owns it) *)
Definition combine_inplace_matrix (rows : list (list Z)) (weights : list Z) (cart : nat) : list (list Z) :=
  ip_m (combine_inplace_state rows weights cart).
