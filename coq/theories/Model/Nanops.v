(* Model of groupby_lib/nanops.py: _nb_reduce and reduce_1d (chunked reduce, then
   reduce of the chunk results), with the binary reducers of util.NumbaReductionOps
   (Model/Scalar.v: op_sum, op_min, op_max, op_sum_square, op_count), and of util._nb_dot. *)
From Coq Require Import List ZArith Lia Bool Arith.
From GL Require Import Lib.Arr Lib.Blocks Model.Dom Model.Scalar.
Import ListNotations.
Open Scope Z_scope.

Section Nanops.
Context {V : Type} (o : ops V).

(* _get_first_non_null: the first non-null value and the elements after it *)
Fixpoint first_non_null (arr : list V) : option (V * list V) :=
  match arr with
  | [] => None
  | x :: t => if is_null o x then first_non_null t else Some (x, t)
  end.

Definition fold_skip (rf : V -> V -> V) (skipna : bool) (l : list V) (acc : V) : V :=
  fold_left (fun a x => if skipna && is_null o x then a else rf a x) l acc.

(* _nb_reduce; reading arr[0] of an empty array is modelled as null *)
Definition nb_reduce (rf : V -> V -> V) (arr : list V) (skipna : bool) (init : option V) : V :=
  match init with
  | Some i => fold_skip rf skipna arr i
  | None =>
      if skipna then
        match first_non_null arr with
        | None => hd (null o) arr
        | Some (x, rest) => fold_skip rf true rest x
        end
      else
        match arr with
        | [] => null o
        | x :: t => if is_null o x then x else fold_left rf t x
        end
  end.

(* reduce_1d for a value reduction: n_threads = 1 -> one pass; otherwise array_split into n_threads
   pieces, reduce each, then reduce the piece results with the chunk reduction *)
(* merge_skipna = skipna and chunk_reduction != "sum": partial sums / counts are added without looking for nulls *)
Definition reduce_1d (rf chunk_rf : V -> V -> V) (init : option V) (skipna merge_skipna : bool) (arr : list V) (n_threads : nat) : V :=
  if (n_threads =? 1)%nat then nb_reduce rf arr skipna init
  else nb_reduce chunk_rf (map (fun a => nb_reduce rf a skipna init) (array_split arr n_threads)) merge_skipna init.

Inductive nanop := NSum | NMin | NMax | NSumSquare.
Definition nan_reduce (op : nanop) (arr : list V) (n_threads : nat) : V :=
  match op with
  | NSum => reduce_1d (op_sum o) (op_sum o) (Some (zero o)) true false arr n_threads
  | NSumSquare => reduce_1d (op_sum_square o) (op_sum o) (Some (zero o)) true false arr n_threads
  | NMin => reduce_1d (op_min o) (op_min o) None true true arr n_threads
  | NMax => reduce_1d (op_max o) (op_max o) None true true arr n_threads
  end.

(* _nb_dot: out[row] += a[col][row] * b[col]  — columns given as lists, product supplied by the caller's domain *)
Definition nb_dot (mul : V -> V -> V) (cols : list (list V)) (b : list V) (nrows : nat) : list V :=
  map (fun row => fold_left (fun acc cb => add o acc (mul (get (zero o) (fst cb) row) (snd cb))) (combine cols b) (zero o))
      (seq 0 nrows).
End Nanops.

(* what nan_reduce above encodes of nanops.reduce_1d's dispatch: counts and every "sum" reducer start from 0 and
   their chunk results are summed; every other reducer (min, max, first, ...) starts from the first non-null element
   and its chunk results are reduced with the same reducer.  Regenerated table: Gen/TablesGen.gen_nanops_dispatch. *)
From Coq Require Import String.
Open Scope string_scope.
Definition nanops_dispatch : list (string * string * string * string) :=
  [("second stage", "reduce_1d(chunk_reduction, chunks, skipna=merge_skipna, n_threads=1) with merge_skipna = skipna and chunk_reduction != 'sum'", "", "");
   ("is_count", "True", "int(0)", "'sum'");
   ("'sum' in reduce_func_name", "skipna", "0", "'sum'");
   ("else", "skipna", "None", "reduce_func_name")].
