(* Bit-exact model of the grouped float64 reductions behind GroupBy.sum / mean / var - numba._group_func_wrap with
   'nansum', 'sum' (no skipping) and 'nansum_squares' - in IEEE-754 binary64 (Coq's primitive floats), for ANY number of
   kernel threads and an optional boolean mask:
     rows      = the (group code, value) pairs the mask keeps, in row order (_apply_group_method_single_chunk: mask.nonzero());
     pieces    = np.array_split(rows, n_threads)                                   (_chunk_groupby_args);
     per piece = for every group the scalar reducer run over the piece's rows of that group in row order: the first value is
                 taken as it is, later ones are added; negative codes are skipped (_group_by_reduce, the ScalarFuncs reducers);
     merge     = left to right over the pieces with ScalarFuncs.sum, a piece that saw no value of the group contributes nothing,
                 an accumulated count of 0 means 'take the piece's value' (combine_chunk_results_for_factorized_key,
                 reduce_array_pair).
   Evaluated inside Coq (vm_compute) by C04's stream against the real function.  Proofs/ReduceFloatProofs.v: the count it
   returns does not depend on the number of threads. *)
From Coq Require Import List ZArith Bool PrimFloat Uint63 Arith.
Import ListNotations.
Open Scope float_scope.

Section Split.
Context {A : Type}.
Fixpoint take_pieces (l : list A) (sizes : list nat) : list (list A) :=
  match sizes with
  | [] => []
  | s :: t => firstn s l :: take_pieces (skipn s l) t
  end.
(* np.array_split(l, k): the first (len mod k) pieces have one element more *)
Definition split_sizes (n k : nat) : list nat := repeat (S (Nat.div n k)) (Nat.modulo n k) ++ repeat (Nat.div n k) (k - Nat.modulo n k).
Definition array_split (l : list A) (k : nat) : list (list A) := take_pieces l (split_sizes (length l) k).
End Split.

Inductive fred := FNanSum | FSum | FNanSumSq.

Definition skips (f : fred) : bool := match f with FSum => false | _ => true end.
Definition term (f : fred) (x : float) : float := match f with FNanSumSq => x * x | _ => x end.

(* one row into the accumulator (value, count) of group g *)
Definition red_step (f : fred) (g : Z) (a : float * nat) (r : Z * float) : float * nat :=
  let '(k, x) := r in let '(s, n) := a in
  if negb (k =? g)%Z then a else
  if skips f && is_nan x then a else
  match n with O => (term f x, 1%nat) | _ => (s + term f x, S n) end.
Definition piece_reduce (f : fred) (g : Z) (piece : list (Z * float)) : float * nat := fold_left (red_step f g) piece (zero, 0%nat).

(* reduce_array_pair with ScalarFuncs.sum, counts = the accumulated count, y_counts = the piece's count *)
Definition merge_step (a y : float * nat) : float * nat :=
  let '(s, n) := a in let '(t, m) := y in
  match m with O => a | _ => (match n with O => t | _ => s + t end, (n + m)%nat) end.
Definition merge (rs : list (float * nat)) : float * nat :=
  match rs with [] => (zero, 0%nat) | r :: t => fold_left merge_step t r end.

Definition keep_rows (keys : list Z) (vals : list float) (mask : option (list bool)) : list (Z * float) :=
  match mask with
  | None => combine keys vals
  | Some m => map fst (filter snd (combine (combine keys vals) m))
  end.

Definition group_reduce_f (f : fred) (keys : list Z) (vals : list float) (mask : option (list bool)) (n_threads : nat) (g : Z) : float * nat :=
  merge (map (piece_reduce f g) (array_split (keep_rows keys vals mask) n_threads)).

Definition same_floatR (x y : float) : bool :=
  (is_nan x && is_nan y) || ((x =? y) && (get_sign x || negb (get_sign y)) && (get_sign y || negb (get_sign x))).
Definition fcode (n : nat) : fred := match n with O => FNanSum | S O => FSum | _ => FNanSumSq end.
(* (reducer, n_threads, keys, values, mask or [] for none, group, value and count the implementation returned) *)
Definition check_reduce (c : nat * nat * list Z * list float * list bool * Z * float * Z) : bool :=
  let '(fn, nt, keys, vals, mask, g, out, cnt) := c in
  let '(s, n) := group_reduce_f (fcode fn) keys vals (match mask with [] => None | _ => Some mask end) nt g in
  same_floatR s out && (Z.of_nat n =? cnt)%Z.
