(* Model of the three rolling kernels of groupby_lib/groupby/numba.py:
   _rolling_sum_or_mean_1d, _rolling_max_or_min_1d (+ min_or_max_and_position),
   _rolling_shift_or_diff_1d.  Per group: a circular buffer of `window` cells, its
   write position, the number of non-null values in it, the number of rows seen
   (capped at window) and the running sum / current best.  Rows with a negative
   code and unselected rows `continue` before touching any state. *)
From Coq Require Import List ZArith Lia Bool Arith.
From GL Require Import Lib.Arr Lib.Keyed Model.Dom.
Import ListNotations.
Open Scope Z_scope.

Section Rolling.
Context {V : Type} (o : ops V).

Record rcell := { buf : list V; pos : nat; non_null : Z; n_seen : Z; acc : V }.

Definition rows_of_kernel (gk : list Z) (vals : list V) (mask : option (list bool)) := mk_rows gk vals mask.

(* ---- sum / mean ---- *)
Definition sum_step (window : nat) (min_periods : Z) (want_mean : bool)
    (c : rcell) (row : V * bool) : rcell * V :=
  let '(v, sel) := row in
  if negb sel then (c, null o) else
  let full := Z.of_nat window <=? n_seen c in
  let old := get (null o) (buf c) (pos c) in
  let evict := full && negb (is_null o old) in
  let s1 := if evict then sub o (acc c) old else acc c in
  let nn1 := if evict then non_null c - 1 else non_null c in
  let keep := negb (is_null o v) in
  let nn2 := if keep then nn1 + 1 else nn1 in
  let s2 := if keep then add o s1 v else s1 in
  let c' := {| buf := upd (buf c) (pos c) v; pos := (S (pos c)) mod window;
               non_null := nn2; n_seen := (if full then n_seen c else n_seen c + 1); acc := s2 |} in
  (c', if min_periods <=? nn2 then (if want_mean then divc o s2 nn2 else s2) else null o).

Definition rolling_sum_or_mean (gk : list Z) (vals : list V) (ngroups window : nat)
    (min_periods : option Z) (mask : option (list bool)) (want_mean : bool) : list V :=
  let mp := match min_periods with Some m => m | None => Z.of_nat window end in
  let c0 := {| buf := repeat (null o) window; pos := 0; non_null := 0; n_seen := 0; acc := zero o |} in
  kscan c0 (sum_step window mp want_mean) (null o) (rows_of_kernel gk vals mask) (repeat c0 ngroups).

(* ---- max / min ---- *)
(* min_or_max_and_position: first non-null cell (or the last cell), then a scan
   that skips nulls and takes v >= best / v <= best *)
Fixpoint first_nonnull_from (l : list V) (dflt : V) : V * list V :=
  match l with
  | [] => (dflt, [])
  | x :: t => if is_null o x then (match t with [] => (x, []) | _ => first_nonnull_from t dflt end)
              else (x, t)
  end.
Definition better (want_max : bool) (v best : V) : bool :=
  if want_max then leb o best v else leb o v best.
Definition min_or_max (want_max : bool) (arr : list V) : V :=
  let '(b0, rest) := first_nonnull_from arr (null o) in
  fold_left (fun best v => if is_null o v then best else if better want_max v best then v else best) rest b0.

Definition ext_step (window : nat) (min_periods : Z) (want_max : bool)
    (c : rcell) (row : V * bool) : rcell * V :=
  let '(v, sel) := row in
  if negb sel then (c, null o) else
  let full := Z.of_nat window <=? n_seen c in
  let old := get (null o) (buf c) (pos c) in
  let nn1 := if full && negb (is_null o old) then non_null c - 1 else non_null c in
  let buf' := upd (buf c) (pos c) v in
  let improves := negb (is_null o v) && ((nn1 =? 0) || better want_max v (acc c)) in
  let best1 := if improves then v else acc c in
  let nn2 := if negb (is_null o v) then nn1 + 1 else nn1 in
  let best2 := if full && negb improves then min_or_max want_max buf' else best1 in
  let c' := {| buf := buf'; pos := (S (pos c)) mod window; non_null := nn2;
               n_seen := (if full then n_seen c else n_seen c + 1); acc := best2 |} in
  (c', if min_periods <=? nn2 then best2 else null o).

Definition rolling_max_or_min (gk : list Z) (vals : list V) (ngroups window : nat)
    (min_periods : option Z) (mask : option (list bool)) (want_max : bool) : list V :=
  let mp := match min_periods with Some m => m | None => Z.of_nat window end in
  let c0 := {| buf := repeat (null o) window; pos := 0; non_null := 0; n_seen := 0; acc := null o |} in
  kscan c0 (ext_step window mp want_max) (null o) (rows_of_kernel gk vals mask) (repeat c0 ngroups).

(* ---- shift / diff ---- *)
Definition shift_step (window : nat) (want_shift : bool) (c : rcell) (row : V * bool) : rcell * V :=
  let '(v, sel) := row in
  if negb sel then (c, null o) else
  let full := Z.of_nat window <=? n_seen c in
  let old := get (null o) (buf c) (pos c) in
  let out := if full then (if want_shift then old
                           else if is_null o v || is_null o old then null o else sub o v old)
             else null o in
  ({| buf := upd (buf c) (pos c) v; pos := (S (pos c)) mod window; non_null := non_null c;
      n_seen := (if full then n_seen c else n_seen c + 1); acc := acc c |}, out).

Definition rolling_shift_or_diff (gk : list Z) (vals : list V) (ngroups window : nat)
    (mask : option (list bool)) (want_shift : bool) : list V :=
  let c0 := {| buf := repeat (null o) window; pos := 0; non_null := 0; n_seen := 0; acc := null o |} in
  kscan c0 (shift_step window want_shift) (null o) (rows_of_kernel gk vals mask) (repeat c0 ngroups).

End Rolling.

(* How the real kernel updates the running sum (regenerated: Gen/TablesGen.gen_rolling_sum_updates).  sum_step above is
   its exact-arithmetic content: t = s + x, the compensation term (s - t) + x resp. (x - t) + s is identically 0 there,
   and the reset of an emptied window / the re-summation of the buffer after a non-finite sum write the value the sum
   already has (Proofs/RollingInv: acc = sum of the window; the model has no infinities).
   In binary64 the term is the exact rounding error of t (Proofs/CompensatedSum.v, Fast2Sum). *)
From Coq Require Import String.
Open Scope string_scope.
Definition rolling_sum_updates : list string :=
  ["def _compensated_add(total, comp, x)";
   "new_total = total + x";
   "if np.isfinite(new_total)";
   "if abs(total) >= abs(x)";
   "comp += total - new_total + x";
   "else";
   "comp += x - new_total + total";
   "end";
   "end";
   "return (new_total, comp)";
   "def _rolling_sum_or_mean_1d";
   "group_sums = np.zeros(ngroups)";
   "group_comp = np.zeros(ngroups)";
   "for arr in values";
   "for val in arr";
   "if group_full";
   "if not is_null(old_val)";
   "total, comp = _compensated_add(group_sums[key], group_comp[key], -old_val)";
   "if group_non_null[key] == 0";
   "total, comp = (0.0, 0.0)";
   "else";
   "if not np.isfinite(total)";
   "total, comp = (0.0, 0.0)";
   "for j in range(window)";
   "if j != pos and (not is_null(group_buffers[key, j]))";
   "total, comp = _compensated_add(total, comp, group_buffers[key, j])";
   "end";
   "end";
   "end";
   "end";
   "group_sums[key] = total";
   "group_comp[key] = comp";
   "end";
   "end";
   "if not val_is_null";
   "group_sums[key], group_comp[key] = _compensated_add(group_sums[key], group_comp[key], val)";
   "end";
   "if group_non_null[key] >= min_periods";
   "window_sum = group_sums[key] + group_comp[key]";
   "if want_mean";
   "out[i] = window_sum / group_non_null[key]";
   "else";
   "out[i] = window_sum";
   "end";
   "end";
   "end";
   "end"].
