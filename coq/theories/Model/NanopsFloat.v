(* Bit-exact model of nanops.nansum / nanmean / nanvar on a 1-D float64 array in IEEE-754 binary64 (Coq's primitive floats):
   reduce_1d splits the array like np.array_split into n_threads pieces, reduces every piece from 0.0 skipping NaN, and adds
   the piece results up from 0.0; nanvar takes the mean sum / n, subtracts it from every element (NumPy, elementwise) and
   reduces the squares the same way.  Evaluated inside Coq (vm_compute) by C20's stream against the real functions. *)
From Coq Require Import List ZArith Bool PrimFloat Uint63 Arith.
Import ListNotations.
Open Scope float_scope.

Definition fof_nat (n : nat) : float := of_uint63 (Uint63.of_Z (Z.of_nat n)).

(* np.array_split(arr, k): the first (len mod k) pieces have one element more *)
Fixpoint take_pieces (l : list float) (sizes : list nat) : list (list float) :=
  match sizes with
  | [] => []
  | s :: t => firstn s l :: take_pieces (skipn s l) t
  end.
Definition array_split_f (l : list float) (k : nat) : list (list float) :=
  let n := length l in
  let q := Nat.div n k in let r := Nat.modulo n k in
  take_pieces l (repeat (S q) r ++ repeat q (k - r)).

Definition red_sum (l : list float) : float := fold_left (fun acc x => if is_nan x then acc else acc + x) l zero.
Definition red_sumsq (l : list float) : float := fold_left (fun acc x => if is_nan x then acc else acc + x * x) l zero.
Definition merge_sum (l : list float) : float := fold_left (fun acc x => acc + x) l zero.

Definition reduce_1d_f (red : list float -> float) (l : list float) (n_threads : nat) : float :=
  if Nat.eqb n_threads 1 then red l else merge_sum (map red (array_split_f l n_threads)).

Definition count_f (l : list float) : nat := length (filter (fun x => negb (is_nan x)) l).

Definition nansum_f (l : list float) (nt : nat) : float := reduce_1d_f red_sum l nt.
Definition nanmean_f (l : list float) (nt : nat) : float :=
  let n := count_f l in if Nat.eqb n 0 then nan else nansum_f l nt / fof_nat n.
Definition nanvar_f (l : list float) (nt ddof : nat) : float :=
  let n := count_f l in
  if Nat.eqb n 0 || Nat.eqb n ddof then nan else
  let m := nansum_f l nt / fof_nat n in
  let dev := map (fun x => x - m) l in
  (* n - ddof as the (possibly negative) integer NumPy divides by *)
  let d := if Nat.leb ddof n then fof_nat (n - ddof) else - fof_nat (ddof - n) in
  reduce_1d_f red_sumsq dev nt / d.

Definition same_floatN (x y : float) : bool :=
  (is_nan x && is_nan y) || ((x =? y) && (get_sign x || negb (get_sign y)) && (get_sign y || negb (get_sign x))).
(* (function: 0 sum, 1 mean, 2 var), n_threads, ddof, values, result of the implementation *)
Definition check_nanop (c : nat * nat * nat * list float * float) : bool :=
  let '(fn, nt, ddof, vals, out) := c in
  same_floatN (match fn with O => nansum_f vals nt | S O => nanmean_f vals nt | _ => nanvar_f vals nt ddof end) out.
