(* C11 — result labelling, order and shape.  Statements only.  Model: the label-selection
   logic of _apply_gb_reduction (Model/GroupByApi.v): [reported sortkey observed] are the
   group codes listed, in output order; [sortkey] is the permutation the labels are sorted by
   (identity for categoricals / already sorted labels / sort=False). *)
From Coq Require Import List ZArith Bool Sorting.Sorted Sorting.Permutation.
From GL Require Import Lib.Arr Model.Dom Model.GroupByApi Proofs.ApiProofs.
Import ListNotations.
Open Scope Z_scope.

(* 1. exactly the observed labels are listed, each once *)
Theorem C11_observed_labels sortkey observed ng :
  Permutation sortkey (seq 0 ng) ->
  NoDup (reported sortkey observed) /\
  (forall g, In g (reported sortkey observed) <-> (g < ng)%nat /\ get false observed g = true).
Proof. exact (reported_spec sortkey observed ng). Qed.
Print Assumptions C11_observed_labels.

(* 2. in ascending order of the labels' rank whenever the sort key is ascending (filtering by
      observed keeps the order) *)
Theorem C11_order (rank : nat -> Z) sortkey observed :
  StronglySorted (fun a b => rank a < rank b) sortkey ->
  StronglySorted (fun a b => rank a < rank b) (reported sortkey observed).
Proof. exact (reported_sorted rank sortkey observed). Qed.
Print Assumptions C11_order.

(* 3. observed_only=False lists every label, in sort-key order *)
Theorem C11_all_labels sortkey ng : Permutation sortkey (seq 0 ng) ->
  forall g, In g (reported_all sortkey) <-> (g < ng)%nat.
Proof.
  exact (fun HP g => conj (fun H => proj2 (proj1 (in_seq ng 0 g) (Permutation_in g HP H)))
                          (fun H => Permutation_in g (Permutation_sym HP) (proj2 (in_seq ng 0 g) (conj (Nat.le_0_l g) H)))).
Qed.
Print Assumptions C11_all_labels.

(* 4. the two-stage observed test equals "the label has a selected row" (shared with C01) *)
Theorem C11_observed_is_key_count is_size count0 keycount :
  length count0 = length keycount ->
  (forall g, (g < length keycount)%nat -> 0 <= get 0 count0 g <= get 0 keycount g) ->
  (is_size = true -> count0 = keycount) ->
  forall g, (g < length keycount)%nat ->
  get false (observed_flags is_size count0 keycount) g = (0 <? get 0 keycount g).
Proof. exact (observed_flags_spec is_size count0 keycount). Qed.
Print Assumptions C11_observed_is_key_count.

Example C11_example :
  reported [2; 0; 1]%nat [true; false; true] = [2; 0]%nat /\ reported_all [2; 0; 1]%nat = [2; 0; 1]%nat.
Proof. split; reflexivity. Qed.

(* Tie B (pins): the functions this property's models transcribe read, statement by statement, as they did when the models
   were written against them; Gen/SourcesGen.v is regenerated from /repo on every run (translator/pins.py). *)
From GL Require Import Gen.SourcesGen Model.Sources Proofs.PinC11.
Theorem C11_modelled_functions_are_the_source's :
  gen_src_apply_gb_reduction = src_apply_gb_reduction.
Proof. exact pin_apply_gb_reduction. Qed.
Print Assumptions C11_modelled_functions_are_the_source's.
