(* C17 — the pandas-style facade.  Agreement with pandas cannot be a theorem (pandas is not
   modelled): this property is decided by three-way translation validation (facade vs core vs
   pandas).  What is proved is the column-resolution rule of Model/Facade.v. *)
From Coq Require Import List Bool Arith.
From GL Require Import Model.Facade Proofs.FacadeProofs.
Import ListNotations.

(* columns used as keys are not aggregated; every other column is *)
Theorem C17_value_columns columns keys c :
  In c (value_columns columns keys) <-> In c columns /\ ~ In c keys.
Proof. exact (value_columns_spec columns keys c). Qed.
Print Assumptions C17_value_columns.

(* in frame order (a sub-sequence of the columns) *)
Theorem C17_value_columns_in_frame_order columns keys : exists f, value_columns columns keys = filter f columns.
Proof. exact (value_columns_order columns keys). Qed.
Print Assumptions C17_value_columns_in_frame_order.

(* a [] selection is what every method operates on *)
Theorem C17_selection columns keys sel : selected_columns columns keys (Some sel) = sel.
Proof. exact (selection_honoured columns keys sel). Qed.
Print Assumptions C17_selection.

Example C17_example : value_columns [0; 1; 2; 3] [1; 3] = [0; 2] /\ selected_columns [0; 1; 2; 3] [1] None = [0; 2; 3].
Proof. split; reflexivity. Qed.

(* Tie B (pins): the functions this property's models transcribe read, statement by statement, as they did when the models
   were written against them; Gen/SourcesGen.v is regenerated from /repo on every run (translator/pins.py). *)
From GL Require Import Gen.SourcesGen Model.Sources Proofs.PinC17.
Theorem C17_modelled_functions_are_the_source's :
  gen_src_dataframe_from_by_keys = src_dataframe_from_by_keys /\
  gen_src_series_from_by_keys = src_series_from_by_keys.
Proof. exact (conj pin_dataframe_from_by_keys pin_series_from_by_keys). Qed.
Print Assumptions C17_modelled_functions_are_the_source's.
