(* C10 — EMA is the normalised exponentially weighted mean, per group.  Statements only.
   Exact arithmetic (Qc); the time decay enters as any homomorphism of elapsed time
   (decay 0 = 1, decay (a+b) = decay a * decay b), of which 2^(-dt/halflife) is one. *)
From Coq Require Import List ZArith Bool QArith Qcanon.
From GL Require Import Lib.Arr Lib.Keyed Model.Dom Model.Ema Proofs.RowGeneric Proofs.EmaClosed Proofs.EmaMask Proofs.EmaTimedMask Proofs.NullKeys Proofs.TieEma Gen.TablesGen.
Import ListNotations.
Open Scope Z_scope.

(* 1. Groups are independent: the output at row i of the grouped kernel is the output of
      the single-series step after the earlier rows OF THE SAME GROUP, in row order *)
Theorem C10_groups_independent gk vals alpha ng mask i k r :
  nth_error (ema_rows gk vals mask) i = Some (k, r) -> 0 <= k -> (Z.to_nat k < ng)%nat ->
  nth i (ema_grouped gk vals alpha ng mask) FNan
  = snd (ema_step (1 - alpha)%Qc
           (run_series (1 - alpha)%Qc (rows_of (Z.to_nat k) (firstn i (ema_rows gk vals mask)))) r).
Proof. exact (ema_grouped_row gk vals alpha ng mask i k r). Qed.
Print Assumptions C10_groups_independent.

(* 2. Closed form at a valid row: (x + sum_j w_j x_j) / (1 + sum_j w_j) over the valid earlier rows
      of the group, w_j = (1-alpha)^(number of group rows elapsed) — [wsum beta 0 f recent_first]
      gives the k-th most recent earlier row the weight beta^(k+1) *)
Theorem C10_closed_form beta l q :
  snd (ema_step beta (run_series beta l) (FFin q, true))
  = FFin ((q + wsum beta 0 cval (rev l)) / (1 + wsum beta 0 cone (rev l)))%Qc.
Proof. exact (series_out_valid beta l q). Qed.
Print Assumptions C10_closed_form.

(* 3. Invalid rows (null value or masked) repeat the group's previous output; the output is
      null until the group's first valid observation *)
Theorem C10_invalid_repeats beta l r : contrib r = None ->
  snd (ema_step beta (run_series beta l) r) = prev_out beta l.
Proof. exact (series_out_invalid beta l r). Qed.
Theorem C10_null_before_first_valid beta l r :
  (forall x, In x l -> contrib x = None) -> contrib r = None ->
  snd (ema_step beta (run_series beta l) r) = FNan.
Proof. exact (series_null_before_first_valid beta l r). Qed.
Print Assumptions C10_invalid_repeats.
Print Assumptions C10_null_before_first_valid.

(* 4. Time-weighted kernel: weights decay (t_i - t_j) *)
Theorem C10_timed_closed_form decay :
  decay 0 = 1%Qc -> (forall a b, decay (a + b) = (decay a * decay b)%Qc) ->
  forall l q t,
  snd (ema_timed_step decay (run_timed decay l) (FFin q, true, t))
  = FFin ((q + tsum decay tval t l) / (1 + tsum decay tone t l))%Qc.
Proof. exact (timed_out_valid decay). Qed.
Theorem C10_timed_invalid_repeats decay l r : tcontrib r = None ->
  snd (ema_timed_step decay (run_timed decay l) r) = last_out (run_timed decay l).
Proof. exact (timed_out_invalid decay l r). Qed.
Print Assumptions C10_timed_closed_form.
Print Assumptions C10_timed_invalid_repeats.

(* 5. The grouped EMA of a single group equals the ungrouped EMA of the same series from
      the first valid observation on (before it: null vs the ungrouped kernel's initial 0) *)
Theorem C10_grouped_is_series vals alpha :
  ema_grouped (repeat 0 (length vals)) vals alpha 1 None = series_outs (1 - alpha)%Qc ecell0 vals.
Proof. exact (ema_grouped_single_group vals alpha). Qed.
Theorem C10_grouped_equals_ungrouped beta n q rest :
  exists tail,
    ema_adjusted_from beta 0%Qc 0%Qc (FFin 0%Qc) (repeat FNan n ++ FFin q :: rest) = repeat (FFin 0%Qc) n ++ tail /\
    series_outs beta ecell0 (repeat FNan n ++ FFin q :: rest) = repeat FNan n ++ tail.
Proof. exact (grouped_single_equals_ungrouped beta n q rest). Qed.
Print Assumptions C10_grouped_is_series.
Print Assumptions C10_grouped_equals_ungrouped.

(* 6. Rows with a null key get null and influence nothing (shared with C06) *)
Theorem C10_null_keys gk vals alpha ng mask :
  length vals = length gk -> length (mask_list (length gk) mask) = length gk ->
  filter_by (nonnull_key gk) (ema_grouped gk vals alpha ng mask)
  = ema_grouped (filter_by (nonnull_key gk) gk) (filter_by (nonnull_key gk) vals) alpha ng (drop_null_mask gk mask).
Proof. exact (null_rows_deleted _ _ _ ecell0 (ema_step (1 - alpha)%Qc) FNan gk vals ng mask). Qed.
Print Assumptions C10_null_keys.

(* Non-vacuity: the docstring example, alpha = 1/2, two interleaved groups *)
Example C10_example :
  map (fun x => match x with FFin q => Some (this q) | FNan => None end)
      (ema_grouped [0; 1; 0; 1; 0] (map fl_of_Z [1; 10; 2; 20; 3]) (Q2Qc (1 # 2)) 2 None)
  = [Some 1%Q; Some 10%Q; Some (5 # 3)%Q; Some (50 # 3)%Q; Some (17 # 7)%Q].
Proof. vm_compute. reflexivity. Qed.
(* a decay satisfying the hypotheses of 4 exists *)
Example C10_decay_exists : exists decay : Z -> Qc, decay 0 = 1%Qc /\ forall a b, decay (a + b) = (decay a * decay b)%Qc.
Proof. exists (fun _ => 1%Qc). split; [reflexivity|]. intros. ring. Qed.

(* Tie B: the formulas of emas.py the model stands for (beta = 1 - alpha; beta = exp(-log 2 * dt / halflife) with times;
   alpha = 1 - exp(-log 2 / h) for a halflife counted in rows) are those of the source on this run; the exponential decay
   satisfies the two hypotheses of the timed theorems, shown for halflife 1 by decay_exp *)
Theorem C10_formulas_are_the_source's : gen_ema_formulas = ema_formulas.
Proof. exact tie_ema_formulas. Qed.
Theorem C10_exponential_decay_is_a_decay : decay_exp 0 = 1%Qc /\ forall a b, decay_exp (a + b) = (decay_exp a * decay_exp b)%Qc.
Proof. exact (conj decay_exp_zero decay_exp_add). Qed.
Print Assumptions C10_formulas_are_the_source's.
Print Assumptions C10_exponential_decay_is_a_decay.

(* Tie B (pins): the functions this property's models transcribe read, statement by statement, as they did when the models
   were written against them; Gen/SourcesGen.v is regenerated from /repo on every run (translator/pins.py). *)
From GL Require Import Gen.SourcesGen Model.Sources Proofs.PinC10.
Theorem C10_modelled_functions_are_the_source's :
  gen_src_ema_adjusted = src_ema_adjusted /\
  gen_src_ema_time_weighted = src_ema_time_weighted /\
  gen_src_ema_grouped = src_ema_grouped /\
  gen_src_ema_grouped_timed = src_ema_grouped_timed.
Proof. exact (conj pin_ema_adjusted (conj pin_ema_time_weighted (conj pin_ema_grouped pin_ema_grouped_timed))). Qed.
Print Assumptions C10_modelled_functions_are_the_source's.

(* the bit-exact transcription of the grouped EMA kernel in primitive floats (Model/EmaFloat.v) that C10's stream runs against
   the real kernel *)
From Coq Require Import PrimFloat.
From GL Require Import Model.EmaFloat.
Example C10_float_model_example :
  same_listE (ema_grouped_float 0.5 2 [(0%Z, 1, true); (1%Z, 4, true); (0%Z, 3, true); ((-1)%Z, 9, true); (0%Z, nan, true); (1%Z, 8, false)]%float)
             [1; 4; 0x1.2aaaaaaaaaaabp+1; nan; 0x1.2aaaaaaaaaaabp+1; 4]%float = true.
Proof. vm_compute. reflexivity. Qed.

(* Groups are independent in IEEE arithmetic too: for every float64 input (NaN, infinities, any magnitude), every mask and every
   interleaving, the outputs the bit-exact model of the grouped EMA kernel writes at the rows of group g are - bit for bit - the
   outputs of the same kernel on the rows of group g alone. *)
From GL Require Proofs.EmaFloatProofs.
Theorem C10_float_groups_are_independent alpha ng g rows : (0 <= g)%Z -> (Z.to_nat g < ng)%nat ->
  EmaFloatProofs.outs_of g rows (EmaFloat.ema_grouped_float alpha ng rows)
  = EmaFloat.ema_grouped_float alpha ng (filter (EmaFloatProofs.of_group g) rows).
Proof. exact (EmaFloatProofs.ema_grouped_groups_are_independent alpha ng g rows). Qed.
Print Assumptions C10_float_groups_are_independent.
