(* C12 — same data in any supported container or dtype gives the same answer.  Statements only.
   The container conversions themselves are pandas / pyarrow / polars run-time behaviour and are
   decided by the differential stream; what is proved is what must not depend on them. *)
From Coq Require Import List ZArith Bool.
From GL Require Import Lib.Arr Lib.Blocks Model.Dom Model.Scalar Model.Reduce Spec.Defs Spec.Exec
  Proofs.ReduceBlocks Proofs.ReduceWrap Proofs.ReduceSpec Proofs.ContainerProofs.
Import ListNotations.
Open Scope Z_scope.

(* 1. one array or a chunked array: every chunking of the values concatenating to the same array
      gives the same result (any thread count) *)
Theorem C12_rechunk r gk chunks chunks' ng m nt nt' :
  kernel_value_reducer r -> sum_needs_no_nulls fops r -> (0 < nt)%nat -> (0 < nt')%nat -> chunks <> [] -> chunks' <> [] ->
  concat chunks = concat chunks' -> length gk = length (concat chunks) -> wf_mask (length gk) m ->
  covered chunks m -> covered chunks' m ->
  group_func_wrap fops r gk chunks ng m nt = group_func_wrap fops r gk chunks' ng m nt'.
Proof. exact (group_func_wrap_split_independent fops fops_laws r gk chunks chunks' ng m nt nt'). Qed.
Print Assumptions C12_rechunk.

(* 2. min / max / first / last are elements of the input (or null): nothing is computed, so
      nothing can be rounded — floats and temporal values (int64 view) alike *)
Theorem C12_selection_exact_float r op ng rows g :
  kernel_op r = Some op -> (g < ng)%nat ->
  match op with
  | Min | Max | First | Last =>
      let v := get (null fops) (fst (P fops r ng rows)) g in
      v = null fops \/ In v (nonnull fops (group_vals g rows))
  | _ => True
  end.
Proof. exact (selection_is_input_element fops fops_laws r op ng rows g). Qed.
Theorem C12_selection_exact_int nullable nullv r op ng rows g :
  let o := zops nullable nullv in
  kernel_op r = Some op -> (g < ng)%nat ->
  match op with
  | Min | Max | First | Last =>
      let v := get (null o) (fst (P o r ng rows)) g in
      v = null o \/ In v (nonnull o (group_vals g rows))
  | _ => True
  end.
Proof. exact (selection_is_input_element _ (zops_laws nullable nullv) r op ng rows g). Qed.
Print Assumptions C12_selection_exact_float.
Print Assumptions C12_selection_exact_int.

(* 3. integer sums do not wrap within the 64-bit range: the int64 accumulator returns the true
      sum whenever the true sum is representable, whatever the partial sums did *)
Theorem C12_int_sum_no_wrap l :
  - 2 ^ 63 <= fold_left Z.add l 0 < 2 ^ 63 -> wrapped_sum l = fold_left Z.add l 0.
Proof. exact (int_sum_no_wrap l). Qed.
Print Assumptions C12_int_sum_no_wrap.

Example C12_example :
  wrapped_sum [2 ^ 62; 2 ^ 62; 2 ^ 62; - 2 ^ 62; - 2 ^ 62] = 2 ^ 62 /\ wrap64 (2 ^ 63) = - 2 ^ 63.
Proof. split; vm_compute; reflexivity. Qed.

(* Tie B (pins): the functions this property's models transcribe read, statement by statement, as they did when the models
   were written against them; Gen/SourcesGen.v is regenerated from /repo on every run (translator/pins.py). *)
From GL Require Import Gen.SourcesGen Model.Sources Proofs.PinC12.
Theorem C12_modelled_functions_are_the_source's :
  gen_src_group_func_wrap = src_group_func_wrap.
Proof. exact pin_group_func_wrap. Qed.
Print Assumptions C12_modelled_functions_are_the_source's.
