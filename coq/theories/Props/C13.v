(* C13 — a GroupBy object can be reused: results are history-independent.  Statements only.
   Model: Model/GroupByObj.v.  [abs] = the global group code of every row. *)
From Coq Require Import List ZArith Bool.
From GL Require Import Lib.Arr Model.Dom Model.Scalar Model.Reduce Model.GroupByApi Model.GroupByObj
  Proofs.ChunkedKeys Proofs.ObjProofs Proofs.ObjTie Gen.TablesGen.
Import ListNotations.
Open Scope Z_scope.

(* 1. No operation — in particular none of those that re-organise the key representation —
      changes the logical codes, whatever the history *)
Theorem C13_codes_invariant ng ops s : abs (rep (fold_left (step ng) ops s)) = abs (rep s).
Proof. exact (abs_history ng ops s). Qed.
Print Assumptions C13_codes_invariant.

(* 2. A cache, whenever it was filled along the history, holds the value a fresh object would compute *)
Theorem C13_caches ng ops s : cache_ok ng s -> cache_ok ng (fold_left (step ng) ops s).
Proof. exact (cache_ok_history ng ops s). Qed.
Print Assumptions C13_caches.

(* 3. A reduction gives the single pass over (logical codes, values) on every representation
      an object can be in: contiguous, chunk-local codes with pointer tables, unified-but-chunked *)
Theorem C13_reduce_contig r ng c (vchunks : list (list fl)) :
  reduce_on fops r ng (Contig c) vchunks = chunk_cells fops r ng (combine (abs (Contig c)) (concat vchunks)).
Proof. exact (reduce_on_contig fops r ng c vchunks). Qed.
Theorem C13_reduce_chunked_local r ng chs (vchunks : list (list fl)) :
  api_value_reducer r -> local_wf ng chs vchunks ->
  reduce_on fops r ng (ChunkedLocal chs) vchunks
  = chunk_cells fops r ng (combine (abs (ChunkedLocal chs)) (concat vchunks)).
Proof. exact (reduce_on_local fops fops_laws r ng chs vchunks). Qed.
Theorem C13_reduce_chunked_global r ng chs (vchunks : list (list fl)) :
  api_value_reducer r -> global_wf ng chs vchunks ->
  reduce_on fops r ng (ChunkedGlobal chs) vchunks
  = chunk_cells fops r ng (combine (abs (ChunkedGlobal chs)) (concat vchunks)).
Proof. exact (reduce_on_global fops fops_laws r ng chs vchunks). Qed.
Print Assumptions C13_reduce_contig.
Print Assumptions C13_reduce_chunked_local.
Print Assumptions C13_reduce_chunked_global.

(* 4. Hence: after any history the result equals the result on the object as first built
      (a fresh object), here for a chunk-factorized object that was later fully unified *)
Theorem C13_example_history r ng chs (vchunks : list (list fl)) ops :
  api_value_reducer r -> local_wf ng chs vchunks ->
  let s0 := {| rep := ChunkedLocal chs; cached_count := None |} in
  chunk_cells fops r ng (combine (abs (rep (fold_left (step ng) ops s0))) (concat vchunks))
  = reduce_on fops r ng (ChunkedLocal chs) vchunks.
Proof.
  exact (fun Hr Hwf => eq_trans (f_equal (fun c => chunk_cells fops r ng (combine c (concat vchunks)))
                                         (abs_history ng ops {| rep := ChunkedLocal chs; cached_count := None |}))
                                (eq_sym (reduce_on_local fops fops_laws r ng chs vchunks Hr Hwf))).
Qed.
Print Assumptions C13_example_history.

(* 5. Tie B (regenerated from core.py on this run): the three kinds of steps of the model are all there is —
      only construction and _unify_group_key_chunks assign attributes of the object, unification assigns only the
      codes and the pointer tables (never the labels), unify(keep_chunked=True) is called only from the cached
      group-sort indexer, and everything else remembered on the object is a cached_property *)
Theorem C13_only_unification_mutates_the_object :
  forallb self_write_ok gen_self_writes = true /\ forallb unify_site_ok gen_unify_sites = true /\
  gen_cached_properties = cached_properties.
Proof. exact (conj self_writes_ok (conj unify_sites_ok tie_cached_properties)). Qed.
Print Assumptions C13_only_unification_mutates_the_object.

(* Non-vacuity: a chunk-factorized object (two chunks, different dictionaries, a null key), the
   history groups -> transform, and the codes it ends with *)
Example C13_example :
  let s0 := {| rep := ChunkedLocal [([1%nat; 0%nat], [0; 1; 0]); ([2%nat; 1%nat], [0; -1; 1])]; cached_count := None |} in
  let s2 := fold_left (step 3) [OUnifyKeep; OUnify] s0 in
  rep s2 = Contig [1; 0; 1; 2; -1; 1] /\ cached_count s2 = Some [1; 3; 1] /\ abs (rep s0) = [1; 0; 1; 2; -1; 1].
Proof. repeat split; vm_compute; reflexivity. Qed.
