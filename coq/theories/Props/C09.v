(* C09 — rolling operations are per-group sliding-window reductions. *)
From Coq Require Import List ZArith Bool.
From GL Require Import Lib.Arr Lib.Keyed Model.Dom Model.Rolling Proofs.RowGeneric Proofs.RollingInv Proofs.CumSpec Proofs.RollSpec Proofs.RollExt Spec.RowSpec Model.Reduce Proofs.TieRolling Gen.TablesGen Proofs.CompensatedSum.
Import ListNotations.
Open Scope Z_scope.

Section C09.
Context {V : Type} (o : ops V).

(* Unselected rows `continue` before touching any state, so a mask is equivalent to
   filtering the rows first — for all three kernels, every window and min_periods. *)
Theorem C09_sum_mask_is_filter gk vals ng window mp want_mean m :
  length gk = length m -> length vals = length m ->
  filter_by m (rolling_sum_or_mean o gk vals ng window mp (Some m) want_mean)
  = rolling_sum_or_mean o (filter_by m gk) (filter_by m vals) ng window mp None want_mean.
Proof.
  exact (mask_is_filter _ _ _ _ (sum_step o window (match mp with Some m0 => m0 | None => Z.of_nat window end) want_mean) _ gk vals ng m (fun s v => eq_refl)).
Qed.
Theorem C09_ext_mask_is_filter gk vals ng window mp want_max m :
  length gk = length m -> length vals = length m ->
  filter_by m (rolling_max_or_min o gk vals ng window mp (Some m) want_max)
  = rolling_max_or_min o (filter_by m gk) (filter_by m vals) ng window mp None want_max.
Proof.
  exact (mask_is_filter _ _ _ _ (ext_step o window (match mp with Some m0 => m0 | None => Z.of_nat window end) want_max) _ gk vals ng m (fun s v => eq_refl)).
Qed.
Theorem C09_shift_mask_is_filter gk vals ng window want_shift m :
  length gk = length m -> length vals = length m ->
  filter_by m (rolling_shift_or_diff o gk vals ng window (Some m) want_shift)
  = rolling_shift_or_diff o (filter_by m gk) (filter_by m vals) ng window None want_shift.
Proof.
  exact (mask_is_filter _ _ _ _ (shift_step o window want_shift) _ gk vals ng m (fun s v => eq_refl)).
Qed.

(* Rows with a null key change nothing and receive the null marker; groups are
   independent (each output depends only on earlier rows of the same group). *)
Theorem C09_sum_null_keys gk vals ng window mp want_mean mask i k r :
  nth_error (mk_rows gk vals mask) i = Some (k, r) -> k < 0 ->
  nth i (rolling_sum_or_mean o gk vals ng window mp mask want_mean) (null o) = null o.
Proof. exact (null_row_marker _ _ _ _ _ _ gk vals ng mask i (null o) k r). Qed.
Theorem C09_ext_null_keys gk vals ng window mp want_max mask i k r :
  nth_error (mk_rows gk vals mask) i = Some (k, r) -> k < 0 ->
  nth i (rolling_max_or_min o gk vals ng window mp mask want_max) (null o) = null o.
Proof. exact (null_row_marker _ _ _ _ _ _ gk vals ng mask i (null o) k r). Qed.
Theorem C09_shift_null_keys gk vals ng window want_shift mask i k r :
  nth_error (mk_rows gk vals mask) i = Some (k, r) -> k < 0 ->
  nth i (rolling_shift_or_diff o gk vals ng window mask want_shift) (null o) = null o.
Proof. exact (null_row_marker _ _ _ _ _ _ gk vals ng mask i (null o) k r). Qed.
End C09.
Print Assumptions C09_sum_mask_is_filter.
Print Assumptions C09_ext_mask_is_filter.
Print Assumptions C09_shift_mask_is_filter.
Print Assumptions C09_sum_null_keys.

(* ---- the circular buffer (single group, selected rows in row order) ---- *)

(* once `window` rows have been seen, the cell about to be overwritten holds the value seen
   `window` rows earlier: the one leaving the window *)
Theorem C09_evicted_value {V} (nullv : V) w l : (0 < w)%nat -> (w <= length l)%nat ->
  get nullv (fst (buf_of nullv w l)) (snd (buf_of nullv w l)) = nth (length l - w) l nullv.
Proof. exact (evicted_value nullv w l). Qed.
Print Assumptions C09_evicted_value.

(* shift returns exactly the value `window` group-rows earlier (an input value: nothing is computed),
   diff the difference to it; null while fewer than `window` earlier rows exist *)
Theorem C09_shift_diff {V} (o : ops V) w ws l v : (0 < w)%nat ->
  snd (shift_step o w ws (run_shift o w ws l) (v, true)) =
    if (length l <? w)%nat then null o
    else let old := nth (length l - w) l (null o) in
         if ws then old else if is_null o v || is_null o old then null o else sub o v old.
Proof. exact (shift_output o w ws l v). Qed.
Print Assumptions C09_shift_diff.

(* rolling sum / mean: the sum (mean) of the non-null values among the last `window` selected rows of
   the group ending at this row, null unless at least min_periods of them are non-null *)
Theorem C09_sum_mean_float w mp wm l v : (0 < w)%nat ->
  snd (sum_step fops w mp wm (run_sum fops w mp wm l) (v, true)) =
    let q := lastn w (l ++ [v]) in
    if mp <=? window_nn fops q then (if wm then divc fops (window_sum fops q) (window_nn fops q) else window_sum fops q) else null fops.
Proof. exact (sum_output fops fops_laws fops_cancel w mp wm l v). Qed.
Print Assumptions C09_sum_mean_float.

(* integers, and (nullable = true) timestamps / timedeltas, in exact arithmetic: no side condition on the sums (the
   kernel never inspects its running sum).  NB the real kernel keeps its running sums in float64 cells (group_sums =
   np.zeros(ngroups)): this integer-domain statement describes it exactly while the window sums stay below 2^53 in
   magnitude; beyond that the kernel rounds (the property claims exactness for rolling min / max / shift only) *)
Theorem C09_sum_mean_int nullable nullv w mp wm l v : (0 < w)%nat ->
  let o := zops nullable nullv in
  snd (sum_step o w mp wm (run_sum o w mp wm l) (v, true)) =
    let q := lastn w (l ++ [v]) in
    if mp <=? window_nn o q then (if wm then divc o (window_sum o q) (window_nn o q) else window_sum o q) else null o.
Proof. exact (sum_output (zops nullable nullv) (zops_laws nullable nullv) (zops_cancel nullable nullv) w mp wm l v). Qed.
Print Assumptions C09_sum_mean_int.

(* ---- THE statement, whole arrays: any number of interleaved groups, any mask, null keys, any window
   >= 1 and min_periods: the kernel output equals the sliding-window definition written with positions
   (Spec/RowSpec: the last `window` selected rows of the row's group ending at it) ---- *)
Theorem C09_rolling_sum_mean_is_window_float gk (vals : list fl) ng w mp mask wm :
  (0 < w)%nat -> length vals = length gk -> wf_mask (length gk) mask -> (forall k, In k gk -> k < Z.of_nat ng) ->
  rolling_sum_or_mean fops gk vals ng w mp mask wm =
  window_spec fops (if wm then RMean else RSum) w (match mp with Some m => m | None => Z.of_nat w end) gk vals mask.
Proof. exact (rolling_sum_is_spec fops fops_laws fops_cancel gk vals ng w mp mask wm). Qed.
Theorem C09_rolling_sum_mean_is_window_int nullable nullv gk (vals : list Z) ng w mp mask wm :
  (0 < w)%nat -> length vals = length gk -> wf_mask (length gk) mask -> (forall k, In k gk -> k < Z.of_nat ng) ->
  rolling_sum_or_mean (zops nullable nullv) gk vals ng w mp mask wm =
  window_spec (zops nullable nullv) (if wm then RMean else RSum) w (match mp with Some m => m | None => Z.of_nat w end) gk vals mask.
Proof. exact (rolling_sum_is_spec _ (zops_laws nullable nullv) (zops_cancel nullable nullv) gk vals ng w mp mask wm). Qed.
Theorem C09_shift_diff_is_spec {V} (o : ops V) gk vals ng w mask ws :
  (0 < w)%nat -> length vals = length gk -> wf_mask (length gk) mask -> (forall k, In k gk -> k < Z.of_nat ng) ->
  rolling_shift_or_diff o gk vals ng w mask ws = shift_spec o w ws gk vals mask.
Proof. exact (rolling_shift_is_spec o gk vals ng w mask ws). Qed.
(* rolling max / min, whole arrays: the improvement test and the recomputation over the circular
   buffer together maintain the maximum (minimum) of the non-null values among the last `window`
   selected rows of the group; null unless at least min_periods of them are non-null *)
Theorem C09_rolling_max_min_is_window_float gk (vals : list fl) ng w mp mask (want_max : bool) :
  (0 < w)%nat -> length vals = length gk -> wf_mask (length gk) mask -> (forall k, In k gk -> k < Z.of_nat ng) ->
  rolling_max_or_min fops gk vals ng w mp mask want_max =
  window_spec fops (if want_max then RMax else RMin) w (match mp with Some m => m | None => Z.of_nat w end) gk vals mask.
Proof.
  destruct want_max;
  [exact (rolling_max_is_spec fops fops_laws fops_null_unique gk vals ng w mp mask)
  |exact (rolling_min_is_spec fops fops_laws fops_null_unique gk vals ng w mp mask)].
Qed.
Theorem C09_rolling_max_min_is_window_int nullable nullv gk (vals : list Z) ng w mp mask (want_max : bool) :
  (0 < w)%nat -> length vals = length gk -> wf_mask (length gk) mask -> (forall k, In k gk -> k < Z.of_nat ng) ->
  rolling_max_or_min (zops nullable nullv) gk vals ng w mp mask want_max =
  window_spec (zops nullable nullv) (if want_max then RMax else RMin) w (match mp with Some m => m | None => Z.of_nat w end) gk vals mask.
Proof.
  destruct want_max;
  [exact (rolling_max_is_spec _ (zops_laws nullable nullv) (zops_null_unique nullable nullv) gk vals ng w mp mask)
  |exact (rolling_min_is_spec _ (zops_laws nullable nullv) (zops_null_unique nullable nullv) gk vals ng w mp mask)].
Qed.
Print Assumptions C09_rolling_max_min_is_window_float.
Print Assumptions C09_rolling_max_min_is_window_int.
Print Assumptions C09_rolling_sum_mean_is_window_float.
Print Assumptions C09_rolling_sum_mean_is_window_int.
Print Assumptions C09_shift_diff_is_spec.

(* Tie B: which 1-D kernel each rolling operation dispatches to, on this run *)
Theorem C09_dispatch_is_the_source's : gen_rolling_dispatch = rolling_dispatch.
Proof. exact tie_rolling_dispatch. Qed.
Print Assumptions C09_dispatch_is_the_source's.

Example C09_example :
  (snd (sum_step (zops false 0) 3 2 false (run_sum (zops false 0) 3 2 false [5; 1; 2; 7]) (10, true)) = 19) /\
  (snd (shift_step (zops false 0) 2 true (run_shift (zops false 0) 2 true [5; 1; 2; 7]) (10, true)) = 2).
Proof. split; vm_compute; reflexivity. Qed.

(* Floating point (IEEE-754 binary64, round to nearest even, Flocq): the running sum s of a window and the error terms
   e_i the kernel records (Fast2Sum) add up EXACTLY to the sum of all additions (+val) and removals (-old_val): a value
   that has left the window leaves nothing behind.  What remains is second order: each e_i is at most half an ulp of
   the sum it corrects, and adding them up in the compensation c rounds by at most half an ulp of c. *)
From Coq Require Import Reals.
Theorem C09_running_sum_loses_nothing xs s E : fmt64 s -> Forall fmt64 xs ->
  (fst (crun xs s E) + snd (crun xs s E) = s + E + rsum xs)%R.
Proof. exact (run_exact xs s E). Qed.
Print Assumptions C09_running_sum_loses_nothing.

Theorem C09_a_value_that_left_leaves_nothing xs gone inside :
  Forall fmt64 xs -> (rsum xs = rsum gone + rsum (map Ropp gone) + rsum inside)%R ->
  (fst (crun xs 0 0) + snd (crun xs 0 0) = rsum inside)%R.
Proof. exact (nothing_left_behind xs gone inside). Qed.
Print Assumptions C09_a_value_that_left_leaves_nothing.

Theorem C09_reported_sum xs s c D : fmt64 s -> Forall fmt64 xs ->
  let '(s', c', D') := krun xs s c D in (s' + c' = s + c + rsum xs + (D' - D))%R.
Proof. exact (krun_exact xs s c D). Qed.
Print Assumptions C09_reported_sum.

Theorem C09_error_terms_are_second_order s x c e : fmt64 s -> fmt64 x ->
  (Rabs (err_term s x) <= / 2 * Ulp.ulp Zaux.radix2 fexp (s + x))%R /\
  (Rabs (fl64 (c + e) - (c + e)) <= / 2 * Ulp.ulp Zaux.radix2 fexp (c + e))%R.
Proof. intros Fs Fx. exact (conj (err_term_small s x Fs Fx) (comp_round_small c e)). Qed.
Print Assumptions C09_error_terms_are_second_order.

(* the value reported, fl(s + c), against the exact sum W of all updates (= the sum of the window's content): first order in
   the window, second order in the history - H bounds every running sum the group ever had, n counts the updates *)
Theorem C09_reported_sum_error xs H : Forall fmt64 xs -> sums_le xs 0 H ->
  let '(s', c', _) := krun xs 0 0 0 in
  (Rabs (fl64 (s' + c') - rsum xs) <= u64 * Rabs (rsum xs) + (1 + u64) * Dbound (length xs) H 0)%R.
Proof. exact (reported_sum_error xs H). Qed.
Print Assumptions C09_reported_sum_error.

Theorem C09_history_enters_at_second_order n H : (0 <= H)%R ->
  (Dbound n H 0 <= INR n * INR n * (u64 * u64) * H * q64 ^ n)%R.
Proof. exact (history_is_second_order n H). Qed.
Print Assumptions C09_history_enters_at_second_order.

(* Tie B: the update statements of the kernel are the ones the theorems above are about, on this run *)
Theorem C09_sum_updates_are_the_source's : gen_rolling_sum_updates = rolling_sum_updates.
Proof. exact tie_rolling_sum_updates. Qed.
Print Assumptions C09_sum_updates_are_the_source's.

(* Tie B (pins): the functions this property's models transcribe read, statement by statement, as they did when the models
   were written against them; Gen/SourcesGen.v is regenerated from /repo on every run (translator/pins.py). *)
From GL Require Import Gen.SourcesGen Model.Sources Proofs.PinC09.
Theorem C09_modelled_functions_are_the_source's :
  gen_src_rolling_max_or_min_1d = src_rolling_max_or_min_1d /\
  gen_src_min_or_max_and_position = src_min_or_max_and_position /\
  gen_src_rolling_shift_or_diff_1d = src_rolling_shift_or_diff_1d.
Proof. exact (conj pin_rolling_max_or_min_1d (conj pin_min_or_max_and_position pin_rolling_shift_or_diff_1d)). Qed.
Print Assumptions C09_modelled_functions_are_the_source's.

(* the bit-exact transcription of the kernel in primitive floats (Model/RollingFloat.v) that C09's stream runs against the real
   kernel: on the motivating example the value that has left the window leaves nothing behind *)
From Coq Require Import PrimFloat.
From GL Require Import Model.RollingFloat.
Example C09_float_model_example :
  same_list (rolling_float 2 1 false [1e16; 1; 1; 1; 1]%float) [1e16; 1e16; 2; 2; 2]%float = true /\
  same_list (rolling_float 2 1 false [1; infinity; 1; 1; 1; 2]%float) [1; infinity; infinity; 2; 2; 3]%float = true.
Proof. split; vm_compute; reflexivity. Qed.
