(* C09 — rolling operations are per-group sliding-window reductions. *)
From Coq Require Import List ZArith Bool.
From GL Require Import Lib.Arr Lib.Keyed Model.Dom Model.Rolling Proofs.RowGeneric.
Import ListNotations.
Open Scope Z_scope.

Section C09.
Context {V : Type} (o : ops V).

(* Unselected rows `continue` before touching any state, so a mask is equivalent to
   filtering the rows first — for all three kernels, every window and min_periods. *)
Theorem C09_sum_mask_is_filter gk vals ng window mp want_mean m :
  length gk = length m -> length vals = length m ->
  filter_by m (rolling_sum_or_mean o gk vals ng window mp (Some m) want_mean)
  = rolling_sum_or_mean o (filter_by m gk) (filter_by m vals) ng window mp None want_mean.
Proof.
  exact (mask_is_filter _ _ _ _ (sum_step o window (match mp with Some m0 => m0 | None => Z.of_nat window end) want_mean) _ gk vals ng m (fun s v => eq_refl)).
Qed.
Theorem C09_ext_mask_is_filter gk vals ng window mp want_max m :
  length gk = length m -> length vals = length m ->
  filter_by m (rolling_max_or_min o gk vals ng window mp (Some m) want_max)
  = rolling_max_or_min o (filter_by m gk) (filter_by m vals) ng window mp None want_max.
Proof.
  exact (mask_is_filter _ _ _ _ (ext_step o window (match mp with Some m0 => m0 | None => Z.of_nat window end) want_max) _ gk vals ng m (fun s v => eq_refl)).
Qed.
Theorem C09_shift_mask_is_filter gk vals ng window want_shift m :
  length gk = length m -> length vals = length m ->
  filter_by m (rolling_shift_or_diff o gk vals ng window (Some m) want_shift)
  = rolling_shift_or_diff o (filter_by m gk) (filter_by m vals) ng window None want_shift.
Proof.
  exact (mask_is_filter _ _ _ _ (shift_step o window want_shift) _ gk vals ng m (fun s v => eq_refl)).
Qed.

(* Rows with a null key change nothing and receive the null marker; groups are
   independent (each output depends only on earlier rows of the same group). *)
Theorem C09_sum_null_keys gk vals ng window mp want_mean mask i k r :
  nth_error (mk_rows gk vals mask) i = Some (k, r) -> k < 0 ->
  nth i (rolling_sum_or_mean o gk vals ng window mp mask want_mean) (null o) = null o.
Proof. exact (null_row_marker _ _ _ _ _ _ gk vals ng mask i (null o) k r). Qed.
Theorem C09_ext_null_keys gk vals ng window mp want_max mask i k r :
  nth_error (mk_rows gk vals mask) i = Some (k, r) -> k < 0 ->
  nth i (rolling_max_or_min o gk vals ng window mp mask want_max) (null o) = null o.
Proof. exact (null_row_marker _ _ _ _ _ _ gk vals ng mask i (null o) k r). Qed.
Theorem C09_shift_null_keys gk vals ng window want_shift mask i k r :
  nth_error (mk_rows gk vals mask) i = Some (k, r) -> k < 0 ->
  nth i (rolling_shift_or_diff o gk vals ng window mask want_shift) (null o) = null o.
Proof. exact (null_row_marker _ _ _ _ _ _ gk vals ng mask i (null o) k r). Qed.
End C09.
Print Assumptions C09_sum_mask_is_filter.
Print Assumptions C09_ext_mask_is_filter.
Print Assumptions C09_shift_mask_is_filter.
Print Assumptions C09_sum_null_keys.
