(* C07 — transform=True broadcasts exactly the per-group result.  Statements only.
   The per-group result array has ngroups + 1 cells; result[group_ikey] is the model's
   [transform_gather]; chunk-local codes are first unified through the pointer tables. *)
From Coq Require Import List ZArith Bool.
From GL Require Import Lib.Arr Lib.Keyed Model.Dom Model.Scalar Model.Reduce Model.GroupByApi
  Proofs.ReduceBlocks Proofs.ApiProofs Proofs.NullKeys Proofs.ChunkedKeys.
Import ListNotations.
Open Scope Z_scope.

(* 1. one value per input row, in input order: row i reads the cell of its own group
      (the same array the non-transform call reports), a null-key row the trailing cell *)
Theorem C07_gather (result : list fl) codes i :
  (i < length codes)%nat ->
  get (null fops) (transform_gather fops result codes) i =
    (if get (-1) codes i <? 0
     then get (null fops) result (Z.to_nat (get (-1) codes i + Z.of_nat (length result)))
     else get (null fops) result (Z.to_nat (get (-1) codes i))).
Proof. exact (transform_gather_spec fops result codes i). Qed.
Print Assumptions C07_gather.

Theorem C07_length (result : list fl) codes : length (transform_gather fops result codes) = length codes.
Proof. exact (map_length _ codes). Qed.
Print Assumptions C07_length.

(* 2. rows whose key is null receive the neutral result: the trailing cell is never written *)
Theorem C07_null_key_rows r ng (rows : list (Z * fl)) codes i :
  (forall row, In row rows -> fst row < Z.of_nat ng) ->
  (i < length codes)%nat -> get (-1) codes i = -1 ->
  get (null fops) (transform_gather fops (fst (P fops r (S ng) rows)) codes) i = initial_value fops r.
Proof. exact (transform_null_key_row fops r ng rows codes i). Qed.
Print Assumptions C07_null_key_rows.

(* 3. keys factorized in chunks: after unification a row with chunk-local code k reads the
      cell of the GLOBAL group pointer[k]; the null code stays null *)
Theorem C07_chunked_keys (result : list fl) p codes i :
  (i < length codes)%nat ->
  get (null fops) (transform_gather fops result (unify_codes p codes)) i =
    (if get (-1) codes i <? 0
     then get (null fops) result (Z.to_nat (-1 + Z.of_nat (length result)))
     else get (null fops) result (get 0%nat p (Z.to_nat (get (-1) codes i)))).
Proof. exact (transform_through_pointer fops result p codes i). Qed.
Print Assumptions C07_chunked_keys.

(* 4. a group with no selected row keeps the initial accumulator (C01_all_null_group covers the
      all-null case; an unobserved group has no rows at all) *)
Theorem C07_unobserved_group r ng (rows : list (Z * fl)) g :
  (g < ng)%nat -> rows_of g rows = [] ->
  get (null fops) (fst (P fops r ng rows)) g = initial_value fops r /\ get 0 (snd (P fops r ng rows)) g = 0.
Proof. exact (unobserved_group_cell fops r ng rows g). Qed.
Print Assumptions C07_unobserved_group.

Example C07_example :
  transform_gather fops (map fl_of_Z [10; 20; 0]) (unify_codes [1%nat; 0%nat] [0; -1; 1; 0])
  = map fl_of_Z [20; 0; 10; 20].
Proof. vm_compute. reflexivity. Qed.

(* Tie B (pins): the functions this property's models transcribe read, statement by statement, as they did when the models
   were written against them; Gen/SourcesGen.v is regenerated from /repo on every run (translator/pins.py). *)
From GL Require Import Gen.SourcesGen Model.Sources Proofs.PinC07.
Theorem C07_modelled_functions_are_the_source's :
  gen_src_apply_gb_reduction = src_apply_gb_reduction.
Proof. exact pin_apply_gb_reduction. Qed.
Print Assumptions C07_modelled_functions_are_the_source's.
