(* C06 — rows with a null key never influence any group.  Statements only.
   In the kernels a null key is a negative group code. *)
From Coq Require Import List ZArith Bool QArith Qcanon.
From GL Require Import Lib.Arr Lib.Keyed Model.Dom Model.Scalar Model.Reduce Model.GroupByApi Model.Select
  Model.Cumulative Model.Rolling Model.Ema Spec.Defs Spec.RowSpec
  Proofs.ReduceBlocks Proofs.ReduceSpec Proofs.RowGeneric Proofs.SelectProofs Proofs.NullKeys Model.Factorize Proofs.CombineProofs Proofs.ChunkedKeys.
Import ListNotations.
Open Scope Z_scope.

(* 1. Reductions: deleting the null-key rows leaves the whole result (values and counts
      of every group) unchanged, for every reducer *)
Theorem C06_reduce_float r ng rows :
  P fops r ng (filter (fun row => negb (fst row <? 0)) rows) = P fops r ng rows.
Proof. exact (P_drop_null fops r ng rows). Qed.
Theorem C06_reduce_int nullable nullv r ng rows :
  P (zops nullable nullv) r ng (filter (fun row => negb (fst row <? 0)) rows) = P (zops nullable nullv) r ng rows.
Proof. exact (P_drop_null _ r ng rows). Qed.
Print Assumptions C06_reduce_float.
Print Assumptions C06_reduce_int.

(* 2. transform=True: the trailing (ngroups-th) accumulator cell that code -1 reads is never
      written, so every null-key row receives the same constant, whatever the data *)
Theorem C06_trailing_slot r ng (rows : list (Z * fl)) :
  (forall row, In row rows -> fst row < Z.of_nat ng) ->
  get (null fops) (fst (P fops r (S ng) rows)) ng = initial_value fops r /\ get 0 (snd (P fops r (S ng) rows)) ng = 0.
Proof. exact (trailing_slot_untouched fops r ng rows). Qed.
Theorem C06_transform_marker r ng (rows : list (Z * fl)) codes i :
  (forall row, In row rows -> fst row < Z.of_nat ng) ->
  (i < length codes)%nat -> get (-1) codes i = -1 ->
  get (null fops) (transform_gather fops (fst (P fops r (S ng) rows)) codes) i = initial_value fops r.
Proof. exact (transform_null_key_row fops r ng rows codes i). Qed.
Print Assumptions C06_trailing_slot.
Print Assumptions C06_transform_marker.

Section Scans.
Context {V : Type} (o : ops V).

(* 3. Row-aligned kernels: the outputs at the rows that have a key are the outputs of the
      kernel run on the data with the null-key rows deleted ... *)
Theorem C06_cumulative op skip_na gk vals ng mask :
  length vals = length gk -> length (mask_list (length gk) mask) = length gk ->
  filter_by (nonnull_key gk) (cumulative o op skip_na gk vals ng mask)
  = cumulative o op skip_na (filter_by (nonnull_key gk) gk) (filter_by (nonnull_key gk) vals) ng (drop_null_mask gk mask).
Proof. exact (null_rows_deleted _ _ _ _ _ _ gk vals ng mask). Qed.

Theorem C06_rolling_sum gk vals ng window mp want_mean mask :
  length vals = length gk -> length (mask_list (length gk) mask) = length gk ->
  filter_by (nonnull_key gk) (rolling_sum_or_mean o gk vals ng window mp mask want_mean)
  = rolling_sum_or_mean o (filter_by (nonnull_key gk) gk) (filter_by (nonnull_key gk) vals) ng window mp (drop_null_mask gk mask) want_mean.
Proof. exact (null_rows_deleted _ _ _ _ _ _ gk vals ng mask). Qed.

Theorem C06_rolling_ext gk vals ng window mp want_max mask :
  length vals = length gk -> length (mask_list (length gk) mask) = length gk ->
  filter_by (nonnull_key gk) (rolling_max_or_min o gk vals ng window mp mask want_max)
  = rolling_max_or_min o (filter_by (nonnull_key gk) gk) (filter_by (nonnull_key gk) vals) ng window mp (drop_null_mask gk mask) want_max.
Proof. exact (null_rows_deleted _ _ _ _ _ _ gk vals ng mask). Qed.

Theorem C06_shift_diff gk vals ng window want_shift mask :
  length vals = length gk -> length (mask_list (length gk) mask) = length gk ->
  filter_by (nonnull_key gk) (rolling_shift_or_diff o gk vals ng window mask want_shift)
  = rolling_shift_or_diff o (filter_by (nonnull_key gk) gk) (filter_by (nonnull_key gk) vals) ng window (drop_null_mask gk mask) want_shift.
Proof. exact (null_rows_deleted _ _ _ _ _ _ gk vals ng mask). Qed.

(* ... and a null-key row itself receives the constant marker *)
Theorem C06_cumulative_marker op skip_na gk vals ng mask i k r :
  nth_error (mk_rows gk vals mask) i = Some (k, r) -> k < 0 ->
  nth i (cumulative o op skip_na gk vals ng mask) (cum_na o op) = cum_na o op.
Proof. exact (null_row_marker _ _ _ _ _ _ gk vals ng mask i (cum_na o op) k r). Qed.
Theorem C06_rolling_marker gk vals ng window mp want_mean mask i k r :
  nth_error (mk_rows gk vals mask) i = Some (k, r) -> k < 0 ->
  nth i (rolling_sum_or_mean o gk vals ng window mp mask want_mean) (null o) = null o.
Proof. exact (null_row_marker _ _ _ _ _ _ gk vals ng mask i (null o) k r). Qed.
End Scans.
Print Assumptions C06_cumulative.
Print Assumptions C06_rolling_sum.
Print Assumptions C06_rolling_ext.
Print Assumptions C06_shift_diff.
Print Assumptions C06_cumulative_marker.

(* 4. grouped EMA (plain and time-weighted): same two statements *)
Theorem C06_ema gk vals alpha ng mask :
  length vals = length gk -> length (mask_list (length gk) mask) = length gk ->
  filter_by (nonnull_key gk) (ema_grouped gk vals alpha ng mask)
  = ema_grouped (filter_by (nonnull_key gk) gk) (filter_by (nonnull_key gk) vals) alpha ng (drop_null_mask gk mask).
Proof. exact (null_rows_deleted _ _ _ ecell0 (ema_step (1 - alpha)%Qc) FNan gk vals ng mask). Qed.
Theorem C06_ema_marker gk vals alpha ng mask i k r :
  nth_error (mk_rows gk vals mask) i = Some (k, r) -> k < 0 ->
  nth i (ema_grouped gk vals alpha ng mask) FNan = FNan.
Proof. exact (ema_null_row_marker gk vals alpha ng mask i k r). Qed.
Theorem C06_ema_timed_marker decay gk vals times ng mask i :
  (i < length gk)%nat -> length vals = length gk -> length times = length gk ->
  length (mask_list (length gk) mask) = length gk -> get (-1) gk i < 0 ->
  nth i (ema_grouped_timed decay gk vals times ng mask) FNan = FNan.
Proof. exact (ema_timed_null_row_marker decay gk vals times ng mask i). Qed.
Print Assumptions C06_ema.
Print Assumptions C06_ema_marker.
Print Assumptions C06_ema_timed_marker.

(* 5. row selection never returns a null-key row *)
Theorem C06_select g gk mask i : In i (positions_of g gk mask) -> 0 <= get (-1) gk i.
Proof. exact (no_null_key_selected g gk mask i). Qed.
Print Assumptions C06_select.

Example C06_example :
  cumulative fops CSum true [0; -1; 0; 1; -1] (map fl_of_Z [1; 100; 2; 5; 100]) 2 None
  = [fl_of_Z 1; FNan; fl_of_Z 3; fl_of_Z 5; FNan].
Proof. vm_compute; reflexivity. Qed.

(* several keys: a row's combined key is the null code exactly when one of its component codes is null
   (so a null in ANY key position removes the row from every group); chunk-local codes keep the null code
   through pointer unification *)
Theorem C06_multi_key_null shape rows : shape <> [] -> Forall (row_ok shape) rows ->
  Forall2 (fun row c => c = -1 <-> In (-1) row) rows
          (fst (combine_factorizations rows (code_weights shape) (Z.to_nat (prod shape)))).
Proof. exact (multi_key_null_iff shape rows). Qed.
Theorem C06_unify_keeps_null p k : k < 0 -> unify_code p k = -1.
Proof. exact (unify_code_null p k). Qed.
Print Assumptions C06_multi_key_null.
Print Assumptions C06_unify_keeps_null.

(* Tie B (pins): the functions this property's models transcribe read, statement by statement, as they did when the models
   were written against them; Gen/SourcesGen.v is regenerated from /repo on every run (translator/pins.py). *)
From GL Require Import Gen.SourcesGen Model.Sources Proofs.PinC06.
Theorem C06_modelled_functions_are_the_source's :
  gen_src_group_by_reduce = src_group_by_reduce /\
  gen_src_cumulative_reduce = src_cumulative_reduce /\
  gen_src_rolling_max_or_min_1d = src_rolling_max_or_min_1d /\
  gen_src_rolling_shift_or_diff_1d = src_rolling_shift_or_diff_1d /\
  gen_src_ema_grouped = src_ema_grouped /\
  gen_src_ema_grouped_timed = src_ema_grouped_timed /\
  gen_src_find_nth = src_find_nth /\
  gen_src_find_first_or_last_n = src_find_first_or_last_n.
Proof. exact (conj pin_group_by_reduce (conj pin_cumulative_reduce (conj pin_rolling_max_or_min_1d (conj pin_rolling_shift_or_diff_1d (conj pin_ema_grouped (conj pin_ema_grouped_timed (conj pin_find_nth pin_find_first_or_last_n))))))). Qed.
Print Assumptions C06_modelled_functions_are_the_source's.
