(* C18 — misaligned inputs are rejected, aligned inputs are accepted.  Statements only.
   Model: Model/Validate.v (decision functions of the validators). *)
From Coq Require Import List ZArith Bool.
From GL Require Import Model.Validate Proofs.ValidateProofs.
Import ListNotations.

(* 1. _validate_input_lengths_and_indexes accepts exactly the inputs that all have one length
      and whose pandas indexes are all equal *)
Theorem C18_validate args :
  validate_lengths_and_indexes args = true <->
  (forall a b, In a args -> In b args -> fst a = fst b) /\
  (forall a b i j, In a args -> In b args -> snd a = Some i -> snd b = Some j -> i = j).
Proof. exact (validate_spec args). Qed.
Print Assumptions C18_validate.

(* 2. _preprocess_arguments (values and boolean mask against the keys): accept <=> aligned —
      same length as the keys, pandas indexes identical to each other and to the keys' index *)
Theorem C18_accept_iff_aligned key_len key_index a0 args :
  preprocess_ok key_len key_index (a0 :: args) = true <-> aligned key_len key_index (a0 :: args).
Proof. exact (preprocess_accepts_iff_aligned key_len key_index a0 args). Qed.
Print Assumptions C18_accept_iff_aligned.

(* Non-vacuity: an aligned and three misaligned argument lists (short values, permuted index,
   index different from the keys') *)
Example C18_example :
  preprocess_ok 6 (Some 0) [(6, Some 0); (6, None)] = true /\
  preprocess_ok 6 (Some 0) [(5, Some 0); (6, None)] = false /\
  preprocess_ok 6 (Some 0) [(6, Some 0); (6, Some 1)] = false /\
  preprocess_ok 6 (Some 0) [(6, Some 1); (6, None)] = false.
Proof. repeat split; reflexivity. Qed.

(* Tie B (pins): the functions this property's models transcribe read, statement by statement, as they did when the models
   were written against them; Gen/SourcesGen.v is regenerated from /repo on every run (translator/pins.py). *)
From GL Require Import Gen.SourcesGen Model.Sources Proofs.PinC18.
Theorem C18_modelled_functions_are_the_source's :
  gen_src_validate_lengths_and_indexes = src_validate_lengths_and_indexes /\
  gen_src_preprocess_arguments = src_preprocess_arguments /\
  gen_src_check_data_inputs_aligned = src_check_data_inputs_aligned.
Proof. exact (conj pin_validate_lengths_and_indexes (conj pin_preprocess_arguments pin_check_data_inputs_aligned)). Qed.
Print Assumptions C18_modelled_functions_are_the_source's.
