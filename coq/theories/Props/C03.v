(* C03 — results do not depend on the execution strategy.  Statements only. *)
From Coq Require Import List ZArith Bool Lia Sorting.Permutation.
From GL Require Import Lib.Arr Lib.Keyed Lib.Blocks Lib.ParMap Model.Dom Model.Scalar Model.Reduce Model.GroupByApi
  Spec.Defs Spec.Exec Proofs.ReduceMerge Proofs.ReduceBlocks Proofs.ReduceWrap Proofs.ChunkedKeys Proofs.TieCoreMerge Gen.TablesGen.
Import ListNotations.
Open Scope Z_scope.

(* 1. Worker threads and value chunking: any number of threads and any chunking of the
      values (on either side) give the same kernel result *)
Theorem C03_threads_and_value_chunks_float r gk chunks chunks' ng m nt nt' :
  kernel_value_reducer r -> sum_needs_no_nulls fops r -> (0 < nt)%nat -> (0 < nt')%nat -> chunks <> [] -> chunks' <> [] ->
  concat chunks = concat chunks' -> length gk = length (concat chunks) -> wf_mask (length gk) m ->
  covered chunks m -> covered chunks' m ->
  group_func_wrap fops r gk chunks ng m nt = group_func_wrap fops r gk chunks' ng m nt'.
Proof. exact (group_func_wrap_split_independent fops fops_laws r gk chunks chunks' ng m nt nt'). Qed.
Print Assumptions C03_threads_and_value_chunks_float.

Theorem C03_threads_and_value_chunks_int nullv r gk chunks chunks' ng m nt nt' :
  let o := zops false nullv in
  kernel_value_reducer r -> (0 < nt)%nat -> (0 < nt')%nat -> chunks <> [] -> chunks' <> [] ->
  concat chunks = concat chunks' -> length gk = length (concat chunks) -> wf_mask (length gk) m ->
  covered chunks m -> covered chunks' m ->
  group_func_wrap o r gk chunks ng m nt = group_func_wrap o r gk chunks' ng m nt'.
Proof.
  exact (fun Hr => group_func_wrap_split_independent _ (zops_laws false nullv)
                     r gk chunks chunks' ng m nt nt' Hr (fun _ _ => eq_refl)).
Qed.
Print Assumptions C03_threads_and_value_chunks_int.

(* timestamps / timedeltas (int64 view, NaT = sentinel): every reducer the wrappers pass for them (the nan*
   family, count, first, last) — the partial results are merged by the plain addition / the same reducer *)
Theorem C03_threads_and_value_chunks_temporal r gk chunks chunks' ng m nt nt' :
  let o := zops true 0 in
  kernel_value_reducer r -> r <> Rsum -> (0 < nt)%nat -> (0 < nt')%nat -> chunks <> [] -> chunks' <> [] ->
  concat chunks = concat chunks' -> length gk = length (concat chunks) -> wf_mask (length gk) m ->
  covered chunks m -> covered chunks' m ->
  group_func_wrap o r gk chunks ng m nt = group_func_wrap o r gk chunks' ng m nt'.
Proof.
  exact (fun Hr Hne => group_func_wrap_split_independent _ (zops_laws true 0)
                     r gk chunks chunks' ng m nt nt' Hr (fun E => False_ind _ (Hne E))).
Qed.
Print Assumptions C03_threads_and_value_chunks_temporal.

(* 2. Keys factorized whole or in chunks (also: the sorted-prefix fast path is just one more
      chunk): per-chunk kernel runs on chunk-local codes, scattered through the pointer
      tables with the count-aware merge, equal the single pass over the whole input with
      unified codes — every chunking, every per-chunk dictionary order *)
Theorem C03_chunked_keys_float r ng chunks : api_value_reducer r ->
  (forall ch, In ch chunks -> chunk_ok ng ch) ->
  apply_across_chunks fops r (core_merge r) ng chunks
  = chunk_cells fops r ng (concat (map (fun ch => unify_rows (fst ch) (snd ch)) chunks)).
Proof. exact (chunked_model_equal_whole fops fops_laws r ng chunks). Qed.
Print Assumptions C03_chunked_keys_float.

(* integers, and (nullable = true) timestamps / timedeltas with the NaT sentinel.  No side condition on the partial
   sums: since /repo fix "partial sums of key chunks are added plainly" a partial sum that equals the sentinel is
   not dropped by the merge (before that fix this theorem needed sum_closed, which is false for sentinel-null
   integers — the hypothesis the proof forced was the defect) *)
Theorem C03_chunked_keys_int nullable nullv r ng chunks : api_value_reducer r ->
  (forall ch, In ch chunks -> chunk_ok ng ch) ->
  apply_across_chunks (zops nullable nullv) r (core_merge r) ng chunks
  = chunk_cells (zops nullable nullv) r ng (concat (map (fun ch => unify_rows (fst ch) (snd ch)) chunks)).
Proof. exact (chunked_model_equal_whole _ (zops_laws nullable nullv) r ng chunks). Qed.
Print Assumptions C03_chunked_keys_int.

(* Tie B: the reducer core.py merges the key-chunk results of sums / counts with is the plain sum, on this run *)
Theorem C03_chunk_merge_dispatch_is_the_source's : Gen.TablesGen.gen_core_merge_sums = core_merge_sums.
Proof. exact tie_core_merge_sums. Qed.
Print Assumptions C03_chunk_merge_dispatch_is_the_source's.

(* 3. Order in which parallel tasks finish: results are stored at their submission index,
      so every completion order yields map f args *)
Theorem C03_completion_order {A R} (f : A -> R) (args : list A) (completions : list (nat * R)) :
  Permutation completions (submissions f args) ->
  gather (length args) completions = map (fun a => Some (f a)) args.
Proof. exact (gather_any_completion_order f args completions). Qed.
Print Assumptions C03_completion_order.

(* 4. The split into blocks used by the threads is a partition of the rows *)
Theorem C03_array_split_concat {A} (l : list A) k : (0 < k)%nat -> concat (array_split l k) = l.
Proof. exact (array_split_concat l k). Qed.
Print Assumptions C03_array_split_concat.

(* Non-vacuity: two key chunks with different local dictionaries, a group absent from chunk 0 *)
Example C03_example :
  let ch0 := ([1%nat; 0%nat], [(0, fl_of_Z 5); (1, fl_of_Z 7); (0, fl_of_Z 1)]) in
  let ch1 := ([2%nat; 1%nat], [(0, fl_of_Z 4); (-1, fl_of_Z 100); (1, fl_of_Z 2)]) in
  chunk_ok 3 ch0 /\ chunk_ok 3 ch1 /\
  map snd (apply_across_chunks fops Rnanmin (core_merge Rnanmin) 3 [ch0; ch1]) = [1; 3; 1].
Proof.
  assert (N0 : NoDup [1%nat; 0%nat]) by (repeat constructor; simpl; intuition lia).
  assert (N1 : NoDup [2%nat; 1%nat]) by (repeat constructor; simpl; intuition lia).
  cbv zeta. unfold chunk_ok, local_ok. cbn [fst snd length].
  split; [|split].
  - split; [exact N0|]. split.
    + intros g [E|[E|[]]]; subst; lia.
    + intros kv [E|[E|[E|[]]]]; subst; cbn [fst]; lia.
  - split; [exact N1|]. split.
    + intros g [E|[E|[]]]; subst; lia.
    + intros kv [E|[E|[E|[]]]]; subst; cbn [fst]; lia.
  - vm_compute. reflexivity.
Qed.

(* Tie B (pins): the functions this property's models transcribe read, statement by statement, as they did when the models
   were written against them; Gen/SourcesGen.v is regenerated from /repo on every run (translator/pins.py). *)
From GL Require Import Gen.SourcesGen Model.Sources Proofs.PinC03.
Theorem C03_modelled_functions_are_the_source's :
  gen_src_chunk_groupby_args = src_chunk_groupby_args /\
  gen_src_reduce_array_pair = src_reduce_array_pair /\
  gen_src_combine_chunk_results = src_combine_chunk_results /\
  gen_src_apply_across_chunked_keys = src_apply_across_chunked_keys.
Proof. exact (conj pin_chunk_groupby_args (conj pin_reduce_array_pair (conj pin_combine_chunk_results pin_apply_across_chunked_keys))). Qed.
Print Assumptions C03_modelled_functions_are_the_source's.
