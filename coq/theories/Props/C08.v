(* C08 — cumulative operations are per-group prefix reductions. *)
From Coq Require Import List ZArith Bool.
From GL Require Import Lib.Arr Lib.Keyed Model.Dom Model.Scalar Model.Cumulative
  Spec.Defs Proofs.ReduceSeries Proofs.RowGeneric Proofs.CumProofs Proofs.CumSpec Proofs.CumArray Spec.RowSpec Proofs.GenTie Proofs.TieReducerTables Gen.ScalarFuncsGen.
Import ListNotations.
Open Scope Z_scope.

Section C08.
Context {V : Type} (o : ops V).

(* values of other groups never enter, rows with a null key never enter and get
   the constant null marker: the outputs at the remaining rows are those of the
   kernel run with the null-key rows deleted *)
Theorem C08_null_keys temporal op skip_na gk vals ng mask :
  length vals = length gk -> length (mask_list (length gk) mask) = length gk ->
  filter_by (nonnull_key gk) (cumulative_t o temporal op skip_na gk vals ng mask)
  = kscan (cum_init o op, 0) (cum_step (reducer_of o (cum_reducer temporal op skip_na))) (cum_na o op)
          (filter (fun r : Z * (V * bool) => 0 <=? fst r) (mk_rows gk vals mask)) (repeat (cum_init o op, 0) ng).
Proof. exact (null_rows_irrelevant _ _ _ _ _ _ gk vals ng mask). Qed.

(* masked rows pass the running value through without changing it: a mask is
   equivalent to filtering the rows first *)
Theorem C08_mask_is_filter temporal op skip_na gk vals ng m :
  length gk = length m -> length vals = length m ->
  filter_by m (cumulative_t o temporal op skip_na gk vals ng (Some m))
  = cumulative_t o temporal op skip_na (filter_by m gk) (filter_by m vals) ng None.
Proof.
  exact (mask_is_filter _ _ _ (cum_init o op, 0) (cum_step (reducer_of o (cum_reducer temporal op skip_na))) (cum_na o op)
           gk vals ng m (fun s v => eq_refl)).
Qed.
End C08.
Print Assumptions C08_null_keys.
Print Assumptions C08_mask_is_filter.

(* the reducers the cumulative kernels fold with are the ones in /repo's source *)
Theorem C08_reducers_are_the_source's :
  (forall a b c, @g_nansum fl fops a b c = r_nansum fops a b c) /\
  (forall a b c, @g_sum fl fops a b c = r_sum fops a b c) /\
  (forall a b c, @g_nanmin fl fops a b c = r_nanmin fops a b c) /\
  (forall a b c, @g_nanmax fl fops a b c = r_nanmax fops a b c) /\
  (forall a b c, @g_nancount Z (zops true 0) a b c = r_nancount (zops true 0) a b c) /\
  (* the null-keeping sum of timestamp / timedelta columns, and the one place that selects it *)
  (forall a b c, @g_nullsum Z (zops true 0) a b c = r_nullsum (zops true 0) a b c) /\
  Gen.TablesGen.gen_direct_reducers = direct_reducers.
Proof.
  exact (conj (tie_nansum fops) (conj (tie_sum fops) (conj (tie_nanmin fops) (conj (tie_nanmax fops)
        (conj (tie_nancount (zops true 0)) (conj (tie_nullsum (zops true 0)) tie_direct_reducers)))))).
Qed.
Print Assumptions C08_reducers_are_the_source's.

(* ---- per-group prefix reductions (one group's series of selected rows, any length) ---- *)
Theorem C08_cumsum_prefix (l : list fl) v :
  snd (cum_step (r_nansum fops) (run_cum (r_nansum fops) (zero fops) l) (v, true)) = sum_list fops (nonnull fops (l ++ [v])).
Proof. exact (cumsum_prefix fops fops_laws l v). Qed.
Theorem C08_cumsum_prefix_int nullable nullv (l : list Z) v :
  let o := zops nullable nullv in
  snd (cum_step (r_nansum o) (run_cum (r_nansum o) (zero o) l) (v, true)) = sum_list o (nonnull o (l ++ [v])).
Proof. exact (cumsum_prefix _ (zops_laws nullable nullv) l v). Qed.
Theorem C08_cummin_prefix (l : list fl) v :
  let out := snd (cum_step (r_nanmin fops) (run_cum (r_nanmin fops) (null fops) l) (v, true)) in
  match nonnull fops (l ++ [v]) with [] => out = null fops | _ => is_min_of fops out (nonnull fops (l ++ [v])) end.
Proof. exact (cummin_prefix fops fops_laws l v). Qed.
Theorem C08_cummax_prefix (l : list fl) v :
  let out := snd (cum_step (r_nanmax fops) (run_cum (r_nanmax fops) (null fops) l) (v, true)) in
  match nonnull fops (l ++ [v]) with [] => out = null fops | _ => is_max_of fops out (nonnull fops (l ++ [v])) end.
Proof. exact (cummax_prefix fops fops_laws l v). Qed.
Theorem C08_cummax_prefix_temporal (l : list Z) v :
  let o := zops true 0 in
  let out := snd (cum_step (r_nanmax o) (run_cum (r_nanmax o) (null o) l) (v, true)) in
  match nonnull o (l ++ [v]) with [] => out = null o | _ => is_max_of o out (nonnull o (l ++ [v])) end.
Proof. exact (cummax_prefix _ (zops_laws true 0) l v). Qed.
(* cumcount: the counter after the row = rows of the group so far; the public result subtracts one *)
Theorem C08_cumcount (l : list fl) v init :
  snd (series (r_count fops) (l ++ [v]) (init, 0)) = Z.of_nat (length l) + 1.
Proof. exact (cumcount_prefix fops l v init). Qed.
(* a masked row passes the running value through without changing the cell *)
Theorem C08_masked_row (rf : @reducer fl) c v : cum_step rf c (v, false) = (c, fst c).
Proof. exact (cum_masked rf c v). Qed.
Print Assumptions C08_cumsum_prefix.
Print Assumptions C08_cummin_prefix.
Print Assumptions C08_cummax_prefix_temporal.
Print Assumptions C08_cumcount.

(* ---- whole array, any number of groups, any mask: the output at every row with a real key is the
   reducer folded over the group's earlier selected values (plus this row's when selected) ---- *)
Theorem C08_every_row {V} (o : ops V) op skip_na gk vals ng mask i k v sel :
  nth_error (mk_rows gk vals mask) i = Some (k, (v, sel)) -> 0 <= k -> (Z.to_nat k < ng)%nat ->
  nth i (cumulative o op skip_na gk vals ng mask) (null o) =
    fst (series (reducer_of o (cum_reducer false op skip_na))
           (earlier gk vals mask k i ++ (if sel then [v] else [])) (cum_init o op, 0)).
Proof. exact (cumulative_row o op skip_na gk vals ng mask i k v sel). Qed.
Print Assumptions C08_every_row.

Theorem C08_cumsum_every_row gk (vals : list fl) ng mask i k v :
  nth_error (mk_rows gk vals mask) i = Some (k, (v, true)) -> 0 <= k -> (Z.to_nat k < ng)%nat ->
  nth i (cumulative fops CSum true gk vals ng mask) (null fops) =
    sum_list fops (nonnull fops (earlier gk vals mask k i ++ [v])).
Proof. exact (cumsum_row fops fops_laws gk vals ng mask i k v). Qed.
Print Assumptions C08_cumsum_every_row.

(* ---- THE statement: the kernel's whole output array equals the per-group prefix reduction written
   with positions (Spec/RowSpec.cum_spec: filter the group's selected positions <= i, reduce their
   non-null values), for cumsum/cummin/cummax/cumcount, every dtype class, any mask, null keys ---- *)
Theorem C08_cumulative_is_prefix_reduction_float op gk (vals : list fl) ng mask :
  length vals = length gk -> wf_mask (length gk) mask -> (forall k, In k gk -> k < Z.of_nat ng) ->
  cumulative fops op true gk vals ng mask = cum_spec fops op gk vals mask.
Proof. exact (cumulative_is_cum_spec fops fops_laws false op gk vals ng mask). Qed.
(* integers and (temporal = true) timestamps / timedeltas viewed as integers with the NaT sentinel *)
Theorem C08_cumulative_is_prefix_reduction_int temporal nullable nullv op gk (vals : list Z) ng mask :
  length vals = length gk -> wf_mask (length gk) mask -> (forall k, In k gk -> k < Z.of_nat ng) ->
  cumulative_t (zops nullable nullv) temporal op true gk vals ng mask = cum_spec (zops nullable nullv) op gk vals mask.
Proof. exact (cumulative_is_cum_spec _ (zops_laws nullable nullv) temporal op gk vals ng mask). Qed.
(* skip_na = False on numeric columns: floats — a NaN makes the running sum NaN from there on;
   plain integers — every value is added (they hold no nulls; no sentinel is looked at) *)
Theorem C08_cumsum_noskip_float gk (vals : list fl) ng mask :
  length vals = length gk -> wf_mask (length gk) mask -> (forall k, In k gk -> k < Z.of_nat ng) ->
  cumulative fops CSum false gk vals ng mask = cumsum_noskip_spec fops gk vals mask.
Proof. exact (cumsum_noskip_is_spec fops fops_laws fops_null_unique fops_add_null gk vals ng mask). Qed.
Theorem C08_cumsum_noskip_int nullv gk (vals : list Z) ng mask :
  length vals = length gk -> wf_mask (length gk) mask -> (forall k, In k gk -> k < Z.of_nat ng) ->
  cumulative (zops false nullv) CSum false gk vals ng mask = cumsum_noskip_spec (zops false nullv) gk vals mask.
Proof.
  exact (cumsum_noskip_is_spec _ (zops_laws false nullv) (zops_null_unique false nullv)
           (fun a b (H : false = true \/ false = true) => match H with or_introl e | or_intror e => False_ind _ (Bool.diff_false_true e) end)
           gk vals ng mask).
Qed.
Print Assumptions C08_cumulative_is_prefix_reduction_float.
Print Assumptions C08_cumulative_is_prefix_reduction_int.
Print Assumptions C08_cumsum_noskip_float.
Print Assumptions C08_cumsum_noskip_int.

(* ---- the kernel AS WRITTEN (arrays: the running value is read back from the output array at the group's previous
   accepted row, target[-1] before the first one; masked rows copy it; null-key rows are overwritten afterwards)
   computes the per-group-cell model, hence the prefix reductions above ---- *)
Theorem C08_array_kernel_is_the_cell_model {V} (o : ops V) temporal op skip_na gk vals ng mask :
  length vals = length gk -> wf_mask (length gk) mask -> (forall k, In k gk -> k < Z.of_nat ng) ->
  cumulative_array o temporal op skip_na gk vals ng mask = cumulative_t o temporal op skip_na gk vals ng mask.
Proof. exact (cumulative_array_is_cumulative o temporal op skip_na gk vals ng mask). Qed.
Theorem C08_array_kernel_is_prefix_reduction_float op gk (vals : list fl) ng mask :
  length vals = length gk -> wf_mask (length gk) mask -> (forall k, In k gk -> k < Z.of_nat ng) ->
  cumulative_array fops false op true gk vals ng mask = cum_spec fops op gk vals mask.
Proof.
  exact (fun Hv Hm Hng => eq_trans (cumulative_array_is_cumulative fops false op true gk vals ng mask Hv Hm Hng)
                                   (cumulative_is_cum_spec fops fops_laws false op gk vals ng mask Hv Hm Hng)).
Qed.
Print Assumptions C08_array_kernel_is_the_cell_model.
Print Assumptions C08_array_kernel_is_prefix_reduction_float.

Example C08_example :
  cumulative (zops true 0) CMax true [0; 1; 0; -1; 0] [5; 100; MIN_INT; 100; 7] 2 None = [5; 100; 5; MIN_INT; 7] /\
  cumulative_array (zops true 0) false CMax true [0; 1; 0; -1; 0] [5; 100; MIN_INT; 100; 7] 2 (Some [true; true; false; true; true]) = [5; 100; 5; MIN_INT; 7].
Proof. split; vm_compute; reflexivity. Qed.

(* Tie B (pins): the functions this property's models transcribe read, statement by statement, as they did when the models
   were written against them; Gen/SourcesGen.v is regenerated from /repo on every run (translator/pins.py). *)
From GL Require Import Gen.SourcesGen Model.Sources Proofs.PinC08.
Theorem C08_modelled_functions_are_the_source's :
  gen_src_cumulative_reduce = src_cumulative_reduce /\
  gen_src_apply_cumulative = src_apply_cumulative.
Proof. exact (conj pin_cumulative_reduce pin_apply_cumulative). Qed.
Print Assumptions C08_modelled_functions_are_the_source's.

(* The floating-point side, bit for bit.  Model/CumFloat.v transcribes the cumulative kernels on float64 (sum / min / max, skip_na
   on and off, masks, null codes) in Coq's primitive binary64 floats; C08's stream runs it inside Coq against the real functions.
   For EVERY float64 input (NaN, infinities, any magnitude), every mask and both settings of skip_na: the cumulative sum written at
   a kept row of group k is - as a bit pattern, not up to rounding - the single-pass group sum (Model/ReduceFloat.v, the model C04's
   stream ties to _group_func_wrap) of the rows up to and including that row; and there is one output per row. *)
From Coq Require Import PrimFloat.
From GL Require Model.ReduceFloat Model.CumFloat Proofs.CumFloatProofs.
Theorem C08_float_cumsum_is_the_running_group_sum sk rows i k x :
  nth_error rows i = Some (k, x, true) -> (0 <= k)%Z ->
  nth_error (CumFloat.cum_f CumFloat.CSum sk rows) i
  = Some (fst (ReduceFloat.piece_reduce (CumFloatProofs.fr sk) k (CumFloatProofs.kept (firstn (S i) rows)))).
Proof. exact (CumFloatProofs.cumsum_is_running_group_sum sk rows i k x). Qed.
Theorem C08_float_one_output_per_row sk rows : length (CumFloat.cum_f CumFloat.CSum sk rows) = length rows.
Proof. exact (CumFloatProofs.cum_one_output_per_row sk rows). Qed.
Print Assumptions C08_float_cumsum_is_the_running_group_sum.
Print Assumptions C08_float_one_output_per_row.
Example C08_float_model_example :
  CumFloat.check_cum (0%nat, true, [(0%Z, 1e16%float, true); (1%Z, 2%float, true); (0%Z, 1%float, true); ((-1)%Z, 5%float, true); (0%Z, nan, true);
                                    (0%Z, (-1e16)%float, true); (1%Z, 7%float, false); (0%Z, 1%float, true)],
                      [1e16; 2; 1e16; nan; 1e16; 0; 2; 1]%float) = true /\
  nth_error [(0%Z, 1e16%float, true); (0%Z, 1%float, true)] 1 = Some (0%Z, 1%float, true).
Proof. vm_compute. repeat split. Qed.

(* skip_na = False for cummin / cummax: a null that is not skipped makes the running extreme null from there on - in the first
   position of a group as well as later, for NaN as well as for the in-band NaT of timestamps / timedeltas (zops true) - and on
   null-free data the result is the running extreme.  (Before /repo's fix of ScalarFuncs.max / min a leading NaN was dropped and
   a NaT never stuck to a running maximum.) *)
Theorem C08_cumext_noskip_float temporal (want_max : bool) gk (vals : list fl) ng mask :
  length vals = length gk -> wf_mask (length gk) mask -> (forall k, In k gk -> k < Z.of_nat ng) ->
  cumulative_t fops temporal (if want_max then CMax else CMin) false gk vals ng mask = cumext_noskip_spec fops want_max gk vals mask.
Proof. exact (cumext_noskip_is_spec fops fops_null_unique temporal want_max gk vals ng mask). Qed.
Theorem C08_cumext_noskip_int temporal nullable nullv (want_max : bool) gk (vals : list Z) ng mask :
  length vals = length gk -> wf_mask (length gk) mask -> (forall k, In k gk -> k < Z.of_nat ng) ->
  cumulative_t (zops nullable nullv) temporal (if want_max then CMax else CMin) false gk vals ng mask
  = cumext_noskip_spec (zops nullable nullv) want_max gk vals mask.
Proof. exact (cumext_noskip_is_spec _ (zops_null_unique nullable nullv) temporal want_max gk vals ng mask). Qed.
Print Assumptions C08_cumext_noskip_float.
Print Assumptions C08_cumext_noskip_int.
Example C08_cumext_noskip_example :
  cumulative_t (zops true MIN_INT) true CMax false [0; 0; 0] [5; MIN_INT; 7] 1 None = [5; MIN_INT; MIN_INT] /\
  cumulative_t (zops true MIN_INT) true CMax false [0; 1; 0; 1] [MIN_INT; 3; 7; 9] 2 None = [MIN_INT; 3; MIN_INT; 9] /\
  cumext_noskip_spec (zops true MIN_INT) true [0; 1; 0; 1] [MIN_INT; 3; 7; 9] None = [MIN_INT; 3; MIN_INT; 9].
Proof. vm_compute. repeat split. Qed.

(* ... and groups are independent in IEEE arithmetic: for every float64 input, mask, operation and skip_na setting the outputs at
   the rows of group g are, bit for bit, the outputs of the same kernel on the rows of group g alone. *)
From GL Require Proofs.EmaFloatProofs Proofs.CumFloatIndep.
Theorem C08_float_groups_are_independent o sk g rows : (0 <= g)%Z ->
  EmaFloatProofs.outs_of g rows (CumFloat.cum_f o sk rows) = CumFloat.cum_f o sk (filter (EmaFloatProofs.of_group g) rows).
Proof. exact (CumFloatIndep.cum_groups_are_independent o sk g rows). Qed.
Print Assumptions C08_float_groups_are_independent.
