(* C08 — cumulative operations are per-group prefix reductions. *)
From Coq Require Import List ZArith Bool.
From GL Require Import Lib.Arr Lib.Keyed Model.Dom Model.Scalar Model.Cumulative
  Proofs.RowGeneric Proofs.GenTie Gen.ScalarFuncsGen.
Import ListNotations.
Open Scope Z_scope.

Section C08.
Context {V : Type} (o : ops V).

(* values of other groups never enter, rows with a null key never enter and get
   the constant null marker: the outputs at the remaining rows are those of the
   kernel run with the null-key rows deleted *)
Theorem C08_null_keys op skip_na gk vals ng mask :
  length vals = length gk -> length (mask_list (length gk) mask) = length gk ->
  filter_by (nonnull_key gk) (cumulative o op skip_na gk vals ng mask)
  = kscan (cum_init o op, 0) (cum_step (reducer_of o (cum_reducer op skip_na))) (cum_na o op)
          (filter (fun r : Z * (V * bool) => 0 <=? fst r) (mk_rows gk vals mask)) (repeat (cum_init o op, 0) ng).
Proof. exact (null_rows_irrelevant _ _ _ _ _ _ gk vals ng mask). Qed.

(* masked rows pass the running value through without changing it: a mask is
   equivalent to filtering the rows first *)
Theorem C08_mask_is_filter op skip_na gk vals ng m :
  length gk = length m -> length vals = length m ->
  filter_by m (cumulative o op skip_na gk vals ng (Some m))
  = cumulative o op skip_na (filter_by m gk) (filter_by m vals) ng None.
Proof.
  exact (mask_is_filter _ _ _ (cum_init o op, 0) (cum_step (reducer_of o (cum_reducer op skip_na))) (cum_na o op)
           gk vals ng m (fun s v => eq_refl)).
Qed.
End C08.
Print Assumptions C08_null_keys.
Print Assumptions C08_mask_is_filter.

(* the reducers the cumulative kernels fold with are the ones in /repo's source *)
Theorem C08_reducers_are_the_source's :
  (forall a b c, @g_nansum fl fops a b c = r_nansum fops a b c) /\
  (forall a b c, @g_sum fl fops a b c = r_sum fops a b c) /\
  (forall a b c, @g_nanmin fl fops a b c = r_nanmin fops a b c) /\
  (forall a b c, @g_nanmax fl fops a b c = r_nanmax fops a b c) /\
  (forall a b c, @g_nancount Z (zops true 0) a b c = r_nancount (zops true 0) a b c).
Proof.
  exact (conj (tie_nansum fops) (conj (tie_sum fops) (conj (tie_nanmin fops) (conj (tie_nanmax fops) (tie_nancount (zops true 0)))))).
Qed.
Print Assumptions C08_reducers_are_the_source's.
