(* C16 — variance, quantiles and composite statistics match their definitions.  Statements only.
   GroupBy.var = (group sum of squares - (group sum)^2 / count) / (count - ddof), three group
   reductions whose exactness is C01/C04.  Exact arithmetic over Qc. *)
From Coq Require Import List ZArith QArith Qcanon.
From GL Require Import Proofs.VarProofs.
Import ListNotations.
Open Scope Qc_scope.

(* 1. the one-pass formula is the two-pass sample variance, for every ddof and every series *)
Theorem C16_var_identity l (d : Qc) : qlen l <> 0 ->
  (qsumsq l - qsum l * qsum l / qlen l) / d = qdev (qsum l / qlen l) l / d.
Proof. exact (one_pass_variance l d). Qed.
Print Assumptions C16_var_identity.

(* 2. in exact arithmetic it is never negative: the clamp to zero in the code only removes
      floating-point cancellation noise *)
Theorem C16_var_nonneg m l : 0 <= qdev m l.
Proof. exact (qdev_nonneg m l). Qed.
Print Assumptions C16_var_nonneg.

(* 3. one value: the numerator is exactly 0, so ddof = 1 gives 0/0 = null, as the property asks *)
Theorem C16_single_value x : qsumsq [x] - qsum [x] * qsum [x] / qlen [x] = 0.
Proof. exact (single_value_numerator x). Qed.
Print Assumptions C16_single_value.

Example C16_example :
  let l := map (fun z => Q2Qc (inject_Z z)) [2; 4; 4; 4; 5; 5; 7; 9]%Z in
  this ((qsumsq l - qsum l * qsum l / qlen l) / (qlen l - 1)) = (32 # 7)%Q.
Proof. vm_compute. reflexivity. Qed.
