(* C16 — variance, quantiles and composite statistics match their definitions.  Statements only.
   GroupBy.var = (group sum of squares - (group sum)^2 / count) / (count - ddof), three group
   reductions whose exactness is C01/C04.  Exact arithmetic over Qc. *)
From Coq Require Import List ZArith QArith Qcanon.
From GL Require Import Proofs.VarFloat Proofs.VarProofs Lib.Arr Model.Factorize Spec.RowSpec Proofs.IndexerProofs.
Import ListNotations.
Open Scope Qc_scope.

(* 1. the one-pass formula is the two-pass sample variance, for every ddof and every series *)
Theorem C16_var_identity l (d : Qc) : qlen l <> 0 ->
  (qsumsq l - qsum l * qsum l / qlen l) / d = qdev (qsum l / qlen l) l / d.
Proof. exact (one_pass_variance l d). Qed.
Print Assumptions C16_var_identity.

(* 2. in exact arithmetic it is never negative: the clamp to zero in the code only removes
      floating-point cancellation noise *)
Theorem C16_var_nonneg m l : 0 <= qdev m l.
Proof. exact (qdev_nonneg m l). Qed.
Print Assumptions C16_var_nonneg.

(* 3. one value: the numerator is exactly 0, so ddof = 1 gives 0/0 = null, as the property asks *)
Theorem C16_single_value x : qsumsq [x] - qsum [x] * qsum [x] / qlen [x] = 0.
Proof. exact (single_value_numerator x). Qed.
Print Assumptions C16_single_value.

Example C16_example :
  let l := map (fun z => Q2Qc (inject_Z z)) [2; 4; 4; 4; 5; 5; 7; 9]%Z in
  this ((qsumsq l - qsum l * qsum l / qlen l) / (qlen l - 1)) = (32 # 7)%Q.
Proof. vm_compute. reflexivity. Qed.

(* 4. apply / median / quantile: the user function is called on arr[indexer] split at the cumulative group counts.
      The piece handed to it for label g holds exactly the values of g's rows, in row order (the counting-sort
      theorem of C02), with or without the sorted-order key map. *)
Open Scope Z_scope.
Theorem C16_apply_sees_group_rows_in_row_order {A} (d : A) (vals : list A) gk counts key_map ng chunks g :
  (forall g, (g < ng)%nat -> 0 <= out key_map (Z.of_nat g) /\ (outn key_map g < ng)%nat) ->
  (forall g g', (g < ng)%nat -> (g' < ng)%nat -> outn key_map g = outn key_map g' -> g = g') ->
  length counts = ng ->
  (forall g, (g < ng)%nat -> get 0 counts (outn key_map g) = Z.of_nat (length (positions_of g gk None))) ->
  (forall c, In c counts -> 0 <= c) -> (forall k, In k gk -> k < Z.of_nat ng) ->
  gk = concat chunks -> (g < ng)%nat ->
  map (fun i => get d vals (Z.to_nat i))
      (firstn (length (positions_of g gk None))
         (skipn (Z.to_nat (psum counts (outn key_map g))) (build_group_sorted_indexer chunks counts key_map None)))
  = map (get d vals) (positions_of g gk None).
Proof. exact (group_values_in_row_order d vals gk counts key_map ng chunks g). Qed.
Print Assumptions C16_apply_sees_group_rows_in_row_order.

(* 5. Rounding: in the standard model of floating-point arithmetic (every operation returns the exact result times
      (1 + delta), |delta| <= u) the one-pass variance computed with the two sums evaluated in ANY bracketing
      (sequential, per-thread blocks, per-chunk partials merged afterwards; t1 / t2 are the summation trees of the
      values and of their rounded squares) is within var_bound of the exact value; var_bound is an explicit function,
      PROPORTIONAL TO THE SQUARED MAGNITUDE M^2 of the data, and clipping at zero does not increase the error.
      The harness uses this very function (extracted) as its tolerance. *)
Open Scope Q_scope.
Theorem C16_sum_error_any_bracketing u rnd t : 0 <= u ->
  (forall x B, -B <= x <= B -> -(u * B) <= rnd x - x <= u * B) -> leaves_ok u t ->
  near (fl rnd t) (exact t) (E u (S (height t)) * asum t).
Proof. exact (fun Hu Hr => sum_error u Hu rnd Hr t). Qed.
Theorem C16_variance_rounding_bound u rnd t1 t2 n kn kd M : 0 <= u ->
  (forall x B, -B <= x <= B -> -(u * B) <= rnd x - x <= u * B) ->
  leaves_ok u t1 -> leaves_ok u t2 -> 0 <= n -> 0 <= kn -> 0 <= kd -> 0 <= M ->
  asum t1 <= n * M -> asum t2 <= n * (M * M) ->
  near (var_fl rnd t1 t2 kn kd) (var_exact t1 t2 kn kd) (var_bound u n kn kd M (height t1) (height t2)).
Proof. exact (fun Hu Hr => var_error u Hu rnd Hr t1 t2 n kn kd M). Qed.
Theorem C16_bound_is_proportional_to_squared_magnitude u n kn kd M h1 h2 :
  var_bound u n kn kd M h1 h2 == M * M * var_bound u n kn kd 1 h1 h2.
Proof. exact (var_bound_homogeneous u n kn kd M h1 h2). Qed.
Theorem C16_clip_keeps_the_bound vh v e : 0 <= v -> near vh v e -> near (if Qle_bool 0 vh then vh else 0) v e.
Proof. exact (clip_near vh v e). Qed.
Print Assumptions C16_sum_error_any_bracketing.
Print Assumptions C16_variance_rounding_bound.
Print Assumptions C16_bound_is_proportional_to_squared_magnitude.
Print Assumptions C16_clip_keeps_the_bound.

(* Tie B (pins): the functions this property's models transcribe read, statement by statement, as they did when the models
   were written against them; Gen/SourcesGen.v is regenerated from /repo on every run (translator/pins.py). *)
From GL Require Import Gen.SourcesGen Model.Sources Proofs.PinC16.
Theorem C16_modelled_functions_are_the_source's :
  gen_src_groupby_var = src_groupby_var.
Proof. exact pin_groupby_var. Qed.
Print Assumptions C16_modelled_functions_are_the_source's.

(* the bit-exact transcription of GroupBy.var on float64 in primitive floats (Model/VarFloat64.v) that C16's stream runs inside
   Coq against the real method.  The example is the cancellation the rounding bound above allows for: three values of spread 1
   at offset 1e8 (exact sample variance 1) come out as 0 from the one-pass formula - bit for bit what the implementation returns -
   while the same values without the offset give exactly 1. *)
From Coq Require Import PrimFloat.
From GL Require Model.VarFloat64.
Example C16_float_model_example :
  VarFloat64.same_floatV (VarFloat64.var_f64 1 [100000001; 100000002; nan; 100000003]%float) 0%float = true /\
  VarFloat64.same_floatV (VarFloat64.var_f64 1 [1; 2; nan; 3]%float) 1%float = true /\
  VarFloat64.same_floatV (VarFloat64.var_f64 1 [5]%float) nan = true.
Proof. vm_compute. repeat split. Qed.

(* ... and its accumulators ARE, bit for bit and for every float64 input, the single-pass group reductions of Model/ReduceFloat.v
   (nansum, nansum_squares, their common count) - the model C04's stream ties to _group_func_wrap: GroupBy.var is the closed
   formula over three kernel results, in IEEE arithmetic too. *)
From GL Require Model.ReduceFloat Proofs.VarFloat64Proofs.
Theorem C16_float_accumulators_are_the_group_reductions g l :
  VarFloat64.group_acc l =
  (fst (ReduceFloat.piece_reduce ReduceFloat.FNanSum g (VarFloat64Proofs.as_rows g l)),
   fst (ReduceFloat.piece_reduce ReduceFloat.FNanSumSq g (VarFloat64Proofs.as_rows g l)),
   snd (ReduceFloat.piece_reduce ReduceFloat.FNanSum g (VarFloat64Proofs.as_rows g l))).
Proof. exact (VarFloat64Proofs.group_acc_is_the_group_reductions g l). Qed.
Theorem C16_float_sum_and_squares_count_the_same g l :
  snd (ReduceFloat.piece_reduce ReduceFloat.FNanSum g (VarFloat64Proofs.as_rows g l))
  = snd (ReduceFloat.piece_reduce ReduceFloat.FNanSumSq g (VarFloat64Proofs.as_rows g l)).
Proof. exact (VarFloat64Proofs.both_reductions_count_the_same g l). Qed.
Print Assumptions C16_float_accumulators_are_the_group_reductions.
Print Assumptions C16_float_sum_and_squares_count_the_same.
