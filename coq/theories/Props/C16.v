(* C16 — variance, quantiles and composite statistics match their definitions.  Statements only.
   GroupBy.var = (group sum of squares - (group sum)^2 / count) / (count - ddof), three group
   reductions whose exactness is C01/C04.  Exact arithmetic over Qc. *)
From Coq Require Import List ZArith QArith Qcanon.
From GL Require Import Proofs.VarProofs Lib.Arr Model.Factorize Spec.RowSpec Proofs.IndexerProofs.
Import ListNotations.
Open Scope Qc_scope.

(* 1. the one-pass formula is the two-pass sample variance, for every ddof and every series *)
Theorem C16_var_identity l (d : Qc) : qlen l <> 0 ->
  (qsumsq l - qsum l * qsum l / qlen l) / d = qdev (qsum l / qlen l) l / d.
Proof. exact (one_pass_variance l d). Qed.
Print Assumptions C16_var_identity.

(* 2. in exact arithmetic it is never negative: the clamp to zero in the code only removes
      floating-point cancellation noise *)
Theorem C16_var_nonneg m l : 0 <= qdev m l.
Proof. exact (qdev_nonneg m l). Qed.
Print Assumptions C16_var_nonneg.

(* 3. one value: the numerator is exactly 0, so ddof = 1 gives 0/0 = null, as the property asks *)
Theorem C16_single_value x : qsumsq [x] - qsum [x] * qsum [x] / qlen [x] = 0.
Proof. exact (single_value_numerator x). Qed.
Print Assumptions C16_single_value.

Example C16_example :
  let l := map (fun z => Q2Qc (inject_Z z)) [2; 4; 4; 4; 5; 5; 7; 9]%Z in
  this ((qsumsq l - qsum l * qsum l / qlen l) / (qlen l - 1)) = (32 # 7)%Q.
Proof. vm_compute. reflexivity. Qed.

(* 4. apply / median / quantile: the user function is called on arr[indexer] split at the cumulative group counts.
      The piece handed to it for label g holds exactly the values of g's rows, in row order (the counting-sort
      theorem of C02), with or without the sorted-order key map. *)
Open Scope Z_scope.
Theorem C16_apply_sees_group_rows_in_row_order {A} (d : A) (vals : list A) gk counts key_map ng chunks g :
  (forall g, (g < ng)%nat -> 0 <= out key_map (Z.of_nat g) /\ (outn key_map g < ng)%nat) ->
  (forall g g', (g < ng)%nat -> (g' < ng)%nat -> outn key_map g = outn key_map g' -> g = g') ->
  length counts = ng ->
  (forall g, (g < ng)%nat -> get 0 counts (outn key_map g) = Z.of_nat (length (positions_of g gk None))) ->
  (forall c, In c counts -> 0 <= c) -> (forall k, In k gk -> k < Z.of_nat ng) ->
  gk = concat chunks -> (g < ng)%nat ->
  map (fun i => get d vals (Z.to_nat i))
      (firstn (length (positions_of g gk None))
         (skipn (Z.to_nat (psum counts (outn key_map g))) (build_group_sorted_indexer chunks counts key_map None)))
  = map (get d vals) (positions_of g gk None).
Proof. exact (group_values_in_row_order d vals gk counts key_map ng chunks g). Qed.
Print Assumptions C16_apply_sees_group_rows_in_row_order.
