(* C20 — stand-alone array helpers agree with their definitions.  Statements only. *)
From Coq Require Import List ZArith Bool.
From GL Require Import Lib.Arr Lib.Blocks Model.Dom Model.Scalar Model.Nanops Spec.Defs Spec.Exec Proofs.NanopsProofs Proofs.NanopsExt Model.Helpers Proofs.HelperProofs Proofs.MonoProofs Model.Moments Proofs.MomentsProofs
  Proofs.GenTie Proofs.TieNanops Proofs.TieNanopsMoments Gen.ReductionOpsGen.
Import ListNotations.
Open Scope Z_scope.

(* 1. nan-sum: for EVERY number of worker threads (also more threads than elements) the chunked
      reduction returns the sum of the non-null elements, 0 if there is none *)
Theorem C20_nansum_float arr n : (0 < n)%nat -> nan_reduce fops NSum arr n = sum_list fops (nonnull fops arr).
Proof. exact (nansum_any_threads fops fops_laws arr n). Qed.
Print Assumptions C20_nansum_float.
(* integers (nullable = true: int64 / timestamps through the numba is_null, which reads -2^63 as null).  No side
   condition on the partial sums: since /repo fix "partial sums of the pieces are added without looking for nulls"
   a piece whose sum equals the sentinel is not skipped by the second stage (before it, this theorem needed
   sum_closed — the hypothesis the proof forced was a defect: nansum([-2^62, -2^62, 5, 1], n_threads=2) gave 6) *)
Theorem C20_nansum_int nullable nullv arr n : (0 < n)%nat ->
  nan_reduce (zops nullable nullv) NSum arr n = sum_list (zops nullable nullv) (nonnull (zops nullable nullv) arr).
Proof. exact (nansum_any_threads _ (zops_laws nullable nullv) arr n). Qed.
Print Assumptions C20_nansum_int.

(* 1b. nan-max / nan-min: for every number of worker threads the maximum (minimum) of the non-null elements,
      the null marker if there is none — all-null pieces and the empty pieces of "more threads than
      elements" contribute a null that the second stage skips *)
Theorem C20_nanmax_float arr n : (0 < n)%nat -> nan_reduce fops NMax arr n = max_exec fops (nonnull fops arr).
Proof. exact (nanmax_any_threads fops fops_laws fops_null_unique eq_refl arr n). Qed.
Theorem C20_nanmin_float arr n : (0 < n)%nat -> nan_reduce fops NMin arr n = min_exec fops (nonnull fops arr).
Proof. exact (nanmin_any_threads fops fops_laws fops_null_unique eq_refl arr n). Qed.
(* int64 / timestamps through the numba is_null, which reads -2^63 as null *)
Theorem C20_nanmax_int arr n : (0 < n)%nat -> nan_reduce (zops true 0) NMax arr n = max_exec (zops true 0) (nonnull (zops true 0) arr).
Proof. exact (nanmax_any_threads _ (zops_laws true 0) (zops_null_unique true 0) eq_refl arr n). Qed.
Theorem C20_nanmin_int arr n : (0 < n)%nat -> nan_reduce (zops true 0) NMin arr n = min_exec (zops true 0) (nonnull (zops true 0) arr).
Proof. exact (nanmin_any_threads _ (zops_laws true 0) (zops_null_unique true 0) eq_refl arr n). Qed.
(* skipna = False: nulls are not skipped, and a null anywhere makes the maximum / minimum null (one pass; NumPy's plain max / min).
   Before /repo's fix of NumbaReductionOps.max / min a NaN was dropped or restarted the scan - with a different result for
   different thread counts: nanmin([5, NaN, 7], skipna=False) was 7, NaN, 7, 5 for 1, 2, 3, 4 threads. *)
Theorem C20_max_min_noskip_float (want_max : bool) arr : arr <> [] ->
  nb_reduce fops (if want_max then op_max fops else op_min fops) arr false None
  = if existsb (is_null fops) arr then null fops else if want_max then max_exec fops arr else min_exec fops arr.
Proof. exact (noskip_ext_one_pass fops fops_laws fops_null_unique want_max arr). Qed.
Print Assumptions C20_max_min_noskip_float.
(* ... for every number of worker threads that leaves no piece empty (n_threads <= length): reducing the pieces without
   skipping and then the piece results without skipping is the one-pass result *)
Theorem C20_max_noskip_any_threads_float arr n : (0 < n)%nat -> Forall (fun c => c <> []) (array_split arr n) ->
  reduce_1d fops (op_max fops) (op_max fops) None false false arr n
  = if existsb (is_null fops) arr then null fops else max_exec fops arr.
Proof. exact (noskip_max_any_threads fops fops_laws fops_null_unique eq_refl arr n). Qed.
Theorem C20_min_noskip_any_threads_float arr n : (0 < n)%nat -> Forall (fun c => c <> []) (array_split arr n) ->
  reduce_1d fops (op_min fops) (op_min fops) None false false arr n
  = if existsb (is_null fops) arr then null fops else min_exec fops arr.
Proof. exact (noskip_min_any_threads fops fops_laws fops_null_unique eq_refl arr n). Qed.
Print Assumptions C20_max_noskip_any_threads_float.
Print Assumptions C20_min_noskip_any_threads_float.
Example C20_noskip_threads_hypothesis_is_satisfiable :
  Forall (fun c : list nat => c <> []) (array_split [1; 2; 3]%nat 2) /\ (0 < 2)%nat.
Proof. split; [|repeat constructor]. vm_compute. repeat constructor; discriminate. Qed.
Print Assumptions C20_nanmax_float.
Print Assumptions C20_nanmin_float.
Print Assumptions C20_nanmax_int.
Print Assumptions C20_nanmin_int.

(* 1c. the sum of squares behind nanvar / nanstd, for every number of threads *)
Theorem C20_nansumsq_float arr n : (0 < n)%nat ->
  nan_reduce fops NSumSquare arr n = sum_list fops (map (sq fops) (nonnull fops arr)).
Proof. exact (nansumsq_any_threads fops fops_laws arr n). Qed.
Print Assumptions C20_nansumsq_float.

(* 2. the split of the array among the threads loses and duplicates nothing *)
Theorem C20_split {A} (l : list A) k : (0 < k)%nat -> concat (array_split l k) = l.
Proof. exact (array_split_concat l k). Qed.
Print Assumptions C20_split.

(* 3. nb_dot is the matrix-vector product *)
Theorem C20_dot cols b nrows row : (row < nrows)%nat ->
  get 0 (nb_dot (zops false 0) Z.mul cols b nrows) row = dot_spec cols b row.
Proof. exact (nb_dot_is_matrix_vector_product cols b nrows row). Qed.
Print Assumptions C20_dot.

(* 3b. the boolean-frame labeller: the integer mask of a row (sum of bit * 2^col, any number of columns) decodes
       to exactly the row's true columns; equal masks <=> equal rows; the mask fits the signed type chosen for it *)
Theorem C20_labels_name_exactly_the_true_columns bits :
  mask_labels (length bits) (row_mask bits) = filter (fun i => nth i bits false) (seq 0 (length bits)).
Proof. exact (mask_labels_are_true_columns bits). Qed.
Theorem C20_equal_masks_equal_rows b1 b2 : length b1 = length b2 -> row_mask b1 = row_mask b2 -> b1 = b2.
Proof. exact (fun Hl E => encode_inj b1 b2 Hl (eq_trans (eq_sym (row_mask_is_encode b1)) (eq_trans E (row_mask_is_encode b2)))). Qed.
Theorem C20_mask_fits bits w : min_bits (length bits) = Some w -> 0 <= row_mask bits < 2 ^ (w - 1).
Proof. exact (mask_fits bits w). Qed.
Print Assumptions C20_labels_name_exactly_the_true_columns.
Print Assumptions C20_equal_masks_equal_rows.
Print Assumptions C20_mask_fits.

(* 3c. the binning helper: with c = searchsorted(sorted bins, x): bins[c-1] < x <= bins[c] (x <= bins[0] for the
       first label, x > bins[-1] for the last): the printed bounds of label c contain x *)
Theorem C20_bin_contains bins x c : nondec bins -> c = Z.to_nat (bin_code bins x) ->
  (forall b, nth_error bins c = Some b -> x <= b) /\
  (forall b, (0 < c)%nat -> nth_error bins (c - 1) = Some b -> b < x) /\ (c <= length bins)%nat.
Proof. exact (bin_contains bins x c). Qed.
Print Assumptions C20_bin_contains.

(* 4. Tie B: the binary reducers are the ones in /repo's util.NumbaReductionOps on this run *)
Theorem C20_reducers_are_the_source's :
  (forall x y, @b_sum fl fops x y = op_sum fops x y) /\
  (forall x y, @b_min fl fops x y = op_min fops x y) /\
  (forall x y, @b_max fl fops x y = op_max fops x y) /\
  (forall x y, @b_sum_square fl fops x y = op_sum_square fops x y) /\
  (forall x (y : fl), b_count x y = op_count x y) /\
  (* and reduce_1d's dispatch (initial value, reduction of the chunk results) is the one nan_reduce encodes *)
  Gen.TablesGen.gen_nanops_dispatch = nanops_dispatch.
Proof.
  exact (conj (tie_op_sum fops) (conj (tie_op_min fops) (conj (tie_op_max fops) (conj (tie_op_sum_square fops) (conj (@tie_op_count fl) tie_nanops_dispatch))))).
Qed.
Print Assumptions C20_reducers_are_the_source's.

Example C20_example :
  nan_reduce (zops true 0) NMax [3; MIN_INT; 7; 1] 8 = 7 /\ nan_reduce (zops true 0) NSum [3; MIN_INT; 7; 1] 3 = 11 /\
  nb_dot (zops false 0) Z.mul [[1; 2]; [3; 4]] [10; 100] 2 = [310; 420] /\
  mask_labels 3 (row_mask [true; false; true]) = [0; 2]%nat /\ bin_code [5; 10; 15] 10 = 1 /\ bin_code [5; 10; 15] 11 = 2.
Proof. repeat split; vm_compute; reflexivity. Qed.

(* 5. nanmean / nanvar / nanstd: mean = sum / n, and the variance is formed in two passes (squared deviations from
      the mean), as NumPy does.  In exact arithmetic that IS the textbook variance; unlike the one-pass formula it
      replaced it cannot see the offset of the data, and it is a sum of squares - never negative, so nanstd is never
      the root of a negative number.  (Rounding: each pass is a plain sum, C20's thread-count theorems apply.) *)
From Coq Require Import QArith.
Theorem C20_two_pass_is_the_variance ddof l : l <> [] -> (var_two_pass ddof l == var_one_pass ddof l)%Q.
Proof. exact (two_pass_is_one_pass ddof l). Qed.
Print Assumptions C20_two_pass_is_the_variance.

Theorem C20_variance_ignores_the_offset ddof c l : l <> [] ->
  (var_two_pass ddof (map (Qplus c) l) == var_two_pass ddof l)%Q.
Proof. exact (two_pass_shift_invariant ddof c l). Qed.
Print Assumptions C20_variance_ignores_the_offset.

Theorem C20_variance_nonneg ddof l : (inject_Z ddof < qlen l)%Q -> (0 <= var_two_pass ddof l)%Q.
Proof. exact (two_pass_nonneg ddof l). Qed.
Print Assumptions C20_variance_nonneg.

Theorem C20_two_pass_around_a_rounded_mean c l : l <> [] ->
  (qsum (map (fun x => qsq (x - c)) l) == qsum (map (fun x => qsq (x - qmean l)) l) + qlen l * qsq (c - qmean l))%Q.
Proof. exact (two_pass_centre c l). Qed.
Print Assumptions C20_two_pass_around_a_rounded_mean.

(* rounding (standard model, |fl(x) - x| <= u |x|): the computed sum of squared deviations around a centre c - deviations
   rounded, squares rounded, added up in ANY bracketing t of height h - is within E_{u3}(h+1) * (S + n delta^2) + n delta^2 of
   the exact S = sum (x - mean)^2, where delta = c - mean and u3 = (1+u)^3 - 1: first order in the variance, and the offset of
   the data enters only through the square of the rounding error of the mean *)
From GL Require Proofs.VarFloat Proofs.VarTwoPass.
Theorem C20_two_pass_rounding u rnd c t xs : (0 <= u)%Q ->
  (forall x B, (- B <= x <= B)%Q -> (- (u * B) <= rnd x - x <= u * B)%Q) -> xs <> [] -> VarTwoPass.dev_tree rnd c t xs ->
  let S := qsum (map (fun x => qsq (x - qmean xs)) xs) in
  let nd2 := (qlen xs * qsq (c - qmean xs))%Q in
  VarFloat.near (VarFloat.fl rnd t) S (VarFloat.E (VarTwoPass.u3 u) (Datatypes.S (VarFloat.height t)) * (S + nd2) + nd2)%Q.
Proof. intros Hu Hr. exact (VarTwoPass.two_pass_error u Hu rnd Hr c t xs). Qed.
Print Assumptions C20_two_pass_rounding.

(* Tie B: nanmean / nanvar / nanstd (and mean_from_sum_count) read, statement by statement, as the model assumes *)
Theorem C20_moments_are_the_source's : Gen.TablesGen.gen_nanops_moments = nanops_moments.
Proof. exact tie_nanops_moments. Qed.
Print Assumptions C20_moments_are_the_source's.

Example C20_moments_example :
  (var_two_pass 0 [100000001#1; 100000002#1; 100000003#1] == 2 # 3)%Q /\ (var_two_pass 1 [1#1; 2#1; 4#1] == 7 # 3)%Q.
Proof. split; vm_compute; reflexivity. Qed.

(* Tie B (pins): the functions this property's models transcribe read, statement by statement, as they did when the models
   were written against them; Gen/SourcesGen.v is regenerated from /repo on every run (translator/pins.py). *)
From GL Require Import Gen.SourcesGen Model.Sources Proofs.PinC20.
Theorem C20_modelled_functions_are_the_source's :
  gen_src_nb_reduce = src_nb_reduce /\
  gen_src_reduce_1d = src_reduce_1d /\
  gen_src_nb_dot = src_nb_dot /\
  gen_src_bools_to_categorical = src_bools_to_categorical /\
  gen_src_pretty_cut = src_pretty_cut.
Proof. exact (conj pin_nb_reduce (conj pin_reduce_1d (conj pin_nb_dot (conj pin_bools_to_categorical pin_pretty_cut)))). Qed.
Print Assumptions C20_modelled_functions_are_the_source's.

(* the bit-exact transcription of nansum / nanmean / nanvar in primitive floats (Model/NanopsFloat.v) that C20's stream runs
   against the real functions *)
From Coq Require Import PrimFloat.
From GL Require Import Model.NanopsFloat.
Example C20_float_model_example :
  same_floatN (nanvar_f [100000001; 100000002; nan; 100000003]%float 2 0) 0x1.5555555555555p-1%float = true /\
  same_floatN (nansum_f [1e16; 1; nan; -1e16]%float 3) 0%float = true.
Proof. split; vm_compute; reflexivity. Qed.
