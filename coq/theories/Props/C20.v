(* C20 — stand-alone array helpers agree with their definitions.  Statements only. *)
From Coq Require Import List ZArith Bool.
From GL Require Import Lib.Arr Lib.Blocks Model.Dom Model.Scalar Model.Nanops Spec.Defs Proofs.NanopsProofs
  Proofs.GenTie Gen.ReductionOpsGen.
Import ListNotations.
Open Scope Z_scope.

(* 1. nan-sum: for EVERY number of worker threads (also more threads than elements) the chunked
      reduction returns the sum of the non-null elements, 0 if there is none *)
Theorem C20_nansum_float arr n : (0 < n)%nat -> nan_reduce fops NSum arr n = sum_list fops (nonnull fops arr).
Proof. exact (nansum_any_threads fops fops_laws fops_sum_closed arr n). Qed.
Print Assumptions C20_nansum_float.
Theorem C20_nansum_int nullv arr n : (0 < n)%nat ->
  nan_reduce (zops false nullv) NSum arr n = sum_list (zops false nullv) (nonnull (zops false nullv) arr).
Proof. exact (nansum_any_threads _ (zops_laws false nullv) (zops_never_null_closed nullv) arr n). Qed.
Print Assumptions C20_nansum_int.

(* 2. the split of the array among the threads loses and duplicates nothing *)
Theorem C20_split {A} (l : list A) k : (0 < k)%nat -> concat (array_split l k) = l.
Proof. exact (array_split_concat l k). Qed.
Print Assumptions C20_split.

(* 3. nb_dot is the matrix-vector product *)
Theorem C20_dot cols b nrows row : (row < nrows)%nat ->
  get 0 (nb_dot (zops false 0) Z.mul cols b nrows) row = dot_spec cols b row.
Proof. exact (nb_dot_is_matrix_vector_product cols b nrows row). Qed.
Print Assumptions C20_dot.

(* 4. Tie B: the binary reducers are the ones in /repo's util.NumbaReductionOps on this run *)
Theorem C20_reducers_are_the_source's :
  (forall x y, @b_sum fl fops x y = op_sum fops x y) /\
  (forall x y, @b_min fl fops x y = op_min fops x y) /\
  (forall x y, @b_max fl fops x y = op_max fops x y) /\
  (forall x y, @b_sum_square fl fops x y = op_sum_square fops x y) /\
  (forall x (y : fl), b_count x y = op_count x y).
Proof.
  exact (conj (tie_op_sum fops) (conj (tie_op_min fops) (conj (tie_op_max fops) (conj (tie_op_sum_square fops) (@tie_op_count fl))))).
Qed.
Print Assumptions C20_reducers_are_the_source's.

Example C20_example :
  nan_reduce (zops true 0) NMax [3; MIN_INT; 7; 1] 8 = 7 /\ nan_reduce (zops true 0) NSum [3; MIN_INT; 7; 1] 3 = 11 /\
  nb_dot (zops false 0) Z.mul [[1; 2]; [3; 4]] [10; 100] 2 = [310; 420].
Proof. repeat split; vm_compute; reflexivity. Qed.
