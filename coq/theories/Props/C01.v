(* C01 — group reductions equal the per-group definition.
   Statements only; proofs are in Proofs/.  [P o r ng rows] is the single pass of the
   kernel with reducer [r] over the selected rows (C04 proves that every thread
   count, value chunking and mask kind of the real dispatch computes exactly it). *)
From Coq Require Import List ZArith Bool Sorting.Sorted Sorting.Permutation.
From GL Require Import Lib.Arr Lib.Keyed Lib.Blocks Model.Dom Model.Scalar Model.Reduce Model.GroupByApi
  Spec.Defs Spec.Exec Proofs.ReduceSeries Proofs.ReduceBlocks Proofs.ReduceWrap Proofs.ReduceSpec Proofs.ApiProofs
  Proofs.GenTie Proofs.TieMeanFormula Gen.ScalarFuncsGen Model.Moments Proofs.ContainerProofs Proofs.MomentsProofs.
Import ListNotations.
Open Scope Z_scope.

(* 1. value and count reported for every label = the per-group definition on the
      selected rows carrying that label (size counts rows, count counts non-null
      values, first/last follow row order, min/max are extremes that occur) *)
Theorem C01_definition_float r op ng rows g :
  kernel_op r = Some op -> (g < ng)%nat ->
  red_val fops op (group_vals g rows) (get (null fops) (fst (P fops r ng rows)) g)
  /\ get 0 (snd (P fops r ng rows)) g = red_cnt fops op (group_vals g rows).
Proof. exact (P_meets_definition fops fops_laws r op ng rows g). Qed.
Print Assumptions C01_definition_float.

Theorem C01_definition_int nullable nullv r op ng rows g :
  let o := zops nullable nullv in
  kernel_op r = Some op -> (g < ng)%nat ->
  red_val o op (group_vals g rows) (get (null o) (fst (P o r ng rows)) g)
  /\ get 0 (snd (P o r ng rows)) g = red_cnt o op (group_vals g rows).
Proof. exact (P_meets_definition _ (zops_laws nullable nullv) r op ng rows g). Qed.
Print Assumptions C01_definition_int.

(* 2. the real dispatch (any thread count, any chunking of the values, any mask kind)
      computes that single pass over the rows NumPy indexing selects *)
Theorem C01_dispatch_float r gk chunks ng m nt :
  kernel_value_reducer r -> sum_needs_no_nulls fops r -> (0 < nt)%nat -> chunks <> [] ->
  length gk = length (concat chunks) -> wf_mask (length gk) m -> covered chunks m ->
  group_func_wrap fops r gk chunks ng m nt = Ok (P fops r ng (sel_rows fops gk (concat chunks) m)).
Proof. exact (group_func_wrap_any_split fops fops_laws r gk chunks ng m nt). Qed.
Print Assumptions C01_dispatch_float.

(* 3. mean = sum / count of the same rows, null when no non-null value was selected *)
Theorem C01_mean ng rows g : (g < ng)%nat ->
  let l := nonnull fops (group_vals g rows) in
  get (null fops) (mean_column fops (fst (P fops Rnansum ng rows)) (snd (P fops Rnansum ng rows))) g
  = match l with [] => null fops | _ => divc fops (sum_list fops l) (Z.of_nat (length l)) end.
Proof. exact (mean_is_sum_over_count fops fops_laws ng rows g). Qed.
Print Assumptions C01_mean.

(* 4. labels reported = labels with at least one selected row, each once: the
      two-stage observed test (value counts, then key counts) is exactly that *)
Theorem C01_observed r op ng (rows : list (Z * fl)) g :
  kernel_op r = Some op -> (g < ng)%nat ->
  get false (observed_flags (match op with Size => true | _ => false end)
               (snd (P fops r ng rows)) (snd (P fops Rcount ng rows))) g
  = negb (match group_vals g rows with [] => true | _ => false end).
Proof. exact (observed_iff_has_row fops fops_laws r op ng rows g). Qed.
Print Assumptions C01_observed.

Theorem C01_labels_reported sortkey observed ng :
  Permutation sortkey (seq 0 ng) ->
  NoDup (reported sortkey observed) /\
  (forall g, In g (reported sortkey observed) <-> (g < ng)%nat /\ get false observed g = true).
Proof. exact (reported_spec sortkey observed ng). Qed.
Print Assumptions C01_labels_reported.

(* 5. a group whose selected values are all null is still reported (4.) and carries
      the neutral result: 0 for sums and counts, null for min/max/first/last *)
Theorem C01_all_null_group r op ng rows g :
  kernel_op r = Some op -> (g < ng)%nat -> nonnull fops (group_vals g rows) = [] ->
  match op with
  | Sum | SumSq => get (null fops) (fst (P fops r ng rows)) g = zero fops
  | Min | Max | First | Last => get (null fops) (fst (P fops r ng rows)) g = null fops
  | Size | Count => True
  end /\
  match op with Size | Last => True | _ => get 0 (snd (P fops r ng rows)) g = 0 end.
Proof. exact (all_null_group fops fops_laws r op ng rows g). Qed.
Print Assumptions C01_all_null_group.

(* 6. Tie B: the reducers are the ones in /repo's source on this run *)
Theorem C01_reducers_are_the_source's :
  (forall a b c, @g_nansum fl fops a b c = r_nansum fops a b c) /\
  (forall a b c, @g_nanmin fl fops a b c = r_nanmin fops a b c) /\
  (forall a b c, @g_nanmax fl fops a b c = r_nanmax fops a b c) /\
  (forall a b c, @g_nancount fl fops a b c = r_nancount fops a b c) /\
  (forall a b c, @g_count fl fops a b c = r_count fops a b c) /\
  (forall a b c, @g_first fl fops a b c = r_first fops a b c) /\
  (forall a b c, @g_last fl fops a b c = r_last fops a b c).
Proof.
  exact (conj (tie_nansum fops) (conj (tie_nanmin fops) (conj (tie_nanmax fops) (conj (tie_nancount fops)
        (conj (tie_count fops) (conj (tie_first fops) (tie_last fops))))))).
Qed.
Print Assumptions C01_reducers_are_the_source's.

(* Non-vacuity: keys [b;a;b;a;c] with values [1;nan;2;nan;5]: group a is all-null, still
   observed through its key count, and reports sum 0 *)
Example C01_example :
  let rows := [(1, fl_of_Z 1); (0, FNan); (1, fl_of_Z 2); (0, FNan); (2, fl_of_Z 5)] in
  P fops Rnansum 3 rows = ([fl_of_Z 0; fl_of_Z 3; fl_of_Z 5], [0; 2; 1]) /\
  observed_flags false (snd (P fops Rnansum 3 rows)) (snd (P fops Rcount 3 rows)) = [true; true; true] /\
  reported [0; 1; 2]%nat [true; true; true] = [0; 1; 2]%nat.
Proof. repeat split; vm_compute; reflexivity. Qed.

(* 7. mean of datetime64 / timedelta64 values (tick counts): util.mean_from_sum_count divides the 64-bit sum by the
      count in whole numbers.  When the exact sum of the group lies in the 64-bit range the result is the exact mean to
      within one tick (floor), for any number of values and whatever the intermediate partial sums did; a group without
      values gets null. *)
Theorem C01_mean_of_ticks l :
  l <> [] -> - 2 ^ 63 <= fold_left Z.add l 0 < 2 ^ 63 ->
  exists m, group_mean_ticks l = Some m /\
            Z.of_nat (length l) * m <= fold_left Z.add l 0 < Z.of_nat (length l) * (m + 1).
Proof. exact (mean_ticks_exact l). Qed.
Print Assumptions C01_mean_of_ticks.

(* the side condition cannot be dropped: six present-day nanosecond timestamps already have a sum beyond 2^63 and the
   64-bit accumulator then does NOT give their mean (KNOWN_FINDINGS.json K3; the witness is replayed on the
   implementation by the temporal-mean stream of harness/props/c01.py) *)
Theorem C01_mean_of_ticks_needs_the_sum_in_range_refuted :
  exists l m, Forall in64 l /\ group_mean_ticks l = Some m /\
              ~ (Z.of_nat (length l) * m <= fold_left Z.add l 0 < Z.of_nat (length l) * (m + 1)).
Proof. exact mean_ticks_refuted. Qed.
Print Assumptions C01_mean_of_ticks_needs_the_sum_in_range_refuted.

Theorem C01_mean_formula_is_the_source's : Gen.TablesGen.gen_mean_formula = mean_formula.
Proof. exact tie_mean_formula. Qed.
Print Assumptions C01_mean_formula_is_the_source's.

(* Tie B (pins): the functions this property's models transcribe read, statement by statement, as they did when the models
   were written against them; Gen/SourcesGen.v is regenerated from /repo on every run (translator/pins.py). *)
From GL Require Import Gen.SourcesGen Model.Sources Proofs.PinC01.
Theorem C01_modelled_functions_are_the_source's :
  gen_src_group_by_reduce = src_group_by_reduce /\
  gen_src_apply_group_method_single_chunk = src_apply_group_method_single_chunk /\
  gen_src_group_func_wrap = src_group_func_wrap /\
  gen_src_build_target_for_groupby = src_build_target_for_groupby /\
  gen_src_apply_gb_reduction = src_apply_gb_reduction.
Proof. exact (conj pin_group_by_reduce (conj pin_apply_group_method_single_chunk (conj pin_group_func_wrap (conj pin_build_target_for_groupby pin_apply_gb_reduction)))). Qed.
Print Assumptions C01_modelled_functions_are_the_source's.
