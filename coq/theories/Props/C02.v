(* C02 — factorization is a faithful partition of the rows.  Statements only.
   External single-key factorizers (pd.factorize, categorical codes, Arrow dictionary
   encoding) are assumed faithful; what the library itself adds is modelled in
   Model/Factorize.v (multi-key combination, counting sort) and Model/GroupByApi.v (pointer
   unification of chunk-local codes). *)
From Coq Require Import List ZArith Bool Sorting.Permutation.
From GL Require Import Lib.Arr Model.Factorize Model.GroupByApi Spec.RowSpec
  Proofs.FactorizeProofs Proofs.CombineProofs Proofs.MonoProofs Proofs.IndexerProofs Proofs.TieFactorize Gen.FactorizeGen Proofs.SelectProofs Proofs.ChunkedKeys Proofs.RadixWrap Proofs.FoldKeys.
Import ListNotations.
Open Scope Z_scope.

(* 1. several keys: the combined key is null exactly when some component is null *)
Theorem C02_null_iff_any_component_null codes weights :
  codes <> [] -> length codes = length weights ->
  (forall c, In c codes -> -1 <= c) -> (forall w, In w weights -> 0 <= w) ->
  (weight_code_sum codes weights = -1 <-> In (-1) codes).
Proof. exact (weight_code_sum_null codes weights). Qed.
Print Assumptions C02_null_iff_any_component_null.

(* 1a. Tie B: the mixed-radix kernel regenerated from /repo's factorization.py on this run is the model *)
Theorem C02_weight_code_sum_is_the_source's codes weights : g_weight_code_sum codes weights = weight_code_sum codes weights.
Proof. exact (tie_weight_code_sum codes weights). Qed.
Print Assumptions C02_weight_code_sum_is_the_source's.

(* 1b. several keys, THE statement: with the weights of factorize_2d (products of the later
   cardinalities) the combination is a faithful first-appearance factorization of the code tuples:
   null code iff a component is null, otherwise the label at the row's code is the row's tuple;
   labels pairwise distinct, null-free, each the tuple of some row.  Any number of keys and rows. *)
Theorem C02_weight_code_sum_is_mixed_radix shape codes : shape <> [] -> in_range shape codes ->
  weight_code_sum codes (code_weights shape) = enc shape codes /\ 0 <= enc shape codes < prod shape.
Proof. exact (fun Hne H => conj (weight_code_sum_is_enc shape codes Hne H) (enc_bound shape codes H)). Qed.
Theorem C02_mixed_radix_injective shape c1 c2 : in_range shape c1 -> in_range shape c2 ->
  enc shape c1 = enc shape c2 -> c1 = c2.
Proof. exact (enc_inj shape c1 c2). Qed.
Theorem C02_combine_faithful shape rows : shape <> [] -> Forall (row_ok shape) rows ->
  let r := combine_factorizations rows (code_weights shape) (Z.to_nat (prod shape)) in
  Forall2 (code_ok (snd r)) rows (fst r) /\ NoDup (snd r) /\ (forall u, In u (snd r) -> In u rows /\ ~ In (-1) u).
Proof. exact (combine_faithful shape rows). Qed.
Theorem C02_same_code_iff_same_key labels rows codes i j ri rj ci cj :
  Forall2 (code_ok labels) rows codes -> NoDup labels ->
  nth_error rows i = Some ri -> nth_error rows j = Some rj ->
  nth_error codes i = Some ci -> nth_error codes j = Some cj ->
  ~ In (-1) ri -> ~ In (-1) rj -> (ci = cj <-> ri = rj).
Proof. exact (same_code_iff_same_key labels rows codes i j ri rj ci cj). Qed.
Print Assumptions C02_weight_code_sum_is_mixed_radix.
Print Assumptions C02_mixed_radix_injective.
Print Assumptions C02_combine_faithful.
Print Assumptions C02_same_code_iff_same_key.

(* 1b'. sort=True: relabelling by any permutation of the labels (codes through the inverse permutation, null kept)
   keeps the factorization faithful and the labels distinct *)
Theorem C02_sorted_relabelling_is_faithful p labels rows codes :
  Permutation p (seq 0 (length labels)) -> Forall2 (code_ok labels) rows codes -> NoDup labels ->
  let r := relabel p labels codes in
  Forall2 (code_ok (snd r)) rows (fst r) /\ NoDup (snd r) /\ Permutation (snd r) labels.
Proof. exact (relabel_faithful p labels rows codes). Qed.
Print Assumptions C02_sorted_relabelling_is_faithful.

(* 1c. the monotonic fast path: the cut-off is the length of the longest null-free non-decreasing
   prefix; on it the codes are faithful and the labels strictly increasing (distinct, sorted), each
   observed *)
Theorem C02_monotonic arr :
  let '(c, codes, labels) := monotonic_factorization arr in
  exists P rest, arr = map Some P ++ rest /\ c = Z.of_nat (length P) /\ nondec P /\
    (rest = [] \/ (exists t, rest = None :: t) \/ (exists v t, rest = Some v :: t /\ P <> [] /\ v < last P 0)) /\
    Forall2 (label_of labels) P codes /\ strict_inc labels /\ (forall x, In x labels -> In x P).
Proof. exact (monotonic_factorization_spec arr). Qed.
Theorem C02_monotonic_labels_distinct l : strict_inc l -> NoDup l.
Proof. exact (strict_inc_NoDup l). Qed.
Print Assumptions C02_monotonic.

(* 2. chunk-local codes: unification maps code k of a chunk to pointer[k] and keeps null null *)
Theorem C02_unify_nonnull p k : 0 <= k -> unify_code p k = Z.of_nat (get 0%nat p (Z.to_nat k)).
Proof. exact (unify_code_nonneg p k). Qed.
Theorem C02_unify_null p k : k < 0 -> unify_code p k = -1.
Proof. exact (unify_code_null p k). Qed.
Print Assumptions C02_unify_nonnull.
Print Assumptions C02_unify_null.

(* 3. the group-to-rows mapping: per label exactly the ascending positions of its rows, each
      row of a non-null key in exactly one list, never a null-key row *)
Theorem C02_group_rows g gk i :
  In i (positions_of g gk None) <-> (i < length gk)%nat /\ get (-1) gk i = Z.of_nat g /\ sel_at None i = true.
Proof. exact (positions_of_spec g gk None i). Qed.
Theorem C02_group_rows_once g gk : NoDup (positions_of g gk None).
Proof. exact (positions_sorted g gk None). Qed.
Theorem C02_no_null_key_row g gk i : In i (positions_of g gk None) -> 0 <= get (-1) gk i.
Proof. exact (no_null_key_selected g gk None i). Qed.
(* the counting sort behind `groups` / the group-sorted layouts: the slice of the indexer handed out for
   label g (offset = sum of the counts of the labels placed before it, length = its count) is exactly
   the ascending list of positions of g's selected rows — with or without a key map (sorted output
   order: key_map[g] = output slot of g, a bijection), any chunking of the codes, any mask.
   counts are in output order, as the caller computes them from the key counts. *)
Theorem C02_groups_slice gk counts key_map mask ng chunks g :
  (forall g, (g < ng)%nat -> 0 <= out key_map (Z.of_nat g) /\ (outn key_map g < ng)%nat) ->
  (forall g g', (g < ng)%nat -> (g' < ng)%nat -> outn key_map g = outn key_map g' -> g = g') ->
  length counts = ng ->
  (forall g, (g < ng)%nat -> get 0 counts (outn key_map g) = Z.of_nat (length (positions_of g gk mask))) ->
  (forall c, In c counts -> 0 <= c) -> (forall k, In k gk -> k < Z.of_nat ng) ->
  gk = concat chunks -> (g < ng)%nat ->
  firstn (length (positions_of g gk mask))
         (skipn (Z.to_nat (psum counts (outn key_map g))) (build_group_sorted_indexer chunks counts key_map mask))
  = map Z.of_nat (positions_of g gk mask).
Proof. intros H1 H2 H3 H4 H5 H6. exact (indexer_slice gk counts key_map mask ng H1 H2 H3 H4 H5 H6 chunks g). Qed.
Print Assumptions C02_groups_slice.
Theorem C02_groups_slice_plain gk counts mask chunks g :
  (forall i, (i < length counts)%nat -> get 0 counts i = Z.of_nat (length (positions_of i gk mask))) ->
  (forall k, In k gk -> k < Z.of_nat (length counts)) ->
  gk = concat chunks -> (g < length counts)%nat ->
  firstn (length (positions_of g gk mask)) (skipn (Z.to_nat (psum counts g)) (build_group_sorted_indexer chunks counts None mask))
  = map Z.of_nat (positions_of g gk mask).
Proof. exact (indexer_slice_plain gk counts mask chunks g). Qed.
Print Assumptions C02_groups_slice_plain.
Print Assumptions C02_group_rows.
Print Assumptions C02_group_rows_once.
Print Assumptions C02_no_null_key_row.

Example C02_example :
  weight_code_sum [1; -1; 0] [6; 2; 1] = -1 /\ weight_code_sum [1; 2; 0] [6; 2; 1] = 10 /\
  combine_factorizations [[0; 1]; [1; -1]; [0; 1]; [1; 0]; [0; 0]] [2; 1] 4 = ([0; -1; 0; 1; 2], [[0; 1]; [1; 0]; [0; 0]]) /\
  build_group_sorted_indexer [[0; 1; -1]; [1; 0; 2]] [2; 2; 1] None None = [0; 4; 1; 3; 5] /\
  monotonic_factorization [Some 3; Some 3; Some 5; None; Some 9] = (3, [0; 0; 1], [3; 5]) /\
  monotonic_factorization [Some 3; Some 4; Some 2] = (2, [0; 1], [3; 4]).
Proof. repeat split; vm_compute; reflexivity. Qed.

(* the weights in 64-bit arithmetic (np.cumprod wraps around): equal to the exact weights of the theorems above as long as the
   cartesian product of the label counts is below 2^63 - factorize_2d keeps it below MAX_CARTESIAN_PRODUCT = 2^62 - and NOT
   injective beyond (witness: four keys of 70000 labels; replayed on the implementation by harness/props/c02.py) *)
Theorem C02_weights_in_int64_are_exact shape : shape <> [] -> Forall (fun s => 0 < s) shape -> prod shape < 2 ^ 63 ->
  code_weights_i64 shape = code_weights shape.
Proof. exact (code_weights_i64_exact shape). Qed.
Print Assumptions C02_weights_in_int64_are_exact.

Theorem C02_wrapped_weights_refuted :
  exists shape c1 c2, in_range shape c1 /\ in_range shape c2 /\ c1 <> c2 /\
    weight_code_sum c1 (code_weights_i64 shape) = weight_code_sum c2 (code_weights_i64 shape).
Proof. exact wrapped_weights_refuted. Qed.
Print Assumptions C02_wrapped_weights_refuted.

(* folding the two leading keys into one (what factorize_2d does until the product fits): same codes as the direct
   combination, labels folded, and unfolding gives the labels back - for any rows, given the first-stage labels are the
   null-free leading pairs that occur *)
Theorem C02_folding_keeps_the_codes rows U1 :
  (forall r, In r rows -> is_null_row (firstn 2 r) = false -> In (firstn 2 r) U1) -> (forall u, In u U1 -> is_null_row u = false) ->
  spec_combine (map (fold_row U1) rows) = (fst (spec_combine rows), map (fold_row U1) (snd (spec_combine rows))).
Proof. exact (fold_leading_same_codes rows U1). Qed.
Print Assumptions C02_folding_keeps_the_codes.

(* ... and the labels the first stage really delivers (the combination of the leading pairs) meet those two conditions *)
Theorem C02_folding_with_the_first_stage rows :
  let U1 := snd (spec_combine (map (firstn 2) rows)) in
  spec_combine (map (fold_row U1) rows) = (fst (spec_combine rows), map (fold_row U1) (snd (spec_combine rows))).
Proof. exact (folding_with_the_first_stage rows). Qed.
Print Assumptions C02_folding_with_the_first_stage.

Theorem C02_unfolding_gives_the_labels_back rows U1 r :
  (forall r, In r rows -> is_null_row (firstn 2 r) = false -> In (firstn 2 r) U1) ->
  In r rows -> is_null_row r = false -> unfold_row U1 (fold_row U1 r) = r.
Proof. intros H. exact (unfold_fold rows U1 H r). Qed.
Print Assumptions C02_unfolding_gives_the_labels_back.

(* Tie B (pins): the functions this property's models transcribe read, statement by statement, as they did when the models
   were written against them; Gen/SourcesGen.v is regenerated from /repo on every run (translator/pins.py). *)
From GL Require Import Gen.SourcesGen Model.Sources Proofs.PinC02.
Theorem C02_modelled_functions_are_the_source's :
  gen_src_combine_factorizations = src_combine_factorizations /\
  gen_src_monotonic_factorization = src_monotonic_factorization /\
  gen_src_factorize_2d = src_factorize_2d /\
  gen_src_build_group_sorted_indexer = src_build_group_sorted_indexer.
Proof. exact (conj pin_combine_factorizations (conj pin_monotonic_factorization (conj pin_factorize_2d pin_build_group_sorted_indexer))). Qed.
Print Assumptions C02_modelled_functions_are_the_source's.
