(* C02 — factorization is a faithful partition of the rows.  Statements only.
   External single-key factorizers (pd.factorize, categorical codes, Arrow dictionary
   encoding) are assumed faithful; what the library itself adds is modelled in
   Model/Factorize.v (multi-key combination, counting sort) and Model/GroupByApi.v (pointer
   unification of chunk-local codes). *)
From Coq Require Import List ZArith Bool.
From GL Require Import Lib.Arr Model.Factorize Model.GroupByApi Spec.RowSpec
  Proofs.FactorizeProofs Proofs.SelectProofs Proofs.ChunkedKeys.
Import ListNotations.
Open Scope Z_scope.

(* 1. several keys: the combined key is null exactly when some component is null *)
Theorem C02_null_iff_any_component_null codes weights :
  codes <> [] -> length codes = length weights ->
  (forall c, In c codes -> -1 <= c) -> (forall w, In w weights -> 0 <= w) ->
  (weight_code_sum codes weights = -1 <-> In (-1) codes).
Proof. exact (weight_code_sum_null codes weights). Qed.
Print Assumptions C02_null_iff_any_component_null.

(* 2. chunk-local codes: unification maps code k of a chunk to pointer[k] and keeps null null *)
Theorem C02_unify_nonnull p k : 0 <= k -> unify_code p k = Z.of_nat (get 0%nat p (Z.to_nat k)).
Proof. exact (unify_code_nonneg p k). Qed.
Theorem C02_unify_null p k : k < 0 -> unify_code p k = -1.
Proof. exact (unify_code_null p k). Qed.
Print Assumptions C02_unify_nonnull.
Print Assumptions C02_unify_null.

(* 3. the group-to-rows mapping: per label exactly the ascending positions of its rows, each
      row of a non-null key in exactly one list, never a null-key row *)
Theorem C02_group_rows g gk i :
  In i (positions_of g gk None) <-> (i < length gk)%nat /\ get (-1) gk i = Z.of_nat g /\ sel_at None i = true.
Proof. exact (positions_of_spec g gk None i). Qed.
Theorem C02_group_rows_once g gk : NoDup (positions_of g gk None).
Proof. exact (positions_sorted g gk None). Qed.
Theorem C02_no_null_key_row g gk i : In i (positions_of g gk None) -> 0 <= get (-1) gk i.
Proof. exact (no_null_key_selected g gk None i). Qed.
Print Assumptions C02_group_rows.
Print Assumptions C02_group_rows_once.
Print Assumptions C02_no_null_key_row.

Example C02_example :
  weight_code_sum [1; -1; 0] [6; 2; 1] = -1 /\ weight_code_sum [1; 2; 0] [6; 2; 1] = 10 /\
  combine_factorizations [[0; 1]; [1; -1]; [0; 1]; [1; 0]; [0; 0]] [2; 1] 4 = ([0; -1; 0; 1; 2], [[0; 1]; [1; 0]; [0; 0]]) /\
  build_group_sorted_indexer [[0; 1; -1]; [1; 0; 2]] [2; 2; 1] None None = [0; 4; 1; 3; 5].
Proof. repeat split; vm_compute; reflexivity. Qed.
