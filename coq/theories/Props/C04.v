(* C04 — Block-wise reduction equals single-pass reduction (kernel contract).
   This file only states; every theorem is closed by [exact] of a lemma proved
   in Proofs/.  [o] ranges over the two value domains of the model:
   floats ([fops]) and machine integers ([zops nullable nullv]). *)
From Coq Require Import List ZArith Bool QArith Qcanon.
From GL Require Import Lib.Arr Lib.Keyed Lib.Blocks Model.Dom Model.Scalar Model.Reduce
  Spec.Defs Spec.Exec Proofs.ReduceSeries Proofs.ReduceKernel Proofs.ReduceMerge
  Proofs.ReduceBlocks Proofs.ReduceWrap Proofs.ReduceSpec Proofs.GenTie Proofs.TieReducerTables Proofs.TieTarget
  Gen.ScalarFuncsGen Gen.TablesGen.
Import ListNotations.
Open Scope Z_scope.

(* 1. Every split into consecutive blocks — any thread count, any chunking of the
      values — and every mask kind gives exactly the single pass over the rows
      NumPy indexing selects. *)
Theorem C04_blocks_float r gk chunks ng m nt :
  kernel_value_reducer r -> sum_needs_no_nulls fops r -> (0 < nt)%nat -> chunks <> [] ->
  length gk = length (concat chunks) -> wf_mask (length gk) m -> covered chunks m ->
  group_func_wrap fops r gk chunks ng m nt = Ok (P fops r ng (sel_rows fops gk (concat chunks) m)).
Proof. exact (group_func_wrap_any_split fops fops_laws r gk chunks ng m nt). Qed.
Print Assumptions C04_blocks_float.

(* integer dtypes that hold no nulls (int8..int64 arrays, unsigned, bool) *)
Theorem C04_blocks_int nullv r gk chunks ng m nt :
  kernel_value_reducer r -> (0 < nt)%nat -> chunks <> [] ->
  length gk = length (concat chunks) -> wf_mask (length gk) m -> covered chunks m ->
  group_func_wrap (zops false nullv) r gk chunks ng m nt
  = Ok (P (zops false nullv) r ng (sel_rows (zops false nullv) gk (concat chunks) m)).
Proof.
  exact (fun Hr => group_func_wrap_any_split _ (zops_laws false nullv)
                     r gk chunks ng m nt Hr (fun _ _ => eq_refl)).
Qed.
Print Assumptions C04_blocks_int.

(* temporal values (int64 view, NaT = sentinel): per-thread / per-chunk partial sums are merged by the plain
   addition, so no side condition on the partial sums is needed (before /repo fix 46273b3 the merge reducer
   looked at the sentinel and this theorem needed "no partial sum equals the sentinel") *)
Theorem C04_blocks_temporal r gk chunks ng m nt :
  kernel_value_reducer r -> r <> Rsum -> (0 < nt)%nat -> chunks <> [] ->
  length gk = length (concat chunks) -> wf_mask (length gk) m -> covered chunks m ->
  group_func_wrap (zops true 0) r gk chunks ng m nt
  = Ok (P (zops true 0) r ng (sel_rows (zops true 0) gk (concat chunks) m)).
Proof.
  exact (fun Hr Hne => group_func_wrap_any_split _ (zops_laws true 0) r gk chunks ng m nt Hr
                            (fun E => False_ind _ (Hne E))).
Qed.
Print Assumptions C04_blocks_temporal.

(* 2. The single pass equals the per-group definition (value and count), for every
      group, including empty and all-null ones. *)
Theorem C04_single_pass_float r op ng rows g :
  kernel_op r = Some op -> (g < ng)%nat ->
  red_val fops op (group_vals g rows) (get (null fops) (fst (P fops r ng rows)) g)
  /\ get 0 (snd (P fops r ng rows)) g = red_cnt fops op (group_vals g rows).
Proof. exact (P_meets_definition fops fops_laws r op ng rows g). Qed.
Print Assumptions C04_single_pass_float.

Theorem C04_single_pass_int nullable nullv r op ng rows g :
  let o := zops nullable nullv in
  kernel_op r = Some op -> (g < ng)%nat ->
  red_val o op (group_vals g rows) (get (null o) (fst (P o r ng rows)) g)
  /\ get 0 (snd (P o r ng rows)) g = red_cnt o op (group_vals g rows).
Proof. exact (P_meets_definition _ (zops_laws nullable nullv) r op ng rows g). Qed.
Print Assumptions C04_single_pass_int.

(* plain integer sum: every selected row is added (integer arrays hold no nulls) *)
Theorem C04_single_pass_intsum nullv ng rows g :
  let o := zops false nullv in
  (g < ng)%nat ->
  get (null o) (fst (P o Rsum ng rows)) g = sum_list o (group_vals g rows)
  /\ get 0 (snd (P o Rsum ng rows)) g = Z.of_nat (length (group_vals g rows)).
Proof. exact (P_sum_all _ (zops_laws false nullv) ng rows g (fun _ => eq_refl)). Qed.
Print Assumptions C04_single_pass_intsum.

(* counts of the counting kernels add up over every list of blocks *)
Theorem C04_blocks_counts_float r mr ng b0 bs :
  count_additive (reducer_of fops r) (initial_value fops r) ->
  forall chunks, length chunks = S (length bs) ->
  snd (combine_factorized fops mr chunks (map snd (map (P fops r ng) (b0 :: bs))))
  = snd (P fops r ng (concat (b0 :: bs))).
Proof. exact (combine_factorized_counts fops r mr ng b0 bs). Qed.
Print Assumptions C04_blocks_counts_float.

(* 3. Negative codes are ignored. *)
Theorem C04_negative_codes_float r ng rows :
  P fops r ng (filter (fun row => negb (fst row <? 0)) rows) = P fops r ng rows.
Proof. exact (P_drop_null fops r ng rows). Qed.
Print Assumptions C04_negative_codes_float.
Theorem C04_negative_codes_int nullable nullv r ng rows :
  P (zops nullable nullv) r ng (filter (fun row => negb (fst row <? 0)) rows) = P (zops nullable nullv) r ng rows.
Proof. exact (P_drop_null _ r ng rows). Qed.
Print Assumptions C04_negative_codes_int.

(* 4. Masks select rows the way array indexing would: a boolean mask visits the
      rows a filter keeps (through nonzero()), a slice is a pair of views. *)
Theorem C04_bool_mask_is_filter (gk : list Z) (vals : list fl) b :
  length gk = length b -> length vals = length b ->
  map (lookup fops gk vals) (nonzero b) = map fst (filter snd (combine (combine gk vals) b)).
Proof. exact (nonzero_rows fops gk vals b). Qed.
Print Assumptions C04_bool_mask_is_filter.
Theorem C04_slice_is_view (gk : list Z) (vals : list fl) a b :
  length gk = length vals ->
  slice_list (combine gk vals) a b = combine (slice_list gk a b) (slice_list vals a b).
Proof. exact (slice_combine gk vals a b). Qed.
Print Assumptions C04_slice_is_view.

(* 5. Tie B: the reducers regenerated from /repo's source on this run are the model's. *)
Theorem C04_reducers_are_the_source's :
  (forall a b c, @g_nansum fl fops a b c = r_nansum fops a b c) /\
  (forall a b c, @g_sum Z (zops false 0) a b c = r_sum (zops false 0) a b c) /\
  (forall a b c, @g_nanmin fl fops a b c = r_nanmin fops a b c) /\
  (forall a b c, @g_nanmax fl fops a b c = r_nanmax fops a b c) /\
  (forall a b c, @g_first fl fops a b c = r_first fops a b c) /\
  (forall a b c, @g_last fl fops a b c = r_last fops a b c) /\
  gen_kernel_reducers = kernel_reducers.
Proof.
  exact (conj (tie_nansum fops) (conj (tie_sum (zops false 0)) (conj (tie_nanmin fops)
        (conj (tie_nanmax fops) (conj (tie_first fops) (conj (tie_last fops) tie_kernel_reducers)))))).
Qed.
Print Assumptions C04_reducers_are_the_source's.

(* ... and the initial value of the accumulators per kind of operation is the one the model's build_target encodes *)
Theorem C04_initial_values_are_the_source's : Gen.TablesGen.gen_build_target_rule = build_target_rule.
Proof. exact tie_build_target_rule. Qed.
Print Assumptions C04_initial_values_are_the_source's.

(* Non-vacuity: a concrete non-trivial input meets the hypotheses, and the model computes on it. *)
Example C04_example :
  let gk := [0; 1; -1; 1; 0] in
  let chunks := [[fl_of_Z 1; FNan]; [fl_of_Z 2; fl_of_Z 3; fl_of_Z 4]] in
  kernel_value_reducer Rnanmin /\ sum_needs_no_nulls fops Rnanmin /\ chunks <> [] /\ length gk = length (concat chunks) /\
  wf_mask (length gk) MNone /\ covered chunks MNone /\
  group_func_wrap fops Rnanmin gk chunks 2 MNone 1 = Ok ([fl_of_Z 1; fl_of_Z 3], [2; 1]).
Proof. repeat split; try constructor; try discriminate; vm_compute; reflexivity. Qed.

(* Tie B (pins): the functions this property's models transcribe read, statement by statement, as they did when the models
   were written against them; Gen/SourcesGen.v is regenerated from /repo on every run (translator/pins.py). *)
From GL Require Import Gen.SourcesGen Model.Sources Proofs.PinC04.
Theorem C04_modelled_functions_are_the_source's :
  gen_src_group_by_reduce = src_group_by_reduce /\
  gen_src_apply_group_method_single_chunk = src_apply_group_method_single_chunk /\
  gen_src_chunk_groupby_args = src_chunk_groupby_args /\
  gen_src_reduce_array_pair = src_reduce_array_pair /\
  gen_src_combine_chunk_results = src_combine_chunk_results /\
  gen_src_group_func_wrap = src_group_func_wrap /\
  gen_src_build_target_for_groupby = src_build_target_for_groupby /\
  gen_src_group_mean = src_group_mean.
Proof. exact (conj pin_group_by_reduce (conj pin_apply_group_method_single_chunk (conj pin_chunk_groupby_args (conj pin_reduce_array_pair (conj pin_combine_chunk_results (conj pin_group_func_wrap (conj pin_build_target_for_groupby pin_group_mean))))))). Qed.
Print Assumptions C04_modelled_functions_are_the_source's.

(* The floating-point side, bit for bit.  Model/ReduceFloat.v transcribes the grouped float64 sums (nansum / sum / nansum_squares:
   array_split pieces, per-piece per-group running sums, left-to-right merge skipping empty partials) in Coq's primitive binary64
   floats; C04's stream runs it inside Coq against the real _group_func_wrap.  For EVERY float64 input, mask and thread count:
   np.array_split loses and duplicates no row; the count of a group is the number of its kept rows the reducer takes - whatever the
   number of threads; a group without such rows is (0.0, 0) - nothing of a neighbouring group or piece leaks into it.  The value
   of a non-empty group is exact whenever its partial sums are representable (the theorems above); beyond that it depends on the
   bracketing, as the example shows - which the model reproduces and Proofs/VarFloat.sum_error bounds. *)
From Coq Require Import PrimFloat.
From GL Require Model.ReduceFloat Proofs.ReduceFloatProofs.
Theorem C04_array_split_loses_nothing (A : Type) (l : list A) k : (0 < k)%nat -> concat (ReduceFloat.array_split l k) = l.
Proof. exact (ReduceFloatProofs.array_split_concat l k). Qed.
Theorem C04_float_count_any_threads f keys vals mask nt g : (0 < nt)%nat ->
  snd (ReduceFloat.group_reduce_f f keys vals mask nt g) = ReduceFloatProofs.count_rows f g (ReduceFloat.keep_rows keys vals mask).
Proof. exact (ReduceFloatProofs.count_any_threads f keys vals mask nt g). Qed.
Theorem C04_float_empty_group_any_threads f keys vals mask nt g : (0 < nt)%nat ->
  ReduceFloatProofs.count_rows f g (ReduceFloat.keep_rows keys vals mask) = 0%nat ->
  ReduceFloat.group_reduce_f f keys vals mask nt g = (PrimFloat.zero, 0%nat).
Proof. exact (ReduceFloatProofs.empty_group_any_threads f keys vals mask nt g). Qed.
Print Assumptions C04_array_split_loses_nothing.
Print Assumptions C04_float_count_any_threads.
Print Assumptions C04_float_empty_group_any_threads.
Example C04_float_model_example :
  let keys := [0; 0; 0; 0] in let vals := [1e16; 1; -1e16; 1]%float in
  ReduceFloat.check_reduce (0%nat, 1%nat, keys, vals, [], 0, 1%float, 4) = true /\
  ReduceFloat.check_reduce (0%nat, 2%nat, keys, vals, [], 0, 0%float, 4) = true /\
  ReduceFloat.check_reduce (0%nat, 3%nat, [0; 1; -1; 0], [nan; 2; 5; nan]%float, [], 0, 0%float, 0) = true.
Proof. vm_compute. repeat split. Qed.

(* one thread is the single pass, and the single pass of group g reads the rows of group g only - in IEEE arithmetic, for every
   float64 input: no value, NaN or infinity of another group enters *)
Theorem C04_float_one_thread_is_the_single_pass f keys vals mask g :
  ReduceFloat.group_reduce_f f keys vals mask 1 g = ReduceFloat.piece_reduce f g (ReduceFloat.keep_rows keys vals mask).
Proof. exact (ReduceFloatProofs.one_thread_is_the_single_pass f keys vals mask g). Qed.
Theorem C04_float_single_pass_ignores_other_groups f g rows :
  ReduceFloat.piece_reduce f g rows = ReduceFloat.piece_reduce f g (filter (fun r => (fst r =? g)%Z) rows).
Proof. exact (ReduceFloatProofs.single_pass_ignores_other_groups f g rows). Qed.
Print Assumptions C04_float_one_thread_is_the_single_pass.
Print Assumptions C04_float_single_pass_ignores_other_groups.
