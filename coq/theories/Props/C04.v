(* C04 — Block-wise reduction equals single-pass reduction (kernel contract).
   This file only states; every theorem is closed by [exact] of a lemma proved
   in Proofs/. *)
From Coq Require Import List ZArith Bool.
From GL Require Import Model.Dom Model.Scalar Spec.Defs Proofs.ReduceSeries Proofs.GenTie.
Open Scope Z_scope.

(* single series: each reducer computes the per-group definition *)
Theorem C04_series_nansum_float (l : list fl) :
  series (r_nansum fops) l (zero fops, 0) = (sum_list fops (nonnull fops l), Z.of_nat (length (nonnull fops l))).
Proof. exact (nansum_spec fops fops_laws l). Qed.
Print Assumptions C04_series_nansum_float.
