(* C15 — head/tail/nth select exactly the requested rows of each group. *)
From Coq Require Import List ZArith Bool.
From GL Require Import Lib.Arr Model.Select Spec.RowSpec Proofs.SelectProofs.
Import ListNotations.
Open Scope Z_scope.

(* nth: for every group, the n-th selected position from the start (n >= 0) or from
   the end (n < 0), -1 when the group is too short; any interleaving, any group
   size (counters are unbounded integers in the model — int64 in the code). *)
Theorem C15_nth gk ng n mask : find_nth gk ng n mask = nth_spec gk ng n mask.
Proof. exact (find_nth_correct gk ng n mask). Qed.
Print Assumptions C15_nth.

(* head: row g of the table = the first n positions of g, ascending, padded with -1 *)
Theorem C15_head gk ng n mask : find_first_or_last_n gk ng n mask true = first_n_spec gk ng n mask.
Proof. exact (find_first_n_correct gk ng n mask). Qed.
Print Assumptions C15_head.

(* tail: the last n positions of g, ascending, padded with -1 in front *)
Theorem C15_tail gk ng n mask : find_first_or_last_n gk ng n mask false = last_n_spec gk ng n mask.
Proof. exact (find_last_n_correct gk ng n mask). Qed.
Print Assumptions C15_tail.

(* positions of a group: in range, carrying that group's (non-negative) code, selected;
   hence no row with a null key is ever selected, and no row is selected twice *)
Theorem C15_positions g gk mask i :
  In i (positions_of g gk mask) <-> (i < length gk)%nat /\ get (-1) gk i = Z.of_nat g /\ sel_at mask i = true.
Proof. exact (positions_of_spec g gk mask i). Qed.
Print Assumptions C15_positions.
Theorem C15_no_null_key g gk mask i : In i (positions_of g gk mask) -> 0 <= get (-1) gk i.
Proof. exact (no_null_key_selected g gk mask i). Qed.
Print Assumptions C15_no_null_key.
Theorem C15_once g gk mask : NoDup (positions_of g gk mask).
Proof. exact (positions_sorted g gk mask). Qed.
Print Assumptions C15_once.

Example C15_example :
  find_nth [0; 1; 0; -1; 1; 0] 2 (-1) None = [5; 4] /\
  find_first_or_last_n [0; 1; 0; -1; 1; 0] 2 2 (Some [true; true; true; true; true; false]) false = [[0; 2]; [1; 4]].
Proof. split; reflexivity. Qed.

(* Tie B (pins): the functions this property's models transcribe read, statement by statement, as they did when the models
   were written against them; Gen/SourcesGen.v is regenerated from /repo on every run (translator/pins.py). *)
From GL Require Import Gen.SourcesGen Model.Sources Proofs.PinC15.
Theorem C15_modelled_functions_are_the_source's :
  gen_src_find_nth = src_find_nth /\
  gen_src_find_first_or_last_n = src_find_first_or_last_n.
Proof. exact (conj pin_find_nth pin_find_first_or_last_n). Qed.
Print Assumptions C15_modelled_functions_are_the_source's.
