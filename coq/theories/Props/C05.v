(* C05 — a mask is equivalent to filtering the rows first.  Statements only. *)
From Coq Require Import List ZArith Bool QArith Qcanon.
From GL Require Import Lib.Arr Lib.Keyed Lib.Blocks Model.Dom Model.Scalar Model.Reduce Model.Select
  Model.Cumulative Model.Rolling Model.Ema Spec.Defs Spec.Exec Spec.RowSpec
  Proofs.ReduceWrap Proofs.RowGeneric Proofs.MaskFilter Proofs.SelectProofs Proofs.EmaMask Proofs.EmaTimedMask.
Import ListNotations.
Open Scope Z_scope.

(* 1. Reductions: the kernel called with a boolean, slice or positional mask (any
      thread count) returns what it returns without a mask on keys[mask], values[mask] *)
Theorem C05_reduce_float r gk vals ng m nt nt' :
  kernel_value_reducer r -> sum_needs_no_nulls fops r -> (0 < nt)%nat -> (0 < nt')%nat ->
  length gk = length vals -> wf_mask (length gk) m ->
  group_func_wrap fops r gk [vals] ng m nt
  = group_func_wrap fops r (index_by (-1) gk m) [index_by (null fops) vals m] ng MNone nt'.
Proof. exact (masked_call_is_filtered_call fops fops_laws r gk vals ng m nt nt'). Qed.
Print Assumptions C05_reduce_float.

Theorem C05_reduce_int nullv r gk vals ng m nt nt' :
  let o := zops false nullv in
  kernel_value_reducer r -> (0 < nt)%nat -> (0 < nt')%nat ->
  length gk = length vals -> wf_mask (length gk) m ->
  group_func_wrap o r gk [vals] ng m nt
  = group_func_wrap o r (index_by (-1) gk m) [index_by (null o) vals m] ng MNone nt'.
Proof.
  exact (fun Hr => masked_call_is_filtered_call _ (zops_laws false nullv)
                     r gk vals ng m nt nt' Hr (fun _ _ => eq_refl)).
Qed.
Print Assumptions C05_reduce_int.

(* the rows a mask selects are the rows array indexing selects *)
Theorem C05_selected_rows gk (vals : list fl) m :
  length gk = length vals -> (match m with MBool b => length b = length gk | _ => True end) ->
  sel_rows fops gk vals m = combine (index_by (-1) gk m) (index_by (null fops) vals m).
Proof. exact (sel_rows_is_indexing fops gk vals m). Qed.
Print Assumptions C05_selected_rows.

Section RowAligned.
Context {V : Type} (o : ops V).

(* 2. Cumulative operations: at every selected row, the value produced on the filtered data *)
Theorem C05_cumulative op skip_na gk vals ng m :
  length gk = length m -> length vals = length m ->
  filter_by m (cumulative o op skip_na gk vals ng (Some m))
  = cumulative o op skip_na (filter_by m gk) (filter_by m vals) ng None.
Proof.
  exact (mask_is_filter _ _ _ (cum_init o op, 0) (cum_step (reducer_of o (cum_reducer false op skip_na))) (cum_na o op)
           gk vals ng m (fun s v => eq_refl)).
Qed.

(* 3. Rolling sum / mean / min / max, shift and diff *)
Theorem C05_rolling_sum gk vals ng window mp want_mean m :
  length gk = length m -> length vals = length m ->
  filter_by m (rolling_sum_or_mean o gk vals ng window mp (Some m) want_mean)
  = rolling_sum_or_mean o (filter_by m gk) (filter_by m vals) ng window mp None want_mean.
Proof.
  exact (mask_is_filter _ _ _ _ (sum_step o window (match mp with Some m0 => m0 | None => Z.of_nat window end) want_mean) _
           gk vals ng m (fun s v => eq_refl)).
Qed.
Theorem C05_rolling_ext gk vals ng window mp want_max m :
  length gk = length m -> length vals = length m ->
  filter_by m (rolling_max_or_min o gk vals ng window mp (Some m) want_max)
  = rolling_max_or_min o (filter_by m gk) (filter_by m vals) ng window mp None want_max.
Proof.
  exact (mask_is_filter _ _ _ _ (ext_step o window (match mp with Some m0 => m0 | None => Z.of_nat window end) want_max) _
           gk vals ng m (fun s v => eq_refl)).
Qed.
Theorem C05_shift_diff gk vals ng window want_shift m :
  length gk = length m -> length vals = length m ->
  filter_by m (rolling_shift_or_diff o gk vals ng window (Some m) want_shift)
  = rolling_shift_or_diff o (filter_by m gk) (filter_by m vals) ng window None want_shift.
Proof.
  exact (mask_is_filter _ _ _ _ (shift_step o window want_shift) _ gk vals ng m (fun s v => eq_refl)).
Qed.
End RowAligned.
Print Assumptions C05_cumulative.
Print Assumptions C05_rolling_sum.
Print Assumptions C05_rolling_ext.
Print Assumptions C05_shift_diff.

(* 4. Row selection kernels: only selected rows are ever returned (positions_of is the
      ascending list of the selected rows of a group) *)
Theorem C05_select_nth gk ng n mask : find_nth gk ng n mask = nth_spec gk ng n mask.
Proof. exact (find_nth_correct gk ng n mask). Qed.
Print Assumptions C05_select_nth.

(* 5. Plain grouped EMA: a masked row behaves like a null VALUE (it still ages the
      weights), which is the kernel's actual contract ... *)
Theorem C05_ema_mask_is_where gk vals alpha ng m :
  length gk = length m -> length vals = length m ->
  ema_grouped gk vals alpha ng (Some m) = ema_grouped gk (where_ m vals) alpha ng None.
Proof. exact (ema_mask_is_where gk vals alpha ng m). Qed.
Print Assumptions C05_ema_mask_is_where.

(* ... and therefore NOT "mask = filter": refuted with a concrete witness (known finding K1;
   the behaviour is pinned by the repository's own pandas-comparison test) *)
Theorem C05_ema_plain_refuted :
  exists gk vals alpha ng m,
    length gk = length m /\ length vals = length m /\
    filter_by m (ema_grouped gk vals alpha ng (Some m))
    <> ema_grouped (filter_by m gk) (filter_by m vals) alpha ng None.
Proof. exact ema_plain_mask_is_not_filter. Qed.
Print Assumptions C05_ema_plain_refuted.

(* 6. Time-weighted grouped EMA: here a mask IS equivalent to filtering first, for any decay that is a
      homomorphism from elapsed time to factors (the exponential 2^(-dt/halflife) is one; the instance
      decay_exp below shows the hypotheses are satisfiable non-trivially): a masked row moves the group's
      clock and decays the accumulators by decay(dt), exactly what the next row does over the whole gap
      when the row is absent. *)
Theorem C05_ema_timed_mask_is_filter decay gk vals times ng m :
  decay 0 = 1%Qc -> (forall a b, decay (a + b) = (decay a * decay b)%Qc) ->
  length gk = length m -> length vals = length m -> length times = length m ->
  filter_by m (ema_grouped_timed decay gk vals times ng (Some m))
  = ema_grouped_timed decay (filter_by m gk) (filter_by m vals) (filter_by m times) ng None.
Proof. exact (fun H0 Ha => ema_timed_mask_is_filter decay H0 Ha gk vals times ng m). Qed.
Print Assumptions C05_ema_timed_mask_is_filter.
Theorem C05_decay_exp_is_a_decay : decay_exp 0 = 1%Qc /\ forall a b, decay_exp (a + b) = (decay_exp a * decay_exp b)%Qc.
Proof. exact (conj decay_exp_zero decay_exp_add). Qed.
Print Assumptions C05_decay_exp_is_a_decay.

Example C05_example :
  let gk := [0; 1; 0; 1; 0] in let vals := map fl_of_Z [1; 2; 3; 4; 5] in let m := [true; false; true; true; false] in
  length gk = length m /\ length vals = length m /\
  filter_by m (cumulative fops CSum true gk vals 2 (Some m)) = [fl_of_Z 1; fl_of_Z 4; fl_of_Z 4].
Proof. repeat split; vm_compute; reflexivity. Qed.

(* Tie B (pins): the functions this property's models transcribe read, statement by statement, as they did when the models
   were written against them; Gen/SourcesGen.v is regenerated from /repo on every run (translator/pins.py). *)
From GL Require Import Gen.SourcesGen Model.Sources Proofs.PinC05.
Theorem C05_modelled_functions_are_the_source's :
  gen_src_group_func_wrap = src_group_func_wrap /\
  gen_src_apply_cumulative = src_apply_cumulative /\
  gen_src_rolling_max_or_min_1d = src_rolling_max_or_min_1d /\
  gen_src_rolling_shift_or_diff_1d = src_rolling_shift_or_diff_1d /\
  gen_src_ema_grouped = src_ema_grouped /\
  gen_src_ema_grouped_timed = src_ema_grouped_timed.
Proof. exact (conj pin_group_func_wrap (conj pin_apply_cumulative (conj pin_rolling_max_or_min_1d (conj pin_rolling_shift_or_diff_1d (conj pin_ema_grouped pin_ema_grouped_timed))))). Qed.
Print Assumptions C05_modelled_functions_are_the_source's.
