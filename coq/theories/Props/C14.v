(* C14 — margins and cross-tabulation totals equal the aggregate of what they summarise.
   Statements only.  [groups] = the value lists of the groups an 'All' row summarises. *)
From Coq Require Import List ZArith Bool.
From GL Require Import Lib.Arr Model.Dom Model.Scalar Model.GroupByApi Spec.Defs Proofs.ReduceSeries Proofs.ReduceMerge
  Proofs.ApiProofs Proofs.MarginProofs.
Import ListNotations.
Open Scope Z_scope.

(* 1. sum / count / size margins add up to the aggregation over all summarised rows *)
Theorem C14_sum_margin (groups : list (list fl)) :
  sum_list fops (nonnull fops (concat groups))
  = fold_left (add fops) (map (fun g => sum_list fops (nonnull fops g)) groups) (zero fops).
Proof. exact (sum_margin fops fops_laws groups). Qed.
Theorem C14_count_margin (groups : list (list fl)) :
  Z.of_nat (length (nonnull fops (concat groups))) = fold_left Z.add (map (fun g => Z.of_nat (length (nonnull fops g))) groups) 0.
Proof. exact (count_margin fops groups). Qed.
Theorem C14_size_margin (groups : list (list fl)) :
  Z.of_nat (length (concat groups)) = fold_left Z.add (map (fun g : list fl => Z.of_nat (length g)) groups) 0.
Proof. exact (size_margin groups). Qed.
Print Assumptions C14_sum_margin.
Print Assumptions C14_count_margin.
Print Assumptions C14_size_margin.

(* 2. min / max margins are the extremes over the union (groups without a non-null value do not take part) *)
Theorem C14_min_margin l1 l2 :
  series (r_nanmin fops) (l1 ++ l2) (null fops, 0)
  = merge_pair (r_nanmin fops) (series (r_nanmin fops) l1 (null fops, 0)) (series (r_nanmin fops) l2 (null fops, 0)).
Proof. exact (min_margin fops fops_laws l1 l2). Qed.
Theorem C14_max_margin l1 l2 :
  series (r_nanmax fops) (l1 ++ l2) (null fops, 0)
  = merge_pair (r_nanmax fops) (series (r_nanmax fops) l1 (null fops, 0)) (series (r_nanmax fops) l2 (null fops, 0)).
Proof. exact (max_margin fops fops_laws l1 l2). Qed.
Print Assumptions C14_min_margin.
Print Assumptions C14_max_margin.

(* 3. a mean margin is computed from the margin of the sums and the margin of the counts (1.):
      total sum / total count, null when the total count is zero *)
Theorem C14_mean_margin sums counts g :
  length sums = length counts -> (g < length sums)%nat ->
  get (null fops) (mean_column fops sums counts) g =
    (if get 0 counts g =? 0 then null fops else divc fops (get (null fops) sums g) (get 0 counts g)).
Proof. exact (mean_column_spec fops sums counts g). Qed.
Print Assumptions C14_mean_margin.

Example C14_example :
  let groups := [[fl_of_Z 1; FNan; fl_of_Z 2]; [FNan]; [fl_of_Z 5]] in
  fold_left (add fops) (map (fun g => sum_list fops (nonnull fops g)) groups) (zero fops) = sum_list fops (nonnull fops (concat groups))
  /\ fold_left Z.add (map (fun g => Z.of_nat (length (nonnull fops g))) groups) 0 = 3.
Proof. split; vm_compute; reflexivity. Qed.
