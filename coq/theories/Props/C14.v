(* C14 — margins and cross-tabulation totals equal the aggregate of what they summarise.
   Statements only.  [groups] = the value lists of the groups an 'All' row summarises. *)
From Coq Require Import List ZArith Bool.
From GL Require Import Lib.Arr Model.Dom Model.Scalar Model.GroupByApi Spec.Defs Proofs.ReduceSeries Proofs.ReduceMerge
  Proofs.ApiProofs Proofs.MarginProofs Model.Margins Proofs.MarginLevels Proofs.TieMargins Gen.TablesGen.
Import ListNotations.
Open Scope Z_scope.

(* 1. sum / count / size margins add up to the aggregation over all summarised rows *)
Theorem C14_sum_margin (groups : list (list fl)) :
  sum_list fops (nonnull fops (concat groups))
  = fold_left (add fops) (map (fun g => sum_list fops (nonnull fops g)) groups) (zero fops).
Proof. exact (sum_margin fops fops_laws groups). Qed.
Theorem C14_count_margin (groups : list (list fl)) :
  Z.of_nat (length (nonnull fops (concat groups))) = fold_left Z.add (map (fun g => Z.of_nat (length (nonnull fops g))) groups) 0.
Proof. exact (count_margin fops groups). Qed.
Theorem C14_size_margin (groups : list (list fl)) :
  Z.of_nat (length (concat groups)) = fold_left Z.add (map (fun g : list fl => Z.of_nat (length g)) groups) 0.
Proof. exact (size_margin groups). Qed.
Print Assumptions C14_sum_margin.
Print Assumptions C14_count_margin.
Print Assumptions C14_size_margin.

(* 2. min / max margins are the extremes over the union (groups without a non-null value do not take part) *)
Theorem C14_min_margin l1 l2 :
  series (r_nanmin fops) (l1 ++ l2) (null fops, 0)
  = merge_pair (r_nanmin fops) (series (r_nanmin fops) l1 (null fops, 0)) (series (r_nanmin fops) l2 (null fops, 0)).
Proof. exact (min_margin fops fops_laws l1 l2). Qed.
Theorem C14_max_margin l1 l2 :
  series (r_nanmax fops) (l1 ++ l2) (null fops, 0)
  = merge_pair (r_nanmax fops) (series (r_nanmax fops) l1 (null fops, 0)) (series (r_nanmax fops) l2 (null fops, 0)).
Proof. exact (max_margin fops fops_laws l1 l2). Qed.
Print Assumptions C14_min_margin.
Print Assumptions C14_max_margin.

(* 3. a mean margin is computed from the margin of the sums and the margin of the counts (1.):
      total sum / total count, null when the total count is zero *)
Theorem C14_mean_margin sums counts g :
  length sums = length counts -> (g < length sums)%nat ->
  get (null fops) (mean_column fops sums counts) g =
    (if get 0 counts g =? 0 then null fops else divc fops (get (null fops) sums g) (get 0 counts g)).
Proof. exact (mean_column_spec fops sums counts g). Qed.
Print Assumptions C14_mean_margin.

Example C14_example :
  let groups := [[fl_of_Z 1; FNan; fl_of_Z 2]; [FNan]; [fl_of_Z 5]] in
  fold_left (add fops) (map (fun g => sum_list fops (nonnull fops g)) groups) (zero fops) = sum_list fops (nonnull fops (concat groups))
  /\ fold_left Z.add (map (fun g => Z.of_nat (length (nonnull fops g))) groups) 0 = 3.
Proof. split; vm_compute; reflexivity. Qed.

(* 4. the multi-level algorithm (core.add_row_margin; model Model/Margins.add_row_margin), for ANY number of key levels,
      any subset of requested levels, any sparse set of label combinations and any aggregation that is a commutative
      monoid (sum and count margins: addition; min / max: the extreme; a mean margin is 3. applied to the two):
      (a) every row produced carries the aggregate of exactly the data rows its key stands for ('All' = any label),
          an 'All' stands only in a requested level, and the key stands for at least one data row;
      (b) the ordinary rows are unchanged;
      (c) for every data row and every non-empty set of requested levels, the row with 'All' at those levels is there. *)
Section MultiLevel.
Context {V : Type} (agg : V -> V -> V) (e : V).
Hypothesis agg_assoc : forall a b c, agg a (agg b c) = agg (agg a b) c.
Hypothesis agg_comm : forall a b, agg a b = agg b a.
Hypothesis agg_e : forall a, agg e a = a.

Theorem C14_every_margin_row_is_the_aggregate n levels D : concrete n D -> NoDup (map fst D) ->
  forall k v, In (k, v) (add_row_margin agg n levels D) ->
  v = total agg e k D /\ (forall i, (i < n)%nat -> is_all k i = true -> In i levels) /\
  (exists k0, In k0 (map fst D) /\ matches k k0 = true).
Proof. exact (add_row_margin_sound agg e agg_assoc agg_comm agg_e n levels D). Qed.

Theorem C14_ordinary_rows_unchanged n levels D : concrete n D ->
  forall k v, In (k, v) D -> In (k, v) (add_row_margin agg n levels D).
Proof. exact (add_row_margin_keeps_rows agg n levels D). Qed.

Theorem C14_every_requested_margin_is_there n levels D S k : concrete n D ->
  S <> [] -> NoDup S -> incl S levels -> (forall l, In l levels -> (l < n)%nat) -> In k (map fst D) ->
  In (setAllS S k) (map fst (add_row_margin agg n levels D)).
Proof. exact (add_row_margin_complete agg n levels D S k). Qed.

(* 5. cross-tabulation (core.crosstab: one grouping over row keys ++ column keys, margins on the axes asked for, unstack):
      a cell that holds a value holds the aggregate over the rows with that row key and that column key ('All' standing
      for any label, and only on an axis whose margin was asked for); a combination that does not occur is null; the
      cell of a combination that occurs holds its group's value *)
Theorem C14_crosstab_cell n0 n1 rm cm D r c v : concrete (n0 + n1) D -> NoDup (map fst D) ->
  crosstab_cell agg n0 n1 rm cm D r c = Some v ->
  v = total agg e (r ++ c) D /\
  (forall i, (i < n0 + n1)%nat -> is_all (r ++ c) i = true -> In i (crosstab_levels n0 n1 rm cm)) /\
  (exists k0, In k0 (map fst D) /\ matches (r ++ c) k0 = true).
Proof. exact (crosstab_cell_sound agg e agg_assoc agg_comm agg_e n0 n1 rm cm D r c v). Qed.

Theorem C14_crosstab_absent_combination_is_null n0 n1 rm cm D r c : concrete (n0 + n1) D -> NoDup (map fst D) ->
  (forall k0, In k0 (map fst D) -> matches (r ++ c) k0 = false) ->
  crosstab_cell agg n0 n1 rm cm D r c = None.
Proof. exact (crosstab_absent_is_null agg e agg_assoc agg_comm agg_e n0 n1 rm cm D r c). Qed.

Theorem C14_crosstab_ordinary_cell n0 n1 rm cm D r c v : concrete (n0 + n1) D -> NoDup (map fst D) ->
  In (r ++ c, v) D -> crosstab_cell agg n0 n1 rm cm D r c = Some v.
Proof. exact (crosstab_ordinary_cell agg e agg_assoc agg_comm agg_e n0 n1 rm cm D r c v). Qed.

(* add_row_margin refuses a frame in which a group is itself labelled 'All' (before the repair the total silently overwrote that
   group): what it accepts meets the hypothesis of the theorems above, so for every accepted frame whose keys have one entry
   per level and are pairwise distinct, every row produced is the aggregate of the rows it stands for *)
Theorem C14_accepted_frames n levels D out : (forall k, In k (map fst D) -> length k = n) -> NoDup (map fst D) ->
  add_row_margin_checked agg n levels D = Some out ->
  forall k v, In (k, v) out -> v = total agg e k D /\ (forall i, (i < n)%nat -> is_all k i = true -> In i levels).
Proof.
  intros Hlen Hn Hacc k v Hin. unfold add_row_margin_checked in Hacc.
  destruct (has_all_label D) eqn:Hh; [discriminate|]. inversion Hacc; subst out.
  destruct (add_row_margin_sound agg e agg_assoc agg_comm agg_e n levels D (accepted_is_concrete n D Hh Hlen) Hn k v Hin) as [H1 [H2 _]].
  exact (conj H1 H2).
Qed.
End MultiLevel.
Print Assumptions C14_accepted_frames.
Print Assumptions C14_crosstab_cell.
Print Assumptions C14_crosstab_absent_combination_is_null.
Print Assumptions C14_crosstab_ordinary_cell.
Print Assumptions C14_every_margin_row_is_the_aggregate.
Print Assumptions C14_ordinary_rows_unchanged.
Print Assumptions C14_every_requested_margin_is_there.

(* the aggregation hypotheses are satisfiable: integer addition (sum, count and size margins) *)
Theorem C14_sum_margins_instance n levels D : concrete n D -> NoDup (map fst D) ->
  forall k v, In (k, v) (add_row_margin Z.add n levels D) -> v = total Z.add 0 k D.
Proof.
  intros Hc Hn k v Hin.
  exact (proj1 (C14_every_margin_row_is_the_aggregate Z.add 0 Z.add_assoc Z.add_comm Z.add_0_l n levels D Hc Hn k v Hin)).
Qed.
Print Assumptions C14_sum_margins_instance.

(* Tie B: the statements of core.add_row_margin are the ones the model reads, on this run *)
Theorem C14_add_row_margin_is_the_source's : gen_add_row_margin = add_row_margin_source.
Proof. exact tie_add_row_margin. Qed.
Print Assumptions C14_add_row_margin_is_the_source's.

Example C14_multi_level_example :
  let D := [([Some 0; Some 0], 1); ([Some 0; Some 1], 2); ([Some 1; Some 1], 4)] in
  add_row_margin Z.add 2 [1%nat] D = D ++ [([Some 0; None], 3); ([Some 1; None], 4)] /\
  total Z.add 0 [None; Some 1] D = 6 /\ concrete 2 D.
Proof. split; [|split]; [vm_compute; reflexivity | vm_compute; reflexivity |].
  intros k [<-|[<-|[<-|[]]]]; reflexivity. Qed.

(* Tie B (pins): crosstab and the reduction front end (whose `if margins:` block calls add_row_margin column by column for temporal
   sums) read, statement by statement, as they did when the model was written against them *)
From GL Require Import Gen.SourcesGen Model.Sources Proofs.PinC14.
Theorem C14_modelled_functions_are_the_source's : gen_src_crosstab = src_crosstab /\ gen_src_apply_gb_reduction = src_apply_gb_reduction.
Proof. exact (conj pin_crosstab pin_apply_gb_reduction). Qed.
Print Assumptions C14_modelled_functions_are_the_source's.
