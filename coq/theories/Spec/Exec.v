(* Executable version of the per-group definitions, used by the correspondence
   driver.  [red_exec_sound] proves it satisfies the relational definitions of
   Spec/Defs.v, so running it IS evaluating the specification. *)
From Coq Require Import List ZArith Lia Bool Arith.
From GL Require Import Lib.Arr Model.Dom Model.Scalar Model.Reduce Spec.Defs Proofs.ReduceSeries.
Import ListNotations.
Open Scope Z_scope.

Section Exec.
Context {V : Type} (o : ops V).

Definition min_exec (l : list V) : V :=
  match l with [] => null o | h :: t => fold_left (pick_min o) t h end.
Definition max_exec (l : list V) : V :=
  match l with [] => null o | h :: t => fold_left (pick_max o) t h end.

Definition red_exec (op : rop) (l : list V) : V * Z :=
  let nn := nonnull o l in
  let v := match op with
           | Size | Count => zero o
           | Sum => sum_list o nn
           | SumSq => sum_list o (map (sq o) nn)
           | Min => min_exec nn
           | Max => max_exec nn
           | First => hd (null o) nn
           | Last => last nn (null o)
           end in
  (v, red_cnt o op l).

(* rows selected by a mask, with NumPy indexing semantics *)
Definition sel_rows (codes : list Z) (vals : list V) (m : mask) : list (Z * V) :=
  match m with
  | MNone => combine codes vals
  | MBool b => map fst (filter snd (combine (combine codes vals) b))
  | MSlice a b => slice_list (combine codes vals) a b
  | MIdx idx => map (fun i => let p := wrap_index (length codes) i in
                              (get (-1) codes p, get (null o) vals p)) idx
  end.

(* the whole specification of a kernel call: for each group its definition *)
Definition spec_reduce (op : rop) (codes : list Z) (vals : list V) (ngroups : nat) (m : mask)
    : list (V * Z) :=
  let rows := sel_rows codes vals m in
  map (fun g => red_exec op (group_vals g rows)) (seq 0 ngroups).

Context (L : laws o).

Theorem red_exec_sound op l :
  red_val o op l (fst (red_exec op l)) /\ snd (red_exec op l) = red_cnt o op l.
Proof.
  split; [|reflexivity].
  destruct op; simpl; auto.
  - destruct (nonnull o l) as [|h t] eqn:E; simpl; auto.
    apply fold_pick_min_spec; auto.
    + apply (nn_nonnull o h l). rewrite E. left; auto.
    + intros x Hx. apply (nn_nonnull o x l). rewrite E. right; auto.
  - destruct (nonnull o l) as [|h t] eqn:E; simpl; auto.
    apply fold_pick_max_spec; auto.
    + apply (nn_nonnull o h l). rewrite E. left; auto.
    + intros x Hx. apply (nn_nonnull o x l). rewrite E. right; auto.
Qed.

End Exec.
