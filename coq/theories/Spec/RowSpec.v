(* Executable per-group definitions of the row-aligned operations. *)
From Coq Require Import List ZArith Lia Bool Arith QArith Qcanon.
From GL Require Import Lib.Arr Model.Dom Model.Scalar Model.Cumulative Model.Ema Spec.Defs Spec.Exec
                       Proofs.ReduceSeries.
Import ListNotations.
Open Scope Z_scope.

Definition sel_at (mask : option (list bool)) (i : nat) : bool :=
  match mask with None => true | Some m => get false m i end.

(* ascending positions of the selected rows of group g *)
Definition positions_of (g : nat) (gk : list Z) (mask : option (list bool)) : list nat :=
  filter (fun i => (get (-1) gk i =? Z.of_nat g) && sel_at mask i) (seq 0 (length gk)).

(* ---- head / tail / nth ---- *)
Definition nth_spec (gk : list Z) (ngroups : nat) (n : Z) (mask : option (list bool)) : list Z :=
  map (fun g => let ps := positions_of g gk mask in
                let ps := if 0 <=? n then ps else rev ps in
                let k := if 0 <=? n then n else - n - 1 in
                match nth_error ps (Z.to_nat k) with Some p => Z.of_nat p | None => -1 end)
      (seq 0 ngroups).

Definition pad (n : nat) (l : list Z) : list Z := l ++ repeat (-1) (n - length l).
Definition first_n_spec (gk : list Z) (ngroups n : nat) (mask : option (list bool)) : list (list Z) :=
  map (fun g => pad n (map Z.of_nat (firstn n (positions_of g gk mask)))) (seq 0 ngroups).
Definition last_n_spec (gk : list Z) (ngroups n : nat) (mask : option (list bool)) : list (list Z) :=
  map (fun g => rev (pad n (map Z.of_nat (firstn n (rev (positions_of g gk mask)))))) (seq 0 ngroups).

Section RowSpec.
Context {V : Type} (o : ops V).

(* values of the selected rows of the group of row i, up to and including i *)
Definition prefix_vals (gk : list Z) (vals : list V) (mask : option (list bool)) (i : nat) : list V :=
  let g := Z.to_nat (get (-1) gk i) in
  map (get (null o) vals) (filter (fun j => j <=? i)%nat (positions_of g gk mask)).

(* cumulative operations with null skipping: prefix reductions *)
Definition cum_spec (op : cumop) (gk : list Z) (vals : list V) (mask : option (list bool)) : list V :=
  map (fun i =>
         if get (-1) gk i <? 0 then cum_na o op
         else let l := prefix_vals gk vals mask i in
              match op with
              | CSum => sum_list o (nonnull o l)
              | CMin => min_exec o (nonnull o l)
              | CMax => max_exec o (nonnull o l)
              | CCount => of_count o (Z.of_nat (length (nonnull o l)))
              end)
      (seq 0 (length gk)).

(* skip_na = False: the running sum includes nulls (a NaN makes it NaN from there on) *)
Definition cumsum_noskip_spec (gk : list Z) (vals : list V) (mask : option (list bool)) : list V :=
  map (fun i => if get (-1) gk i <? 0 then null o
                else let l := prefix_vals gk vals mask i in
                     if existsb (is_null o) l then null o else sum_list o l)
      (seq 0 (length gk)).

(* skip_na = False, min / max: a null that is not skipped makes the running extreme null from there on, wherever it stands *)
Definition cumext_noskip_spec (want_max : bool) (gk : list Z) (vals : list V) (mask : option (list bool)) : list V :=
  map (fun i => if get (-1) gk i <? 0 then null o
                else let l := prefix_vals gk vals mask i in
                     if existsb (is_null o) l then null o else if want_max then max_exec o l else min_exec o l)
      (seq 0 (length gk)).

(* rolling: the last `window` selected rows of the group ending at row i *)
Definition lastn {A} (n : nat) (l : list A) : list A := skipn (length l - n) l.

Inductive rollop := RSum | RMean | RMin | RMax.
Definition window_spec (op : rollop) (window : nat) (min_periods : Z)
    (gk : list Z) (vals : list V) (mask : option (list bool)) : list V :=
  map (fun i =>
         if (get (-1) gk i <? 0) || negb (sel_at mask i) then null o
         else let w := lastn window (prefix_vals gk vals mask i) in
              let nn := nonnull o w in
              if Z.of_nat (length nn) <? min_periods then null o
              else match op with
                   | RSum => sum_list o nn
                   | RMean => divc o (sum_list o nn) (Z.of_nat (length nn))
                   | RMin => min_exec o nn
                   | RMax => max_exec o nn
                   end)
      (seq 0 (length gk)).

(* shift: the value `window` group-rows earlier; diff: the difference to it *)
Definition shift_spec (window : nat) (want_shift : bool)
    (gk : list Z) (vals : list V) (mask : option (list bool)) : list V :=
  map (fun i =>
         if (get (-1) gk i <? 0) || negb (sel_at mask i) then null o
         else let l := prefix_vals gk vals mask i in
              if (length l <=? window)%nat then null o
              else let old := nth (length l - 1 - window) l (null o) in
                   let cur := get (null o) vals i in
                   if want_shift then old
                   else if is_null o cur || is_null o old then null o else sub o cur old)
      (seq 0 (length gk)).
End RowSpec.

(* ---- EMA: the normalised exponentially weighted mean, in closed form ---- *)
Fixpoint qpow (b : Qc) (n : nat) : Qc := match n with O => 1%Qc | S m => (b * qpow b m)%Qc end.

(* rows of the group of row i (selected or not: every group row ages the weights), ascending, <= i *)
Definition group_rows_upto (gk : list Z) (i : nat) : list nat :=
  filter (fun j => (get (-1) gk j =? get (-1) gk i) && (j <=? i)%nat) (seq 0 (length gk)).

Definition ema_spec (gk : list Z) (vals : list fl) (alpha : Qc) (mask : option (list bool)) : list fl :=
  let beta := (1 - alpha)%Qc in
  map (fun i =>
         if get (-1) gk i <? 0 then FNan
         else
           let rows := group_rows_upto gk i in              (* group rows 0..m, row i is the last *)
           let m := (length rows - 1)%nat in
           let valid := filter (fun pj => match get FNan vals (snd pj) with FNan => false | _ => sel_at mask (snd pj) end)
                               (combine (seq 0 (length rows)) rows) in
           match valid with
           | [] => FNan
           | _ =>
             (* weights age by one factor per group row elapsed since the latest valid observation's row
                (an invalid row repeats the previous output) *)
             let lastv := fst (last valid (0%nat, 0%nat)) in
             let num := fold_left (fun s pj => (s + qpow beta (lastv - fst pj) * flq (get FNan vals (snd pj)))%Qc) valid 0%Qc in
             let den := fold_left (fun s pj => (s + qpow beta (lastv - fst pj))%Qc) valid 0%Qc in
             FFin (num / den)%Qc
           end)
      (seq 0 (length gk)).

Definition ema_timed_spec (decay : Z -> Qc) (gk : list Z) (vals : list fl) (times : list Z)
    (mask : option (list bool)) : list fl :=
  map (fun i =>
         if get (-1) gk i <? 0 then FNan
         else
           let rows := group_rows_upto gk i in
           let valid := filter (fun j => match get FNan vals j with FNan => false | _ => sel_at mask j end) rows in
           match valid with
           | [] => FNan
           | _ =>
             let tl := get 0 times (last valid 0%nat) in
             let num := fold_left (fun s j => (s + decay (tl - get 0 times j)%Z * flq (get FNan vals j))%Qc) valid 0%Qc in
             let den := fold_left (fun s j => (s + decay (tl - get 0 times j)%Z)%Qc) valid 0%Qc in
             FFin (num / den)%Qc
           end)
      (seq 0 (length gk)).
