(* The specification vocabulary: the "per-group definitions" the properties
   refer to.  Only filter / map / fold — no algorithms. *)
From Coq Require Import List ZArith Lia Bool Arith.
From GL Require Import Lib.Arr Model.Dom.
Import ListNotations.
Open Scope Z_scope.

Section Spec.
Context {V : Type} (o : ops V).

Definition nonnull (l : list V) : list V := filter (fun x => negb (is_null o x)) l.

Definition sum_list (l : list V) : V := fold_left (add o) l (zero o).

(* m is a minimum / maximum of l (w.r.t. the strict order ltb) *)
Definition is_min_of (m : V) (l : list V) : Prop := In m l /\ forall x, In x l -> ltb o x m = false.
Definition is_max_of (m : V) (l : list V) : Prop := In m l /\ forall x, In x l -> ltb o m x = false.

(* values of the rows carrying group code g among the selected rows, in row order *)
Definition group_vals (g : nat) (rows : list (Z * V)) : list V :=
  map snd (filter (fun r => fst r =? Z.of_nat g) rows).

Inductive rop := Size | Count | Sum | SumSq | Min | Max | First | Last.

(* value part of the per-group definition: a relation, because Min/Max are
   characterised, not computed *)
Definition red_val (op : rop) (l : list V) (v : V) : Prop :=
  match op with
  | Size | Count => True                          (* carried by the count *)
  | Sum => v = sum_list (nonnull l)               (* 0 if none *)
  | SumSq => v = sum_list (map (sq o) (nonnull l))
  | Min => match nonnull l with [] => v = null o | _ => is_min_of v (nonnull l) end
  | Max => match nonnull l with [] => v = null o | _ => is_max_of v (nonnull l) end
  | First => v = hd (null o) (nonnull l)
  | Last => v = last (nonnull l) (null o)
  end.

(* the count reported with each reduction: rows for Size and Last (that is how
   the library counts for `last`), non-null values otherwise *)
Definition red_cnt (op : rop) (l : list V) : Z :=
  match op with
  | Size | Last => Z.of_nat (length l)
  | _ => Z.of_nat (length (nonnull l))
  end.

End Spec.

(* rows selected by a mask, NumPy indexing semantics, as positions *)
Definition observed_in (g : nat) (codes : list Z) : bool :=
  existsb (fun c => c =? Z.of_nat g) codes.
