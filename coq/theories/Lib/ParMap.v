(* groupby_lib/util.py:parallel_map — tasks are submitted in order, finish in an
   arbitrary order, and each result is stored at its SUBMISSION index:
       results[future_to_index[future]] = future.result()
   Model: the completion order is any permutation of the (index, result) pairs.
   Theorem: the gathered list is map f args whatever the permutation. *)
From Coq Require Import List ZArith Lia Bool Arith Sorting.Permutation.
From GL Require Import Lib.Arr.
Import ListNotations.

Section ParMap.
Context {A R : Type}.

Definition submissions (f : A -> R) (args : list A) : list (nat * R) :=
  combine (seq 0 (length args)) (map f args).

Definition gather (n : nat) (completions : list (nat * R)) : list (option R) :=
  fold_left (fun acc p => upd acc (fst p) (Some (snd p))) completions (repeat None n).

Lemma gather_fold_length (cs : list (nat * R)) : forall acc,
  length (fold_left (fun acc p => upd acc (fst p) (Some (snd p))) cs acc) = length acc.
Proof. induction cs as [|c cs IH]; intros acc; simpl; auto. rewrite IH. apply upd_length. Qed.

(* a cell not targeted by any completion keeps its value; a cell targeted exactly once
   (indices pairwise distinct) holds that completion's result *)
Lemma gather_fold_get (cs : list (nat * R)) : forall acc i,
  NoDup (map fst cs) -> (i < length acc)%nat ->
  get None (fold_left (fun acc p => upd acc (fst p) (Some (snd p))) cs acc) i =
    match find (fun p => Nat.eqb (fst p) i) cs with
    | Some p => Some (snd p)
    | None => get None acc i
    end.
Proof.
  induction cs as [|c cs IH]; intros acc i Hnd Hi; simpl; auto.
  inversion Hnd as [|x l Hnotin Hnd']; subst.
  rewrite IH by (auto; rewrite upd_length; auto).
  destruct (Nat.eqb (fst c) i) eqn:E.
  - apply Nat.eqb_eq in E. subst i.
    destruct (find (fun p => Nat.eqb (fst p) (fst c)) cs) eqn:F.
    + exfalso. apply find_some in F. destruct F as [Hin Heq]. apply Nat.eqb_eq in Heq.
      apply Hnotin. rewrite <- Heq. apply in_map. exact Hin.
    + apply get_upd_eq. auto.
  - apply Nat.eqb_neq in E.
    destruct (find (fun p => Nat.eqb (fst p) i) cs); auto.
    apply get_upd_neq. auto.
Qed.

Lemma map_fst_combine_len {B} : forall (l1 : list nat) (l2 : list B), length l1 = length l2 -> map fst (combine l1 l2) = l1.
Proof. induction l1 as [|a l1 IH]; intros [|b l2] H; simpl in *; try lia; auto. f_equal. apply IH. lia. Qed.

Lemma find_submission f args i : (i < length args)%nat ->
  forall d, find (fun p : nat * R => Nat.eqb (fst p) i) (submissions f args) = Some (i, f (nth i args d)).
Proof.
  unfold submissions. intros Hi d.
  assert (G : forall (l : list A) s j, (j < length l)%nat ->
            find (fun p : nat * R => Nat.eqb (fst p) (s + j)) (combine (seq s (length l)) (map f l)) = Some (s + j, f (nth j l d))).
  { induction l as [|a l IHl]; intros s j Hj; simpl in *; [lia|].
    destruct j as [|j].
    - rewrite Nat.add_0_r, Nat.eqb_refl. reflexivity.
    - replace (s =? s + S j) with false by (symmetry; apply Nat.eqb_neq; lia).
      replace (s + S j) with (S s + j) by lia. apply IHl. lia. }
  apply (G args 0 i Hi).
Qed.

Theorem gather_any_completion_order (f : A -> R) (args : list A) (completions : list (nat * R)) :
  Permutation completions (submissions f args) ->
  gather (length args) completions = map (fun a => Some (f a)) args.
Proof.
  intros HP.
  assert (Hnd : NoDup (map fst completions)).
  { eapply Permutation_NoDup; [apply Permutation_map; symmetry; exact HP|].
    unfold submissions. rewrite map_fst_combine_len by (now rewrite seq_length, map_length). apply seq_NoDup. }
  apply (list_ext None).
  - unfold gather. rewrite gather_fold_length, repeat_length, map_length. reflexivity.
  - intros i Hi. unfold gather in *. rewrite gather_fold_length, repeat_length in Hi.
    rewrite gather_fold_get by (auto; rewrite repeat_length; auto).
    destruct args as [|a0 args0] eqn:Ea; [simpl in Hi; lia|]. rewrite <- Ea in *.
    pose proof (find_submission f args i Hi a0) as F.
    (* find on a permutation with pairwise distinct keys finds the same pair *)
    assert (Hin : In (i, f (nth i args a0)) completions).
    { apply (Permutation_in _ (Permutation_sym HP)). apply find_some in F. tauto. }
    destruct (find (fun p => Nat.eqb (fst p) i) completions) as [p|] eqn:Fc.
    + apply find_some in Fc. destruct Fc as [Hpin Hpe]. apply Nat.eqb_eq in Hpe.
      assert (p = (i, f (nth i args a0))).
      { destruct p as [pi pr]. simpl in Hpe. subst pi.
        (* two pairs with the same first component in a list whose firsts are NoDup *)
        clear - Hnd Hpin Hin. induction completions as [|c cs IH]; [inversion Hin|].
        simpl in Hnd. inversion Hnd as [|x l Hnot Hnd']; subst. destruct Hpin as [E1|Hp1]; destruct Hin as [E2|Hp2].
        - rewrite <- E1, <- E2. reflexivity.
        - exfalso. apply Hnot. rewrite E1. apply (in_map fst) in Hp2. exact Hp2.
        - exfalso. apply Hnot. rewrite E2. apply (in_map fst) in Hp1. exact Hp1.
        - apply IH; auto. }
      subst p. simpl.
      unfold get. rewrite nth_indep with (d' := Some (f a0)) by (rewrite map_length; auto).
      rewrite (map_nth (fun a => Some (f a))). reflexivity.
    + exfalso. eapply find_none in Fc; [|exact Hin]. simpl in Fc. rewrite Nat.eqb_refl in Fc. discriminate.
Qed.
End ParMap.
