(* Arrays as lists: total [get] with an explicit default and [upd] that is a
   no-op out of range.  Every model states the in-range preconditions the real
   (unchecked) numba indexing needs as explicit hypotheses. *)
From Coq Require Import List ZArith Lia Bool Arith.
Import ListNotations.

Section Arr.
Context {A : Type}.

Definition get (d : A) (l : list A) (i : nat) : A := nth i l d.

Fixpoint upd (l : list A) (i : nat) (x : A) : list A :=
  match l, i with
  | [], _ => []
  | _ :: t, O => x :: t
  | h :: t, S j => h :: upd t j x
  end.

Lemma upd_length l i x : length (upd l i x) = length l.
Proof. revert i; induction l as [|h t IH]; intros [|j]; simpl; auto. Qed.

Lemma get_upd_eq d l i x : i < length l -> get d (upd l i x) i = x.
Proof.
  unfold get. revert i; induction l as [|h t IH]; intros [|j] H; simpl in *; try lia; auto.
  apply IH; lia.
Qed.

Lemma get_upd_neq d l i j x : i <> j -> get d (upd l i x) j = get d l j.
Proof.
  unfold get. revert i j; induction l as [|h t IH]; intros [|i] [|j] H; simpl; auto; try lia.
Qed.

Lemma upd_oob l i x : length l <= i -> upd l i x = l.
Proof.
  revert i; induction l as [|h t IH]; intros [|j] H; simpl in *; auto; try lia.
  f_equal; apply IH; lia.
Qed.

Lemma get_oob d l i : length l <= i -> get d l i = d.
Proof. unfold get; intros; apply nth_overflow; auto. Qed.

Lemma get_repeat d x n i : i < n -> get d (repeat x n) i = x.
Proof.
  unfold get. revert i; induction n as [|n IH]; intros [|i] H; simpl; try lia; auto.
  apply IH; lia.
Qed.

(* extensional equality of arrays *)
Lemma list_ext d (l1 l2 : list A) :
  length l1 = length l2 -> (forall i, i < length l1 -> get d l1 i = get d l2 i) -> l1 = l2.
Proof.
  unfold get. revert l2; induction l1 as [|h t IH]; intros [|h2 t2] Hl H; simpl in *; try lia; auto.
  f_equal.
  - apply (H 0); lia.
  - apply IH; [lia|]. intros i Hi. apply (H (S i)); lia.
Qed.

End Arr.

Lemma get_map {A B} (f : A -> B) d l i : get (f d) (map f l) i = f (get d l i).
Proof. unfold get; apply map_nth. Qed.

(* two arrays updated in lock-step are one array of pairs *)
Lemma combine_upd {A B} (l1 : list A) (l2 : list B) i a b :
  combine (upd l1 i a) (upd l2 i b) = upd (combine l1 l2) i (a, b).
Proof.
  revert l2 i; induction l1 as [|h t IH]; intros [|h2 t2] [|i]; simpl; auto.
  f_equal; apply IH.
Qed.

Lemma get_combine {A B} (da : A) (db : B) l1 l2 i :
  length l1 = length l2 ->
  get (da, db) (combine l1 l2) i = (get da l1 i, get db l2 i).
Proof.
  unfold get. revert l2 i; induction l1 as [|h t IH]; intros [|h2 t2] [|i] H; simpl in *; auto; try lia.
Qed.
