(* Blocks of rows: np.array_split, splitting by given lengths, the `res` monad. *)
From Coq Require Import List ZArith Lia Bool Arith.
Import ListNotations.

Inductive err := EValue | EType | EIndex | EAssert | EOther.
Inductive res (A : Type) := Ok (a : A) | Err (e : err).
Arguments Ok {A}. Arguments Err {A}.

Definition bind {A B} (x : res A) (f : A -> res B) : res B :=
  match x with Ok a => f a | Err e => Err e end.

Fixpoint mapM {A B} (f : A -> res B) (l : list A) : res (list B) :=
  match l with
  | [] => Ok []
  | a :: t => bind (f a) (fun b => bind (mapM f t) (fun bs => Ok (b :: bs)))
  end.

Lemma mapM_ok {A B} (f : A -> res B) (g : A -> B) l :
  (forall a, In a l -> f a = Ok (g a)) -> mapM f l = Ok (map g l).
Proof.
  induction l as [|a t IH]; intros H; simpl; auto.
  rewrite H by (left; auto). simpl. rewrite IH by (intros; apply H; right; auto). reflexivity.
Qed.

Section Split.
Context {A : Type}.

Fixpoint split_by (sizes : list nat) (l : list A) : list (list A) :=
  match sizes with
  | [] => []
  | s :: rest => firstn s l :: split_by rest (skipn s l)
  end.

Lemma split_by_concat sizes : forall l, length l <= list_sum sizes -> concat (split_by sizes l) = l.
Proof.
  induction sizes as [|s rest IH]; intros l H; simpl in *.
  - destruct l; simpl in *; auto; lia.
  - rewrite IH. apply firstn_skipn. rewrite skipn_length. lia.
Qed.

Lemma split_by_length sizes l : length (split_by sizes l) = length sizes.
Proof. revert l; induction sizes; intros; simpl; auto. Qed.

(* np.array_split(l, k) for an integer k >= 1: the first n mod k blocks have n/k+1 rows *)
Definition array_split_sizes (n k : nat) : list nat :=
  map (fun i => n / k + (if i <? n mod k then 1 else 0)) (seq 0 k).

Definition array_split (l : list A) (k : nat) : list (list A) :=
  split_by (array_split_sizes (length l) k) l.

Lemma sum_sizes_aux n k : forall m, m <= k ->
  list_sum (map (fun i => n / k + (if i <? n mod k then 1 else 0)) (seq 0 m)) = m * (n / k) + Nat.min m (n mod k).
Proof.
  induction m as [|m IH]; intros Hm; [simpl; auto|].
  rewrite seq_S, map_app, list_sum_app. rewrite IH by lia.
  unfold map, list_sum, fold_right. rewrite Nat.add_0_l.
  generalize (n / k); intros q. clear IH. generalize (n mod k); intros r.
  destruct (m <? r) eqn:E; [apply Nat.ltb_lt in E | apply Nat.ltb_ge in E]; lia.
Qed.

Lemma array_split_sizes_sum n k : 0 < k -> list_sum (array_split_sizes n k) = n.
Proof.
  intros Hk. unfold array_split_sizes. rewrite sum_sizes_aux by lia.
  pose proof (Nat.mod_upper_bound n k ltac:(lia)).
  rewrite Nat.min_r by lia. rewrite (Nat.div_mod n k) at 3 by lia. lia.
Qed.

Theorem array_split_concat l k : 0 < k -> concat (array_split l k) = l.
Proof.
  intros Hk. unfold array_split. apply split_by_concat. rewrite array_split_sizes_sum; auto.
Qed.

Lemma array_split_length l k : length (array_split l k) = k.
Proof. unfold array_split. rewrite split_by_length. unfold array_split_sizes. now rewrite map_length, seq_length. Qed.

End Split.

(* splitting two aligned arrays with the same sizes splits the zipped rows *)
Lemma split_by_combine {A B} sizes : forall (l1 : list A) (l2 : list B),
  map (fun p => combine (fst p) (snd p)) (combine (split_by sizes l1) (split_by sizes l2))
  = split_by sizes (combine l1 l2).
Proof.
  induction sizes as [|s rest IH]; intros l1 l2; simpl; auto.
  rewrite IH. f_equal.
  - now rewrite combine_firstn.
  - f_equal. clear. revert l1 l2. induction s as [|s IHs]; intros [|a l1] [|b l2]; simpl; auto.
    destruct (skipn s l1); auto.
Qed.
