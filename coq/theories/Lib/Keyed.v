(* Keyed folds and scans: a loop that keeps one state cell per group code and
   skips negative codes computes, for every group, the fold of the single-group
   step over that group's rows, in row order.  No bound on lengths, number of
   groups or interleaving. *)
From Coq Require Import List ZArith Lia Bool Arith.
From GL Require Import Lib.Arr.
Import ListNotations.
Open Scope Z_scope.

Section Keyed.
Variables (S R : Type).
Variable d : S.

(* rows of one group, in row order *)
Definition rows_of (g : nat) (rows : list (Z * R)) : list R :=
  map snd (filter (fun r => fst r =? Z.of_nat g) rows).

Lemma rows_of_app g l1 l2 : rows_of g (l1 ++ l2) = rows_of g l1 ++ rows_of g l2.
Proof. unfold rows_of. now rewrite filter_app, map_app. Qed.

Lemma rows_of_cons_eq g r rest : fst r = Z.of_nat g -> rows_of g (r :: rest) = snd r :: rows_of g rest.
Proof. unfold rows_of; simpl; intros ->. now rewrite Z.eqb_refl. Qed.

Lemma rows_of_cons_neq g r rest : fst r <> Z.of_nat g -> rows_of g (r :: rest) = rows_of g rest.
Proof. unfold rows_of; simpl; intros H. apply Z.eqb_neq in H. now rewrite H. Qed.

(* deleting null-key rows changes no group *)
Lemma rows_of_drop_null g rows :
  rows_of g (filter (fun r => negb (fst r <? 0)) rows) = rows_of g rows.
Proof.
  induction rows as [|r rest IH]; simpl; auto.
  destruct (fst r <? 0) eqn:E; simpl.
  - rewrite IH. symmetry. apply rows_of_cons_neq. apply Z.ltb_lt in E. lia.
  - destruct (Z.eq_dec (fst r) (Z.of_nat g)) as [e|n].
    + rewrite !rows_of_cons_eq by auto. now rewrite IH.
    + rewrite !rows_of_cons_neq by auto. apply IH.
Qed.

Section Fold.
Variable step : S -> R -> S.

Definition kstep (st : list S) (row : Z * R) : list S :=
  if fst row <? 0 then st
  else upd st (Z.to_nat (fst row)) (step (get d st (Z.to_nat (fst row))) (snd row)).

Definition kfold (rows : list (Z * R)) (st : list S) : list S := fold_left kstep rows st.

Lemma kstep_length st row : length (kstep st row) = length st.
Proof. unfold kstep. destruct (fst row <? 0); auto. apply upd_length. Qed.

Lemma kfold_length rows st : length (kfold rows st) = length st.
Proof.
  unfold kfold. revert st; induction rows as [|r rest IH]; intros st; simpl; auto.
  rewrite IH. apply kstep_length.
Qed.

Theorem kfold_decompose rows : forall st g, (g < length st)%nat ->
  get d (kfold rows st) g = fold_left step (rows_of g rows) (get d st g).
Proof.
  unfold kfold. induction rows as [|r rest IH]; intros st g Hg; simpl; auto.
  rewrite IH by (rewrite kstep_length; auto).
  unfold kstep. destruct (fst r <? 0) eqn:E.
  - rewrite rows_of_cons_neq; auto. apply Z.ltb_lt in E. lia.
  - apply Z.ltb_ge in E.
    destruct (Z.eq_dec (fst r) (Z.of_nat g)) as [e|n].
    + rewrite rows_of_cons_eq by auto. simpl. rewrite e, Nat2Z.id.
      now rewrite get_upd_eq by auto.
    + rewrite rows_of_cons_neq by auto.
      rewrite get_upd_neq; auto. intros C. apply n. rewrite <- C. now rewrite Z2Nat.id.
Qed.

(* null-key rows are no-ops: the whole state array, not just one cell *)
Theorem kfold_drop_null rows st :
  kfold (filter (fun r => negb (fst r <? 0)) rows) st = kfold rows st.
Proof.
  unfold kfold. revert st; induction rows as [|r rest IH]; intros st; simpl; auto.
  destruct (fst r <? 0) eqn:E; simpl.
  - rewrite IH. replace (kstep st r) with st; auto. unfold kstep. now rewrite E.
  - apply IH.
Qed.

(* concatenation of row blocks: state threading *)
Lemma kfold_app l1 l2 st : kfold (l1 ++ l2) st = kfold l2 (kfold l1 st).
Proof. unfold kfold. apply fold_left_app. Qed.

End Fold.

(* ---- scans: one output per row ---- *)
Section Scan.
Variable O : Type.
Variable sstep : S -> R -> S * O.
Variable skip : O.            (* constant emitted for null-key rows *)

Fixpoint kscan (rows : list (Z * R)) (st : list S) : list O :=
  match rows with
  | [] => []
  | r :: rest =>
      if fst r <? 0 then skip :: kscan rest st
      else let k := Z.to_nat (fst r) in
           let so := sstep (get d st k) (snd r) in
           snd so :: kscan rest (upd st k (fst so))
  end.

Definition sfold (s : S) (l : list R) : S := fold_left (fun s r => fst (sstep s r)) l s.

Lemma kscan_length rows : forall st, length (kscan rows st) = length rows.
Proof. induction rows as [|r rest IH]; intros st; simpl; auto. destruct (fst r <? 0); simpl; now rewrite IH. Qed.

(* state after a prefix, as a keyed fold *)
Definition kscan_state (rows : list (Z * R)) (st : list S) : list S :=
  kfold (fun s r => fst (sstep s r)) rows st.

Lemma kscan_app l1 l2 st :
  kscan (l1 ++ l2) st = kscan l1 st ++ kscan l2 (kscan_state l1 st).
Proof.
  revert st; induction l1 as [|r rest IH]; intros st; simpl; auto.
  unfold kscan_state, kfold in *. simpl. unfold kstep at 2.
  destruct (fst r <? 0); simpl; now rewrite IH.
Qed.

(* the output at row i depends only on the earlier rows of the same group *)
Theorem kscan_nth (o0 : O) rows : forall st i k r,
  nth_error rows i = Some (k, r) -> 0 <= k -> (Z.to_nat k < length st)%nat ->
  nth i (kscan rows st) o0 =
    snd (sstep (sfold (get d st (Z.to_nat k)) (rows_of (Z.to_nat k) (firstn i rows))) r).
Proof.
  intros st i k r Hn Hk Hlen.
  assert (Hi : (i < length rows)%nat) by (apply nth_error_Some; congruence).
  rewrite <- (firstn_skipn i rows) at 1.
  rewrite kscan_app.
  rewrite app_nth2; rewrite kscan_length, firstn_length, Nat.min_l by lia; [|lia].
  rewrite Nat.sub_diag.
  destruct (skipn i rows) as [|r0 rest] eqn:Es.
  { exfalso. assert (length (skipn i rows) = 0%nat) by now rewrite Es.
    rewrite skipn_length in H. lia. }
  assert (r0 = (k, r)).
  { rewrite <- (firstn_skipn i rows) in Hn. rewrite nth_error_app2 in Hn; rewrite firstn_length, Nat.min_l in * by lia; [|lia].
    rewrite Nat.sub_diag, Es in Hn. simpl in Hn. congruence. }
  subst r0. simpl.
  destruct (k <? 0) eqn:E; [apply Z.ltb_lt in E; lia|]. simpl.
  unfold kscan_state. rewrite kfold_decompose by auto. reflexivity.
Qed.

Theorem kscan_nth_null (o0 : O) rows : forall st i k r,
  nth_error rows i = Some (k, r) -> k < 0 -> nth i (kscan rows st) o0 = skip.
Proof.
  induction rows as [|r0 rest IH]; intros st [|i] k r Hn Hk; simpl in *; try discriminate.
  - inversion Hn; subst. simpl. apply Z.ltb_lt in Hk. now rewrite Hk.
  - destruct (fst r0 <? 0); simpl; eapply IH; eauto.
Qed.

End Scan.
End Keyed.

(* Inactive rows (masked out) that leave the state alone can be filtered away. *)
Lemma fold_left_skip {S R} (step : S -> R -> S) (active : R -> bool) :
  (forall s r, active r = false -> step s r = s) ->
  forall l s, fold_left step l s = fold_left step (filter active l) s.
Proof.
  intros H l; induction l as [|r rest IH]; intros s; simpl; auto.
  destruct (active r) eqn:E; simpl; auto. rewrite H; auto.
Qed.

Arguments rows_of {R} g rows.
Arguments kfold {S R} d step rows st.
Arguments kstep {S R} d step st row.
Arguments kscan {S R} d {O} sstep skip rows st.
Arguments sfold {S R O} sstep s l.
Arguments kscan_state {S R} d {O} sstep rows st.

(* ---- dropping rows that are no-ops ----
   If every dropped row either has a negative code or leaves its group's cell
   unchanged, then the outputs at the kept rows are exactly the outputs of the
   scan over the kept rows alone.  This one lemma is "a mask is equivalent to
   filtering first" and "null-key rows influence nothing" for every scan kernel. *)
Section ScanFilter.
Variables (S R O : Type).
Variable d : S.
Variable sstep : S -> R -> S * O.
Variable skip : O.
Variable keep : Z * R -> bool.
Hypothesis dropped_noop : forall k r, keep (k, r) = false -> k < 0 \/ forall s, fst (sstep s r) = s.

Theorem kscan_filter rows : forall st,
  map snd (filter (fun p => keep (fst p)) (combine rows (kscan d sstep skip rows st)))
  = kscan d sstep skip (filter keep rows) st.
Proof.
  induction rows as [|[k r] rest IH]; intros st; simpl; auto.
  destruct (keep (k, r)) eqn:Ek.
  - destruct (k <? 0) eqn:E; simpl; rewrite Ek; simpl; rewrite E; simpl; now rewrite IH.
  - destruct (k <? 0) eqn:E; simpl; rewrite Ek; simpl; [apply IH|].
    destruct (dropped_noop k r Ek) as [Hk | Hn]; [apply Z.ltb_ge in E; lia|].
    rewrite Hn.
    (* writing a cell back unchanged *)
    assert (Hupd : forall (l : list S) i, upd l i (get d l i) = l).
    { clear. unfold get. induction l as [|s l IHl]; intros [|i]; simpl; auto. now rewrite IHl. }
    rewrite Hupd. apply IH.
Qed.
End ScanFilter.
Arguments kscan_filter {S R O} d sstep skip keep _ rows st.

(* rows as the row-aligned kernels see them: (code, (value, selected?)) *)
Definition mask_list (n : nat) (mask : option (list bool)) : list bool :=
  match mask with None => repeat true n | Some m => m end.
Definition mk_rows {A} (gk : list Z) (vals : list A) (mask : option (list bool)) : list (Z * (A * bool)) :=
  combine gk (combine vals (mask_list (length gk) mask)).
