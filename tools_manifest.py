#!/venv/bin/python
"""Regenerate MANIFEST.json from harness/levels.json + the table below."""
import json, subprocess
from pathlib import Path
V = Path(__file__).resolve().parent
levels = json.loads((V / "harness" / "levels.json").read_text())
props = [json.loads(l) for l in (V / "properties.jsonl").read_text().splitlines() if l.strip()]
claimed = json.loads((V / "harness" / "claims.json").read_text())
checks = []
na = []
for p in props:
    pid = p["id"]
    if pid in claimed:
        c = claimed[pid]
        checks.append(dict(
            property_id=pid,
            quick_cmd=f"./bin/check {pid} --tier quick",
            thorough_cmd=f"./bin/check {pid} --tier thorough",
            evidence_file=f"/verif/evidence/{pid}.json",
            replay_cmd_template=f"./bin/check {pid} --replay {{path}}",
            engine="coq-proof+correspondence",
            level_claimed=dict(category=levels[pid]["level"], text=c["text"], design_ref=c.get("design_ref", f"DESIGN.md §5 {pid}")),
            level_note=c["note"],
            technique=c["technique"],
        ))
    else:
        na.append(dict(property_id=pid, reason=claimed.get("_unclaimed", {}).get(pid, "check not built yet in this round; no claim is made")))
hooks_commits = []
try:
    out = subprocess.run(["git", "-C", "/repo", "log", "--format=%H %s"], stdout=subprocess.PIPE).stdout.decode().splitlines()
    hooks_commits = [l.split()[0] for l in out if l.split(" ", 1)[1].startswith("verif-hook:")]
except Exception:
    pass
m = dict(
    version=1,
    setup_cmd="./bin/setup",
    hooks=dict(guard="GROUPBY_LIB_VERIF", enable="export GROUPBY_LIB_VERIF=1 (set by ./bin/check; pure-Python package, no rebuild)",
               baseline_off_cmd="cd /repo && env -u GROUPBY_LIB_VERIF /venv/bin/python -m pytest -ra -q -p no:cacheprovider --timeout=900 --continue-on-collection-errors",
               source_commits=hooks_commits, add_only=True),
    engines=[dict(name="coq-proof+correspondence", path="/verif/bin/check", serves_properties=sorted(claimed.keys() - {"_unclaimed"}),
                  kind_free_text="Coq 8.16 theorems about a hand-written Gallina model (coq/theories), scalar layer regenerated from /repo by translator/py2coq.py; "
                                 "model tied to the code by a differential correspondence check against the extracted OCaml model (ocaml/driver)")],
    checks=checks,
    notes="See DESIGN.md. Known findings: KNOWN_FINDINGS.json.",
    not_applicable=na,
)
(V / "MANIFEST.json").write_text(json.dumps(m, indent=1))
print(f"{len(checks)} checks, {len(na)} unclaimed")
