#!/venv/bin/python
"""Tie B: fail-closed translator of the scalar layer of groupby-lib into Gallina.

    py2coq.py <repo> <outdir>

Re-reads groupby_lib/groupby/numba.py and groupby_lib/util.py and emits
  <outdir>/ScalarFuncsGen.v   every method of ScalarFuncs as  V -> V -> Z -> V * Z
  <outdir>/ReductionOpsGen.v  every method of NumbaReductionOps as  V -> V -> V
  <outdir>/TablesGen.v        which reducer name(s) each group_* / cum* wrapper passes,
                              the counter dtypes of the row-selection / rolling kernels,
                              per-kernel write sets (subscript-assignment targets) and fresh allocations
Anything it does not recognise makes it exit non-zero naming the construct.
Files are only rewritten when their content changes (so `make` stays incremental).
"""
import ast
import sys
from pathlib import Path


class Unsupported(Exception):
    pass


def fail(node, what):
    raise Unsupported(f"line {getattr(node, 'lineno', '?')}: unsupported {what}: {ast.dump(node)[:200]}")


# ---------------------------------------------------------------- expressions
class Tr:
    """Translate a ScalarFuncs-style method.  env maps names to 'V' or 'Z'."""

    def __init__(self, env):
        self.env = dict(env)

    def typ(self, e):
        if isinstance(e, ast.Name):
            if e.id not in self.env:
                fail(e, "free variable")
            return self.env[e.id]
        if isinstance(e, ast.Constant) and isinstance(e.value, int) and not isinstance(e.value, bool):
            return "Z"
        if isinstance(e, ast.BinOp):
            if isinstance(e.op, ast.Pow):
                return self.typ(e.left)
            lt, rt = self.typ(e.left), self.typ(e.right)
            if lt != rt:
                fail(e, "mixed-type arithmetic")
            return lt
        fail(e, "expression (type)")

    def expr(self, e):
        if isinstance(e, ast.Name):
            self.typ(e)
            return e.id
        if isinstance(e, ast.Constant) and isinstance(e.value, int) and not isinstance(e.value, bool):
            return f"({e.value})" if e.value < 0 else str(e.value)
        if isinstance(e, ast.BinOp):
            t = self.typ(e)
            if isinstance(e.op, ast.Pow):
                if not (isinstance(e.right, ast.Constant) and e.right.value == 2 and t == "V"):
                    fail(e, "power other than **2 on a value")
                return f"(sq o {self.expr(e.left)})"
            a, b = self.expr(e.left), self.expr(e.right)
            if isinstance(e.op, ast.Add):
                return f"(add o {a} {b})" if t == "V" else f"({a} + {b})"
            if isinstance(e.op, ast.Sub):
                return f"(sub o {a} {b})" if t == "V" else f"({a} - {b})"
            fail(e, "binary operator")
        fail(e, "expression")

    def cond(self, e):
        if isinstance(e, ast.Name):
            if self.typ(e) != "Z":
                fail(e, "truthiness of a non-count")
            return f"(truthy {e.id})"
        if isinstance(e, ast.Call) and isinstance(e.func, ast.Name) and e.func.id == "is_null" and len(e.args) == 1 and not e.keywords:
            if self.typ(e.args[0]) != "V":
                fail(e, "is_null of a count")
            return f"(is_null o {self.expr(e.args[0])})"
        if isinstance(e, ast.UnaryOp) and isinstance(e.op, ast.Not):
            return f"(negb {self.cond(e.operand)})"
        if isinstance(e, ast.Compare) and len(e.ops) == 1:
            a, b = e.left, e.comparators[0]
            if self.typ(a) != "V" or self.typ(b) != "V":
                fail(e, "comparison of counts")
            a, b = self.expr(a), self.expr(b)
            op = e.ops[0]
            if isinstance(op, ast.Lt):
                return f"(ltb o {a} {b})"
            if isinstance(op, ast.Gt):
                return f"(ltb o {b} {a})"
            if isinstance(op, ast.GtE):
                return f"(leb o {b} {a})"
            if isinstance(op, ast.LtE):
                return f"(leb o {a} {b})"
            fail(e, "comparison operator")
        fail(e, "condition")

    def ret(self, e, want):
        """want: tuple of types"""
        if len(want) == 2:
            if not (isinstance(e, ast.Tuple) and len(e.elts) == 2):
                fail(e, "return value (pair expected)")
            a, b = e.elts
            av = self.expr(a) if self.typ(a) == "V" else f"(of_count o {self.expr(a)})"
            if self.typ(b) != "Z":
                fail(b, "second component must be the count")
            return f"({av}, {self.expr(b)})"
        if self.typ(e) != "V":
            fail(e, "return value (value expected)")
        return self.expr(e)

    def stmts(self, body, want):
        if not body:
            fail(ast.Pass(), "fall-through without return")
        s, rest = body[0], body[1:]
        if isinstance(s, ast.Expr) and isinstance(s.value, ast.Constant) and isinstance(s.value.value, str):
            return self.stmts(rest, want)  # docstring
        if isinstance(s, ast.Return):
            if s.value is None:
                fail(s, "bare return")
            if isinstance(s.value, ast.IfExp):
                c = self.cond(s.value.test)
                return f"(if {c} then {self.ret(s.value.body, want)} else {self.ret(s.value.orelse, want)})"
            return self.ret(s.value, want)
        if isinstance(s, ast.Assign) and len(s.targets) == 1 and isinstance(s.targets[0], ast.Name):
            name = s.targets[0].id
            t = self.typ(s.value)
            v = self.expr(s.value)
            if name in self.env and self.env[name] != t:
                fail(s, "re-assignment at a different type")
            sub = Tr({**self.env, name: t})
            return f"(let {name} := {v} in {sub.stmts(rest, want)})"
        if isinstance(s, ast.If):
            c = self.cond(s.test)
            return f"(if {c} then {self.stmts(s.body + rest, want)} else {self.stmts(s.orelse + rest, want)})"
        fail(s, "statement")


def find_class(tree, name):
    for n in tree.body:
        if isinstance(n, ast.ClassDef) and n.name == name:
            return n
    raise Unsupported(f"class {name} not found")


def gen_scalar_funcs(tree):
    cls = find_class(tree, "ScalarFuncs")
    out = []
    names = []
    for f in cls.body:
        if not isinstance(f, ast.FunctionDef):
            if isinstance(f, (ast.Expr, ast.Pass)):
                continue
            fail(f, "class member")
        try:
            args = [a.arg for a in f.args.args]
            if len(args) != 3 or f.args.defaults or f.args.kwonlyargs or f.args.vararg or f.args.kwarg:
                fail(f, "reducer signature (3 positional arguments expected)")
            if [ast.unparse(d) for d in f.decorator_list] != ["_scalar_func_decorator"]:
                fail(f, "reducer decorator")
            tr = Tr({args[0]: "V", args[1]: "V", args[2]: "Z"})
            body = tr.stmts(f.body, ("V", "Z"))
            out.append(f"Definition g_{f.name} ({args[0]} {args[1]} : V) ({args[2]} : Z) : V * Z :=\n  {body}.\n")
        except Unsupported as e:
            # poison this reducer only: its tie in Proofs/GenTie.v fails
            print(f"py2coq: ScalarFuncs.{f.name}: {e}", file=sys.stderr)
            out.append(f"(* NOT TRANSLATED: {str(e).replace('*)', '* )')} *)\nDefinition g_{f.name} (x_ y_ : V) (c_ : Z) : V * Z := (null o, (-7)%Z).\n")
        names.append(f.name)
    return out, names


def gen_reduction_ops(tree):
    cls = find_class(tree, "NumbaReductionOps")
    out = []
    names = []
    for f in cls.body:
        if not isinstance(f, ast.FunctionDef):
            if isinstance(f, (ast.Expr, ast.Pass)):
                continue
            fail(f, "class member")
        args = [a.arg for a in f.args.args]
        if len(args) != 2:
            print(f"py2coq: NumbaReductionOps.{f.name}: not a binary op", file=sys.stderr)
            out.append(f"Definition b_{f.name} (x_ y_ : V) : V := null o.\n")
            names.append(f.name)
            continue
        if f.name == "count":
            # x + 1 on a count accumulator
            tr = Tr({args[0]: "Z", args[1]: "V"})
            s = f.body[-1]
            if not isinstance(s, ast.Return) or tr.typ(s.value) != "Z":
                fail(f, "count op")
            out.append(f"Definition b_{f.name} ({args[0]} : Z) ({args[1]} : V) : Z :=\n  {tr.expr(s.value)}.\n")
        else:
            try:
                tr = Tr({args[0]: "V", args[1]: "V"})
                body = tr.stmts(f.body, ("V",))
                out.append(f"Definition b_{f.name} ({args[0]} {args[1]} : V) : V :=\n  {body}.\n")
            except Unsupported as e:
                print(f"py2coq: NumbaReductionOps.{f.name}: {e}", file=sys.stderr)
                out.append(f"(* NOT TRANSLATED: {str(e).replace('*)', '* )')} *)\nDefinition b_{f.name} (x_ y_ : V) : V := null o.\n")
        names.append(f.name)
    return out, names


# ---------------------------------------------------------------- _weight_code_sum (integer loop with early return)
def zexpr(e, arrays):
    """integer expression over names, literals, + - *, and arr[-1] (the last element)"""
    if isinstance(e, ast.Name):
        return e.id
    if isinstance(e, ast.Constant) and isinstance(e.value, int) and not isinstance(e.value, bool):
        return f"({e.value})" if e.value < 0 else str(e.value)
    if isinstance(e, ast.UnaryOp) and isinstance(e.op, ast.USub) and isinstance(e.operand, ast.Constant):
        return f"(-{e.operand.value})"
    if isinstance(e, ast.BinOp) and isinstance(e.op, (ast.Add, ast.Sub, ast.Mult)):
        op = {ast.Add: "+", ast.Sub: "-", ast.Mult: "*"}[type(e.op)]
        return f"({zexpr(e.left, arrays)} {op} {zexpr(e.right, arrays)})"
    if isinstance(e, ast.Subscript) and isinstance(e.value, ast.Name) and e.value.id in arrays:
        idx = e.slice
        if isinstance(idx, ast.UnaryOp) and isinstance(idx.op, ast.USub) and isinstance(idx.operand, ast.Constant) and idx.operand.value == 1:
            return f"(last {e.value.id} 0)"
    fail(e, "integer expression")


def zcond(e, arrays):
    if isinstance(e, ast.Compare) and len(e.ops) == 1 and isinstance(e.ops[0], ast.Eq):
        return f"({zexpr(e.left, arrays)} =? {zexpr(e.comparators[0], arrays)})"
    fail(e, "integer condition")


def is_all_but_last(e, name):
    return (isinstance(e, ast.Subscript) and isinstance(e.value, ast.Name) and e.value.id == name and isinstance(e.slice, ast.Slice)
            and e.slice.lower is None and e.slice.step is None and isinstance(e.slice.upper, ast.UnaryOp)
            and isinstance(e.slice.upper.op, ast.USub) and isinstance(e.slice.upper.operand, ast.Constant) and e.slice.upper.operand.value == 1)


def gen_weight_code_sum(tree):
    fns = [n for n in tree.body if isinstance(n, ast.FunctionDef) and n.name == "_weight_code_sum"]
    if len(fns) != 1:
        raise Unsupported("_weight_code_sum not found exactly once")
    fn = fns[0]
    params = [a.arg for a in fn.args.args]
    if len(params) != 2:
        fail(fn, "_weight_code_sum signature")
    A, B = params
    body = [s for s in fn.body if not (isinstance(s, ast.Expr) and isinstance(s.value, ast.Constant) and isinstance(s.value.value, str))]
    if len(body) != 4:
        fail(fn, "_weight_code_sum shape (init, loop, tail test, return)")
    init, loop, tail, ret = body
    if not (isinstance(init, ast.Assign) and len(init.targets) == 1 and isinstance(init.targets[0], ast.Name)):
        fail(init, "accumulator initialisation")
    acc = init.targets[0].id
    acc0 = zexpr(init.value, [])
    if not (isinstance(loop, ast.For) and not loop.orelse and isinstance(loop.target, ast.Tuple) and len(loop.target.elts) == 2
            and all(isinstance(x, ast.Name) for x in loop.target.elts)
            and isinstance(loop.iter, ast.Call) and isinstance(loop.iter.func, ast.Name) and loop.iter.func.id == "zip" and len(loop.iter.args) == 2
            and is_all_but_last(loop.iter.args[0], A) and is_all_but_last(loop.iter.args[1], B)):
        fail(loop, "loop header (for c, w in zip(codes[:-1], weights[:-1]))")
    c, w = (x.id for x in loop.target.elts)
    if len(loop.body) != 2:
        fail(loop, "loop body (early return, accumulate)")
    early, upd = loop.body
    if not (isinstance(early, ast.If) and not early.orelse and len(early.body) == 1 and isinstance(early.body[0], ast.Return)):
        fail(early, "early return")
    early_c, early_r = zcond(early.test, []), zexpr(early.body[0].value, [])
    if not (isinstance(upd, ast.AugAssign) and isinstance(upd.target, ast.Name) and upd.target.id == acc and isinstance(upd.op, ast.Add)):
        fail(upd, "accumulation")
    step = f"({acc} + {zexpr(upd.value, [])})"
    if not (isinstance(tail, ast.If) and not tail.orelse and len(tail.body) == 1 and isinstance(tail.body[0], ast.Return)):
        fail(tail, "tail test")
    tail_c, tail_r = zcond(tail.test, [A, B]), zexpr(tail.body[0].value, [A, B])
    if not isinstance(ret, ast.Return):
        fail(ret, "final return")
    final = zexpr(ret.value, [A, B])
    return f"""(* GENERATED by translator/py2coq.py from groupby_lib/groupby/factorization.py:_weight_code_sum — do not edit. *)
From Coq Require Import List ZArith Bool.
Import ListNotations.
Open Scope Z_scope.

(* the loop over zip({A}[:-1], {B}[:-1]); None = the early `return` (its value is {early_r}) *)
Fixpoint g_wcs_loop (cw : list (Z * Z)) ({acc} : Z) : option Z :=
  match cw with
  | [] => Some {acc}
  | ({c}, {w}) :: rest => if {early_c} then None else g_wcs_loop rest {step}
  end.

Definition g_weight_code_sum ({A} {B} : list Z) : Z :=
  match g_wcs_loop (combine (removelast {A}) (removelast {B})) {acc0} with
  | None => {early_r}
  | Some {acc} => if {tail_c} then {tail_r} else {final}
  end.
"""


# ---------------------------------------------------------------- tables
def str_consts_passed_as_reducer(fn: ast.FunctionDef):
    """reducer names a group_*/cum* wrapper can pass to its dispatcher"""
    names = set()
    for n in ast.walk(fn):
        if isinstance(n, ast.Assign) and len(n.targets) == 1 and isinstance(n.targets[0], ast.Name) and n.targets[0].id == "reduce_func_name":
            if isinstance(n.value, ast.Constant) and isinstance(n.value.value, str):
                names.add(n.value.value)
            else:
                fail(n, "non-literal reducer name")
        if isinstance(n, ast.Call) and isinstance(n.func, ast.Name) and n.func.id in ("_group_func_wrap", "_apply_cumulative", "_apply_rolling"):
            if n.args and isinstance(n.args[0], ast.Constant) and isinstance(n.args[0].value, str):
                names.add(n.args[0].value)
            for kw in n.keywords:
                if kw.arg in ("reduce_func_name", "operation") and isinstance(kw.value, ast.Constant):
                    names.add(kw.value.value)
    return sorted(names)


def counter_dtypes(fn: ast.FunctionDef):
    """names allocated with np.zeros/np.full(..., dtype=np.intNN) -> dtype name"""
    out = {}
    for n in ast.walk(fn):
        if isinstance(n, ast.Assign) and len(n.targets) == 1 and isinstance(n.targets[0], ast.Name) and isinstance(n.value, ast.Call):
            c = n.value
            for kw in c.keywords:
                if kw.arg == "dtype":
                    d = ast.unparse(kw.value).replace("np.", "").strip("'\"")
                    out[n.targets[0].id] = d
    return out


ALLOC = {"full", "zeros", "empty", "zeros_like", "empty_like", "full_like", "copy", "astype", "arange", "ones"}


def write_sets(fn: ast.FunctionDef):
    """(names written through a subscript, names bound to fresh allocations, parameter names)"""
    written, fresh = set(), set()
    params = [a.arg for a in fn.args.args]
    for n in ast.walk(fn):
        targets = []
        if isinstance(n, ast.Assign):
            targets = n.targets
        elif isinstance(n, ast.AugAssign):
            targets = [n.target]
        for t in targets:
            for tt in (t.elts if isinstance(t, ast.Tuple) else [t]):
                if isinstance(tt, ast.Subscript):
                    base = tt.value
                    while isinstance(base, ast.Subscript):
                        base = base.value
                    if isinstance(base, ast.Name):
                        written.add(base.id)
                    else:
                        fail(tt, "subscript assignment through a non-name")
        if isinstance(n, ast.Assign) and len(n.targets) == 1 and isinstance(n.targets[0], ast.Name) and isinstance(n.value, ast.Call):
            f = n.value.func
            if isinstance(f, ast.Attribute) and f.attr in ALLOC:
                fresh.add(n.targets[0].id)
    return sorted(written), sorted(fresh), params


def is_njit(fn):
    return any("njit" in ast.unparse(d) for d in fn.decorator_list)


def coq_str_list(l):
    return "[" + "; ".join(f'"{x}"' for x in l) + "]"


def direct_reducer_refs(fn: ast.FunctionDef):
    """reducers a dispatcher picks by attribute (ScalarFuncs.<name>) instead of by its name string"""
    names = set()
    for n in ast.walk(fn):
        if isinstance(n, ast.Attribute) and isinstance(n.value, ast.Name) and n.value.id == "ScalarFuncs":
            names.add(n.attr)
    return sorted(names)


def groupby_object_writes(tree):
    """For class GroupBy: per method the attributes of `self` it assigns (or deletes / setattr's), the calls of
    _unify_group_key_chunks with their keep_chunked flag, and the cached_property names."""
    cls = [n for n in tree.body if isinstance(n, ast.ClassDef) and n.name == "GroupBy"]
    if len(cls) != 1:
        raise Unsupported("class GroupBy not found exactly once in core.py")
    writes, unify, cached = [], [], []
    for fn in [n for n in cls[0].body if isinstance(n, ast.FunctionDef)]:
        attrs = set()
        flags = []
        for n in ast.walk(fn):
            tg = []
            if isinstance(n, ast.Assign):
                tg = n.targets
            elif isinstance(n, (ast.AugAssign, ast.AnnAssign)):
                tg = [n.target]
            elif isinstance(n, ast.Delete):
                tg = n.targets
            for t in tg:
                for x in ast.walk(t):
                    if isinstance(x, ast.Attribute) and isinstance(x.value, ast.Name) and x.value.id == "self":
                        attrs.add(x.attr)
            if isinstance(n, ast.Call) and isinstance(n.func, ast.Name) and n.func.id in ("setattr", "delattr"):
                attrs.add("<setattr>")
            if isinstance(n, ast.Attribute) and n.attr == "__dict__" and isinstance(n.value, ast.Name) and n.value.id == "self":
                attrs.add("<__dict__>")
            if isinstance(n, ast.Call) and isinstance(n.func, ast.Attribute) and n.func.attr == "_unify_group_key_chunks":
                kc = False
                for kw in n.keywords:
                    if kw.arg == "keep_chunked":
                        if not isinstance(kw.value, ast.Constant):
                            fail(n, "non-literal keep_chunked")
                        kc = bool(kw.value.value)
                if n.args:
                    if not isinstance(n.args[0], ast.Constant):
                        fail(n, "non-literal keep_chunked")
                    kc = bool(n.args[0].value)
                flags.append(kc)
        if attrs:
            writes.append((fn.name, sorted(attrs)))
        if flags:
            unify.append((fn.name, flags))
        if any("cached_property" in ast.unparse(d) for d in fn.decorator_list):
            cached.append(fn.name)
    return writes, unify, cached


def nanops_dispatch(tree):
    """reduce_1d's choice of (skipna, initial value, reduction of the chunk results) per kind of reducer name:
    rows (condition, skipna, initial_value, chunk_reduction) in source order"""
    fns = [n for n in tree.body if isinstance(n, ast.FunctionDef) and n.name == "reduce_1d"]
    if len(fns) != 1:
        raise Unsupported("nanops.reduce_1d not found exactly once")
    chains = [n for n in fns[0].body if isinstance(n, ast.If) and any(
        isinstance(x, ast.Assign) and isinstance(x.targets[0], ast.Name) and x.targets[0].id == "chunk_reduction" for x in n.body)]
    if len(chains) != 1:
        raise Unsupported("reduce_1d: dispatch chain not found exactly once")
    rows = []

    def branch(cond, body):
        kw = [x for x in body if isinstance(x, ast.Assign) and isinstance(x.targets[0], ast.Name) and x.targets[0].id == "kwargs"]
        cr = [x for x in body if isinstance(x, ast.Assign) and isinstance(x.targets[0], ast.Name) and x.targets[0].id == "chunk_reduction"]
        if len(kw) != 1 or len(cr) != 1 or len(body) != 2:
            fail(body[0], "reduce_1d dispatch branch")
        call = kw[0].value
        if not (isinstance(call, ast.Call) and isinstance(call.func, ast.Name) and call.func.id == "dict" and not call.args):
            fail(call, "kwargs = dict(...)")
        d = {k.arg: ast.unparse(k.value) for k in call.keywords}
        if set(d) != {"skipna", "initial_value"}:
            fail(call, "kwargs keys")
        rows.append((cond, d["skipna"], d["initial_value"], ast.unparse(cr[0].value)))

    # how the results of the pieces are merged: the skipna flag of the second stage
    ms = [n for n in ast.walk(fns[0]) if isinstance(n, ast.Assign) and isinstance(n.targets[0], ast.Name) and n.targets[0].id == "merge_skipna"]
    merge = ast.unparse(ms[0].value) if len(ms) == 1 else "skipna"
    rec = [n for n in ast.walk(fns[0]) if isinstance(n, ast.Call) and isinstance(n.func, ast.Name) and n.func.id == "reduce_1d"]
    if len(rec) != 1:
        fail(fns[0], "exactly one second-stage reduce_1d call")
    kw = {k.arg: ast.unparse(k.value) for k in rec[0].keywords}
    second_stage = f"reduce_1d({', '.join(ast.unparse(a) for a in rec[0].args)}, skipna={kw.get('skipna')}, n_threads={kw.get('n_threads')}) with merge_skipna = {merge}"
    rows.append(("second stage", second_stage, "", ""))
    node = chains[0]
    while True:
        branch(ast.unparse(node.test), node.body)
        if len(node.orelse) == 1 and isinstance(node.orelse[0], ast.If):
            node = node.orelse[0]
        else:
            branch("else", node.orelse)
            break
    return rows


def core_merge_dispatch(tree):
    """GroupBy._apply_gb_func_across_chunked_group_keys: which func_names merge their key-chunk results with which
    fixed reducer (first branch of the dispatch); the other branches are 'nan' + func_name if it exists, else func_name."""
    for fn in [n for n in ast.walk(tree) if isinstance(n, ast.FunctionDef) and n.name == "_apply_gb_func_across_chunked_group_keys"]:
        for n in ast.walk(fn):
            if (isinstance(n, ast.If) and isinstance(n.test, ast.Compare) and isinstance(n.test.left, ast.Name) and n.test.left.id == "func_name"
                    and len(n.test.ops) == 1 and isinstance(n.test.ops[0], ast.In) and isinstance(n.test.comparators[0], ast.Tuple)
                    and len(n.body) == 1 and isinstance(n.body[0], ast.Assign) and isinstance(n.body[0].targets[0], ast.Name) and n.body[0].targets[0].id == "reducer"):
                names = []
                for e in n.test.comparators[0].elts:
                    if not (isinstance(e, ast.Constant) and isinstance(e.value, str)):
                        fail(e, "func_name tuple element")
                    names.append(e.value)
                val = n.body[0].value
                if not (isinstance(val, ast.Attribute) and isinstance(val.value, ast.Attribute) and val.value.attr == "ScalarFuncs"):
                    fail(val, "reducer = numba_funcs.ScalarFuncs.<name>")
                if len(n.orelse) != 1 or not isinstance(n.orelse[0], ast.If):
                    fail(n, "dispatch chain")
                second = ast.unparse(n.orelse[0].test)
                return names, val.attr, second
    raise Unsupported("core merge dispatch not found")


def ema_formulas(tree):
    """the closed-form ingredients of emas.py: every assignment to alpha / hl / beta, as (function, target, expression)"""
    rows = []
    for fn in [n for n in ast.walk(tree) if isinstance(n, ast.FunctionDef)]:
        for n in ast.walk(fn):
            if isinstance(n, ast.Assign) and len(n.targets) == 1 and isinstance(n.targets[0], ast.Name) and n.targets[0].id in ("alpha", "hl", "beta"):
                rows.append((fn.name, n.targets[0].id, ast.unparse(n.value)))
    return rows


def build_target_rule(tree):
    """_build_target_for_groupby: (condition, initial value) per branch, in source order"""
    fns = [n for n in tree.body if isinstance(n, ast.FunctionDef) and n.name == "_build_target_for_groupby"]
    if len(fns) != 1:
        raise Unsupported("_build_target_for_groupby not found exactly once")
    rows = []
    for n in fns[0].body:
        if isinstance(n, ast.If):
            node = n
            while True:
                vals = [ast.unparse(x.value) for x in ast.walk(node) if False]
                init = [ast.unparse(x.value) for x in node.body if isinstance(x, ast.Assign) and isinstance(x.targets[0], ast.Name) and x.targets[0].id in ("initial_value", "target")]
                rows.append((ast.unparse(node.test), "; ".join(init)))
                if len(node.orelse) == 1 and isinstance(node.orelse[0], ast.If):
                    node = node.orelse[0]
                else:
                    init = [ast.unparse(x.value) for x in node.orelse if isinstance(x, ast.Assign) and isinstance(x.targets[0], ast.Name) and x.targets[0].id in ("initial_value", "target")]
                    if node.orelse:
                        rows.append(("else", "; ".join(init)))
                    break
    return rows


def rolling_dispatch(tree):
    """_apply_rolling: operation name -> 1-D kernel"""
    fns = [n for n in tree.body if isinstance(n, ast.FunctionDef) and n.name == "_apply_rolling"]
    if len(fns) != 1:
        raise Unsupported("_apply_rolling not found exactly once")
    for n in ast.walk(fns[0]):
        if isinstance(n, ast.Assign) and isinstance(n.targets[0], ast.Name) and n.targets[0].id == "rolling_1d_funcs" and isinstance(n.value, ast.Dict):
            return [(k.value, ast.unparse(v)) for k, v in zip(n.value.keys, n.value.values)]
    raise Unsupported("rolling_1d_funcs not found")


def flat_statements(fn):
    """every statement of a function in source order, one string each ('if <test>' for a branch head, then its
    body, then its else part); docstrings dropped.  Fails on anything that is not if / assignment / return / del."""
    out = []

    def walk(body):
        for n in body:
            if isinstance(n, ast.Expr) and isinstance(n.value, ast.Constant) and isinstance(n.value.value, str):
                continue
            if isinstance(n, ast.If):
                out.append("if " + ast.unparse(n.test))
                walk(n.body)
                if n.orelse:
                    out.append("else")
                    walk(n.orelse)
                out.append("end")
            elif isinstance(n, (ast.Assign, ast.Return, ast.Delete, ast.AugAssign, ast.Expr, ast.Raise, ast.Assert, ast.Pass, ast.Continue, ast.Break)):
                out.append(ast.unparse(n))
            elif isinstance(n, ast.For) and not n.orelse:
                out.append("for " + ast.unparse(n.target) + " in " + ast.unparse(n.iter))
                walk(n.body)
                out.append("end")
            else:
                fail(n, f"statement kind in {fn.name}")
    walk(fn.body)
    return [x.replace('"', "'") for x in out]


def moment_formulas(trees, which):
    rows = []
    for mod, names in ((("util", ["mean_from_sum_count"]),) if which == "mean" else (("nanops", ["nanmean", "nanvar", "nanstd"]),)):
        for name in names:
            fns = [n for n in trees[mod].body if isinstance(n, ast.FunctionDef) and n.name == name]
            if len(fns) != 1:
                raise Unsupported(f"{mod}.{name} not found exactly once")
            rows.append((name, flat_statements(fns[0])))
    return rows


def rolling_sum_updates(tree):
    """_rolling_sum_or_mean_1d: every statement that touches the running sum or its compensation, in source order
    ('if <test>' heads included when the test looks at magnitudes / finiteness / emptiness of the window)"""
    fns = [n for n in tree.body if isinstance(n, ast.FunctionDef) and n.name == "_rolling_sum_or_mean_1d"]
    if len(fns) != 1:
        raise Unsupported("_rolling_sum_or_mean_1d not found exactly once")
    names = ("group_sums", "group_comp", "total", "comp", "window_sum")
    helper = [n for n in tree.body if isinstance(n, ast.FunctionDef) and n.name == "_compensated_add"]
    if len(helper) != 1:
        raise Unsupported("_compensated_add not found exactly once")
    rows = ["def _compensated_add(" + ", ".join(a.arg for a in helper[0].args.args) + ")"] + flat_statements(helper[0]) + ["def _rolling_sum_or_mean_1d"]

    def mentions(node):
        return any(isinstance(x, ast.Name) and x.id in names for x in ast.walk(node))

    def walk(body):
        for n in body:
            if isinstance(n, (ast.Assign, ast.AugAssign)):
                tg = n.targets[0] if isinstance(n, ast.Assign) else n.target
                if mentions(tg) or (isinstance(tg, ast.Subscript) and isinstance(tg.value, ast.Name) and tg.value.id == "out" and mentions(n.value)):
                    rows.append(ast.unparse(n))
            elif isinstance(n, ast.If):
                mark = len(rows)
                rows.append("if " + ast.unparse(n.test))
                walk(n.body)
                if n.orelse:
                    rows.append("else")
                    walk(n.orelse)
                if all(r.startswith("if ") or r == "else" for r in rows[mark:]):
                    del rows[mark:]          # a branch that never touches the sums
                else:
                    rows.append("end")
            elif isinstance(n, (ast.For, ast.While)):
                mark = len(rows)
                rows.append("for " + ast.unparse(n.target) + " in " + ast.unparse(n.iter) if isinstance(n, ast.For) else "while " + ast.unparse(n.test))
                walk(n.body)
                if len(rows) == mark + 1:
                    del rows[mark:]
                else:
                    rows.append("end")
    walk(fns[0].body)
    return [r.replace('"', "'") for r in rows]


def gen_tables(trees):
    kern = []
    counters = []
    wsets = []
    direct = []
    for modname, tree in trees.items():
        fns = [n for n in ast.walk(tree) if isinstance(n, ast.FunctionDef)]
        for fn in fns:
            if modname == "numba":
                d = direct_reducer_refs(fn)
                if d:
                    direct.append((fn.name, d))
            if modname == "numba" and (fn.name.startswith("group_") or fn.name.startswith("cum") or fn.name.startswith("rolling_")):
                names = str_consts_passed_as_reducer(fn)
                if names:
                    kern.append((fn.name, names))
            if is_njit(fn):
                for var, d in sorted(counter_dtypes(fn).items()):
                    counters.append((f"{modname}.{fn.name}", var, d))
                w, f, p = write_sets(fn)
                wsets.append((f"{modname}.{fn.name}", w, f, p))
    out = ["From Coq Require Import List String.", "Import ListNotations.", "Open Scope string_scope.", ""]
    out.append("Definition gen_kernel_reducers : list (string * list string) :=\n  [" + ";\n   ".join(f'("{k}", {coq_str_list(v)})' for k, v in sorted(kern)) + "].\n")
    out.append("(* dispatcher, reducers it selects by attribute rather than by name *)")
    out.append("Definition gen_direct_reducers : list (string * list string) :=\n  [" + ";\n   ".join(f'("{k}", {coq_str_list(v)})' for k, v in sorted(direct)) + "].\n")
    gw, gu, gc = groupby_object_writes(trees["core"])
    out.append("(* class GroupBy: method, attributes of self it assigns *)")
    out.append("Definition gen_self_writes : list (string * list string) :=\n  [" + ";\n   ".join(f'("{k}", {coq_str_list(v)})' for k, v in gw) + "].\n")
    out.append("(* class GroupBy: method, keep_chunked flag of each call of _unify_group_key_chunks in it *)")
    out.append("Definition gen_unify_sites : list (string * list bool) :=\n  [" + ";\n   ".join(
        f'("{k}", [' + "; ".join("true" if b else "false" for b in v) + '])' for k, v in gu) + "].\n")
    out.append("Definition gen_cached_properties : list string := " + coq_str_list(gc) + ".\n")
    # every table below is tied by its own Proofs/Tie*.v: a construct the translator does not recognise poisons THAT table only
    # (its tie then fails, and with it exactly the properties that rest on it) instead of stopping the whole translation
    def poison(msg):
        return "<translator: " + str(msg).replace('"', "'") + ">"

    def table(name, typ, comment, make, poisoned):
        out.append(f"(* {comment} *)")
        try:
            body = make()
        except Unsupported as e:
            print(f"py2coq: {name}: {e}", file=sys.stderr)
            body = poisoned(poison(e))
        out.append(f"Definition {name} : {typ} :=\n  {body}.\n")

    def q(x):
        return '"' + x.replace('"', "'") + '"'

    def cm():
        names, red, second = core_merge_dispatch(trees["core"])
        return "(" + coq_str_list(names) + ", " + q(red) + ", " + q(second) + ")"
    table("gen_core_merge_sums", "list string * string * string",
          "core.py: func_names whose key-chunk results are merged with a fixed reducer, that reducer, and the test of the next branch", cm, lambda m: f'([], "{m}", "")')
    table("gen_build_target_rule", "list (string * string)", "numba.py: initial value of the accumulators per kind of operation",
          lambda: "[" + ";\n   ".join("(" + q(a_) + ", " + q(b_) + ")" for a_, b_ in build_target_rule(trees["numba"])) + "]", lambda m: f'[("{m}", "")]')
    table("gen_rolling_dispatch", "list (string * string)", "numba.py: rolling operation -> kernel",
          lambda: "[" + "; ".join("(" + q(a_) + ", " + q(b_) + ")" for a_, b_ in rolling_dispatch(trees["numba"])) + "]", lambda m: f'[("{m}", "")]')
    table("gen_ema_formulas", "list (string * string * string)", "emas.py: how alpha, the elapsed halflives and the decay factor are computed",
          lambda: "[" + ";\n   ".join("(" + ", ".join(q(x) for x in r) + ")" for r in ema_formulas(trees["emas"])) + "]", lambda m: f'[("{m}", "", "")]')
    table("gen_rolling_sum_updates", "list string", "numba._rolling_sum_or_mean_1d: the statements that update the running sum and its compensation",
          lambda: coq_str_list(rolling_sum_updates(trees["numba"])).replace("; ", ";\n   "), lambda m: f'["{m}"]')

    def arm():
        fns = [n for n in trees["core"].body if isinstance(n, ast.FunctionDef) and n.name == "add_row_margin"]
        if len(fns) != 1:
            raise Unsupported("core.add_row_margin not found exactly once")
        return coq_str_list(flat_statements(fns[0])).replace("; ", ";\n   ")
    table("gen_add_row_margin", "list string", "core.add_row_margin: its statements in source order", arm, lambda m: f'["{m}"]')
    table("gen_mean_formula", "list (string * list string)", "util.mean_from_sum_count: its statements in source order",
          lambda: "[" + ";\n   ".join(f'("{k}", {coq_str_list(v)})' for k, v in moment_formulas(trees, "mean")) + "]", lambda m: f'[("{m}", [])]')
    table("gen_nanops_moments", "list (string * list string)", "nanops.nanmean / nanvar / nanstd: their statements in source order",
          lambda: "[" + ";\n   ".join(f'("{k}", {coq_str_list(v)})' for k, v in moment_formulas(trees, "nanops")) + "]", lambda m: f'[("{m}", [])]')
    table("gen_nanops_dispatch", "list (string * string * string * string)", "nanops.reduce_1d: condition on the reducer name, skipna, initial value, reduction of the chunk results",
          lambda: "[" + ";\n   ".join("(" + ", ".join(q(x) for x in r) + ")" for r in nanops_dispatch(trees["nanops"])) + "]", lambda m: f'[("{m}", "", "", "")]')
    out.append("Definition gen_counter_dtypes : list (string * string * string) :=\n  [" + ";\n   ".join(f'("{a}", "{b}", "{c}")' for a, b, c in sorted(counters)) + "].\n")
    out.append("(* kernel, names written through a subscript, names bound to fresh allocations, parameters *)")
    out.append("Definition gen_write_sets : list (string * list string * list string * list string) :=\n  [" + ";\n   ".join(
        f'("{k}", {coq_str_list(w)}, {coq_str_list(f)}, {coq_str_list(p)})' for k, w, f, p in sorted(wsets)) + "].\n")
    return "\n".join(out)


HEADER = """(* GENERATED by translator/py2coq.py from {src} — do not edit. *)
From Coq Require Import List ZArith Bool.
From GL Require Import Model.Dom Model.Scalar.
Open Scope Z_scope.

Section Gen.
Context {{V : Type}} (o : ops V).

"""


def write_if_changed(path: Path, content: str):
    if path.exists() and path.read_text() == content:
        return
    path.write_text(content)


def main():
    sys.path.insert(0, str(Path(__file__).resolve().parent))
    repo, outdir = Path(sys.argv[1]), Path(sys.argv[2])
    outdir.mkdir(parents=True, exist_ok=True)
    srcs = {
        "numba": repo / "groupby_lib" / "groupby" / "numba.py",
        "util": repo / "groupby_lib" / "util.py",
        "emas": repo / "groupby_lib" / "emas.py",
        "factorization": repo / "groupby_lib" / "groupby" / "factorization.py",
        "core": repo / "groupby_lib" / "groupby" / "core.py",
        "nanops": repo / "groupby_lib" / "nanops.py",
        "api": repo / "groupby_lib" / "groupby" / "api.py",
    }
    try:
        trees = {k: ast.parse(p.read_text()) for k, p in srcs.items()}
        defs, names = gen_scalar_funcs(trees["numba"])
        sf = HEADER.format(src="groupby_lib/groupby/numba.py:ScalarFuncs") + "\n".join(defs) + "\nEnd Gen.\n"
        sf += "\nDefinition gen_scalar_func_names : list String.string :=\n  [" + "; ".join(f'"{n}"%string' for n in names) + "]%list.\n"
        sf = sf.replace("From Coq Require Import List ZArith Bool.", "From Coq Require Import List ZArith Bool String.\nImport ListNotations.")
        defs2, names2 = gen_reduction_ops(trees["util"])
        ro = HEADER.format(src="groupby_lib/util.py:NumbaReductionOps") + "\n".join(defs2) + "\nEnd Gen.\n"
        ro += "\nDefinition gen_reduction_op_names : list String.string :=\n  [" + "; ".join(f'"{n}"%string' for n in names2) + "]%list.\n"
        ro = ro.replace("From Coq Require Import List ZArith Bool.", "From Coq Require Import List ZArith Bool String.\nImport ListNotations.")
        tb = "(* GENERATED by translator/py2coq.py — do not edit. *)\n" + gen_tables(trees)
        try:
            wc = gen_weight_code_sum(trees["factorization"])
        except Unsupported as e:
            # poison: Proofs/TieFactorize.v fails, and with it C02 only
            print(f"py2coq: _weight_code_sum: {e}", file=sys.stderr)
            wc = ("(* GENERATED by translator/py2coq.py - _weight_code_sum was NOT TRANSLATED: " + str(e).replace("*)", "* )") + " *)\n"
                  "From Coq Require Import List ZArith Bool.\nImport ListNotations.\nOpen Scope Z_scope.\n"
                  "Definition g_wcs_loop (cw : list (Z * Z)) (out : Z) : option Z := None.\n"
                  "Definition g_weight_code_sum (codes weights : list Z) : Z := (-7).\n")
        import pins
        try:
            src = "(* GENERATED by translator/pins.py - do not edit. *)\n" + pins.generate(trees, "gen_src_")
        except pins.PinError as e:
            raise Unsupported(f"pins: {e}")
    except Unsupported as e:
        print(f"py2coq: {e}", file=sys.stderr)
        sys.exit(2)
    write_if_changed(outdir / "SourcesGen.v", src)
    write_if_changed(outdir / "ScalarFuncsGen.v", sf)
    write_if_changed(outdir / "ReductionOpsGen.v", ro)
    write_if_changed(outdir / "TablesGen.v", tb)
    write_if_changed(outdir / "FactorizeGen.v", wc)
    print(f"py2coq: {len(names)} ScalarFuncs, {len(names2)} NumbaReductionOps")


if __name__ == "__main__":
    main()
