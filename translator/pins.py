"""Tie B, coarse but complete: pin the source of every function the hand models transcribe.

For each function named in PINS the statements are flattened in source order (one string per statement, block heads
and ends marked) and emitted as a Coq `list string` into Gen/SourcesGen.v (`gen_src_<name>`).  The model side keeps the
list the model was written against (Model/Sources.v, `src_<name>`; `tools/sync_pins.py` copies it over after the model
has been re-examined), and Proofs/Pin*.v prove the two equal by computation - so a change to a modelled function that
nobody carried over into the model breaks a proof obligation of exactly the properties whose models transcribe it."""
from __future__ import annotations

import ast

# coq identifier -> (source key as in py2coq.main's `srcs`, qualified name)
PINS = {
    # reductions (C01 C03 C04 C05 C06 C12)
    "build_target_for_groupby": ("numba", "_build_target_for_groupby"),
    "group_by_reduce": ("numba", "_group_by_reduce"),
    "apply_group_method_single_chunk": ("numba", "_apply_group_method_single_chunk"),
    "chunk_groupby_args": ("numba", "_chunk_groupby_args"),
    "reduce_array_pair": ("numba", "reduce_array_pair"),
    "combine_chunk_results": ("numba", "combine_chunk_results_for_factorized_key"),
    "group_func_wrap": ("numba", "_group_func_wrap"),
    "group_mean": ("numba", "group_mean"),
    "apply_across_chunked_keys": ("core", "GroupBy._apply_gb_func_across_chunked_group_keys"),
    # factorization (C02)
    "combine_factorizations": ("factorization", "_combine_factorizations"),
    "monotonic_factorization": ("factorization", "_monotonic_factorization"),
    "factorize_2d": ("factorization", "factorize_2d"),
    "build_group_sorted_indexer": ("core", "GroupBy._build_group_sorted_indexer_numba"),
    # the reduction front end: observed labels, transform, mean (C01 C07 C11)
    "apply_gb_reduction": ("core", "GroupBy._apply_gb_reduction"),
    # cumulative (C08)
    "cumulative_reduce": ("numba", "_cumulative_reduce"),
    "apply_cumulative": ("numba", "_apply_cumulative"),
    # rolling (C09)
    "rolling_max_or_min_1d": ("numba", "_rolling_max_or_min_1d"),
    "min_or_max_and_position": ("numba", "min_or_max_and_position"),
    "rolling_shift_or_diff_1d": ("numba", "_rolling_shift_or_diff_1d"),
    # EMA (C10)
    "ema_adjusted": ("emas", "_ema_adjusted"),
    "ema_time_weighted": ("emas", "_ema_time_weighted"),
    "ema_grouped": ("emas", "_ema_grouped"),
    "ema_grouped_timed": ("emas", "_ema_grouped_timed"),
    # row selection (C15)
    "find_nth": ("numba", "_find_nth"),
    "find_first_or_last_n": ("numba", "_find_first_or_last_n"),
    # variance (C16)
    "groupby_var": ("core", "GroupBy.var"),
    # validators (C18)
    "validate_lengths_and_indexes": ("core", "_validate_input_lengths_and_indexes"),
    "preprocess_arguments": ("core", "GroupBy._preprocess_arguments"),
    "check_data_inputs_aligned": ("util", "check_data_inputs_aligned"),
    # stand-alone helpers (C20)
    "nb_reduce": ("nanops", "_nb_reduce"),
    "reduce_1d": ("nanops", "reduce_1d"),
    "nb_dot": ("util", "_nb_dot"),
    "bools_to_categorical": ("util", "bools_to_categorical"),
    "pretty_cut": ("util", "pretty_cut"),
    # the pandas-style facade (C17)
    "dataframe_from_by_keys": ("api", "DataFrameGroupBy._from_by_keys"),
    "series_from_by_keys": ("api", "SeriesGroupBy._from_by_keys"),
    # cross-tabulation (C14; add_row_margin itself is tied by gen_add_row_margin)
    "crosstab": ("core", "crosstab"),
}

# property -> the pins its models transcribe (a change to one of these functions must be carried over into the model of
# exactly these properties)
BY_PROPERTY = {
    "C01": ["group_by_reduce", "apply_group_method_single_chunk", "group_func_wrap", "build_target_for_groupby", "apply_gb_reduction"],
    "C02": ["combine_factorizations", "monotonic_factorization", "factorize_2d", "build_group_sorted_indexer"],
    "C03": ["chunk_groupby_args", "reduce_array_pair", "combine_chunk_results", "apply_across_chunked_keys"],
    "C04": ["group_by_reduce", "apply_group_method_single_chunk", "chunk_groupby_args", "reduce_array_pair", "combine_chunk_results", "group_func_wrap",
            "build_target_for_groupby", "group_mean"],
    "C05": ["group_func_wrap", "apply_cumulative", "rolling_max_or_min_1d", "rolling_shift_or_diff_1d", "ema_grouped", "ema_grouped_timed"],
    "C06": ["group_by_reduce", "cumulative_reduce", "rolling_max_or_min_1d", "rolling_shift_or_diff_1d", "ema_grouped", "ema_grouped_timed", "find_nth",
            "find_first_or_last_n"],
    "C07": ["apply_gb_reduction"],
    "C08": ["cumulative_reduce", "apply_cumulative"],
    "C09": ["rolling_max_or_min_1d", "min_or_max_and_position", "rolling_shift_or_diff_1d"],
    "C10": ["ema_adjusted", "ema_time_weighted", "ema_grouped", "ema_grouped_timed"],
    "C11": ["apply_gb_reduction"],
    "C12": ["group_func_wrap"],
    "C14": ["crosstab", "apply_gb_reduction"],
    "C15": ["find_nth", "find_first_or_last_n"],
    "C16": ["groupby_var"],
    "C17": ["dataframe_from_by_keys", "series_from_by_keys"],
    "C18": ["validate_lengths_and_indexes", "preprocess_arguments", "check_data_inputs_aligned"],
    "C20": ["nb_reduce", "reduce_1d", "nb_dot", "bools_to_categorical", "pretty_cut"],
}


class PinError(Exception):
    pass


def find(tree: ast.Module, qual: str):
    parts = qual.split(".")
    body = tree.body
    node = None
    for i, p in enumerate(parts):
        kinds = (ast.ClassDef,) if i < len(parts) - 1 else (ast.FunctionDef,)
        cands = [n for n in body if isinstance(n, kinds) and n.name == p]
        if len(cands) != 1:
            raise PinError(f"{qual}: {p!r} found {len(cands)} times")
        node = cands[0]
        body = node.body
    return node


def esc(s: str) -> str:
    s = " ".join(s.split())
    s = s.replace('"', "'")
    return s.encode("ascii", "backslashreplace").decode("ascii")


def flatten(fn: ast.FunctionDef) -> list[str]:
    out: list[str] = []

    def head(n):
        decos = "".join("@" + ast.unparse(d) + " " for d in n.decorator_list)
        return decos + "def " + n.name + "(" + ast.unparse(n.args) + ")"

    def walk(body):
        for n in body:
            if isinstance(n, ast.Expr) and isinstance(n.value, ast.Constant) and isinstance(n.value.value, str):
                continue                                                      # docstring / bare string
            if isinstance(n, ast.If):
                out.append("if " + ast.unparse(n.test))
                walk(n.body)
                if n.orelse:
                    out.append("else")
                    walk(n.orelse)
                out.append("end")
            elif isinstance(n, ast.For):
                out.append("for " + ast.unparse(n.target) + " in " + ast.unparse(n.iter))
                walk(n.body)
                if n.orelse:
                    out.append("else")
                    walk(n.orelse)
                out.append("end")
            elif isinstance(n, ast.While):
                out.append("while " + ast.unparse(n.test))
                walk(n.body)
                if n.orelse:
                    out.append("else")
                    walk(n.orelse)
                out.append("end")
            elif isinstance(n, ast.With):
                out.append("with " + ", ".join(ast.unparse(i) for i in n.items))
                walk(n.body)
                out.append("end")
            elif isinstance(n, ast.Try):
                out.append("try")
                walk(n.body)
                for h in n.handlers:
                    out.append("except " + (ast.unparse(h.type) if h.type else "") + (" as " + h.name if h.name else ""))
                    walk(h.body)
                if n.orelse:
                    out.append("else")
                    walk(n.orelse)
                if n.finalbody:
                    out.append("finally")
                    walk(n.finalbody)
                out.append("end")
            elif isinstance(n, (ast.FunctionDef, ast.AsyncFunctionDef)):
                out.append(head(n))
                walk(n.body)
                out.append("end")
            elif isinstance(n, ast.ClassDef):
                raise PinError(f"class inside {fn.name}")
            else:
                out.append(ast.unparse(n))                                    # simple statement
    out.append(head(fn))
    walk(fn.body)
    return [esc(x) for x in out]


def coq_list(items: list[str]) -> str:
    return "[" + ";\n   ".join('"' + x + '"' for x in items) + "]"


def generate(trees: dict, prefix: str) -> str:
    """Coq source defining <prefix><name> : list string for every pin."""
    out = ["From Coq Require Import List String.", "Import ListNotations.", "Open Scope string_scope.", ""]
    for name, (mod, qual) in PINS.items():
        out.append(f"(* {mod}: {qual} *)")
        try:
            items = flatten(find(trees[mod], qual))
        except PinError as e:
            # poison this pin only: its tie fails, and with it exactly the properties whose models transcribe the function
            items = [esc(f"<translator: {e}>")]
        out.append(f"Definition {prefix}{name} : list string :=\n  " + coq_list(items) + ".\n")
    return "\n".join(out)
