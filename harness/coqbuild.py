"""Proof stage of every check: regenerate Gen/*.v from /repo, build the cone of
Props/<id>.v with make (full .vo build), re-run coqc on the Props file itself to
capture `Print Assumptions`, grep for forbidden constructs, count obligations."""
from __future__ import annotations

import fcntl
import re
import subprocess
import time
from pathlib import Path

from .common import COQ, OCAML, VERIF, REPO, log

FORBIDDEN = re.compile(
    r"\b(Admitted|admit|Axiom|Axioms|Parameter|Parameters|Conjecture|Conjectures|Admit Obligations|"
    r"Unset Guard Checking|Unset Positivity Checking|Unset Universe Checking|bypass_check|"
    r"native_compute|type-in-type|impredicative-set)\b"
)
ALLOWED_AXIOMS = {
    "ClassicalDedekindReals.sig_not_dec", "ClassicalDedekindReals.sig_forall_dec",
    "FunctionalExtensionality.functional_extensionality_dep", "Classical_Prop.classic",
}
# Coq's native binary64 floats / 63-bit integers are kernel primitives, which Print Assumptions lists under "Axioms:" by their
# short names; they are not declarations of this development (FORBIDDEN rules those out in every file of the cone) and are
# recognised by their exact signature only.  Theorems about the bit-exact float models (C04) depend on them; DESIGN section 7.
KERNEL_PRIMITIVES = {
    "float : Set", "add : float -> float -> float", "sub : float -> float -> float", "mul : float -> float -> float",
    "div : float -> float -> float", "opp : float -> float", "abs : float -> float", "sqrt : float -> float",
    "eqb : float -> float -> bool", "ltb : float -> float -> bool", "leb : float -> float -> bool",
    "compare : float -> float -> float_comparison", "classify : float -> float_class", "of_uint63 : int -> float", "int : Set",
}
STMT = re.compile(r"^\s*(?:Local\s+|Global\s+|#\[[^\]]*\]\s*)?(Theorem|Lemma|Corollary|Example|Proposition|Fact|Remark)\s+([A-Za-z0-9_']+)", re.M)


def _strip_comments(src: str) -> str:
    out = []
    depth = 0
    i = 0
    while i < len(src):
        if src.startswith("(*", i):
            depth += 1
            i += 2
        elif src.startswith("*)", i) and depth:
            depth -= 1
            i += 2
        else:
            if depth == 0:
                out.append(src[i])
            i += 1
    return "".join(out)


def run(cmd, cwd=None, timeout=1800):
    p = subprocess.run(cmd, cwd=cwd, stdout=subprocess.PIPE, stderr=subprocess.STDOUT, timeout=timeout)
    return p.returncode, p.stdout.decode(errors="replace")


def regenerate_gen() -> tuple[bool, str]:
    """Tie B: translate the scalar layer of /repo into Gen/*.v (fail closed)."""
    rc, out = run(["/venv/bin/python", str(VERIF / "translator" / "py2coq.py"), str(REPO), str(COQ / "theories" / "Gen")])
    return rc == 0, out


def cone_of(vfile: Path) -> list[Path]:
    """Transitive GL.* dependencies of a .v file (by `From GL Require Import` lines)."""
    seen: dict[Path, None] = {}
    todo = [vfile]
    while todo:
        f = todo.pop()
        if f in seen or not f.exists():
            continue
        seen[f] = None
        src = _strip_comments(f.read_text())
        for m in re.finditer(r"From\s+GL\s+Require\s+(?:Import\s+|Export\s+)?(.*?)\.(?=\s)", src, re.S):
            for name in m.group(1).split():
                todo.append(COQ / "theories" / (name.replace(".", "/") + ".v"))
    return list(seen)


def check_props(pid: str, tier: str = "quick") -> dict:
    """Returns dict(ok, obligations, discharged, axioms, failures[], checker_cmd, files[], theorems[])."""
    t0 = time.time()
    res = dict(ok=False, obligations=0, discharged=0, axioms=[], failures=[], files=[], theorems=[], assumptions={})
    lock = open(COQ / ".build.lock", "w")
    fcntl.flock(lock, fcntl.LOCK_EX)
    try:
        ok, out = regenerate_gen()
        if not ok:
            res["failures"].append("translator: " + out.strip()[-400:])
        run(["bash", str(COQ / "gen_project.sh")])
        target = f"theories/Props/{pid}.vo"
        props = COQ / "theories" / "Props" / f"{pid}.v"
        if not props.exists():
            res["failures"].append(f"no Props/{pid}.v")
            return res
        cmd = ["timeout", "1500", "make", "-j16", target]
        res["checker_cmd"] = f"cd {COQ} && {' '.join(cmd)} && coqc -Q theories GL theories/Props/{pid}.v" + (
            f" && coqchk -silent -o -Q theories GL GL.Props.{pid}" if tier == "thorough" else ""
        )
        rc, out = run(cmd, cwd=COQ, timeout=1600)
        build_ok = rc == 0
        if not build_ok:
            m = re.findall(r'File "([^"]+)", line (\d+)[^\n]*\n(?:[^\n]*\n){0,6}?Error:[^\n]*(?:\n[^\n]+){0,3}', out)
            tail = out.strip()[-600:]
            res["failures"].append("coq build failed: " + tail)
        files = cone_of(props)
        res["files"] = sorted(str(f.relative_to(COQ)) for f in files)
        # forbidden constructs anywhere in the cone
        for f in files:
            src = _strip_comments(f.read_text())
            for m in FORBIDDEN.finditer(src):
                res["failures"].append(f"forbidden construct {m.group(1)!r} in {f.relative_to(COQ)}")
        # obligations: named statements of the cone; discharged where the .vo was produced by this build
        obligations = 0
        discharged = 0
        # when the build failed: the files named in Coq's error messages, and everything that depends on one of them, are not
        # discharged even where a .vo of an earlier build is still lying around
        failed_files = set()
        if not build_ok:
            for fn in re.findall(r'File "\./(theories/[^"]+\.v)"', out):
                failed_files.add((COQ / fn).resolve())
        for f in files:
            src = _strip_comments(f.read_text())
            names = STMT.findall(src)
            obligations += len(names)
            vo = f.with_suffix(".vo")
            tainted = bool(failed_files) and any(g.resolve() in failed_files for g in cone_of(f))
            if vo.exists() and vo.stat().st_mtime >= f.stat().st_mtime and not tainted:
                discharged += len(names)
            if f == props:
                res["theorems"] = [n for _, n in names]
        res["obligations"] = obligations
        res["discharged"] = discharged
        # Print Assumptions: re-run the Props file itself and read what the kernel says
        if build_ok:
            rc2, out2 = run(["timeout", "600", "coqc", "-Q", "theories", "GL", f"theories/Props/{pid}.v"], cwd=COQ)
            if rc2 != 0:
                res["failures"].append("coqc Props failed: " + out2.strip()[-400:])
            closed = out2.count("Closed under the global context")
            axioms = []
            primitives = []
            for blk in re.split(r"\n(?=Axioms:)", out2):
                if blk.startswith("Axioms:"):
                    for line in blk.splitlines()[1:]:
                        if " ".join(line.split()) in KERNEL_PRIMITIVES:
                            primitives.append(" ".join(line.split()))
                            continue
                        mm = re.match(r"^([A-Za-z0-9_.']+)\s*(?::|$)", line)
                        if mm:
                            axioms.append(mm.group(1))
            res["axioms"] = sorted(set(axioms))
            res["kernel_primitives"] = sorted(set(primitives))
            # only axioms the standard library itself declares may appear (the real numbers behind Flocq, C09's
            # floating-point theorems; DESIGN section 7 names each of them)
            for a in res["axioms"]:
                if a not in ALLOWED_AXIOMS:
                    res["failures"].append(f"Print Assumptions reports an axiom outside the declared trusted base: {a}")
            res["assumptions"] = dict(closed=closed, with_axioms=out2.count("Axioms:"))
            n_print = len(re.findall(r"Print Assumptions", _strip_comments(props.read_text())))
            if closed + out2.count("Axioms:") < n_print:
                res["failures"].append("Print Assumptions output incomplete")
            if tier == "thorough":
                rc3, out3 = run(["timeout", "1500", "coqchk", "-silent", "-o", "-Q", "theories", "GL", f"GL.Props.{pid}"], cwd=COQ, timeout=1600)
                res["coqchk"] = out3.strip()[-1500:]
                if rc3 != 0:
                    res["failures"].append("coqchk failed: " + out3.strip()[-300:])
        res["ok"] = build_ok and not res["failures"]
    finally:
        fcntl.flock(lock, fcntl.LOCK_UN)
        lock.close()
    res["wall_s"] = round(time.time() - t0, 2)
    return res


def ensure_driver() -> tuple[bool, str]:
    """(Re)build the extracted model + driver when sources are newer than the binary."""
    lock = open(COQ / ".build.lock", "w")
    fcntl.flock(lock, fcntl.LOCK_EX)
    try:
        exe = OCAML / "driver"
        # everything Extract.v imports, transitively (Model / Spec / Lib and the few Proofs files whose definitions are extracted)
        imported = [f for f in cone_of(COQ / "Extract.v") if f != COQ / "Extract.v"]
        srcs = [COQ / "Extract.v", OCAML / "driver.ml"] + imported
        if exe.exists() and all(exe.stat().st_mtime >= s.stat().st_mtime for s in srcs):
            return True, "up to date"
        run(["bash", str(COQ / "gen_project.sh")])
        rc, out = run(["timeout", "1500", "make", "-j16"] + sorted(str(f.relative_to(COQ).with_suffix(".vo")) for f in imported), cwd=COQ, timeout=1600)
        if rc != 0:
            return False, out[-800:]
        rc, out = run(["coqc", "-Q", str(COQ / "theories"), "GL", str(COQ / "Extract.v")], cwd=OCAML)
        if rc != 0:
            return False, out[-800:]
        rc, out = run(["ocamlfind", "ocamlopt", "-w", "-a", "model.mli", "model.ml", "driver.ml", "-o", "driver"], cwd=OCAML)
        if rc != 0:
            return False, out[-800:]
        return True, "rebuilt"
    finally:
        fcntl.flock(lock, fcntl.LOCK_UN)
        lock.close()
