"""Entry point of every check:  python -m harness.main Cxx --tier quick|thorough [--replay f]

Decision procedure (DESIGN §3.4):
  1 proof stage   (regenerate Gen/*.v, build the cone of Props/Cxx.v, Print Assumptions)
  2 correspondence stage (corpus -> exhaustive small scope -> seeded random) on the
    implementation, the code-model and the specification
  3 decide: spec violation not in KNOWN_FINDINGS -> VIOLATION with the input as replay;
            broken proof / correspondence -> widened search, then VIOLATION ... no-failing-input-found;
            else KNOWN-FINDING lines and exit 0
  4 always rewrite evidence/Cxx.json
"""
from __future__ import annotations

import argparse
import contextlib
import hashlib
import importlib
import json
import os
import subprocess
import sys
import time
import traceback
import warnings
from pathlib import Path

from . import coqbuild
from .common import VERIF, REPO, log


LEVELS = json.loads((VERIF / "harness" / "levels.json").read_text())


class _Journal(list):
    """The list of violations; the first few are also appended to a side file (VERIF_JOURNAL, set by bin/check) the moment
    they are found, so that a failing input survives an interpreter crash inside the implementation later in the run."""

    def append(self, v):
        super().append(v)
        j = os.environ.get("VERIF_JOURNAL")
        if j and len(self) <= 40:
            try:
                with open(j, "a") as fh:
                    fh.write(json.dumps(v, default=str) + "\n")
            except OSError:
                pass


class Result:
    """What a property module reports back."""

    def __init__(self):
        self.evaluations = 0
        self.nontrivial = set()          # hashes of distinct non-trivial cases
        self.samples = []
        self.rule = ""
        self.violations = _Journal()     # dicts: sig{}, case{}, observed, expected, what
        self.model_mismatches = []       # dicts: case{}, impl, model  (correspondence broken)
        self.hist = {}                   # input-distribution histograms
        self.extra = {}
        self.traces_validated = 0
        self.exhaustive = False

    def count(self, key, sub):
        d = self.hist.setdefault(key, {})
        d[str(sub)] = d.get(str(sub), 0) + 1

    def note_case(self, canonical: str, nontrivial: bool):
        self.evaluations += 1
        if nontrivial:
            self.nontrivial.add(hashlib.blake2b(canonical.encode(), digest_size=8).digest())

    def sample(self, case, limit=6):
        if len(self.samples) < limit:
            self.samples.append(case)


def load_findings():
    p = VERIF / "KNOWN_FINDINGS.json"
    if not p.exists():
        return []
    return [f for f in json.loads(p.read_text()).get("findings", []) if f.get("status", "known") == "known"]


def matches(finding, pid, sig):
    if finding["property"] != pid:
        return False
    for k, v in finding.get("match", {}).items():
        sv = sig.get(k)
        if isinstance(v, list):
            if sv not in v:
                return False
        elif sv != v:
            return False
    return True


def write_replay(pid, payload) -> Path:
    d = Path(os.environ.get("VERIF_REPLAY_DIR", str(VERIF / "replays")))
    d.mkdir(exist_ok=True, parents=True)
    blob = json.dumps(payload, sort_keys=True, default=str)
    h = hashlib.sha256(blob.encode()).hexdigest()[:12]
    p = d / f"{pid}-{h}.json"
    p.write_text(json.dumps(payload, indent=1, sort_keys=True, default=str))
    return p


def validate_evidence(path: Path) -> str | None:
    code = (
        "import json,sys,jsonschema;"
        "s=json.load(open('/root/.vp/EVIDENCE.schema.json'));"
        "jsonschema.validate(json.load(open(sys.argv[1])),s)"
    )
    schema = Path("/root/.vp/EVIDENCE.schema.json")
    if not schema.exists():
        return None
    try:
        p = subprocess.run(["python3-vt", "-c", code, str(path)], stdout=subprocess.PIPE, stderr=subprocess.STDOUT, timeout=120)
    except (FileNotFoundError, subprocess.TimeoutExpired):
        return None
    return None if p.returncode == 0 else p.stdout.decode()[-600:]


def main(argv=None):
    ap = argparse.ArgumentParser()
    ap.add_argument("pid")
    ap.add_argument("--tier", default=os.environ.get("VERIF_TIER", "quick"), choices=["quick", "thorough"])
    ap.add_argument("--replay", default=None)
    ap.add_argument("--no-proof", action="store_true", help="skip the proof stage (debugging only; never registered)")
    args = ap.parse_args(argv)
    pid = args.pid.upper()
    seed = int(os.environ.get("VERIF_SEED", "0"))
    t0 = time.time()
    warnings.filterwarnings("ignore")
    mod = importlib.import_module(f"harness.props.{pid.lower()}")

    if args.replay:
        payload = json.loads(Path(args.replay).read_text())
        ok, msg = mod.replay(payload)
        print(msg)
        if not ok:
            print(f"VIOLATION property={pid} replay={args.replay}")
            return 1
        return 0

    level = LEVELS[pid]["level"]
    # ---- 1 proof stage
    if args.no_proof:
        proof = dict(ok=True, obligations=0, discharged=0, axioms=[], failures=[], checker_cmd="(skipped)", files=[], theorems=[])
    else:
        proof = coqbuild.check_props(pid, args.tier)
    ok_drv, drv_msg = coqbuild.ensure_driver()
    if not ok_drv:
        proof["failures"].append("extraction/driver build failed: " + drv_msg)
        proof["ok"] = False
    log(f"[{pid}] proof stage: ok={proof['ok']} obligations={proof['obligations']} discharged={proof['discharged']} axioms={proof['axioms']} ({proof.get('wall_s')}s)")
    for f in proof["failures"]:
        log(f"[{pid}]   proof failure: {f[:300]}")

    # ---- 2 correspondence stage
    res = Result()
    crashed = None
    try:
        with contextlib.redirect_stdout(sys.stderr):   # the library prints progress messages on stdout
            mod.run(res, tier=args.tier, seed=seed, widen=False)
            if (not proof["ok"] or res.model_mismatches) and not res.violations:
                log(f"[{pid}] proof or correspondence broken and no failing input yet: widening the search")
                mod.run(res, tier="thorough", seed=seed + 1, widen=True)
    except Exception as e:  # the harness itself failed: that is a broken check, reported as such
        crashed = traceback.format_exc()
        log(crashed)

    # ---- 3 decide
    findings = load_findings()
    known_hit = {}
    new_violations = []
    for v in res.violations:
        hit = next((f for f in findings if matches(f, pid, v.get("sig", {}))), None)
        if hit:
            known_hit.setdefault(hit["id"], (hit, v))
        else:
            new_violations.append(v)

    exit_code = 0
    lines = []
    sig_hist = {}
    for v in new_violations:
        k = json.dumps(v.get("sig", {}), sort_keys=True)
        sig_hist[k] = sig_hist.get(k, 0) + 1
    for k, n in sorted(sig_hist.items(), key=lambda kv: -kv[1])[:25]:
        log(f"[{pid}]   violation x{n}: {k}")
    for mmm in res.model_mismatches[:5]:
        log(f"[{pid}]   model mismatch: {json.dumps(mmm, default=str)[:600]}")
    if new_violations:
        v = min(new_violations, key=lambda v: len(json.dumps(v.get("case"), default=str)))
        rp = write_replay(pid, dict(property=pid, kind="failing-input", what=v.get("what"), sig=v.get("sig"), case=v.get("case"),
                                    observed=v.get("observed"), expected=v.get("expected"),
                                    how=f"./bin/check {pid} --replay <this file>", n_violations=len(new_violations)))
        lines.append(f"VIOLATION property={pid} replay={rp}")
        exit_code = 1
    elif crashed or not proof["ok"] or res.model_mismatches:
        broken = []
        if crashed:
            broken.append("harness crashed: " + crashed[-800:])
        broken += proof["failures"]
        mm = res.model_mismatches[:3]
        if res.model_mismatches:
            broken.append(f"correspondence impl != code-model on {len(res.model_mismatches)} case(s)")
        rp = write_replay(pid, dict(property=pid, kind="no-failing-input-found", broken=broken, theorems=proof.get("theorems"),
                                    diverging_inputs=mm, searched=dict(evaluations=res.evaluations, distinct_nontrivial=len(res.nontrivial))))
        lines.append(f"VIOLATION property={pid} replay={rp} no-failing-input-found")
        exit_code = 1
    for fid, (f, v) in sorted(known_hit.items()):
        lines.append(f"KNOWN-FINDING: property={pid} {fid}: {f['what']}")

    # ---- 4 evidence
    cov = dict(
        evaluations=res.evaluations,
        distinct_nontrivial=len(res.nontrivial),
        rule=res.rule,
        samples=res.samples,
        traces_validated_against_impl=res.traces_validated or res.evaluations,
        exhaustive=res.exhaustive,
        input_distribution=res.hist,
        known_findings_reproduced=sorted(known_hit),
        model_mismatches=len(res.model_mismatches),
        **res.extra,
    )
    tb = [
        "Coq 8.16.1 kernel (coqc; thorough tier re-checks with coqchk); no native_compute",
        "axioms reported by Print Assumptions: " + (", ".join(proof["axioms"]) if proof["axioms"] else ("none besides the kernel primitives named next" if proof.get("kernel_primitives") else "none (Closed under the global context)")),
    ] + (["kernel primitives the theorems about the bit-exact float model depend on (Coq's native binary64 floats, listed by Print Assumptions; not declarations of this development): "
          + "; ".join(proof.get("kernel_primitives", []))] if proof.get("kernel_primitives") else []) + [
        "translator/py2coq.py + pins.py (scalar layer, tables and the statements of every transcribed function regenerated from /repo on this run; tied by Proofs/GenTie.v, Proofs/Tie*.v, Proofs/Pin*.v)",
        "extraction: ExtrOcamlBasic only, no Extract Constant/Inductive of ours; ocaml/driver.ml (parsing/printing)",
        "correspondence harness: generators, canonicalisation, comparators (harness/)",
    ] + LEVELS[pid].get("trusted", [])
    if level == "proof":
        cov.update(obligations=proof["obligations"], discharged=proof["discharged"] if proof["ok"] or proof["discharged"] < proof["obligations"] else 0,
                   checker_cmd=proof.get("checker_cmd", ""), trusted_base=tb, theorems=proof.get("theorems"), cone=proof.get("files"))
    elif level == "translation_validation":
        cov.update(programs=max(1, res.extra.get("programs", res.evaluations)), disagreements_checked=len(res.violations) + len(res.model_mismatches),
                   obligations=proof["obligations"], discharged=proof["discharged"], checker_cmd=proof.get("checker_cmd", ""), trusted_base=tb)
    else:
        cov.update(explanation=LEVELS[pid].get("explanation", ""), obligations=proof["obligations"], discharged=proof["discharged"],
                   checker_cmd=proof.get("checker_cmd", ""), trusted_base=tb)
    ev = dict(
        property_id=pid,
        tier=args.tier,
        seed=seed,
        level=level,
        coverage=cov,
        assumptions=LEVELS[pid].get("assumptions", []),
        wall_s=round(time.time() - t0, 2),
        violations=len(new_violations) + (1 if exit_code and not new_violations else 0),
    )
    evp = Path(os.environ.get("VERIF_EVIDENCE_DIR", str(VERIF / "evidence"))) / f"{pid}.json"
    evp.parent.mkdir(exist_ok=True, parents=True)
    evp.write_text(json.dumps(ev, indent=1, default=str))
    bad = validate_evidence(evp)
    if bad:
        log(f"[{pid}] evidence does not validate: {bad}")
    for l in lines:
        print(l)
    log(f"[{pid}] tier={args.tier} evaluations={res.evaluations} distinct_nontrivial={len(res.nontrivial)} "
        f"violations={len(new_violations)} known={sorted(known_hit)} mismatches={len(res.model_mismatches)} wall={ev['wall_s']}s exit={exit_code}")
    return exit_code


if __name__ == "__main__":
    sys.exit(main())
