"""Kernel-level adapters for the row-aligned operations (head/tail/nth, cumulative,
rolling, shift/diff, EMA): real numba kernels vs extracted model vs extracted spec."""
from __future__ import annotations

import itertools
import random
from fractions import Fraction

import numpy as np

from .common import MIN_INT, atom_to_val, err_kind, sx, val_to_atom
from .kernels import DT, canon_array, domkey, make_array


def bmask_sx(mask):
    return "none" if mask is None else ["b"] + [1 if b else 0 for b in mask]


def np_mask(mask):
    return None if mask is None else np.array(mask, dtype=bool)


def atoms(vals, dom):
    return [val_to_atom(v, domkey(dom)) for v in vals]


def decode_vals(resp, dom):
    if isinstance(resp, list) and resp and resp[0] == "fail":
        raise RuntimeError(f"driver failure: {resp}")
    return [atom_to_val(a, domkey(dom)) for a in resp]


# ------------------------------------------------------------------ selection kernels
def impl_find_nth(nbf, codes, ng, n, mask):
    try:
        out = nbf._find_nth(np.array(codes, dtype="int64"), ng, n, np_mask(mask))
        return ("ok", [int(x) for x in out.tolist()])
    except Exception as e:  # noqa: BLE001
        return ("err", err_kind(e), repr(e)[:200])


def impl_first_last_n(nbf, codes, ng, n, mask, forward):
    try:
        out = nbf._find_first_or_last_n(np.array(codes, dtype="int64"), ng, n, np_mask(mask), forward)
        return ("ok", [[int(x) for x in row] for row in np.asarray(out).tolist()])
    except Exception as e:  # noqa: BLE001
        return ("err", err_kind(e), repr(e)[:200])


# ------------------------------------------------------------------ cumulative
def cum_dom(op, dt):
    return DT[dt]["dom"]


def impl_cumulative(nbf, op, dt, codes, vals, ng, mask, skip_na):
    key = np.array(codes, dtype="int64")
    try:
        if op == "count":
            out = nbf.cumcount(key, None, ng, np_mask(mask))
            return ("ok", [int(x) for x in np.asarray(out).tolist()], str(np.asarray(out).dtype))
        arr = make_array(vals, dt)
        f = getattr(nbf, "cum" + op)
        out = f(key, arr, ng, np_mask(mask), skip_na)
        dom = "i" if (op == "sum" and dt in ("i4", "u1", "b")) else DT[dt]["dom"]
        return ("ok", canon_array(out, dom), str(np.asarray(out).dtype))
    except Exception as e:  # noqa: BLE001
        return ("err", err_kind(e), repr(e)[:200])


def cum_requests(op, dt, codes, vals, ng, mask, skip_na):
    if op == "count":
        dom, v = "i", list(codes)
    else:
        dom, v = DT[dt]["dom"], vals
        if op == "sum" and dt in ("i4", "u1", "b"):
            dom = "i"      # integer sums accumulate in int64, whose null marker is the int64 sentinel
    temporal = 1 if dt in ("M8", "m8") and op != "count" else 0    # orig_dtype.kind in "mM": the non-skipping sum keeps NaT
    m = sx(["cumulative", dom, temporal, op, 1 if skip_na else 0, list(codes), atoms(v, dom), ng, bmask_sx(mask)])
    if skip_na:
        s = sx(["cum_spec", dom, op, list(codes), atoms(v, dom), bmask_sx(mask)])
    elif op == "sum":
        s = sx(["cumsum_noskip_spec", dom, list(codes), atoms(v, dom), bmask_sx(mask)])
    elif op in ("min", "max"):
        # skip_na=False: a null that is not skipped makes the running extreme null from there on, wherever it stands
        s = sx(["cumext_noskip_spec", dom, 1 if op == "max" else 0, list(codes), atoms(v, dom), bmask_sx(mask)])
    else:
        s = None
    return m, s, dom


# ------------------------------------------------------------------ rolling
def roll_dom(kind, dt):
    """non-temporal inputs are down-cast to float64 (allow_downcasting), temporal stay int64"""
    return "i" if dt in ("M8", "m8") else "f"


def impl_rolling(nbf, kind, dt, codes, vals, ng, window, min_periods, mask):
    key = np.array(codes, dtype="int64")
    arr = make_array(vals, dt)
    try:
        if kind in ("shift", "diff"):
            out = getattr(nbf, "rolling_" + kind)(key, arr, ng, window, np_mask(mask))
        else:
            out = getattr(nbf, "rolling_" + kind)(key, arr, ng, window, min_periods, np_mask(mask))
        out = np.asarray(out)
        return ("ok", canon_array(out, roll_dom(kind, dt)), str(out.dtype))
    except Exception as e:  # noqa: BLE001
        return ("err", err_kind(e), repr(e)[:200])


def roll_requests(kind, dt, codes, vals, ng, window, min_periods, mask):
    dom = roll_dom(kind, dt)
    if dom == "f":
        v = [None if x is None else Fraction(x) for x in vals]
    else:
        v = vals
    m = sx(["rolling", dom, kind, list(codes), atoms(v, dom), ng, window, min_periods, bmask_sx(mask)])
    s = sx(["window_spec", dom, kind, list(codes), atoms(v, dom), window, min_periods, bmask_sx(mask)])
    return m, s, dom


# ------------------------------------------------------------------ EMA
def impl_ema_grouped(codes, vals, ng, mask, alpha=None, halflife=None, times=None, dtype="float64", time_unit="ns"):
    from groupby_lib import ema_grouped
    key = np.array(codes, dtype="int64")
    arr = np.array([np.nan if v is None else float(v) for v in vals], dtype=dtype) if "float" in dtype else np.array([int(v) for v in vals], dtype=dtype)
    kw = {}
    if alpha is not None:
        kw["alpha"] = float(alpha)
    if halflife is not None:
        kw["halflife"] = halflife
    if times is not None:
        kw["times"] = np.array(times, dtype="int64").view(f"datetime64[{time_unit}]")
    try:
        out = ema_grouped(key, ng, arr, mask=np_mask(mask), **kw)
        return ("ok", [None if np.isnan(x) else float(x) for x in np.asarray(out).tolist()])
    except Exception as e:  # noqa: BLE001
        return ("err", err_kind(e), repr(e)[:200])


def frac_list_to_floats(vals):
    """model/spec Fractions -> correctly rounded doubles (None = null)"""
    return [None if v is None else float(v) for v in vals]
