"""Adapters between logical datasets and the real array-level kernels of
groupby_lib.groupby.numba, plus the matching model / spec requests."""
from __future__ import annotations

from fractions import Fraction

import numpy as np
import pyarrow as pa

from .common import to_frac, MIN_INT, atom_to_val, err_kind, mask_sx, sx, val_to_atom

# dtype classes: numpy dtype, model domain, whether logical nulls exist
DT = {
    "f8": dict(np="float64", dom="f", nullable=True),
    "f4": dict(np="float32", dom="f", nullable=True),
    "i8": dict(np="int64", dom="i", nullable=False),
    "i4": dict(np="int32", dom=["n", -(2**31)], nullable=False),
    "u1": dict(np="uint8", dom=["n", 255], nullable=False),
    "b": dict(np="bool", dom=["n", 0], nullable=False),
    "M8": dict(np="datetime64[ns]", dom="i", nullable=True),
    "m8": dict(np="timedelta64[ns]", dom="i", nullable=True),
}


def domkey(dom):
    return "f" if dom == "f" else ("i" if dom == "i" else "n")


def make_array(vals, dt: str) -> np.ndarray:
    info = DT[dt]
    if dt in ("f8", "f4"):
        return np.array([np.nan if v is None else float(v) for v in vals], dtype=info["np"])
    if dt in ("M8", "m8"):
        return np.array([MIN_INT if v is None else int(v) for v in vals], dtype="int64").view(info["np"])
    if dt == "b":
        return np.array([bool(v) for v in vals], dtype=bool)
    return np.array([int(v) for v in vals], dtype=info["np"])


def canon_array(arr, dom) -> list:
    """impl output -> logical values (None = null)"""
    arr = np.asarray(arr)
    k = arr.dtype.kind
    if k == "f":
        return [None if np.isnan(x) else to_frac(x) for x in arr.tolist()] if arr.dtype == np.float64 else [
            None if np.isnan(x) else to_frac(x) for x in arr.astype("float64").tolist()
        ]
    if k in "mM":
        ints = arr.view("int64").tolist()
        return [None if x == MIN_INT else x for x in ints]
    if k == "b":
        return [int(x) for x in arr.tolist()]
    out = [int(x) for x in arr.tolist()]
    if dom == "i":
        out = [None if x == MIN_INT else x for x in out]
    return out


def make_mask(mask):
    if mask is None:
        return None
    k = mask[0]
    if k == "b":
        return np.array(mask[1], dtype=bool)
    if k == "s":
        return slice(mask[1], mask[2])
    if k == "i":
        return np.array(mask[1], dtype="int64")
    raise ValueError(mask)


def selected_positions(n, mask):
    """NumPy indexing semantics, as positions (for bookkeeping in generators only)"""
    if mask is None:
        return list(range(n))
    k = mask[0]
    if k == "b":
        return [i for i, b in enumerate(mask[1]) if b]
    if k == "s":
        return list(range(n))[slice(mask[1], mask[2])]
    return [i if i >= 0 else i + n for i in mask[1]]


# kernel -> (reducer name as a function of dtype, spec op)
def reducer_name(kernel: str, dt: str) -> str:
    if kernel == "sum":
        return "sum" if dt in ("i8", "i4", "u1") else "nansum"
    return {
        "size": "count", "count": "nancount", "sum_squares": "nansum_squares", "mean": "nansum",
        "min": "nanmin", "max": "nanmax", "first": "first", "last": "last",
    }[kernel]


SPEC_OP = {"size": "size", "count": "count", "sum": "sum", "sum_squares": "sumsq", "mean": "sum",
           "min": "min", "max": "max", "first": "first", "last": "last"}
KERNELS = ["size", "count", "sum", "sum_squares", "mean", "min", "max", "first", "last"]


def effective_dom(kernel, dt):
    """model domain of the call: squares are taken after conversion to float64"""
    if kernel == "sum_squares":
        return "f"
    return DT[dt]["dom"]


def call_group_kernel(nbf, kernel, dt, codes, vals, ngroups, mask, n_threads, chunk_lens=None):
    """-> ('ok', result_logical, count_list) | ('err', kind)"""
    key = np.array(codes, dtype="int64")
    m = make_mask(mask)
    try:
        if kernel == "size":
            out = nbf.group_size(key, ngroups, mask=m, n_threads=n_threads)
            c = [int(x) for x in np.asarray(out).tolist()]
            return ("ok", c, c)
        arr = make_array(vals, dt)
        if chunk_lens:
            pieces, st = [], 0
            for ln in chunk_lens:
                pieces.append(pa.array(arr[st: st + ln]))
                st += ln
            values = pa.chunked_array(pieces)
        else:
            values = arr
        f = getattr(nbf, "group_" + kernel)
        res, cnt = f(key, values, ngroups, mask=m, n_threads=n_threads, return_count=True)
        cnt = [int(x) for x in np.asarray(cnt).tolist()]
        if kernel == "count":
            return ("ok", [int(x) for x in np.asarray(res).tolist()], cnt)
        return ("ok", canon_array(res, effective_dom(kernel, dt)), cnt)
    except Exception as e:  # noqa: BLE001
        return ("err", err_kind(e), repr(e)[:200])


def model_request(kernel, dt, codes, vals, ngroups, mask, n_threads, chunk_lens=None) -> str:
    dom = effective_dom(kernel, dt)
    if kernel == "size":
        dom = "i"
        vals = codes
    atoms = [val_to_atom(v, domkey(dom)) for v in vals]
    if chunk_lens:
        chunks, st = [], 0
        for ln in chunk_lens:
            chunks.append(atoms[st: st + ln])
            st += ln
    else:
        chunks = [atoms]
    return sx(["group_func_wrap", dom, reducer_name(kernel, dt), list(codes), chunks, ngroups, mask_sx(mask), n_threads])


def spec_request(kernel, dt, codes, vals, ngroups, mask) -> str:
    dom = effective_dom(kernel, dt)
    if kernel == "size":
        dom = "i"
        vals = codes
    atoms = [val_to_atom(v, domkey(dom)) for v in vals]
    return sx(["spec_reduce", dom, SPEC_OP[kernel], list(codes), atoms, ngroups, mask_sx(mask)])


def decode_model(resp, kernel, dt):
    """model response -> ('ok', values, counts) | ('err', kind)"""
    if resp[0] == "err":
        return ("err", resp[1])
    if resp[0] != "ok":
        raise RuntimeError(f"driver failure: {resp}")
    dom = effective_dom(kernel, dt)
    if kernel == "size":
        dom = "i"
    rv = [atom_to_val(a, domkey(dom)) for a in resp[1]]
    rc = [int(a) for a in resp[2]]
    return ("ok", rv, rc)


def expected_from(kernel, dt, values, counts):
    """Turn (sum/accumulator, count) arrays from model or spec into what the kernel must return."""
    if kernel in ("size", "count"):
        return list(counts)
    if kernel == "mean":
        out = []
        for s, c in zip(values, counts):
            if s is None and c and not DT[dt]["nullable"]:
                s = MIN_INT      # plain integers hold no nulls: a sum equal to the int64 minimum is a number (decoding shows it as the marker)
            if c == 0 or s is None:
                out.append(None)
            else:
                q = float(s) / c                      # numpy true_divide on float64 operands
                if dt in ("M8", "m8"):
                    out.append(int(q))               # astype(datetime64) truncates
                else:
                    out.append(Fraction(q))
        return out
    return list(values)
