"""Shared infrastructure of the verification harness: paths, S-expressions,
the OCaml model driver, value canonicalisation, evidence writing, findings."""
from __future__ import annotations

import hashlib
import json
import os
import subprocess
import sys
import time
from fractions import Fraction
from pathlib import Path

VERIF = Path(__file__).resolve().parent.parent
REPO = Path(os.environ.get("VERIF_REPO", "/repo"))
COQ = VERIF / "coq"
OCAML = VERIF / "ocaml"
MIN_INT = -(2**63)


# ------------------------------------------------------------------ sexp
def sx(x) -> str:
    """Serialise nested lists / atoms into an S-expression."""
    if isinstance(x, (list, tuple)):
        return "(" + " ".join(sx(i) for i in x) + ")"
    if x is None:
        return "_"
    if isinstance(x, bool):
        return "1" if x else "0"
    if isinstance(x, Fraction):
        return str(x.numerator) if x.denominator == 1 else f"{x.numerator}/{x.denominator}"
    return str(x)


def parse_sx(s: str):
    pos = 0
    n = len(s)

    def item():
        nonlocal pos
        while pos < n and s[pos] == " ":
            pos += 1
        if s[pos] == "(":
            pos += 1
            out = []
            while True:
                while pos < n and s[pos] == " ":
                    pos += 1
                if s[pos] == ")":
                    pos += 1
                    return out
                out.append(item())
        st = pos
        while pos < n and s[pos] not in " ()":
            pos += 1
        return s[st:pos]

    return item()


# ------------------------------------------------------------------ driver
class Driver:
    """One extracted-model process; requests are batched."""

    def __init__(self):
        exe = OCAML / "driver"
        if not exe.exists():
            raise RuntimeError("model driver not built; run ./bin/setup")
        self.exe = str(exe)
        self.n_requests = 0

    def ask(self, requests: list[str]) -> list:
        if not requests:
            return []
        self.n_requests += len(requests)
        data = "\n".join(requests) + "\n"
        p = subprocess.run(
            ["bash", "-c", f"ulimit -s unlimited 2>/dev/null; exec {self.exe}"],
            input=data.encode(),
            stdout=subprocess.PIPE,
            stderr=subprocess.PIPE,
            timeout=3600,
        )
        lines = p.stdout.decode().splitlines()
        if len(lines) != len(requests):
            raise RuntimeError(
                f"driver answered {len(lines)} lines for {len(requests)} requests; stderr={p.stderr.decode()[:500]}"
            )
        return [parse_sx(l) for l in lines]


# ------------------------------------------------------------------ values
def atom_to_val(a: str, dom: str):
    """model atom -> logical value (None = null)"""
    if a == "nan":
        return None
    if "/" in a:
        p, q = a.split("/")
        return Fraction(int(p), int(q))
    v = int(a)
    if dom == "f":
        return Fraction(v)
    if dom == "i" and v == MIN_INT:
        return None
    return v


def val_to_atom(v, dom: str) -> str:
    if v is None:
        return "nan" if dom == "f" else str(MIN_INT)
    if isinstance(v, Fraction):
        return sx(v)
    if isinstance(v, bool):
        return "1" if v else "0"
    return str(v)


def mask_sx(mask):
    """logical mask -> sexp. mask: None | ('b', [bool]) | ('s', start, stop) | ('i', [int])"""
    if mask is None:
        return "none"
    k = mask[0]
    if k == "b":
        return ["b"] + [1 if b else 0 for b in mask[1]]
    if k == "s":
        return ["s", mask[1], mask[2]]
    if k == "i":
        return ["i"] + list(mask[1])
    raise ValueError(mask)


# ------------------------------------------------------------------ source hash / numba cache
def repo_source_hash() -> str:
    h = hashlib.sha256()
    for p in sorted((REPO / "groupby_lib").rglob("*.py")):
        h.update(str(p.relative_to(REPO)).encode())
        h.update(p.read_bytes())
    return h.hexdigest()[:20]


# ------------------------------------------------------------------ errors
def err_kind(exc: BaseException) -> str:
    if isinstance(exc, ValueError):
        return "value"
    if isinstance(exc, TypeError):
        return "type"
    if isinstance(exc, IndexError):
        return "index"
    if isinstance(exc, AssertionError):
        return "assert"
    return "other"


class Stopwatch:
    def __init__(self):
        self.t0 = time.time()

    def s(self):
        return round(time.time() - self.t0, 2)


def log(*a):
    print(*a, file=sys.stderr, flush=True)


def to_frac(x):
    """float -> exact Fraction; an infinity becomes a huge value of its own (never equal to a finite expectation)"""
    import math
    from fractions import Fraction
    x = float(x)
    if math.isinf(x):
        return Fraction(10) ** 400 if x > 0 else -(Fraction(10) ** 400)
    return Fraction(x)
