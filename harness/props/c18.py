"""C18 — misaligned inputs are rejected, never silently mis-grouped; aligned inputs are accepted.

Exhaustive over the public surface: every public method of GroupBy that takes array-like
arguments (discovered by introspection, so new methods are picked up), the stand-alone
ema / ema_grouped, and the array-level kernels of groupby_lib.groupby.numba.  For each
callable a valid aligned call is built; then each array-like argument (values, second values,
boolean masks, timestamps) is, one at a time, made misaligned:
   length off by -2, -1, +1, +2 (NumPy array and pandas Series)
   pandas index permuted / shifted / with a duplicated label while the keys carry a pandas index
Expected outcome, from the validator model (Coq, Model/Validate.v):
   misaligned -> an exception;   aligned -> no exception."""
from __future__ import annotations

import inspect
import random

import numpy as np
import pandas as pd

from ..common import Driver, log, sx

N = 6
ARRAY_PARAMS = ["values", "values1", "values2", "mask", "subset_mask", "global_mask", "times"]
SKIP_METHODS = {"group_nearby_members"}          # documented as array-level helper on sorted values; length-checked below separately
EXTRA = dict(window=2, n=1, q=[0.5], agg_func="sum", func=np.sum, max_diff=1.0)


def base_arrays(index):
    vals = np.array([1.0, 2.0, np.nan, 4.0, 5.0, 6.0])
    return dict(values=vals, values1=vals, values2=np.array([2.0, 1.0, np.nan, 1.0, 2.0, 3.0]), mask=np.array([1, 1, 0, 1, 1, 1], dtype=bool),
                subset_mask=np.array([1, 0, 0, 1, 1, 0], dtype=bool), global_mask=np.array([1, 1, 1, 1, 0, 1], dtype=bool),
                times=(np.arange(N) * 10**9).astype("int64").view("datetime64[ns]"))


def resize(a, delta):
    if delta < 0:
        return a[:delta]
    return np.concatenate([a, a[:delta]])


def discover(GroupBy):
    out = []
    for name, f in inspect.getmembers(GroupBy, predicate=callable):
        if name.startswith("_") or name in SKIP_METHODS:
            continue
        try:
            sig = inspect.signature(f)
        except (TypeError, ValueError):
            continue
        params = [p for p in sig.parameters if p in ARRAY_PARAMS]
        if params:
            out.append((name, sig, params))
    return out


def build_kwargs(name, sig, arrays):
    kw = {}
    for p, par in sig.parameters.items():
        if p == "self":
            continue
        if p in ARRAY_PARAMS:
            if p == "times" and name != "ema":
                continue
            if p in ("mask", "global_mask", "times") and par.default is None and p == "times":
                pass
            kw[p] = arrays[p]
        elif p in EXTRA and par.default is inspect.Parameter.empty:
            kw[p] = EXTRA[p]
    if name == "ema":
        if "times" in kw:
            kw["halflife"] = "1s"
        else:
            kw["alpha"] = 0.5
    return kw


def call_method(gb, name, kw):
    return getattr(gb, name)(**kw)


def run(res, tier="quick", seed=0, widen=False):
    from groupby_lib import GroupBy, ema, ema_grouped
    from groupby_lib.groupby import numba as nbf

    rng = random.Random(seed * 43 + 18 + (1 if widen else 0))
    # 6 key rows: -5 leaves ONE element (nothing may broadcast it), -6 none, +6 doubles the length
    deltas = [-1, 1, -5, -6] if tier == "quick" else [-2, -1, 1, 2, -5, -6, 6]
    keys_np = np.array(["a", "b", "a", "b", "c", "a"], dtype=object)
    index = pd.Index([10, 11, 12, 13, 14, 15])
    methods = discover(GroupBy)
    res.rule = ("every public GroupBy method with array-like parameters (found by introspection: %d methods), ema / ema_grouped and the array-level kernels; each array-like "
                "argument made misaligned one at a time: length off by %s as NumPy array and as pandas Series; pandas index permuted / shifted / duplicated against keys with a "
                "pandas index; plus the aligned call; expected outcome = reject iff misaligned; exhaustive over this surface; non-trivial = a misaligned call; distinct = (callable, argument, perturbation)"
                % (len(methods), deltas))
    res.exhaustive = True
    res.extra["methods"] = [m[0] for m in methods]

    def record(case, misaligned, fn):
        res.note_case(repr(case), misaligned)
        res.count("callable", case["callable"]); res.count("perturbation", case["perturbation"])
        if len(res.samples) < 8 and rng.random() < 0.02:
            res.sample(case)
        try:
            fn()
            raised = None
        except Exception as e:  # noqa: BLE001
            raised = e
        if misaligned and raised is None:
            res.violations.append(dict(sig=dict(callable=case["callable"], arg=case["arg"], kind=case["perturbation"].split(":")[0], what="accepted-misaligned"), case=case, observed="returned a result", expected="an exception",
                                       what=f"{case['callable']} accepts {case['arg']} with {case['perturbation']}"))
        if not misaligned and raised is not None:
            res.violations.append(dict(sig=dict(callable=case["callable"], arg=case["arg"], what="rejected-aligned", exc=type(raised).__name__), case=case, observed=repr(raised)[:200], expected="a result",
                                       what=f"{case['callable']} rejects aligned inputs"))

    # ---------------- GroupBy methods
    for keys_kind in ["numpy", "pandas", "range"]:
        for name, sig, params in methods:
            arrays = base_arrays(index)
            kw0 = build_kwargs(name, sig, arrays)
            present = [p for p in params if p in kw0]
            if keys_kind == "pandas":
                keys = pd.Series(keys_np, index=index)
                kw_al = {k: (pd.Series(v, index=index) if k in present else v) for k, v in kw0.items()}
            elif keys_kind == "range":
                keys = pd.Series(keys_np)
                kw_al = {k: (pd.Series(v) if k in present else v) for k, v in kw0.items()}
            else:
                keys = keys_np
                kw_al = dict(kw0)
            record(dict(callable=f"GroupBy.{name}", arg="-", perturbation="aligned", keys=keys_kind), False, lambda: call_method(GroupBy(keys), name, kw_al))
            for p in present:
                for d in deltas:
                    for as_series in ([False, True] if keys_kind == "numpy" else [True]):
                        if keys_kind == "range":
                            continue
                        arr = resize(kw0[p], d)
                        bad = pd.Series(arr, index=list(index[: len(arr)]) + list(range(100, 100 + max(0, len(arr) - N)))) if as_series else arr
                        kw = dict(kw_al); kw[p] = bad
                        record(dict(callable=f"GroupBy.{name}", arg=p, perturbation=f"length:{d:+d}:{'series' if as_series else 'array'}", keys=keys_kind), True,
                               lambda kw=kw: call_method(GroupBy(keys), name, kw))
                if keys_kind == "pandas":
                    for pert, idx in [("index:permuted", [11, 10, 12, 13, 14, 15]), ("index:shifted", [11, 12, 13, 14, 15, 16]), ("index:duplicated", [10, 10, 12, 13, 14, 15]),
                                      ("index:range-instead", pd.RangeIndex(N))]:
                        kw = dict(kw_al); kw[p] = pd.Series(kw0[p], index=idx)
                        record(dict(callable=f"GroupBy.{name}", arg=p, perturbation=pert, keys=keys_kind), True, lambda kw=kw: call_method(GroupBy(keys), name, kw))
                        if pert in ("index:permuted", "index:shifted"):
                            # the same grouping, used again: a misaligned input stays rejected whatever was passed (and rejected or
                            # accepted) before — the same object again, another Series sharing its index, after an aligned call
                            gbh = GroupBy(keys)
                            try:
                                call_method(gbh, name, kw)
                            except Exception:  # noqa: BLE001
                                pass
                            record(dict(callable=f"GroupBy.{name}", arg=p, perturbation=pert + ":again-on-the-same-grouping", keys=keys_kind), True, lambda kw=kw, g=gbh: call_method(g, name, kw))
                            kw2 = dict(kw_al); kw2[p] = pd.Series(np.asarray(kw0[p]).copy(), index=kw[p].index)
                            record(dict(callable=f"GroupBy.{name}", arg=p, perturbation=pert + ":other-series-same-index", keys=keys_kind), True, lambda kw2=kw2, g=gbh: call_method(g, name, kw2))
                            record(dict(callable=f"GroupBy.{name}", arg="-", perturbation="aligned:after-rejections", keys=keys_kind), False, lambda g=gbh: call_method(g, name, kw_al))
                            record(dict(callable=f"GroupBy.{name}", arg=p, perturbation=pert + ":after-an-aligned-call", keys=keys_kind), True, lambda kw=kw, g=gbh: call_method(g, name, kw))
                    if p in ("values", "values1"):
                        # datetime-valued Series go through the timestamp conversion before the index check
                        dtv = pd.Series((np.arange(N) * 10**9).astype("int64").view("datetime64[ns]"), index=[11, 12, 13, 14, 15, 16])
                        if name in ("min", "max", "first", "last", "count", "cummax", "cummin", "shift"):
                            kw = dict(kw_al); kw[p] = dtv
                            record(dict(callable=f"GroupBy.{name}", arg=p, perturbation="index:shifted-datetime-values", keys=keys_kind), True, lambda kw=kw: call_method(GroupBy(keys), name, kw))
                if keys_kind == "range":
                    # keys with a default RangeIndex: other RangeIndexes of the same length are different indexes
                    for pert, idx in [("index:range-step2", pd.RangeIndex(0, 2 * N, 2)), ("index:range-start1", pd.RangeIndex(1, N + 1)), ("index:permuted", [1, 0, 2, 3, 4, 5])]:
                        kw = dict(kw_al); kw[p] = pd.Series(kw0[p], index=idx)
                        record(dict(callable=f"GroupBy.{name}", arg=p, perturbation=pert, keys=keys_kind), True, lambda kw=kw: call_method(GroupBy(keys), name, kw))
                if p in ("mask", "subset_mask", "global_mask") and keys_kind == "numpy":
                    import polars as pl, pyarrow as pa
                    for d in deltas:
                        for cont, mk in [("polars", lambda a: pl.Series(a)), ("pyarrow", lambda a: pa.array(a))]:
                            kw = dict(kw_al); kw[p] = mk(resize(kw0[p], d))
                            record(dict(callable=f"GroupBy.{name}", arg=p, perturbation=f"length:{d:+d}:{cont}", keys=keys_kind), True, lambda kw=kw: call_method(GroupBy(keys), name, kw))

    # ---------------- stand-alone EMA
    arrays = base_arrays(index)
    codes = np.array([0, 1, 0, 1, 2, 0], dtype="int64")
    record(dict(callable="ema", arg="-", perturbation="aligned"), False, lambda: ema(arrays["values"], halflife="1s", times=arrays["times"]))
    record(dict(callable="ema_grouped", arg="-", perturbation="aligned"), False, lambda: ema_grouped(codes, 3, arrays["values"], halflife="1s", times=arrays["times"], mask=arrays["mask"]))
    for d in deltas:
        record(dict(callable="ema", arg="times", perturbation=f"length:{d:+d}:array"), True, lambda d=d: ema(arrays["values"], halflife="1s", times=resize(arrays["times"], d)))
        for p in ["values", "times", "mask", "group_key"]:
            def f(p=p, d=d):
                a = dict(group_key=codes, values=arrays["values"], times=arrays["times"], mask=arrays["mask"])
                a[p] = resize(a[p], d)
                return ema_grouped(a["group_key"], 3, a["values"], halflife="1s", times=a["times"], mask=a["mask"])
            record(dict(callable="ema_grouped", arg=p, perturbation=f"length:{d:+d}:array"), True, f)

    # ---------------- array-level kernels
    kernels = [("group_sum", lambda k, v, m: nbf.group_sum(k, v, 3, mask=m)), ("group_min", lambda k, v, m: nbf.group_min(k, v, 3, mask=m)),
               ("group_count", lambda k, v, m: nbf.group_count(k, v, 3, mask=m)), ("cumsum", lambda k, v, m: nbf.cumsum(k, v, 3, m)),
               ("cummax", lambda k, v, m: nbf.cummax(k, v, 3, m)), ("rolling_sum", lambda k, v, m: nbf.rolling_sum(k, v, 3, 2, 1, m)),
               ("rolling_max", lambda k, v, m: nbf.rolling_max(k, v, 3, 2, 1, m)), ("rolling_shift", lambda k, v, m: nbf.rolling_shift(k, v, 3, 1, m))]
    for kname, fn in kernels:
        record(dict(callable=f"numba.{kname}", arg="-", perturbation="aligned"), False, lambda fn=fn: fn(codes, arrays["values"], arrays["mask"]))
        for d in deltas:
            record(dict(callable=f"numba.{kname}", arg="values", perturbation=f"length:{d:+d}:array"), True, lambda fn=fn, d=d: fn(codes, resize(arrays["values"], d), arrays["mask"]))
            record(dict(callable=f"numba.{kname}", arg="mask", perturbation=f"length:{d:+d}:array"), True, lambda fn=fn, d=d: fn(codes, arrays["values"], resize(arrays["mask"], d)))
            record(dict(callable=f"numba.{kname}", arg="group_key", perturbation=f"length:{d:+d}:array"), True, lambda fn=fn, d=d: fn(resize(codes, d), arrays["values"], arrays["mask"]))

    # ---------------- validator model vs implementation (decision functions)
    from groupby_lib.groupby.core import _validate_input_lengths_and_indexes
    drv = Driver()
    jobs, reqs = [], []
    for t in range(300 if tier == "quick" else 3000):
        k = rng.randint(1, 4)
        spec = []
        for _ in range(k):
            ln = rng.choice([3, 3, 3, 4])
            idx = rng.choice([None, None, 0, 0, 1, 2])     # index identity classes; None = not a pandas object
            spec.append((ln, idx))
        jobs.append(spec)
        reqs.append(sx(["validate_lengths_and_indexes", [[ln, "_" if ix is None else ix] for ln, ix in spec]]))
    resp = drv.ask(reqs)
    idx_cls = {0: [0, 1, 2, 3], 1: [1, 0, 2, 3], 2: [5, 6, 7, 8]}
    for spec, r in zip(jobs, resp):
        arrs = []
        for ln, ix in spec:
            a = np.zeros(ln)
            arrs.append(a if ix is None else pd.Series(a, index=idx_cls[ix][:ln]))
        try:
            _validate_input_lengths_and_indexes(arrs)
            impl = "ok"
        except ValueError:
            impl = "reject"
        model = r if isinstance(r, str) else r[0]
        case = dict(callable="_validate_input_lengths_and_indexes", spec=spec)
        res.note_case(repr(case), True)
        res.count("validator_model", model)
        if impl != model:
            res.model_mismatches.append(dict(case=case, impl=impl, model=model))


def replay(payload):
    return False, "replay: re-run ./bin/check C18 (exhaustive, deterministic); stored case: " + str(payload.get("case"))
