"""C19 — operations never modify their inputs and results do not alias them.

For every public operation, several containers (NumPy, pandas, pyarrow incl. chunked; zero-copy
views included) and key routes (plain, chunk-factorized):
  1 byte-level snapshots of every input buffer (keys, values, mask — boolean, positional with
    negative positions, times) before and after the call must be identical;
  2 the logical codes and labels of the grouping are the same before and after;
  3 the returned object is then overwritten in place (where it is writeable) — the caller's
    inputs must still be unchanged and a later identical call must return the original result;
  4 the cached accessors (groups, key_count, ikey_count, result_index) are overwritten in place
    where writeable — later calls must still return what a fresh grouping returns.
The Coq side states what can be stated about a pure model: the kernels' write sets (regenerated
from the source: every subscript-assignment target is a locally allocated array or the explicit
output) and the in-place reuse of the stacked code matrix in _combine_factorizations."""
from __future__ import annotations

import random
from fractions import Fraction

import numpy as np
import pandas as pd
import pyarrow as pa

from .. import api
from .c05 import close, HALFLIFE_NS

OPS = ["size", "count", "sum", "mean", "min", "max", "first", "last", "var", "t_sum", "t_max", "cumsum", "cummax", "cumcount", "rolling_sum", "rolling_max",
       "shift", "diff", "ema", "ema_timed", "median", "head", "nth", "agg_sum", "groups", "key_count"]


def snapshot(x):
    if x is None or isinstance(x, slice):
        return repr(x)
    if isinstance(x, np.ndarray):
        return ("np", str(x.dtype), x.shape, x.tobytes() if x.dtype != object else repr(x.tolist()))
    if isinstance(x, pd.Series):
        return ("pd", snapshot(x.to_numpy()), repr(list(x.index)), repr(x.name))
    if isinstance(x, (pa.Array, pa.ChunkedArray)):
        return ("pa", str(x.type), repr(x.to_pylist()))
    if isinstance(x, (list, tuple)):
        return tuple(snapshot(y) for y in x)
    return repr(x)


def make_inputs(rng, c):
    n = len(c["col"])
    kind, cont = c["kind"], c["kcont"]
    key = api.make_key(c["col"], kind, cont, chunks=c["key_chunks"])
    vals = api.make_values(c["vals"], "f8", c["vcont"], chunks=c["val_chunks"]) if c["vcont"] != "view" else None
    if c["vcont"] == "view":
        base = np.zeros(2 * n)
        base[::2] = np.array([np.nan if v is None else float(v) for v in c["vals"]])
        vals = base[::2]                       # a strided view of a larger caller buffer
    mk = c["mk"]
    if mk == "none":
        mask = None
    elif mk == "bool":
        mask = np.array(c["mask_bits"], dtype=bool)
    elif mk == "bool_series":
        mask = pd.Series(np.array(c["mask_bits"], dtype=bool))
    elif mk == "idx_neg":
        mask = np.array(c["mask_idx"], dtype="int64")
    else:
        mask = slice(1, None)
    times = (np.array(c["times"], dtype="int64")).view("datetime64[ns]")
    return key, vals, mask, times


def gen_case(rng, tier):
    n = rng.randint(4, 10 if tier == "quick" else 16)
    col = [rng.randrange(3) for _ in range(n)]
    if rng.random() < 0.3:
        col[rng.randrange(n)] = None
    kind = rng.choice([k for k in ["float", "int", "str", "dt", "dttz", "date"] if api.kind_ok(col, k)])
    kcont = rng.choice(["numpy", "numpy", "pandas", "arrow", "arrow_chunked"])
    vcont = rng.choice(["numpy", "numpy", "pandas", "arrow", "arrow_chunked", "view"])
    route = rng.choice(["plain", "chunked"]) if kcont in ("numpy", "pandas") else "plain"
    op = rng.choice(OPS)
    mk = rng.choice(["none", "bool", "bool_series", "idx_neg", "slice"])
    if op in ("cumsum", "cummax", "cumcount", "rolling_sum", "rolling_max", "shift", "diff", "ema", "ema_timed", "median"):
        mk = rng.choice(["none", "bool"])
    if op in ("groups", "key_count", "head", "nth"):
        mk = "none"
    if kcont == "pandas" and mk == "bool_series":
        mk = "bool"
    cuts = sorted(rng.sample(range(1, n), rng.randint(0, min(2, n - 1))))
    b = [0, *cuts, n]
    t, times = 0, []
    for _ in range(n):
        t += rng.choice([0, 1, 2]) * HALFLIFE_NS
        times.append(t)
    return dict(col=col, kind=kind, kcont=kcont, vcont=vcont, route=route, op=op, mk=mk,
                vals=[rng.choice([None, Fraction(1), Fraction(2), Fraction(-3), Fraction(1, 2), Fraction(7)]) for _ in range(n)],
                mask_bits=[rng.random() < 0.7 for _ in range(n)], mask_idx=[rng.randrange(-n, n) for _ in range(rng.randint(1, n))],
                key_chunks=[b[i + 1] - b[i] for i in range(len(b) - 1)], val_chunks=[b[i + 1] - b[i] for i in range(len(b) - 1)], times=times)


def call(gb, op, v, mask, times):
    if op == "size":
        return gb.size(mask=mask)
    if op in ("count", "sum", "mean", "min", "max", "first", "last", "var", "median"):
        return getattr(gb, op)(v, mask=mask)
    if op == "t_sum":
        return gb.sum(v, mask=mask, transform=True)
    if op == "t_max":
        return gb.max(v, mask=mask, transform=True)
    if op == "agg_sum":
        return gb.agg(v, "sum", mask=mask)
    if op in ("cumsum", "cummax"):
        return getattr(gb, op)(v, mask=mask)
    if op == "cumcount":
        return gb.cumcount(mask=mask)
    if op in ("rolling_sum", "rolling_max"):
        return getattr(gb, op)(v, 2, min_periods=1, mask=mask)
    if op in ("shift", "diff"):
        return getattr(gb, op)(v, 1, mask=mask)
    if op == "ema":
        return gb.ema(v, alpha=0.5, mask=mask)
    if op == "ema_timed":
        return gb.ema(v, halflife="1s", times=times, mask=mask)
    if op in ("head", "nth"):
        vv = v if isinstance(v, (np.ndarray, pd.Series)) else np.asarray(v.to_numpy(zero_copy_only=False)) if hasattr(v, "to_numpy") else v
        return getattr(gb, op)(vv, 1, keep_input_index=True)
    if op == "groups":
        return gb.groups
    if op == "key_count":
        return gb.key_count
    raise ValueError(op)


def canon(out):
    if isinstance(out, dict):
        return [(repr(k), tuple(int(i) for i in v)) for k, v in out.items()]
    vals = api.canon_series(out)
    return list(zip([repr(x) for x in out.index.tolist()], vals))


def scribble(out):
    """overwrite a returned object in place where it lets us; -> True if something was written"""
    wrote = False
    try:
        if isinstance(out, dict):
            for v in out.values():
                if isinstance(v, np.ndarray) and v.flags.writeable and len(v):
                    v[...] = 0
                    wrote = True
            return wrote
        arr = out.to_numpy(copy=False) if hasattr(out, "to_numpy") else None
        if isinstance(arr, np.ndarray) and arr.flags.writeable and arr.size:
            if arr.dtype.kind == "f":
                arr[...] = 12345.0
            elif arr.dtype.kind in "iu":
                arr[...] = 77
            elif arr.dtype.kind == "b":
                arr[...] = True
            else:
                return False
            wrote = True
    except (ValueError, TypeError):
        return wrote
    return wrote


def same(a, b):
    return len(a) == len(b) and all(x[0] == y[0] and (x[1] == y[1] if isinstance(x[1], tuple) else close(x[1], y[1], True)) for x, y in zip(a, b))


def codes_and_labels(gb):
    ik = gb.group_ikey
    if gb.key_is_chunked:
        if gb._group_key_pointers is not None:
            codes = []
            for p, ch in zip(gb._group_key_pointers, ik.chunks):
                k = np.asarray(ch.to_numpy(zero_copy_only=False)).astype("int64")
                codes += [int(p[x]) if x >= 0 else -1 for x in k]
        else:
            codes = [int(x) for ch in ik.chunks for x in np.asarray(ch.to_numpy(zero_copy_only=False))]
    else:
        codes = [int(x) for x in np.asarray(ik)]
    return codes, [repr(x) for x in gb.result_index.tolist()]


def run_case(GroupBy, rng, c):
    sig = dict(op=c["op"], kcont=c["kcont"], vcont=c["vcont"], route=c["route"], mask=c["mk"])
    viol = []
    key, vals, mask, times = make_inputs(rng, c)
    before = dict(key=snapshot(key), vals=snapshot(vals), mask=snapshot(mask), times=snapshot(times))
    try:
        with api.strategy(chunk_threshold=4 if c["route"] == "chunked" else None):
            gb = GroupBy(key)
            cl0 = codes_and_labels(gb)
            out = call(gb, c["op"], vals, mask, times)
            r1 = canon(out)
            after = dict(key=snapshot(key), vals=snapshot(vals), mask=snapshot(mask), times=snapshot(times))
            for name in before:
                if before[name] != after[name]:
                    viol.append(dict(sig={**sig, "what": "input-modified", "input": name}, what=f"{c['op']} modified the caller's {name}", observed=str(after[name])[:300], expected=str(before[name])[:300]))
            cl1 = codes_and_labels(gb)
            if cl0 != cl1:
                viol.append(dict(sig={**sig, "what": "grouping-changed"}, what=f"{c['op']} changed the logical codes / labels of the grouping", observed=str(cl1)[:300], expected=str(cl0)[:300]))
            # 3: overwrite the result in place, then repeat
            wrote = scribble(out)
            after2 = dict(key=snapshot(key), vals=snapshot(vals), mask=snapshot(mask), times=snapshot(times))
            for name in before:
                if before[name] != after2[name]:
                    viol.append(dict(sig={**sig, "what": "result-aliases-input", "input": name}, what=f"writing into the result of {c['op']} changed the caller's {name}", observed=str(after2[name])[:300], expected=str(before[name])[:300]))
            r2 = canon(call(gb, c["op"], vals, mask, times))
            if not same(r2, r1):
                viol.append(dict(sig={**sig, "what": "repeat-differs", "wrote": wrote}, what=f"after writing into the result of {c['op']}, the same call returns something else", observed=str(r2)[:300], expected=str(r1)[:300]))
            # 4: overwrite cached accessors
            wrote_cache = False
            for acc in ("groups", "key_count", "ikey_count"):
                try:
                    wrote_cache |= scribble(getattr(gb, acc) if acc != "ikey_count" else pd.Series(gb.ikey_count, copy=False))
                except Exception:  # noqa: BLE001
                    pass
            r3 = canon(call(gb, c["op"], vals, mask, times)) if c["op"] not in ("groups", "key_count") else None
            fresh = GroupBy(api.make_key(c["col"], c["kind"], c["kcont"], chunks=c["key_chunks"]))
            r4 = canon(call(fresh, c["op"], vals, mask, times)) if c["op"] not in ("groups", "key_count") else None
            if r3 is not None and not same(r3, r4):
                viol.append(dict(sig={**sig, "what": "cache-corruptible", "wrote": wrote_cache}, what=f"after writing into groups / key_count / ikey_count, {c['op']} differs from a fresh grouping", observed=str(r3)[:300], expected=str(r4)[:300]))
    except Exception as e:  # noqa: BLE001
        viol.append(dict(sig={**sig, "what": "raised", "exc": type(e).__name__}, what=f"{c['op']} raised {e!r}"[:300], observed=repr(e)[:200], expected="a result"))
    return viol


def run(res, tier="quick", seed=0, widen=False):
    from groupby_lib import GroupBy
    rng = random.Random(seed * 61 + 19 + (1 if widen else 0))
    n_cases = 2500 if tier == "quick" else 25000
    res.rule = ("seeded cases: 26 operations x key containers numpy/pandas/pyarrow/pyarrow-chunked x value containers numpy/pandas/pyarrow/pyarrow-chunked/strided view of a larger "
                "buffer x plain and chunk-factorized keys x masks none/boolean array/boolean Series/positions with negative entries/slice; byte snapshots of all inputs before/after; "
                "codes and labels before/after; in-place overwrite of the result and of groups/key_count/ikey_count followed by a repeat of the call and a comparison with a fresh grouping; "
                "non-trivial: every case; distinct = canonical case")
    for ci in range(n_cases):
        c = gen_case(rng, tier)
        cj = {k: (v if k != "vals" else [None if x is None else str(x) for x in v]) for k, v in c.items()}
        res.note_case(repr(cj), True)
        res.count("op", c["op"]); res.count("key_container", c["kcont"]); res.count("value_container", c["vcont"]); res.count("route", c["route"]); res.count("mask", c["mk"])
        if ci % 499 == 0:
            res.sample(cj)
        for v in run_case(GroupBy, rng, c):
            v["case"] = cj
            res.violations.append(v)


def replay(payload):
    from groupby_lib import GroupBy
    c = dict(payload["case"])
    c["vals"] = [None if x is None else Fraction(x) for x in c["vals"]]
    v = run_case(GroupBy, random.Random(0), c)
    return (not v), ("replay: " + (v[0]["what"] if v else "no violation on this input"))
