"""C07 — transform=True broadcasts exactly the per-group result.

Every case computes, on fresh groupings, the reduction r = gb.op(values, mask) and the
broadcast t = gb.op(values, mask, transform=True) and checks, row by row,
   t[i] == r[label of row i]          if the row has a key and its group has a selected row
   t[i] is the neutral/null result     otherwise (null key, or group entirely masked out)
plus: one value per input row in input order, the input's index, pandas in -> pandas out,
polars in -> polars out, several value columns -> a frame with the same columns.
Keys plain, chunk-factorized (with pointer tables) and pyarrow-chunked."""
from __future__ import annotations

import random
from fractions import Fraction

import numpy as np
import pandas as pd
import polars as pl

from .. import api
from ..kernels import make_mask, selected_positions
from .c05 import close

OPS = ["size", "count", "sum", "mean", "min", "max", "first", "last", "var", "std", "median", "agg_sum"]
VALS = [None, Fraction(1), Fraction(2), Fraction(-3), Fraction(1, 2), Fraction(5, 4), Fraction(7)]
NEUTRAL_ZERO = {"size", "count", "sum", "agg_sum"}


def gen_case(rng, tier):
    n = rng.randint(2, 10 if tier == "quick" else 16)
    nkeys = rng.choice([1, 1, 1, 2])
    nlab = rng.choice([2, 3, 4])
    null_rate = rng.choice([0, 0.2, 0.35])
    keycols = [[None if rng.random() < null_rate else rng.randrange(nlab) for _ in range(n)] for _ in range(nkeys)]
    kinds = [rng.choice([k for k in ["float", "str", "dt", "dttz", "date", "int", "cat"] if api.kind_ok(col, k)]) for col in keycols]
    ncols = rng.choice([1, 1, 2])
    vals = [[rng.choice(VALS) for _ in range(n)] for _ in range(ncols)]
    op = rng.choice(OPS)
    mk = rng.choice(["none", "none", "bool", "groupout", "slice", "idx"]) if op != "median" else rng.choice(["none", "bool"])
    codes, labels = api.logical_codes(keycols)
    if mk == "none":
        mask = None
    elif mk == "bool":
        mask = ("b", [rng.random() < 0.6 for _ in range(n)])
    elif mk == "groupout":
        g = rng.randrange(len(labels)) if labels else 0
        mask = ("b", [codes[i] != g for i in range(n)])
    elif mk == "slice":
        mask = ("s", rng.choice([None, 1, 2, -3]), rng.choice([None, n - 1, -1]))
    else:
        mask = ("i", sorted(rng.sample(range(n), rng.randint(0, n))))
    rep = rng.choice(["plain", "plain", "chunked", "arrow"]) if (nkeys == 1 and kinds[0] != "cat" and n >= 4) else "plain"
    container = rng.choice(["numpy", "pandas", "pandas", "polars"])
    index = [rng.randint(0, 9) for _ in range(n)] if container == "pandas" else None
    warm_ = rng.choice([None, None, None] + api.WARM_OPS)
    return dict(warm=warm_, keycols=keycols, kinds=kinds, vals=vals, op=op, mask=mask, mk=mk, rep=rep, container=container, index=index,
                key_chunks=[n // 2, n - n // 2], ddof=rng.choice([0, 1]))


def build(GroupBy, c):
    idx = c["index"]
    keys = []
    for j, (col, kind) in enumerate(zip(c["keycols"], c["kinds"])):
        if c["rep"] == "arrow" and j == 0:
            keys.append(api.make_key(col, kind, "arrow_chunked", chunks=c["key_chunks"]))
        elif kind == "cat" or c["container"] == "pandas":
            keys.append(api.make_key(col, kind, "pandas", index=idx, name=f"k{j}"))
        else:
            keys.append(api.make_key(col, kind, "numpy"))
    if c["container"] != "pandas":
        keys = [k.reset_index(drop=True).rename(None) if isinstance(k, pd.Series) else k for k in keys]          # (.values would strip a time zone / an Arrow dtype)
    with api.strategy(chunk_threshold=4 if c["rep"] == "chunked" else None):
        return GroupBy(keys if len(keys) > 1 else keys[0])


def make_vals(c):
    idx = c["index"]
    cols = [api.make_values(v, "f8", c["container"] if c["container"] != "polars" else "numpy", index=idx, name=f"v{j}") for j, v in enumerate(c["vals"])]
    if c["container"] == "polars":
        cols = [pl.Series(f"v{j}", col) for j, col in enumerate(cols)]
        return cols[0] if len(cols) == 1 else pl.DataFrame({s.name: s for s in cols})
    if len(cols) == 1:
        return cols[0]
    if c["container"] == "pandas":
        return pd.DataFrame({f"v{j}": col for j, col in enumerate(cols)})
    return {f"v{j}": col for j, col in enumerate(cols)}


def call(gb, op, v, mask, transform, ddof):
    if op == "size":
        return gb.size(mask=mask, transform=transform)
    if op in ("var", "std"):
        return getattr(gb, op)(v, mask=mask, transform=transform, ddof=ddof)
    if op == "agg_sum":
        return gb.agg(v, "sum", mask=mask, transform=transform)
    return getattr(gb, op)(v, mask=mask, transform=transform)


def columns_of(out, ncols):
    """-> list of (name, pandas Series)"""
    if isinstance(out, pl.DataFrame):
        return [(c, out[c].to_pandas()) for c in out.columns]
    if isinstance(out, pl.Series):
        return [(out.name, out.to_pandas())]
    if isinstance(out, pd.DataFrame):
        return [(c, out[c]) for c in out.columns]
    return [(getattr(out, "name", None), out)]


def run_case(GroupBy, c):
    n = len(c["keycols"][0])
    op = c["op"]
    sig = dict(level="api", op=op, rep=c["rep"], container=c["container"], mask=c["mk"])
    codes, labels = api.logical_codes(c["keycols"])
    sel = set(selected_positions(n, c["mask"]))
    mask = make_mask(c["mask"])
    if c["container"] == "pandas" and c["mask"] is not None and c["mask"][0] == "b":
        mask = pd.Series(mask, index=c["index"])
    v = make_vals(c)
    ncols = len(c["vals"])
    approx = op in ("mean", "var", "std")
    try:
        with api.strategy(chunk_threshold=4 if c["rep"] == "chunked" else None):
            red = call(build(GroupBy, c), op, v, mask, False, c["ddof"])
            gbt = build(GroupBy, c)
            api.warm(gbt, c.get("warm"), len(c["keycols"][0]))          # the grouping may have been used before
            tr = call(gbt, op, v, mask, True, c["ddof"])
    except Exception as e:  # noqa: BLE001
        if op == "size" and ncols > 1:
            return []
        return [dict(sig={**sig, "what": "raised", "exc": type(e).__name__}, what=f"{op}(transform) raised {e!r}"[:300], observed=repr(e)[:200], expected="a result")]
    viol = []
    # container / shape / index
    if c["container"] == "polars" and op != "size":
        if not isinstance(tr, (pl.Series, pl.DataFrame)):
            viol.append(dict(sig={**sig, "what": "container"}, what=f"polars values in, {type(tr).__name__} out", observed=type(tr).__name__, expected="polars"))
    elif not isinstance(tr, (pd.Series, pd.DataFrame)):
        viol.append(dict(sig={**sig, "what": "container"}, what=f"{c['container']} values in, {type(tr).__name__} out", observed=type(tr).__name__, expected="pandas"))
    tcols = columns_of(tr, ncols)
    rcols = columns_of(red, ncols)
    if op != "size" and len(tcols) != ncols:
        viol.append(dict(sig={**sig, "what": "columns"}, what=f"{ncols} value columns in, {len(tcols)} out", observed=str([x[0] for x in tcols]), expected=str(ncols)))
        return viol
    if isinstance(tr, (pd.Series, pd.DataFrame)):
        want_index = c["index"] if c["index"] is not None else list(range(n))
        if op == "size" and c["rep"] == "arrow" and len(c["keycols"]) == 1 and list(tr.index) == list(range(n)):
            want_index = list(range(n))       # the key (pyarrow) has no index; only a pandas mask could supply one
        if list(tr.index) != want_index:
            viol.append(dict(sig={**sig, "what": "index"}, what="transform output does not carry the input's index", observed=str(list(tr.index)), expected=str(want_index)))
    observed_groups = {codes[i] for i in sel if codes[i] >= 0}
    for (tname, tser), (rname, rser) in zip(tcols, rcols):
        tv = api.canon_series(tser)
        rmap = dict(zip(api.index_to_ranks(rser.index, c["kinds"]), api.canon_series(rser)))
        if len(tv) != n:
            viol.append(dict(sig={**sig, "what": "length"}, what=f"{len(tv)} values for {n} input rows", observed=str(len(tv)), expected=str(n)))
            continue
        bad = []
        for i in range(n):
            g = codes[i]
            if g >= 0 and g in observed_groups:
                exp = rmap.get(labels[g], "missing")
                if exp == "missing" or not close(tv[i], exp, approx):
                    bad.append((i, tv[i], exp))
            else:
                neutral_ok = (tv[i] is None) or (op in NEUTRAL_ZERO and tv[i] == 0)
                if not neutral_ok:
                    bad.append((i, tv[i], "neutral"))
        if bad:
            viol.append(dict(sig={**sig, "what": "broadcast"}, what=f"{op}(transform=True) column {tname}: rows {[b[0] for b in bad]} differ from their group's result",
                             observed=str([(b[0], None if b[1] is None else float(b[1])) for b in bad]), expected=str([(b[0], b[2] if isinstance(b[2], str) or b[2] is None else float(b[2])) for b in bad])))
    return viol


def case_json(c):
    return dict(keys=c["keycols"], key_kinds=c["kinds"], values=[[None if v is None else str(v) for v in col] for col in c["vals"]], op=c["op"], mask=c["mask"], mk=c["mk"],
                rep=c["rep"], container=c["container"], index=c["index"], key_chunks=c["key_chunks"], ddof=c["ddof"])


def run(res, tier="quick", seed=0, widen=False):
    from groupby_lib import GroupBy

    rng = random.Random(seed * 19 + 7 + (1 if widen else 0))
    n_cases = 2500 if tier == "quick" else 25000
    res.rule = ("seeded random logical datasets (2-16 rows, 1-2 keys of five kinds with nulls, 1-2 value columns) x 12 reductions x masks none/bool/whole-group-out/slice/positions x "
                "key representations plain/chunk-factorized/pyarrow-chunked x value containers numpy/pandas (arbitrary duplicated index)/polars; each case: reduction and its "
                "transform=True broadcast on fresh groupings, compared row by row; non-trivial = >= 2 groups or a null key or an unobserved group; distinct = canonical case")
    for ci in range(n_cases):
        c = gen_case(rng, tier)
        cj = case_json(c)
        codes, labels = api.logical_codes(c["keycols"])
        res.note_case(repr(cj), len(labels) >= 2 or any(k < 0 for k in codes) or c["mk"] == "groupout")
        res.count("op", c["op"]); res.count("rep", c["rep"]); res.count("container", c["container"]); res.count("mask", c["mk"]); res.count("ncols", len(c["vals"]))
        res.count("has_null_key", any(k < 0 for k in codes))
        if ci % 397 == 0:
            res.sample(cj)
        for v in run_case(GroupBy, c):
            v["case"] = cj
            res.violations.append(v)


def replay(payload):
    from groupby_lib import GroupBy
    c0 = payload["case"]
    c = dict(keycols=c0["keys"], kinds=c0["key_kinds"], vals=[[None if v is None else Fraction(v) for v in col] for col in c0["values"]], op=c0["op"],
             mask=None if c0["mask"] is None else tuple(c0["mask"]), mk=c0["mk"], rep=c0["rep"], container=c0["container"], index=c0["index"],
             key_chunks=c0["key_chunks"], ddof=c0["ddof"])
    v = run_case(GroupBy, c)
    return (not v), ("replay: " + (v[0]["what"] if v else "no violation on this input"))
