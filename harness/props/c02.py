"""C02 — factorization is a faithful partition of the rows.

API stream: logical key columns (1-3, nulls in every position, six key kinds, every container
and route: plain, categorical with unused categories, bool, RangeIndex, pyarrow / polars,
pyarrow-chunked with arbitrary chunk boundaries and per-chunk dictionaries, chunk-factorized
with pointer tables, fully / partially increasing keys with and without nulls, sort on/off)
-> GroupBy.group_ikey, result_index, ngroups, groups, key_count, size() are checked against
the definition: label[code[i]] == key[i]; code[i] == code[j] <=> key[i] == key[j]; code == null
<=> some key component null; labels pairwise distinct; groups[label] = ascending positions of
that label; these lists partition the non-null rows; sizes add up.
Function stream: factorize_1d / factorize_2d / monotonic_factorization return values.
Model stream: the jitted kernels _combine_factorizations (+ _weight_code_sum) and
_build_group_sorted_indexer_numba against the extracted code-model."""
from __future__ import annotations

import itertools
import random

import numpy as np
import pandas as pd
import pyarrow as pa
import polars as pl

from ..common import Driver, log, sx
from .. import api

CONTAINERS = ["numpy", "pandas", "index", "polars", "arrow", "arrow_chunked", "pandas_arrow", "arrow_dict_chunked"]


def gen_case(rng, tier):
    n = rng.randint(1, 9 if tier == "quick" else 14)
    nkeys = rng.choice([1, 1, 1, 2, 2, 3, 3, 4, 5])
    shape = rng.choice(["random", "random", "null", "null", "mono", "prefix", "prefix_null", "lead_null"])
    nlab = rng.choice([2, 3, 4])
    keycols = []
    for j in range(nkeys):
        if j == 0 and shape == "mono":
            col = sorted(rng.randrange(nlab + 2) for _ in range(n))
        elif j == 0 and shape.startswith("prefix") and n >= 3:
            m = rng.randint(n // 3 + 1, n - 1)
            col = sorted(rng.randrange(nlab + 1) for _ in range(m)) + [rng.randrange(nlab + 2) for _ in range(n - m)]
        else:
            col = [rng.randrange(nlab) for _ in range(n)]
        if shape in ("null", "prefix_null") or (shape == "lead_null" and j == 0):
            for _ in range(rng.randint(1, 2)):
                col[rng.randrange(0 if shape != "prefix_null" else min(1, n - 1), n)] = None
        if shape == "lead_null" and j == 0:
            col[0] = None
        keycols.append(col)
    kinds, conts = [], []
    for col in keycols:
        kind = rng.choice([k for k in ["int", "float", "str", "cat", "dt", "dttz", "date", "bool", "range"] if api.kind_ok(col, k) or k == "range"])
        if kind == "range":
            if nkeys == 1 and None not in col:
                col[:] = list(range(n))     # RangeIndex key: every row its own group
            else:
                kind = "float"
        kinds.append(kind)
        if kind in ("cat", "range"):
            conts.append("pandas")
        elif kind == "bool":
            conts.append(rng.choice(["numpy", "pandas"]))
        else:
            conts.append(rng.choice(CONTAINERS if kind in ("float", "str", "int", "dt", "dttz", "date") else ["numpy", "pandas"]))
    route = rng.choice(["plain", "plain", "chunked"]) if nkeys == 1 and n >= 4 and kinds[0] not in ("cat", "range", "bool") else "plain"
    cuts = sorted(rng.sample(range(0, n + 1), rng.randint(0, min(3, n))))
    b = [0, *cuts, n]
    # from three keys on: the cartesian product of the label counts may exceed what one int64 code per row can hold (in
    # production from 2**62, e.g. four keys of 70000 labels each); the threshold is lowered so that small cases take that route
    fold = rng.choice([None, None, 1, 6, 30]) if nkeys >= 3 else None
    return dict(keycols=keycols, kinds=kinds, conts=conts, route=route, sort=rng.random() < 0.8,
                key_chunks=[b[i + 1] - b[i] for i in range(len(b) - 1)], shape=shape, max_cartesian=fold)


def build_key(col, kind, cont, chunks):
    if kind == "range":
        return pd.RangeIndex(len(col))
    if cont == "arrow_dict_chunked":
        # independently dictionary-encoded chunks (per-chunk dictionaries differ)
        base = api.make_key(col, kind, "arrow")
        pieces, st = [], 0
        for ln in (chunks or [len(col)]):
            pieces.append(base.slice(st, ln).dictionary_encode())
            st += ln
        pieces = [p for p in pieces if len(p) > 0] or [base.dictionary_encode()]
        if any(len(p.dictionary) == 0 for p in pieces):
            return base        # pyarrow itself cannot convert a chunk whose dictionary is empty (all-null chunk)
        try:
            return pa.chunked_array(pieces)
        except Exception:  # noqa: BLE001
            return base
    return api.make_key(col, kind, cont, chunks=chunks)


def check_partition(gb, c, viol, sig):
    n = len(c["keycols"][0])
    kinds = ["int" if k == "range" else k for k in c["kinds"]]
    tuples = [tuple(col[i] for col in c["keycols"]) for i in range(n)]
    if c["kinds"][0] == "range":
        kinds = ["rangeidx"]
    ikey = gb.group_ikey
    if gb.key_is_chunked:
        if gb._group_key_pointers is not None:
            # chunk-local codes: the public meaning is through the pointer tables
            codes = []
            for p, ch in zip(gb._group_key_pointers, ikey.chunks):
                k = np.asarray(ch.to_numpy(zero_copy_only=False)).astype("int64")
                codes += [int(p[x]) if x >= 0 else -1 for x in k]
        else:
            codes = [int(x) for ch in ikey.chunks for x in np.asarray(ch.to_numpy(zero_copy_only=False)).astype("int64")]
    else:
        codes = [int(x) for x in np.asarray(ikey).astype("int64")]
    labels_idx = gb.result_index
    if c["kinds"][0] == "range":
        label_ranks = [(int(x),) for x in labels_idx.tolist()]
    else:
        label_ranks = api.index_to_ranks(labels_idx, kinds)
    if len(codes) != n:
        viol.append(dict(sig={**sig, "what": "length"}, what=f"{len(codes)} codes for {n} rows", observed=str(len(codes)), expected=str(n)))
        return
    if gb.ngroups != len(label_ranks):
        viol.append(dict(sig={**sig, "what": "ngroups"}, what="ngroups differs from the number of labels", observed=str(gb.ngroups), expected=str(len(label_ranks))))
    if len(set(label_ranks)) != len(label_ranks):
        viol.append(dict(sig={**sig, "what": "duplicate-labels"}, what="labels are not pairwise distinct", observed=str(label_ranks), expected="distinct"))
    bad_null = [i for i in range(n) if (None in tuples[i]) != (codes[i] < 0)]
    if bad_null:
        viol.append(dict(sig={**sig, "what": "null-code"}, what=f"rows {bad_null}: null code <=> null key component violated", observed=str(codes), expected=str(tuples)))
        return
    bad_label = [i for i in range(n) if codes[i] >= 0 and (codes[i] >= len(label_ranks) or label_ranks[codes[i]] != tuples[i])]
    if bad_label:
        viol.append(dict(sig={**sig, "what": "label-of-code"}, what=f"rows {bad_label}: the label at the row's code is not the row's key",
                         observed=str([(i, codes[i], label_ranks[codes[i]] if 0 <= codes[i] < len(label_ranks) else None) for i in bad_label[:6]]), expected=str([(i, tuples[i]) for i in bad_label[:6]])))
        return
    if any(None in t for t in label_ranks):
        viol.append(dict(sig={**sig, "what": "null-label"}, what="a label contains a null", observed=str(label_ranks), expected="no null label"))
    # derived views
    want_groups = {}
    for i, t in enumerate(tuples):
        if None not in t:
            want_groups.setdefault(t, []).append(i)
    try:
        groups = gb.groups
        got_groups = {}
        for key, ix in groups.items():
            if c["kinds"][0] == "range":
                r = (int(key),)
            else:
                idx = pd.MultiIndex.from_tuples([key]) if isinstance(key, tuple) else pd.Index([key])
                r = api.index_to_ranks(idx, kinds)[0]
            got_groups[r] = [int(x) for x in ix]
        if got_groups != want_groups:
            viol.append(dict(sig={**sig, "what": "groups"}, what="groups does not list, per label, the ascending positions of its rows", observed=str(got_groups)[:400], expected=str(want_groups)[:400]))
        allpos = sorted(p for v in got_groups.values() for p in v)
        if allpos != sorted(i for i, t in enumerate(tuples) if None not in t):
            viol.append(dict(sig={**sig, "what": "partition"}, what="the group lists do not partition the non-null-key rows", observed=str(allpos), expected="every non-null-key row once"))
    except Exception as e:  # noqa: BLE001
        if want_groups:
            viol.append(dict(sig={**sig, "what": "groups-raised", "exc": type(e).__name__}, what=f"groups raised {e!r}"[:200], observed=repr(e)[:200], expected=str(want_groups)[:200]))
    try:
        kc = gb.key_count
        kcr = dict(zip(label_ranks if c["kinds"][0] == "range" else api.index_to_ranks(kc.index, kinds), [int(x) for x in kc.tolist()]))
        want_kc = {t: len(v) for t, v in want_groups.items()}
        if {k: v for k, v in kcr.items() if v} != want_kc or sum(kcr.values()) != sum(want_kc.values()):
            viol.append(dict(sig={**sig, "what": "key_count"}, what="key_count does not give the group sizes / sizes do not add up", observed=str(kcr), expected=str(want_kc)))
        sz = gb.size()
        szr = dict(zip(label_ranks if c["kinds"][0] == "range" and False else ([(int(x),) for x in sz.index.tolist()] if c["kinds"][0] == "range" else api.index_to_ranks(sz.index, kinds)), [int(x) for x in sz.tolist()]))
        if szr != want_kc:
            viol.append(dict(sig={**sig, "what": "size"}, what="size() differs from the group sizes", observed=str(szr), expected=str(want_kc)))
    except Exception as e:  # noqa: BLE001
        viol.append(dict(sig={**sig, "what": "count-raised", "exc": type(e).__name__}, what=f"key_count/size raised {e!r}"[:200], observed=repr(e)[:200], expected="counts"))


def run_case(GroupBy, c):
    sig = dict(level="api", nkeys=len(c["keycols"]), route=c["route"], shape=c["shape"], kinds="+".join(c["kinds"]), conts="+".join(c["conts"]),
               folded=c.get("max_cartesian") is not None)
    viol = []
    try:
        keys = [build_key(col, kind, cont, c["key_chunks"]) for col, kind, cont in zip(c["keycols"], c["kinds"], c["conts"])]
        with api.strategy(chunk_threshold=4 if c["route"] == "chunked" else None, max_cartesian=c.get("max_cartesian")):
            gb = GroupBy(keys if len(keys) > 1 else keys[0], sort=c["sort"])
            check_partition(gb, c, viol, sig)
    except Exception as e:  # noqa: BLE001
        viol.append(dict(sig={**sig, "what": "raised", "exc": type(e).__name__}, what=f"GroupBy(keys) raised {e!r}"[:300], observed=repr(e)[:200], expected="a grouping"))
    return viol


def function_stream(res, rng, tier):
    from groupby_lib.groupby.factorization import factorize_1d, factorize_2d, monotonic_factorization
    global DRV2
    DRV2 = Driver()
    n_cases = 600 if tier == "quick" else 6000
    for t in range(n_cases):
        n = rng.randint(1, 8)
        kind = rng.choice(["float", "str", "int", "dt"])
        col = [rng.choice([None, 0, 1, 2, 3]) if kind != "int" else rng.randrange(4) for _ in range(n)]
        which = rng.choice(["f1", "f1_sort", "f2", "f2_sort", "mono"])
        case = dict(level="function", which=which, kind=kind, col=col)
        res.note_case(repr(case) + str(t), True)
        res.count("function", which)
        try:
            if which.startswith("f1"):
                codes, labels = factorize_1d(api.make_key(col, kind, "numpy"), sort=which.endswith("sort"))
                labs = [api.label_to_rank(x, kind) for x in pd.Index(labels).tolist()]
                ok = all((col[i] is None) == (codes[i] < 0) and (codes[i] < 0 or labs[codes[i]] == col[i]) for i in range(n)) and len(set(labs)) == len(labs)
                if which.endswith("sort") and labs != sorted(labs):
                    ok = False
                obs = (np.asarray(codes).tolist(), labs)
            elif which.startswith("f2"):
                col2 = [rng.choice([None, 0, 1]) for _ in range(n)]
                case["col2"] = col2
                # use_dict_limit=0 sends the combination through the typed-Dict tracker (in production: from a cartesian product of 5e8)
                dl = rng.choice([500_000_000, 0])
                case["use_dict_limit"] = dl
                res.count("tracker", "dict" if dl == 0 else "array")
                codes, labels = factorize_2d(api.make_key(col, kind, "numpy"), api.make_key(col2, "float", "numpy"), sort=which.endswith("sort"), use_dict_limit=dl)
                labs = api.index_to_ranks(labels, [kind, "float"])
                tup = list(zip(col, col2))
                ok = all((None in tup[i]) == (codes[i] < 0) and (codes[i] < 0 or labs[codes[i]] == tup[i]) for i in range(n)) and len(set(labs)) == len(labs)
                if which.endswith("sort") and labs != sorted(labs):
                    ok = False
                obs = (np.asarray(codes).tolist(), labs)
                if which.endswith("sort") and n > 0:
                    # code-model of the sorted relabelling: unsorted run + permutation (Coq: relabel / relabel_faithful)
                    c0, l0 = factorize_2d(api.make_key(col, kind, "numpy"), api.make_key(col2, "float", "numpy"), sort=False)
                    if len(l0) > 0:
                        tup0 = [list(map(int, t)) for t in zip(*[np.asarray(x) for x in l0.codes])]
                        perm = [int(x) for x in l0.argsort()]
                        r = DRV2.ask([sx(["relabel", perm, tup0, [int(x) for x in c0]])])[0]
                        res.count("model_kernel", "factorize_2d sorted relabelling")
                        tup1 = [list(map(int, t)) for t in zip(*[np.asarray(x) for x in labels.codes])]
                        # level codes may be re-based by pandas when the index is re-ordered: compare label values
                        lab0 = api.index_to_ranks(l0, [kind, "float"])
                        model_labs = [lab0[i] for i in perm]
                        if [int(x) for x in r[0]] != [int(x) for x in codes] or model_labs != labs:
                            res.model_mismatches.append(dict(case=case, impl=str(obs), model=str(([int(x) for x in r[0]], model_labs))))
            else:
                if kind == "str":
                    kind = "float"
                    case["kind"] = kind
                cutoff, codes, labels = monotonic_factorization(api.make_key(col, kind, "numpy"))
                # definition: cutoff = length of the longest non-decreasing null-free prefix; codes faithful on it; labels strictly increasing
                want = 0
                for i in range(n):
                    if col[i] is None or (i > 0 and col[i] < col[i - 1]):
                        break
                    want = i + 1
                labs = [api.label_to_rank(x, kind) for x in pd.Index(labels).tolist()]
                ok = cutoff == want and all(labs[int(codes[i])] == col[i] for i in range(cutoff)) and labs == sorted(set(labs)) and set(labs) == set(col[:cutoff])
                obs = (cutoff, np.asarray(codes)[:cutoff].tolist(), labs)
            if not ok:
                res.violations.append(dict(sig=dict(level="function", which=which, what="unfaithful"), case=case, observed=str(obs), expected="a faithful factorization of " + str(col), what=f"{which} is not faithful"))
        except Exception as e:  # noqa: BLE001
            res.violations.append(dict(sig=dict(level="function", which=which, what="raised"), case=case, observed=repr(e)[:200], expected="a factorization", what=f"{which} raised"))


def model_stream(res, rng, tier):
    """jitted kernels vs extracted code-model"""
    from groupby_lib.groupby.factorization import _combine_factorizations
    from groupby_lib import GroupBy
    drv = Driver()
    n_cases = 800 if tier == "quick" else 8000
    jobs, reqs = [], []
    for t in range(n_cases):
        nk = rng.choice([2, 2, 3])
        shape = [rng.randint(1, 3) for _ in range(nk)]
        n = rng.randint(1, 7)
        rows = [[rng.randrange(-1, s) for s in shape] for _ in range(n)]
        weights = [int(np.prod(shape[j + 1:])) for j in range(nk)]
        cart = int(np.prod(shape))
        jobs.append(("combine", rows, weights, cart))
        reqs.append(sx(["combine_factorizations", rows, weights, cart]))
        jobs.append(("combine_inplace", rows, weights, cart))
        reqs.append(sx(["combine_inplace", rows, weights, cart]))
    for t in range(n_cases):
        n = rng.randint(0, 9)
        ng = rng.randint(1, 4)
        codes = [rng.randrange(-1, ng) for _ in range(n)]
        perm = list(range(ng))
        rng.shuffle(perm)
        use_map = rng.random() < 0.5
        mask = None if rng.random() < 0.6 else [rng.random() < 0.6 for _ in range(n)]
        cuts = sorted(rng.sample(range(0, n + 1), rng.randint(0, min(2, n))))
        b = [0, *cuts, n]
        chunks = [codes[b[i]:b[i + 1]] for i in range(len(b) - 1)]
        jobs.append(("indexer", chunks, ng, perm if use_map else None, mask))
        reqs.append(sx(["group_sorted_indexer", chunks, ng, perm if use_map else "none", "none" if mask is None else ["b"] + [1 if x else 0 for x in mask]]))
    for t in range(n_cases):
        # the run detector on raw chunk lists: ints, floats with NaN, timestamps with NaT
        n = rng.randint(1, 10)
        kind = rng.choice(["int", "float", "dt"])
        shape_ = rng.choice(["sorted", "sorted", "nearly", "random"])
        vals = [rng.randrange(0, 5) for _ in range(n)]
        if shape_ != "random":
            vals.sort()
        if shape_ == "nearly" and n > 1:
            j = rng.randrange(n)
            vals[j] = rng.randrange(0, 5)
        col = [v if kind == "int" or rng.random() > 0.12 else None for v in vals]
        cuts = sorted(rng.sample(range(1, n), rng.randint(0, min(2, n - 1)))) if n > 1 else []
        b = [0, *cuts, n]
        chunks = [col[b[i]:b[i + 1]] for i in range(len(b) - 1)]
        jobs.append(("mono", chunks, kind))
        reqs.append(sx(["monotonic_factorization", ["_" if x is None else x for x in col]]))
    resp = drv.ask(reqs)
    for job, r in zip(jobs, resp):
        if job[0] == "mono":
            from numba.typed import List as NumbaList
            from groupby_lib.groupby.factorization import _monotonic_factorization
            _, chunks, kind = job
            def arr_of(ch):
                if kind == "int":
                    return np.array(ch, dtype="int64")
                if kind == "float":
                    return np.array([np.nan if x is None else float(x) for x in ch], dtype="float64")
                return np.array(["NaT" if x is None else f"2020-01-0{x + 1}" for x in ch], dtype="datetime64[ns]")
            lst = NumbaList([arr_of(ch) for ch in chunks])
            total = sum(len(ch) for ch in chunks)
            cutoff, codes, labels = _monotonic_factorization(lst, total)
            if kind == "dt":
                base = np.datetime64("2020-01-01", "ns")
                labs = [int((x - base) // np.timedelta64(1, "D")) for x in labels]
            else:
                labs = [int(x) for x in labels]
            impl = (int(cutoff), [int(x) for x in codes[:cutoff]], labs)
            model = (int(r[0]), [int(x) for x in r[1]][: int(r[0])], [int(x) for x in r[2]])
            case = dict(level="model", kernel="_monotonic_factorization", chunks=chunks, kind=kind)
        elif job[0] == "combine_inplace":
            # the in-place model: outputs AND what the stacked matrix holds afterwards
            _, rows, weights, cart = job
            arr = np.array(rows, dtype="int64")
            comb, uniq = _combine_factorizations(arr, np.array(weights, dtype="int64"), np.full(cart, -1, dtype="int32"))
            impl = (comb.tolist(), uniq.tolist(), arr.tolist())
            model = ([int(x) for x in r[0]], [[int(y) for y in row] for row in r[1]], [[int(y) for y in row] for row in r[2]])
            case = dict(level="model", kernel="_combine_factorizations(in-place)", rows=rows, weights=weights)
        elif job[0] == "combine":
            _, rows, weights, cart = job
            arr = np.array(rows, dtype="int64")
            comb, uniq = _combine_factorizations(arr.copy(), np.array(weights, dtype="int64"), np.full(cart, -1, dtype="int32"))
            impl = (comb.tolist(), uniq.tolist())
            model = ([int(x) for x in r[0]], [[int(y) for y in row] for row in r[1]])
            case = dict(level="model", kernel="_combine_factorizations", rows=rows, weights=weights)
        else:
            _, chunks, ng, perm, mask = job
            from numba.typed import List as NumbaList
            codes = [c for ch in chunks for c in ch]
            counts_codes = [sum(1 for i, c in enumerate(codes) if c == g and (mask is None or mask[i])) for g in range(ng)]
            if perm is None:
                group_counts = np.array(counts_codes, dtype="int64")
            else:
                # key_map[k] = position of group k in the output order; group_counts are in output order
                inv = [0] * ng
                for k, pos in enumerate(perm):
                    inv[pos] = k
                group_counts = np.array([counts_codes[inv[pos]] for pos in range(ng)], dtype="int64")
            lst = NumbaList([np.array(ch, dtype="int64") for ch in chunks])
            out = GroupBy._build_group_sorted_indexer_numba(lst, group_counts, None if perm is None else np.array(perm, dtype="int64"), None if mask is None else np.array(mask, dtype=bool))
            impl = out.tolist()
            model = [int(x) for x in r]
            case = dict(level="model", kernel="_build_group_sorted_indexer_numba", chunks=chunks, ngroups=ng, key_map=perm, mask=mask)
        res.note_case(repr(case), True)
        res.count("model_kernel", case["kernel"])
        if len(res.samples) < 10 and rng.random() < 0.01:
            res.sample(case)
        if impl != model:
            res.model_mismatches.append(dict(case=case, impl=str(impl), model=str(model)))


def large_cardinality_case(res, GroupBy):
    """Four keys of 70000 labels each: the cartesian product (2.4e19) does not fit in int64.  With mixed-radix weights
    computed in wrapping int64 arithmetic the rows (0,0,5,20000) and (0,0,6,3781) received the same code (corpus: the
    finding this case was built around)."""
    a = 70000
    w2 = ((a ** 4) % 2 ** 64) // a ** 3
    base = np.arange(a)
    keys = [np.r_[base, [0, 0]], np.r_[base, [0, 0]], np.r_[base, [5, 6]], np.r_[base, [20000, 20000 - w2]]]
    case = dict(level="api", what="large-cardinality", nkeys=4, labels_per_key=a, extra_rows=[[0, 0, 5, 20000], [0, 0, 6, int(20000 - w2)]])
    res.note_case(repr(case), True)
    res.count("shape", "large-cardinality")
    try:
        gb = GroupBy(keys)
        sizes = gb.size()
        ik = np.asarray(gb.group_ikey)
    except Exception as e:  # noqa: BLE001
        res.violations.append(dict(sig=dict(level="api", what="raised", shape="large-cardinality", exc=type(e).__name__), case=case, observed=repr(e)[:200], expected="a grouping",
                                   what="GroupBy of four keys with 70000 labels each raised"))
        return
    if len(sizes) != a + 2 or int(sizes.max()) != 1 or ik[a] == ik[a + 1] or len(set(ik.tolist())) != a + 2:
        res.violations.append(dict(sig=dict(level="api", what="distinct-keys-share-a-code", shape="large-cardinality"), case=case,
                                   observed=f"{len(sizes)} groups, largest {int(sizes.max())}, codes of the two extra rows {int(ik[a])}, {int(ik[a + 1])}",
                                   expected=f"{a + 2} groups of one row", what="rows with different key tuples received the same group code"))


def run(res, tier="quick", seed=0, widen=False):
    from groupby_lib import GroupBy

    rng = random.Random(seed * 29 + 2 + (1 if widen else 0))
    n_cases = 3000 if tier == "quick" else 30000
    res.rule = ("seeded random logical key columns (1-3 keys, 1-14 rows, nulls in every key position, leading nulls, fully / partially increasing first key) materialised as "
                "int/float/str/categorical(unused categories)/datetime/bool/RangeIndex keys in numpy / pandas / Index / polars / pyarrow / pyarrow-chunked (arbitrary, also empty "
                "chunks) / ArrowDtype Series / independently dictionary-encoded chunks, plain and chunk-factorized routes, sort on/off; checks of the partition definition on "
                "group_ikey, result_index, ngroups, groups, key_count, size(); plus factorize_1d/factorize_2d/monotonic_factorization and the jitted combination / counting-sort "
                "kernels against the extracted model; 3-5 keys on the key-folding route (threshold lowered at run time), the typed-Dict tracker, the 70000-label witness, key kinds incl. time-zone aware datetimes and calendar dates; non-trivial = >= 2 labels or a null key; distinct = canonical case")
    function_stream(res, rng, tier)
    model_stream(res, rng, tier)
    large_cardinality_case(res, GroupBy)
    for ci in range(n_cases):
        c = gen_case(rng, tier)
        cj = dict(c)
        codes, labels = api.logical_codes(c["keycols"])
        res.note_case(repr(cj), len(labels) >= 2 or any(k < 0 for k in codes))
        res.count("nkeys", len(c["keycols"])); res.count("route", c["route"]); res.count("shape", c["shape"]); res.count("rows", len(codes)); res.count("folded_keys", c.get("max_cartesian"))
        for k, ct in zip(c["kinds"], c["conts"]):
            res.count("key_kind", k); res.count("container", ct)
        if ci % 499 == 0:
            res.sample(cj)
        for v in run_case(GroupBy, c):
            v["case"] = cj
            res.violations.append(v)


def replay(payload):
    from groupby_lib import GroupBy
    c = payload["case"]
    if c.get("level") in ("function", "model"):
        return False, "replay: function/model-level case, re-run ./bin/check C02; stored case: " + str(c)
    v = run_case(GroupBy, c)
    return (not v), ("replay: " + (v[0]["what"] if v else "no violation on this input"))
