"""C06 — rows with a null key never influence any group.

Every case runs the real operation on the full data and on the data with the null-key
rows deleted (null in the key, or in any one of several keys).  Reductions must report
the same labels and numbers (no label for the null rows); row-aligned operations must
give the same value at every row that has a key, and a constant null/neutral marker
at the null-key rows; row selection never returns a null-key row.  Plain and
chunk-factorized key representations.  The Coq side proves the statement for the
code-shaped models of every kernel (keyed fold / scan: negative codes are no-ops)."""
from __future__ import annotations

import random
from fractions import Fraction

import numpy as np
import pandas as pd

from ..common import Driver, log
from .. import api
from .c05 import close, HALFLIFE_NS

RED = ["size", "count", "sum", "mean", "min", "max", "first", "last", "var", "median"]
TRANS = ["t_sum", "t_min", "t_count", "t_mean", "t_last"]
ROW = ["cumsum", "cummin", "cummax", "cumcount", "rolling_sum", "rolling_mean", "rolling_min", "rolling_max", "shift", "diff", "ema", "ema_timed"]
SEL = ["head", "tail", "nth"]
VALS = [None, Fraction(1), Fraction(2), Fraction(-3), Fraction(1, 2), Fraction(5, 4), Fraction(7)]


def gen_case(rng, tier):
    n = rng.randint(2, 9 if tier == "quick" else 13)
    nkeys = rng.choice([1, 1, 2, 3])
    nlab = rng.choice([2, 3])
    null_rate = rng.choice([0.2, 0.35, 0.5])
    keycols = [[None if rng.random() < null_rate / nkeys * 1.5 else rng.randrange(nlab) for _ in range(n)] for _ in range(nkeys)]
    if all(None not in col for col in keycols):
        keycols[rng.randrange(nkeys)][rng.randrange(n)] = None
    kinds = [rng.choice([k for k in ["float", "str", "dt", "dttz", "date", "cat"] if api.kind_ok(col, k)]) for col in keycols]
    vals = [rng.choice(VALS) for _ in range(n)]
    op = rng.choice(RED + TRANS + ROW + ROW + SEL)
    chunked = n >= 4 and rng.random() < 0.4 and nkeys == 1 and kinds[0] != "cat"
    params = {}
    if op.startswith("rolling"):
        params["window"] = rng.randint(1, 3)
        params["min_periods"] = rng.randint(1, params["window"])
    if op in ("shift", "diff"):
        params["window"] = rng.randint(1, 2)
    if op == "ema":
        params["alpha"] = rng.choice([0.5, 0.25, 1.0])
    if op == "ema_timed":
        t, times = 0, []
        for _ in range(n):
            t += rng.choice([0, 1, 1, 2, 3]) * HALFLIFE_NS
            times.append(t)
        params["times"] = times
    if op == "var":
        params["ddof"] = rng.choice([0, 1])
    if op in SEL:
        params["n"] = rng.randint(-2, 3) if op == "nth" else rng.randint(0, 3)
    return dict(keycols=keycols, kinds=kinds, vals=vals, op=op, chunked=chunked, params=params, warm=rng.choice([None, None, None] + api.WARM_OPS))


def build(GroupBy, keycols, kinds, chunked):
    keys = [api.make_key(col, kind, "numpy" if kind != "cat" else "pandas") for col, kind in zip(keycols, kinds)]
    if chunked:
        with api.strategy(chunk_threshold=4):
            return GroupBy(keys[0])
    return GroupBy(keys if len(keys) > 1 else keys[0])


def call_op(gb, op, vals, params):
    v = api.make_values(vals, "f8")
    if op == "size":
        return gb.size()
    if op in ("count", "sum", "mean", "min", "max", "first", "last", "median"):
        return getattr(gb, op)(v)
    if op == "var":
        return gb.var(v, ddof=params["ddof"])
    if op.startswith("t_"):
        return getattr(gb, op[2:])(v, transform=True)
    if op in ("cumsum", "cummin", "cummax"):
        return getattr(gb, op)(v)
    if op == "cumcount":
        return gb.cumcount()
    if op.startswith("rolling"):
        return getattr(gb, op)(v, params["window"], min_periods=params["min_periods"])
    if op in ("shift", "diff"):
        return getattr(gb, op)(v, params["window"])
    if op == "ema":
        return gb.ema(v, alpha=params["alpha"])
    if op == "ema_timed":
        return gb.ema(v, halflife="1s", times=np.array(params["times"], dtype="int64").view("datetime64[ns]"))
    if op in SEL:
        ser = pd.Series(v)
        return getattr(gb, op)(ser, params["n"], keep_input_index=True)
    raise ValueError(op)


def run_case(GroupBy, c):
    n = len(c["vals"])
    op = c["op"]
    keep = [i for i in range(n) if all(col[i] is not None for col in c["keycols"])]
    nullrows = [i for i in range(n) if i not in keep]
    sig = dict(level="api", op=op, nkeys=len(c["keycols"]), chunked=c["chunked"])
    try:
        with api.strategy(chunk_threshold=4 if c["chunked"] else None):
            gb = build(GroupBy, c["keycols"], c["kinds"], c["chunked"])
            api.warm(gb, c.get("warm"), n)          # the grouping may have been used before
            full = call_op(gb, op, c["vals"], c["params"])
    except Exception as e:  # noqa: BLE001
        return [dict(sig={**sig, "what": "raised"}, what=f"{op} raised {e!r}"[:300], observed=repr(e)[:200], expected="a result")]
    fparams = dict(c["params"])
    if "times" in fparams:
        fparams["times"] = [fparams["times"][i] for i in keep]
    approx = op in ("ema", "ema_timed", "var", "rolling_mean", "mean", "t_mean")
    row_aligned = op in ROW or op in TRANS
    if not keep:
        if row_aligned:
            fv = api.canon_series(full)
            bad = [i for i in range(n) if fv[i] not in ((None, 0, -1) if op == "cumcount" else (None, 0))]
            if bad:
                return [dict(sig={**sig, "what": "marker"}, what=f"{op}: null-key rows {bad} carry data", observed=str(fv), expected="null/neutral marker")]
        elif len(full) != 0:
            return [dict(sig={**sig, "what": "labels"}, what=f"{op}: every key is null but a result row is reported", observed=str(full.index.tolist()), expected="nothing")]
        return []
    try:
        fgb = build(GroupBy, [[col[i] for i in keep] for col in c["keycols"]], c["kinds"], False)
        dele = call_op(fgb, op, [c["vals"][i] for i in keep], fparams)
    except Exception as e:  # noqa: BLE001
        return [dict(sig={**sig, "what": "deleted-raised"}, what=f"{op} on the data without null-key rows raised {e!r}"[:300], observed=repr(e)[:200], expected="a result")]
    if op in SEL:
        a = list(zip([int(x) for x in full.index.tolist()], api.canon_series(full)))
        b = list(zip([keep[int(x)] for x in dele.index.tolist()], api.canon_series(dele)))
        if a != b:
            return [dict(sig={**sig, "what": "selection"}, what=f"{op}: rows selected differ once the null-key rows are deleted", observed=str(a), expected=str(b))]
        return []
    if row_aligned:
        fv, dv = api.canon_series(full), api.canon_series(dele)
        if len(fv) != n or len(dv) != len(keep):
            return [dict(sig={**sig, "what": "length"}, what=f"{op}: output lengths {len(fv)}/{len(dv)}", observed=str(len(fv)), expected=str(n))]
        bad = [i for j, i in enumerate(keep) if not close(fv[i], dv[j], approx)]
        if bad:
            return [dict(sig={**sig, "what": "influence"}, what=f"{op}: rows {bad} change when the null-key rows are deleted",
                         observed=str([None if fv[i] is None else float(fv[i]) for i in keep]), expected=str([None if x is None else float(x) for x in dv]))]
        markers = {fv[i] for i in nullrows}
        allowed = (None, 0, -1) if op == "cumcount" else (None, 0)     # cumcount marks rows without a group with -1
        if len(markers) > 1 or any(m not in allowed for m in markers):
            return [dict(sig={**sig, "what": "marker"}, what=f"{op}: null-key rows do not carry one constant null/neutral marker",
                         observed=str([None if fv[i] is None else float(fv[i]) for i in nullrows]), expected="one of null / 0 at every null-key row")]
        return []
    fr = dict(zip(api.index_to_ranks(full.index, c["kinds"]), api.canon_series(full)))
    dr = dict(zip(api.index_to_ranks(dele.index, c["kinds"]), api.canon_series(dele)))
    if any(None in k for k in fr):
        return [dict(sig={**sig, "what": "null-label"}, what=f"{op}: a label containing a null is reported", observed=str(list(fr)), expected=str(list(dr)))]
    if list(fr) != list(dr):
        return [dict(sig={**sig, "what": "labels"}, what=f"{op}: labels differ once the null-key rows are deleted", observed=str(list(fr)), expected=str(list(dr)))]
    bad = [k for k in fr if not close(fr[k], dr[k], approx)]
    if bad:
        return [dict(sig={**sig, "what": "influence"}, what=f"{op}: results of labels {bad} change when the null-key rows are deleted",
                     observed=str({str(k): (None if fr[k] is None else float(fr[k])) for k in bad}), expected=str({str(k): (None if dr[k] is None else float(dr[k])) for k in bad}))]
    return []


def case_json(c):
    return dict(keys=c["keycols"], key_kinds=c["kinds"], values=[None if v is None else str(v) for v in c["vals"]], op=c["op"], chunked=c["chunked"], params=c["params"], warmed_with=c.get("warm"))


def run(res, tier="quick", seed=0, widen=False):
    from groupby_lib import GroupBy

    rng = random.Random(seed * 11 + 6 + (1 if widen else 0))
    n_cases = 3000 if tier == "quick" else 30000
    res.rule = ("seeded random logical datasets with at least one null key: 1-3 key columns (float NaN / str None / datetime NaT / categorical NaN), nulls in every key "
                "position, 2-13 rows; every reduction, transform=True, cumulative, rolling, shift/diff, EMA (plain and timed), head/tail/nth; plain and chunk-factorized "
                "keys; each case = call on the full data vs call on the data with the null-key rows deleted; non-trivial = some but not all rows have a null key; distinct = canonical case")
    cases = [gen_case(rng, tier) for _ in range(n_cases)]
    # corpus: the findings this check was built around
    cases.insert(0, dict(keycols=[[0, 0, 1, 1, 1], [1, None, 0, 1, None]], kinds=["float", "float"], vals=[Fraction(1)] * 5, op="size", chunked=False, params={}))
    cases.insert(0, dict(keycols=[[2, 0, None, 1, 0, 2, None, 1, 0, 0, 1, 2]], kinds=["float"], vals=[Fraction(i) for i in range(12)], op="t_sum", chunked=True, params={}))
    for ci, c in enumerate(cases):
        n = len(c["vals"])
        nn = sum(1 for i in range(n) if any(col[i] is None for col in c["keycols"]))
        cj = case_json(c)
        res.note_case(repr(cj), 0 < nn < n)
        res.count("op", c["op"]); res.count("nkeys", len(c["keycols"])); res.count("chunked", c["chunked"]); res.count("rows", n); res.count("null_rows", nn)
        res.count("key_kind", "+".join(c["kinds"]))
        if ci % 499 == 0:
            res.sample(cj)
        for v in run_case(GroupBy, c):
            v["case"] = cj
            res.violations.append(v)


def replay(payload):
    from groupby_lib import GroupBy
    c0 = payload["case"]
    c = dict(keycols=c0["keys"], kinds=c0["key_kinds"], vals=[None if v is None else Fraction(v) for v in c0["values"]], op=c0["op"], chunked=c0["chunked"], params=c0["params"])
    v = run_case(GroupBy, c)
    return (not v), ("replay: " + (v[0]["what"] if v else "no violation on this input"))
